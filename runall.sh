#!/bin/bash
# usage: runall.sh <tier> [IDs...]  — runs the given (default: all registered) checks and prints one summary line each
TIER=${1:-quick}; shift
IDS="$@"; [ -z "$IDS" ] && IDS=$(python3 -c "import json;print(' '.join(c['property_id'] for c in json.load(open('/verif/MANIFEST.json'))['checks']))")
for id in $IDS; do
  out=$("$(dirname "$(readlink -f "$0")")"/run.sh $id $TIER 2>&1); rc=$?
  echo "rc=$rc $(echo "$out" | grep -c '^VIOLATION') viol | $(echo "$out" | tail -1)"
done
