#!/usr/bin/env python3
"""usage: markfixed.py <finding-id> <commit> — flips an entry of known.d/*.json to status fixed."""
import json,sys,glob
fid,commit=sys.argv[1],sys.argv[2]
for f in sorted(glob.glob('/verif/findings/known.d/*.json'))+['/verif/findings/known.json']:
    l=json.load(open(f)); hit=False
    for e in l:
        if e['id']==fid:
            e['status']='fixed'; e['commit']=commit
            e['line']="fixed: property=%s %s %s"%(e['property'],commit,e['title'])
            hit=True
    if hit:
        json.dump(l,open(f,'w'),indent=1,ensure_ascii=False); open(f,'a').write('\n'); print("marked",fid,"in",f); break
else:
    print("NOT FOUND",fid); sys.exit(1)
