#!/bin/bash
# Builds the harness offline from files on disk (pre-warms the build cache).
set -e
export GOFLAGS=-mod=mod GOPROXY=off GOSUMDB=off GOTOOLCHAIN=local
export GOCACHE=/verif/.cache/go-build
mkdir -p /verif/.cache /verif/.bin /verif/evidence /verif/replays
cd /verif/mc
cp /repo/go.sum go.sum
go build -tags verif -o /verif/.bin/mc ./cmd/mc
# pre-warm the -race build used by the C20 race pass
go build -race -tags verif -o /verif/.bin/mc-c20race ./cmd/mc-c20race
echo "setup ok"
