#!/bin/bash
# usage: run.sh <ID> <quick|thorough> [extra mc args]
# Rebuilds the harness against /repo's current working tree (hooks on: -tags verif)
# and runs the check. Exit 0 = held, 1 = VIOLATION line(s) printed, 2 = harness error.
set -u
ID="$1"; TIER="${2:-quick}"; shift; shift || true
export GOFLAGS=-mod=mod GOPROXY=off GOSUMDB=off GOTOOLCHAIN=local
export GOCACHE=/verif/.cache/go-build
export VERIF_DIR=/verif
mkdir -p /verif/.cache /verif/.bin
cd /verif/mc || exit 2
cp /repo/go.sum go.sum 2>/dev/null
if ! go build -tags verif -o /verif/.bin/mc ./cmd/mc 2>/verif/.cache/build.log; then
  echo "HARNESS-ERROR: build failed"; cat /verif/.cache/build.log; exit 2
fi
exec /verif/.bin/mc check "$ID" --tier "$TIER" "$@"
