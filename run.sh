#!/bin/bash
# usage: run.sh <ID> <quick|thorough> [extra mc args]
# Rebuilds the harness against /repo's current working tree (hooks on: -tags verif)
# and runs the check. Exit 0 = held, 1 = VIOLATION line(s) printed, 2 = harness error.
# Development: MC_DEV=1 builds only ./cmd/mc-<id> (one check) so that a package another
# author is editing cannot break this build; MC_WORKERS=n caps the worker processes.
# The tree the script lives in is the verification root (so a snapshot of /verif made by
# `vp run` works on its own findings/evidence/replays and does not disturb /verif).
set -u
ID="$1"; TIER="${2:-quick}"; shift; shift || true
ROOT=$(dirname "$(readlink -f "$0")")
export GOFLAGS=-mod=mod GOPROXY=off GOSUMDB=off GOTOOLCHAIN=local
export GOCACHE=/verif/.cache/go-build
export VERIF_DIR="$ROOT" MC_SRC="$ROOT/mc"
mkdir -p /verif/.cache "$ROOT/.bin"
cd "$ROOT/mc" || exit 2
cmp -s /repo/go.sum go.sum || cp /repo/go.sum go.sum
PKG=./cmd/mc; BIN=$ROOT/.bin/mc
lid=$(echo "$ID" | tr 'A-Z' 'a-z')
if [ "${MC_DEV:-}" = 1 ] && [ -d "./cmd/mc-$lid" ]; then PKG=./cmd/mc-$lid; BIN=$ROOT/.bin/mc-$lid; fi
if ! go build -tags verif -o "$BIN.$$" "$PKG" 2>"$ROOT/.bin/build-$ID.log"; then
  echo "HARNESS-ERROR: build failed"; cat "$ROOT/.bin/build-$ID.log"; rm -f "$BIN.$$"; exit 2
fi
mv -f "$BIN.$$" "$BIN"
exec "$BIN" check "$ID" --tier "$TIER" "$@"
