package heap

import (
	"reflect"
	"strings"
	"testing"
)

type inner struct {
	n    int
	next *inner
}

type outer struct {
	name  string
	a, b  *inner
	m     map[string]*inner
	s     []*inner
	any   interface{}
	f     func() int
	bytes []byte
	emb   inner
}

func build() *outer {
	x := &inner{n: 1}
	y := &inner{n: 2, next: x}
	x.next = y // cycle
	k := 0
	o := &outer{name: "o", a: x, b: x, m: map[string]*inner{"y": y, "x": x}, s: []*inner{y, nil, x}, any: *x,
		f: func() int { k++; return k }, bytes: []byte{1, 2, 3}}
	return o
}

func TestWalkAndHash(t *testing.T) {
	o1, o2 := build(), build()
	if Hash(o1) != Hash(o2) {
		t.Fatal("isomorphic graphs hash differently")
	}
	h := Hash(o1)
	o2.a.n = 5 // scalar behind an unexported pointer
	if Hash(o2) == h {
		t.Fatal("scalar change not hashed")
	}
	o2 = build()
	o2.b = &inner{n: 1, next: o2.a.next} // same content, different sharing
	if Hash(o2) == h {
		t.Fatal("sharing change not hashed")
	}
	o2 = build()
	o2.bytes[1] = 9
	if Hash(o2) == h {
		t.Fatal("scalar slice content not hashed")
	}
	o2 = build()
	delete(o2.m, "x")
	if Hash(o2) == h {
		t.Fatal("map change not hashed")
	}
	var paths []string
	Walk(o1, func(p string, v reflect.Value) bool { paths = append(paths, p); return true })
	joined := strings.Join(paths, "\n")
	for _, want := range []string{`.*.m["x"]`, `.*.a.*.next.*.next`, `.*.any(heap.inner).n`, `.*.s[2]`} {
		if !strings.Contains(joined, want) {
			t.Errorf("path %s not visited\n%s", want, joined)
		}
	}
	// map order is sorted: "x" before "y"
	if strings.Index(joined, `.m["x"]`) > strings.Index(joined, `.m["y"]`) {
		t.Error("map keys not visited in sorted order")
	}
}

func TestPointersShared(t *testing.T) {
	o1, o2 := build(), build()
	p1, p2 := Pointers(o1), Pointers(o2)
	for _, s := range Shared(p1, p2) {
		if !s.B.Static {
			t.Errorf("independent graphs share %v", s.B)
		}
	}
	o2.s[1] = o1.a.next // leak one object of o1 into o2
	sh := Shared(p1, Pointers(o2))
	found := false
	for _, s := range sh {
		if s.B.Path == ".*.s[1]" && !s.Interior {
			found = true
		}
	}
	if !found {
		t.Errorf("leak not found: %v", sh)
	}
	// interior pointer: pointer to an embedded struct of o1
	o3 := build()
	o3.s[1] = &o1.emb
	found = false
	for _, s := range Shared(p1, Pointers(o3)) {
		if s.B.Path == ".*.s[1]" && s.Interior {
			found = true
		}
	}
	if !found {
		t.Error("interior pointer not found")
	}
	// shared capturing closure
	o4 := build()
	o4.f = o1.f
	found = false
	for _, s := range Shared(p1, Pointers(o4)) {
		if s.B.Kind == reflect.Func && !s.B.Static && strings.Contains(s.B.Func, "build.func1") {
			found = true
		}
	}
	if !found && ClosureIdentity() {
		t.Error("shared closure not found")
	}
	// two closures from the same literal are distinct identities; a static func is static
	if ClosureIdentity() {
		a, _, _ := Identity(reflect.ValueOf(o1.f))
		b, _, _ := Identity(reflect.ValueOf(o2.f))
		if a == b {
			t.Error("distinct closures have one identity")
		}
		c, _, _ := Identity(reflect.ValueOf(selfStatic))
		if ImageKnown() && !IsStatic(c) {
			t.Error("static funcval not recognised as static")
		}
		if ImageKnown() && IsStatic(a) {
			t.Error("heap closure recognised as static")
		}
	}
	// prune: nothing below .a is recorded
	pp := PointersPruned(o1, func(p string, v reflect.Value) bool {
		return v.Kind() == reflect.Ptr && v.Type().Elem().Name() == "inner"
	})
	for _, i := range pp {
		if strings.Contains(i.Path, ".next") {
			t.Errorf("pruned walk descended: %s", i.Path)
		}
	}
}
