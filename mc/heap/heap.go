// Package heap is the reflective heap-graph walker of the otto model-checking
// harness (engine E5 of /verif/DESIGN.md).
//
// It walks every Go value reachable from a root (typically an *otto.Otto, an
// *otto.Script or an *ast.Program) through exported and unexported struct fields,
// map keys and values, slice and array elements, interfaces and pointers. Only
// read-only reflection is used (Field, Elem, MapRange, Pointer, Int, String, ...
// are all permitted on unexported fields); package unsafe is used for exactly
// one thing: reading the closure pointer of a func value (see funcAddr).
//
// The API is deliberately small:
//
//	heap.Walk(root, visit)      pre-order walk, visit may prune
//	heap.Pointers(root)         identities reachable from root: address -> Info
//	heap.PointersPruned(root, prune)
//	heap.Shared(a, b)           intersection of two identity sets (exact and interior overlap)
//	heap.Hash(root)             structural hash, pointers replaced by first-visit numbers
//	heap.HashPruned(root, prune)
//	heap.IsStatic(addr)         address lies in the program image (package-level data, static funcval)
//
// Determinism: struct fields are visited in declaration order, slices/arrays in
// index order, map entries in sorted key order (see sortKeys). The walk never
// calls a method of a visited value and never writes to one.
//
// What counts as an identity (an entry of Pointers): the target address of every
// non-nil pointer, map, channel, unsafe.Pointer, the backing array of every slice
// with cap > 0, and the closure object of every func value. Go strings are
// immutable and carry no identity (their bytes are part of Hash, though). Values
// boxed in interfaces have no identity of their own: the language offers no way
// to mutate a boxed value in place, so two interfaces sharing one box are
// indistinguishable from two interfaces with equal boxes. Pointers to zero-sized
// objects (all equal to runtime.zerobase) are skipped.
//
// Function closures are opaque: the variables a closure captured cannot be
// enumerated by reflection. Info.Static tells whether the closure object is a
// static funcval in the program image (a plain top-level function or a literal
// that captures nothing: immutable, shareable) or a heap-allocated closure
// (captures state: two graphs sharing it share that state).
package heap

import (
	"crypto/sha256"
	"encoding/binary"
	"encoding/hex"
	"fmt"
	"hash"
	"math"
	"os"
	"reflect"
	"runtime"
	"sort"
	"strconv"
	"strings"
	"sync"
	"unsafe"
)

// Info describes one identity found by Pointers.
type Info struct {
	Addr uintptr      // target address (for funcs: address of the closure object)
	Size uintptr      // extent in bytes of the target (pointee size, cap*elemsize for slices; 0 = unknown: maps, chans, funcs)
	Kind reflect.Kind // Ptr, Map, Slice, Chan, Func or UnsafePointer
	Type reflect.Type // type of the referring value (e.g. *otto.object, []string, map[string]otto.property)
	Path string       // path of the first visit, e.g. .runtime.globalObject.property["x"].value
	// Func is the symbol name of the code of a func value (runtime.FuncForPC), "" otherwise.
	Func string
	// Static reports that Addr lies inside the program image (text, rodata, data,
	// bss): a package-level variable or a static funcval. Such things are shared by
	// every runtime of the process by construction.
	Static bool
}

func (i Info) String() string {
	s := fmt.Sprintf("%s %s @%#x", i.Path, i.Type, i.Addr)
	if i.Func != "" {
		s += " func=" + i.Func
	}
	if i.Static {
		s += " static"
	}
	return s
}

// Walk visits every value reachable from root in deterministic pre-order. visit
// is called once per value occurrence with the access path from the root;
// returning false prunes the walk below that value (its identity, if any, has
// then still been seen by visit). Values with identity (pointer targets, maps,
// slice backing arrays) are descended into only on their first visit, so cycles
// terminate; visit itself is called again for every further reference to them.
//
// root is usually a pointer; a non-pointer root is walked as a (non-addressable) copy.
func Walk(root interface{}, visit func(path string, v reflect.Value) bool) {
	w := &walker{visit: visit, seen: map[seenKey]struct{}{}}
	w.walk("", reflect.ValueOf(root))
}

type seenKey struct {
	addr uintptr
	n    int // slice: len; otherwise 0
	typ  reflect.Type
}

type walker struct {
	visit func(path string, v reflect.Value) bool
	seen  map[seenKey]struct{}
}

func (w *walker) first(v reflect.Value, addr uintptr, n int) bool {
	k := seenKey{addr, n, v.Type()}
	if _, ok := w.seen[k]; ok {
		return false
	}
	w.seen[k] = struct{}{}
	return true
}

func (w *walker) walk(path string, v reflect.Value) {
	if !v.IsValid() {
		return
	}
	if !w.visit(path, v) {
		return
	}
	switch v.Kind() {
	case reflect.Ptr:
		if v.IsNil() || !w.first(v, v.Pointer(), 0) {
			return
		}
		w.walk(path+".*", v.Elem())
	case reflect.Interface:
		if v.IsNil() {
			return
		}
		e := v.Elem()
		w.walk(path+"("+e.Type().String()+")", e)
	case reflect.Struct:
		t := v.Type()
		for i := 0; i < v.NumField(); i++ {
			w.walk(path+"."+t.Field(i).Name, v.Field(i))
		}
	case reflect.Slice:
		if v.IsNil() || v.Len() == 0 || !w.first(v, v.Pointer(), v.Len()) {
			return
		}
		if scalarKind(v.Type().Elem().Kind()) {
			return // contents are hashed by Hash; no identities inside
		}
		for i := 0; i < v.Len(); i++ {
			w.walk(path+"["+strconv.Itoa(i)+"]", v.Index(i))
		}
	case reflect.Array:
		if scalarKind(v.Type().Elem().Kind()) {
			return
		}
		for i := 0; i < v.Len(); i++ {
			w.walk(path+"["+strconv.Itoa(i)+"]", v.Index(i))
		}
	case reflect.Map:
		if v.IsNil() || !w.first(v, v.Pointer(), 0) {
			return
		}
		keys, vals := sortedEntries(v)
		for i, k := range keys {
			ks := keyString(k)
			if !scalarKind(k.Kind()) {
				w.walk(path+"<key "+ks+">", k)
			}
			w.walk(path+"["+ks+"]", vals[i])
		}
	}
}

func scalarKind(k reflect.Kind) bool {
	switch k {
	case reflect.Bool, reflect.Int, reflect.Int8, reflect.Int16, reflect.Int32, reflect.Int64,
		reflect.Uint, reflect.Uint8, reflect.Uint16, reflect.Uint32, reflect.Uint64, reflect.Uintptr,
		reflect.Float32, reflect.Float64, reflect.Complex64, reflect.Complex128, reflect.String:
		return true
	}
	return false
}

// sortedEntries returns the entries of a map in a deterministic order: keys of
// scalar kind are ordered by value; other keys (pointers, structs, interfaces)
// by the rendering of keyString, which for pointer keys is the allocation
// address — deterministic within one process state only. otto's own maps are all
// keyed by strings.
func sortedEntries(m reflect.Value) (keys, vals []reflect.Value) {
	n := m.Len()
	keys = make([]reflect.Value, 0, n)
	vals = make([]reflect.Value, 0, n)
	it := m.MapRange()
	for it.Next() {
		keys = append(keys, it.Key())
		vals = append(vals, it.Value())
	}
	idx := make([]int, len(keys))
	for i := range idx {
		idx[i] = i
	}
	less := keyLess(m.Type().Key().Kind())
	sort.SliceStable(idx, func(a, b int) bool { return less(keys[idx[a]], keys[idx[b]]) })
	k2 := make([]reflect.Value, len(keys))
	v2 := make([]reflect.Value, len(keys))
	for i, j := range idx {
		k2[i], v2[i] = keys[j], vals[j]
	}
	return k2, v2
}

func keyLess(k reflect.Kind) func(a, b reflect.Value) bool {
	switch k {
	case reflect.String:
		return func(a, b reflect.Value) bool { return a.String() < b.String() }
	case reflect.Int, reflect.Int8, reflect.Int16, reflect.Int32, reflect.Int64:
		return func(a, b reflect.Value) bool { return a.Int() < b.Int() }
	case reflect.Uint, reflect.Uint8, reflect.Uint16, reflect.Uint32, reflect.Uint64, reflect.Uintptr:
		return func(a, b reflect.Value) bool { return a.Uint() < b.Uint() }
	case reflect.Float32, reflect.Float64:
		return func(a, b reflect.Value) bool { return a.Float() < b.Float() }
	case reflect.Bool:
		return func(a, b reflect.Value) bool { return !a.Bool() && b.Bool() }
	}
	return func(a, b reflect.Value) bool { return keyString(a) < keyString(b) }
}

func keyString(k reflect.Value) string {
	switch k.Kind() {
	case reflect.String:
		return strconv.Quote(k.String())
	case reflect.Int, reflect.Int8, reflect.Int16, reflect.Int32, reflect.Int64:
		return strconv.FormatInt(k.Int(), 10)
	case reflect.Uint, reflect.Uint8, reflect.Uint16, reflect.Uint32, reflect.Uint64, reflect.Uintptr:
		return strconv.FormatUint(k.Uint(), 10)
	case reflect.Float32, reflect.Float64:
		return strconv.FormatFloat(k.Float(), 'g', -1, 64)
	case reflect.Bool:
		return strconv.FormatBool(k.Bool())
	case reflect.Ptr, reflect.Chan, reflect.UnsafePointer, reflect.Map:
		return fmt.Sprintf("%s@%#x", k.Type(), k.Pointer())
	case reflect.Interface:
		if k.IsNil() {
			return "nil"
		}
		return keyString(k.Elem())
	case reflect.Struct:
		var sb strings.Builder
		sb.WriteString(k.Type().String() + "{")
		for i := 0; i < k.NumField(); i++ {
			if i > 0 {
				sb.WriteByte(',')
			}
			sb.WriteString(keyString(k.Field(i)))
		}
		sb.WriteByte('}')
		return sb.String()
	case reflect.Array:
		var sb strings.Builder
		sb.WriteByte('[')
		for i := 0; i < k.Len(); i++ {
			if i > 0 {
				sb.WriteByte(',')
			}
			sb.WriteString(keyString(k.Index(i)))
		}
		sb.WriteByte(']')
		return sb.String()
	}
	return k.Type().String()
}

// Identity returns the identity (address, extent) a value refers to, ok=false for
// nil values, values without identity and zero-sized targets.
func Identity(v reflect.Value) (addr, size uintptr, ok bool) {
	switch v.Kind() {
	case reflect.Ptr:
		if v.IsNil() {
			return 0, 0, false
		}
		sz := v.Type().Elem().Size()
		if sz == 0 {
			return 0, 0, false
		}
		return v.Pointer(), sz, true
	case reflect.Map, reflect.Chan, reflect.UnsafePointer:
		if v.Pointer() == 0 {
			return 0, 0, false
		}
		return v.Pointer(), 0, true
	case reflect.Slice:
		sz := uintptr(v.Cap()) * v.Type().Elem().Size()
		if v.IsNil() || sz == 0 {
			return 0, 0, false
		}
		return v.Pointer(), sz, true
	case reflect.Func:
		if v.IsNil() {
			return 0, 0, false
		}
		return funcAddr(v), 0, true
	}
	return 0, 0, false
}

// Pointers returns every identity reachable from root, keyed by address, with
// the type and path of its first visit.
func Pointers(root interface{}) map[uintptr]Info { return PointersPruned(root, nil) }

// PointersPruned is Pointers with a prune predicate: when prune returns true for
// a value, the value's own identity is still recorded but nothing below it is
// walked (use it for things that are shared by design, e.g. compiled syntax
// trees or bridged Go values).
func PointersPruned(root interface{}, prune func(path string, v reflect.Value) bool) map[uintptr]Info {
	out := map[uintptr]Info{}
	Walk(root, func(path string, v reflect.Value) bool {
		if addr, size, ok := Identity(v); ok {
			if _, dup := out[addr]; !dup {
				inf := Info{Addr: addr, Size: size, Kind: v.Kind(), Type: v.Type(), Path: path, Static: IsStatic(addr)}
				if v.Kind() == reflect.Func {
					inf.Func = FuncName(v)
				}
				out[addr] = inf
			}
		}
		return prune == nil || !prune(path, v)
	})
	return out
}

// SharedPair is one element of the intersection of two identity sets.
type SharedPair struct {
	A, B Info
	// Interior is true when the two identities are not the same address but one
	// lies inside the extent of the other (e.g. a pointer to a struct field, or
	// two windows of one backing array).
	Interior bool
}

// Shared computes the intersection of two identity sets: every identity of b
// whose address equals, lies inside the extent of, or whose extent contains, an
// identity of a. The result is sorted by B.Path then A.Path.
func Shared(a, b map[uintptr]Info) []SharedPair {
	var out []SharedPair
	al := make([]Info, 0, len(a))
	for _, i := range a {
		al = append(al, i)
	}
	sort.Slice(al, func(i, j int) bool { return al[i].Addr < al[j].Addr })
	// maxEnd[i] = max end of al[0..i], to find enclosing extents
	for _, ib := range b {
		if ia, ok := a[ib.Addr]; ok {
			out = append(out, SharedPair{A: ia, B: ib})
			continue
		}
		// a-entry whose extent contains ib.Addr: scan backwards from the insertion point
		// (extents of distinct allocations do not nest, so a short scan suffices; bounded for safety).
		j := sort.Search(len(al), func(k int) bool { return al[k].Addr > ib.Addr })
		found := false
		for k, steps := j-1, 0; k >= 0 && steps < 8; k, steps = k-1, steps+1 {
			if al[k].Size > 0 && ib.Addr < al[k].Addr+al[k].Size {
				out = append(out, SharedPair{A: al[k], B: ib, Interior: true})
				found = true
				break
			}
		}
		if found || ib.Size == 0 {
			continue
		}
		// a-entry lying inside ib's extent
		if j < len(al) && al[j].Addr < ib.Addr+ib.Size {
			out = append(out, SharedPair{A: al[j], B: ib, Interior: true})
		}
	}
	sort.Slice(out, func(i, j int) bool {
		if out[i].B.Path != out[j].B.Path {
			return out[i].B.Path < out[j].B.Path
		}
		return out[i].A.Path < out[j].A.Path
	})
	return out
}

// Hash returns a structural hash of everything reachable from root: scalar
// contents, types, lengths, map keys; every pointer identity is replaced by the
// number of its first visit, so two isomorphic graphs at different addresses hash
// equally and any difference in shape, sharing or content changes the hash. Func
// values contribute their code symbol name (closure contents are opaque).
func Hash(root interface{}) string { return HashPruned(root, nil) }

// HashPruned is Hash with a prune predicate (see PointersPruned): a pruned value
// contributes its type and, if it has one, its first-visit number, but not its
// contents.
func HashPruned(root interface{}, prune func(path string, v reflect.Value) bool) string {
	h := &hasher{h: sha256.New(), num: map[uintptr]int{}}
	Walk(root, func(path string, v reflect.Value) bool {
		h.node(v)
		return prune == nil || !prune(path, v)
	})
	return hex.EncodeToString(h.h.Sum(nil))
}

type hasher struct {
	h   hash.Hash
	num map[uintptr]int
	buf [9]byte
	tn  map[reflect.Type]string
}

func (h *hasher) str(s string) {
	h.u64('s', uint64(len(s)))
	h.h.Write([]byte(s))
}

func (h *hasher) u64(tag byte, x uint64) {
	h.buf[0] = tag
	binary.LittleEndian.PutUint64(h.buf[1:], x)
	h.h.Write(h.buf[:])
}

func (h *hasher) typ(t reflect.Type) {
	if h.tn == nil {
		h.tn = map[reflect.Type]string{}
	}
	s, ok := h.tn[t]
	if !ok {
		s = t.String()
		h.tn[t] = s
	}
	h.str(s)
}

func (h *hasher) id(addr uintptr) {
	n, ok := h.num[addr]
	if !ok {
		n = len(h.num) + 1
		h.num[addr] = n
	}
	h.u64('#', uint64(n))
}

func (h *hasher) node(v reflect.Value) {
	switch v.Kind() {
	case reflect.Bool:
		if v.Bool() {
			h.u64('b', 1)
		} else {
			h.u64('b', 0)
		}
	case reflect.Int, reflect.Int8, reflect.Int16, reflect.Int32, reflect.Int64:
		h.u64('i', uint64(v.Int()))
	case reflect.Uint, reflect.Uint8, reflect.Uint16, reflect.Uint32, reflect.Uint64, reflect.Uintptr:
		h.u64('u', v.Uint())
	case reflect.Float32, reflect.Float64:
		h.u64('f', math.Float64bits(v.Float()))
	case reflect.Complex64, reflect.Complex128:
		c := v.Complex()
		h.u64('c', math.Float64bits(real(c)))
		h.u64('c', math.Float64bits(imag(c)))
	case reflect.String:
		h.str(v.String())
	case reflect.Struct:
		h.typ(v.Type())
	case reflect.Array:
		h.typ(v.Type())
		h.scalars(v)
	case reflect.Interface:
		if v.IsNil() {
			h.u64('n', 0)
		} else {
			h.u64('I', 0)
			h.typ(v.Elem().Type())
		}
	case reflect.Func:
		if v.IsNil() {
			h.u64('n', 1)
		} else {
			h.str(FuncName(v))
		}
	default: // Ptr, Map, Slice, Chan, UnsafePointer
		h.typ(v.Type())
		addr, _, ok := Identity(v)
		if !ok {
			nilOrEmpty := uint64(2)
			if v.Kind() == reflect.Slice && !v.IsNil() {
				nilOrEmpty = 3
			}
			h.u64('n', nilOrEmpty)
			return
		}
		h.id(addr)
		if v.Kind() == reflect.Slice || v.Kind() == reflect.Map {
			h.u64('l', uint64(v.Len()))
		}
		if v.Kind() == reflect.Slice {
			h.scalars(v)
		}
	}
}

// scalars hashes the elements of a slice/array of scalar kind (Walk does not
// descend into those).
func (h *hasher) scalars(v reflect.Value) {
	if !scalarKind(v.Type().Elem().Kind()) {
		return
	}
	for i := 0; i < v.Len(); i++ {
		h.node(v.Index(i))
	}
}

// ---------------------------------------------------------------------------
// func values

// rvalue mirrors the memory layout of reflect.Value (typ, ptr, flag), stable
// since Go 1.4. It is used only by funcAddr and validated by selfTest.
type rvalue struct {
	typ  unsafe.Pointer
	ptr  unsafe.Pointer
	flag uintptr
}

const flagIndir = 1 << 7

var (
	closureOnce sync.Once
	closureOK   bool
)

// ClosureIdentity reports whether func identities are closure-object addresses
// (true) or, if the layout self-test failed on this Go version, code addresses.
func ClosureIdentity() bool {
	closureOnce.Do(selfTest)
	return closureOK
}

// funcAddr returns the address of the closure object a func value points to (a
// func value is a pointer to a funcval{code, captured...}). reflect offers only
// the code pointer, so the pointer word is read from reflect.Value's own
// representation. Falls back to the code pointer when the self-test failed.
func funcAddr(v reflect.Value) uintptr {
	if !ClosureIdentity() {
		return v.Pointer()
	}
	return rawFuncAddr(v)
}

func rawFuncAddr(v reflect.Value) uintptr {
	rv := (*rvalue)(unsafe.Pointer(&v))
	if rv.flag&flagIndir != 0 {
		return uintptr(*(*unsafe.Pointer)(rv.ptr))
	}
	return uintptr(rv.ptr)
}

type selfT struct {
	f func() int
	g func() int
}

func selfTest() {
	defer func() {
		if recover() != nil {
			closureOK = false
		}
	}()
	n := 0
	clo := func() int { n++; return n }               // heap closure (captures n)
	wantP := *(*unsafe.Pointer)(unsafe.Pointer(&clo)) // the closure object
	want := uintptr(wantP)
	stat := selfStatic
	wantStatic := *(*uintptr)(unsafe.Pointer(&stat))
	var boxed interface{} = selfT{f: clo, g: selfStatic} // non-addressable, indirect
	bv := reflect.ValueOf(boxed)
	pv := reflect.ValueOf(&selfT{f: clo, g: selfStatic}).Elem() // addressable
	var direct interface{} = clo                                // func stored directly in an interface
	ok := rawFuncAddr(bv.Field(0)) == want && rawFuncAddr(pv.Field(0)) == want &&
		rawFuncAddr(reflect.ValueOf(direct)) == want &&
		rawFuncAddr(bv.Field(1)) == wantStatic && rawFuncAddr(pv.Field(1)) == wantStatic
	// the first word of a closure object is its code pointer
	ok = ok && *(*uintptr)(wantP) == bv.Field(0).Pointer()
	closureOK = ok
	_ = clo()
}

func selfStatic() int { return 1 }

var (
	fnMu    sync.Mutex
	fnNames = map[uintptr]string{}
)

// FuncName returns the symbol name of a func value's code ("" for nil).
func FuncName(v reflect.Value) string {
	if v.Kind() != reflect.Func || v.IsNil() {
		return ""
	}
	pc := v.Pointer()
	fnMu.Lock()
	defer fnMu.Unlock()
	if s, ok := fnNames[pc]; ok {
		return s
	}
	s := "?"
	if f := runtime.FuncForPC(pc); f != nil {
		s = f.Name()
	}
	fnNames[pc] = s
	return s
}

// ---------------------------------------------------------------------------
// program image

type addrRange struct{ lo, hi uintptr }

var (
	imageOnce sync.Once
	image     []addrRange
)

// IsStatic reports whether addr lies in the program image: the mappings of the
// executable in /proc/self/maps plus the anonymous mapping directly following
// them (bss). Package-level variables and static funcvals live there; everything
// allocated at run time does not. When /proc is unavailable it reports false for
// every address (the caller then sees package-level sentinels as shared heap
// identities and must allow-list them by other means).
func IsStatic(addr uintptr) bool {
	imageOnce.Do(loadImage)
	for _, r := range image {
		if addr >= r.lo && addr < r.hi {
			return true
		}
	}
	return false
}

// ImageKnown reports whether the program image ranges could be determined.
func ImageKnown() bool {
	imageOnce.Do(loadImage)
	return len(image) > 0
}

func loadImage() {
	exe, err := os.Readlink("/proc/self/exe")
	if err != nil {
		return
	}
	b, err := os.ReadFile("/proc/self/maps")
	if err != nil {
		return
	}
	var last uintptr
	for _, line := range strings.Split(string(b), "\n") {
		f := strings.Fields(line)
		if len(f) < 5 {
			continue
		}
		dash := strings.IndexByte(f[0], '-')
		if dash < 0 {
			continue
		}
		lo, e1 := strconv.ParseUint(f[0][:dash], 16, 64)
		hi, e2 := strconv.ParseUint(f[0][dash+1:], 16, 64)
		if e1 != nil || e2 != nil {
			continue
		}
		path := ""
		if len(f) >= 6 {
			path = strings.Join(f[5:], " ")
		}
		path = strings.TrimSuffix(path, " (deleted)")
		switch {
		case path == exe || path == strings.TrimSuffix(exe, " (deleted)"):
			image = append(image, addrRange{uintptr(lo), uintptr(hi)})
			last = uintptr(hi)
		case path == "" && last != 0 && uintptr(lo) == last:
			image = append(image, addrRange{uintptr(lo), uintptr(hi)}) // bss
			last = 0
		default:
			last = 0
		}
	}
}
