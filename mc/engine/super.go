package engine

import (
	"bufio"
	"bytes"
	"encoding/json"
	"flag"
	"fmt"
	"os"
	"os/exec"
	"path/filepath"
	"runtime"
	"runtime/debug"
	"sort"
	"strconv"
	"strings"
	"sync"
	"syscall"
	"time"
)

// Family is one completely enumerated space of cases with its oracle.
type Family struct {
	Name string
	// Run enumerates every case of the family (for the tier in r), executes
	// the cases this shard owns on the real implementation and reports
	// mismatches through r.
	Run func(r *Run)
	// Solo families are executed by shard 0 only (cheap or stateful families).
	Solo bool
	// ThoroughOnly families are skipped in the quick tier.
	ThoroughOnly bool
}

// Check is the registered machinery for one property.
type Check struct {
	ID       string
	Title    string
	Rule     string // how cases are enumerated and what counts as non-trivial
	Families []Family
	// Assumptions are copied to the evidence file.
	Assumptions []string
	// CrashIsViolation: a worker death or watchdog expiry inside a case is a
	// property violation attributed to that case.
	CrashIsViolation bool
	// QuickBudget / ThoroughBudget: internal deadline; on expiry the run stops
	// with exhaustive=false and exits 0.
	QuickBudget, ThoroughBudget time.Duration
	// Workers overrides the worker count (0 = number of CPUs).
	Workers int
	// Extra is run by the supervisor after the workers (e.g. a -race pass);
	// it returns violations and notes.
	Extra func(tier string) (viol []Mismatch, notes []string, err error)
}

var checks = map[string]*Check{}

// Register adds a check to the registry.
func Register(c *Check) { checks[c.ID] = c }

// Main is the entry point of the mc binary.
func Main() {
	if len(os.Args) < 2 {
		usage()
	}
	switch os.Args[1] {
	case "check":
		os.Exit(supervise(os.Args[2:]))
	case "worker":
		os.Exit(worker(os.Args[2:]))
	case "replay":
		os.Exit(replay(os.Args[2:]))
	case "list":
		ids := []string{}
		for id := range checks {
			ids = append(ids, id)
		}
		sort.Strings(ids)
		for _, id := range ids {
			fmt.Println(id, checks[id].Title)
		}
		os.Exit(0)
	default:
		usage()
	}
}

func usage() {
	fmt.Fprintln(os.Stderr, "usage: mc check <ID> [--tier quick|thorough] | mc replay <file> | mc list")
	os.Exit(2)
}

const (
	watchdogCPU  = 45 * time.Second
	watchdogWall = 15 * time.Minute
)

// processCPU returns the CPU time (user+system) consumed by this process.
func processCPU() time.Duration {
	var ru syscall.Rusage
	if err := syscall.Getrusage(syscall.RUSAGE_SELF, &ru); err != nil {
		return 0
	}
	return time.Duration(ru.Utime.Nano() + ru.Stime.Nano())
}

func worker(args []string) int {
	fs := flag.NewFlagSet("worker", flag.ExitOnError)
	tier := fs.String("tier", "quick", "")
	shard := fs.Int("shard", 0, "")
	of := fs.Int("of", 1, "")
	out := fs.String("out", "", "")
	seed := fs.Int64("seed", 0, "")
	budget := fs.Duration("budget", 0, "")
	replayKey := fs.String("key", "", "")
	only := fs.String("family", "", "")
	if len(args) < 1 {
		usage()
	}
	id := args[0]
	fs.Parse(args[1:])
	c := checks[id]
	if c == nil {
		fmt.Fprintln(os.Stderr, "unknown check", id)
		return 2
	}
	if err := LoadKnown(); err != nil {
		fmt.Fprintln(os.Stderr, err)
		return 2
	}
	debug.SetMaxStack(256 << 20)
	r := newRun(id, *tier, *shard, *of, *seed)
	r.ReplayKey = *replayKey
	if *budget > 0 {
		r.deadline = time.Now().Add(*budget)
	}
	if os.Getenv("MC_ANNOUNCE_FD") == "3" {
		if f := os.NewFile(3, "announce"); f != nil {
			if _, err := f.Stat(); err == nil {
				r.announce = f
			}
		}
	}
	// watchdog: a case is a hang when this process has burnt more than watchdogCPU of CPU
	// time inside it (a machine-wide stall does not advance CPU time, so it cannot raise a
	// false alarm), or when it has been blocked for watchdogWall of wall time (deadlock).
	go func() {
		var lastStart int64
		var cpuAtStart time.Duration
		for {
			time.Sleep(500 * time.Millisecond)
			st := r.curStart.Load()
			if st == 0 {
				lastStart = 0
				continue
			}
			now := processCPU()
			if st != lastStart {
				lastStart, cpuAtStart = st, now
				continue
			}
			if now-cpuAtStart > watchdogCPU || time.Since(time.Unix(0, st)) > watchdogWall {
				key, _ := r.curKey.Load().(string)
				fmt.Fprintf(os.Stderr, "WATCHDOG family=%s key=%s\n", r.family, key)
				os.Exit(3)
			}
		}
	}()
	start := time.Now()
	for _, fam := range c.Families {
		if *only != "" && fam.Name != *only {
			continue
		}
		if fam.ThoroughOnly && *tier != "thorough" {
			continue
		}
		if fam.Solo && *shard != 0 && *replayKey == "" {
			continue
		}
		r.family = fam.Name
		r.counter = 0
		if fam.Solo {
			save := r.NShards
			r.NShards = 1
			fam.Run(r)
			r.NShards = save
		} else {
			fam.Run(r)
		}
		r.fs()
	}
	r.finish(start)
	if *out != "" {
		if err := r.writeResult(*out); err != nil {
			fmt.Fprintln(os.Stderr, err)
			return 2
		}
	} else {
		b, _ := json.MarshalIndent(r.res, "", " ")
		fmt.Println(string(b))
	}
	return 0
}

type crashInfo struct {
	shard  int
	family string
	key    string
	kind   string // crash | hang
	log    string
}

func supervise(args []string) int {
	fs := flag.NewFlagSet("check", flag.ExitOnError)
	tier := fs.String("tier", "quick", "")
	nw := fs.Int("workers", 0, "")
	only := fs.String("family", "", "")
	if len(args) < 1 {
		usage()
	}
	id := args[0]
	fs.Parse(args[1:])
	if t := os.Getenv("VERIF_TIER"); t == "quick" || t == "thorough" {
		if !flagSet(fs, "tier") {
			*tier = t
		}
	}
	seed := int64(0)
	if s := os.Getenv("VERIF_SEED"); s != "" {
		seed, _ = strconv.ParseInt(s, 10, 64)
	}
	c := checks[id]
	if c == nil {
		fmt.Fprintln(os.Stderr, "unknown check", id)
		return 2
	}
	if err := LoadKnown(); err != nil {
		fmt.Println("HARNESS-ERROR:", err)
		return 2
	}
	if err := validateKnown(id); err != nil {
		fmt.Println("HARNESS-ERROR:", err)
		return 2
	}
	n := *nw
	if n == 0 {
		n = c.Workers
	}
	if n == 0 {
		n = runtime.NumCPU()
	}
	if w := os.Getenv("MC_WORKERS"); w != "" {
		if v, err := strconv.Atoi(w); err == nil && v > 0 {
			n = v
		}
	}
	budget := c.QuickBudget
	if *tier == "thorough" {
		budget = c.ThoroughBudget
	}
	start := time.Now()
	work := filepath.Join(VerifDir(), ".work", id)
	os.RemoveAll(work)
	os.MkdirAll(work, 0o755)
	self, _ := os.Executable()

	results := make([]*WorkerResult, n)
	var crashes []crashInfo
	var mu sync.Mutex
	var wg sync.WaitGroup
	// VERIF_SEED only permutes the order in which shards are started.
	order := make([]int, n)
	for i := range order {
		order[i] = (i + int(seed%int64(n)) + n) % n
	}
	for _, i := range order {
		wg.Add(1)
		go func(i int) {
			defer wg.Done()
			res, cr := runWorker(self, id, *tier, i, n, seed, budget, work, *only)
			mu.Lock()
			results[i] = res
			if cr != nil {
				crashes = append(crashes, *cr)
			}
			mu.Unlock()
		}(i)
	}
	wg.Wait()

	var extraViol []Mismatch
	var extraNotes []string
	if c.Extra != nil && *only == "" {
		v, notes, err := c.Extra(*tier)
		if err != nil {
			fmt.Fprintln(os.Stderr, "HARNESS-ERROR:", err)
			return 2
		}
		extraViol, extraNotes = v, notes
	}
	if *only != "" {
		os.Setenv("MC_FAMILY", *only) // partial run: conclude skips the stale-finding note
	}
	return conclude(c, *tier, seed, results, crashes, extraViol, extraNotes, start, n)
}

func flagSet(fs *flag.FlagSet, name string) bool {
	found := false
	fs.Visit(func(f *flag.Flag) {
		if f.Name == name {
			found = true
		}
	})
	return found
}

func runWorker(self, id, tier string, shard, of int, seed int64, budget time.Duration, work, only string) (*WorkerResult, *crashInfo) {
	out := filepath.Join(work, fmt.Sprintf("shard-%d.json", shard))
	args := []string{"worker", id, "--tier", tier, "--shard", strconv.Itoa(shard), "--of", strconv.Itoa(of),
		"--out", out, "--seed", strconv.FormatInt(seed, 10)}
	if budget > 0 {
		args = append(args, "--budget", budget.String())
	}
	if only != "" {
		args = append(args, "--family", only)
	}
	cmd := exec.Command(self, args...)
	cmd.Env = append(os.Environ(), "TZ=UTC", "GOMAXPROCS=2", "GOTRACEBACK=single", "MC_ANNOUNCE_FD=3")
	pr, pw, _ := os.Pipe()
	cmd.ExtraFiles = []*os.File{pw}
	var stderr bytes.Buffer
	cmd.Stderr = &limitedWriter{w: &stderr, n: 1 << 20}
	cmd.Stdout = os.Stderr
	var last string
	done := make(chan struct{})
	go func() {
		sc := bufio.NewScanner(pr)
		sc.Buffer(make([]byte, 1<<20), 1<<20)
		for sc.Scan() {
			last = sc.Text()
		}
		close(done)
	}()
	err := cmd.Start()
	pw.Close()
	if err == nil {
		err = cmd.Wait()
	}
	<-done
	pr.Close()
	if err != nil {
		kind := "crash"
		if ee, ok := err.(*exec.ExitError); ok && ee.ExitCode() == 3 {
			kind = "hang"
		}
		log := stderr.String()
		fam, key := "", last
		if i := strings.Index(log, "WATCHDOG family="); i >= 0 {
			line := log[i:]
			if j := strings.IndexByte(line, '\n'); j >= 0 {
				line = line[:j]
			}
			fmt.Sscanf(line, "WATCHDOG family=%s", &fam)
			if k := strings.Index(line, " key="); k >= 0 {
				key = line[k+5:]
			}
		}
		if len(log) > 6000 {
			log = log[:3000] + "\n...\n" + log[len(log)-3000:]
		}
		return nil, &crashInfo{shard: shard, family: fam, key: key, kind: kind, log: log}
	}
	b, err := os.ReadFile(out)
	if err != nil {
		return nil, &crashInfo{shard: shard, kind: "crash", log: "no result file: " + err.Error() + "\n" + stderr.String()}
	}
	var res WorkerResult
	if err := json.Unmarshal(b, &res); err != nil {
		return nil, &crashInfo{shard: shard, kind: "crash", log: "bad result file: " + err.Error()}
	}
	return &res, nil
}

type limitedWriter struct {
	w *bytes.Buffer
	n int
}

func (l *limitedWriter) Write(p []byte) (int, error) {
	if l.w.Len() < l.n {
		l.w.Write(p)
	}
	return len(p), nil
}

func replay(args []string) int {
	if len(args) < 1 {
		usage()
	}
	b, err := os.ReadFile(args[0])
	if err != nil {
		fmt.Fprintln(os.Stderr, err)
		return 2
	}
	var m Mismatch
	if err := json.Unmarshal(b, &m); err != nil {
		fmt.Fprintln(os.Stderr, err)
		return 2
	}
	c := checks[m.Property]
	if c == nil {
		fmt.Fprintln(os.Stderr, "unknown check", m.Property)
		return 2
	}
	if err := LoadKnown(); err != nil {
		fmt.Fprintln(os.Stderr, err)
		return 2
	}
	r := newRun(m.Property, "thorough", 0, 1, 0)
	r.ReplayKey = m.Key
	for _, fam := range c.Families {
		if fam.Name != m.Family {
			continue
		}
		r.family = fam.Name
		fam.Run(r)
	}
	if r.res.NViolation > 0 {
		for _, v := range r.res.Violations {
			fmt.Printf("REPRODUCED property=%s family=%s key=%s\n  input:    %v\n  expected: %s\n  observed: %s\n",
				v.Property, v.Family, v.Key, v.Input, v.Expected, v.Observed)
		}
		return 1
	}
	ev := int64(0)
	for _, f := range r.res.Families {
		ev += f.Evaluations
	}
	fmt.Printf("not reproduced (cases executed for key: %d)\n", ev)
	return 0
}
