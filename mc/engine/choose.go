package engine

import (
	"strconv"
	"strings"
)

// Chooser is the decision source of the E1 choice-tree explorer. A generator is
// an ordinary function that asks the Chooser for decisions; the explorer replays
// a prefix of answers and takes answer 0 afterwards, then branches on every
// later point whose accumulated deviation cost stays within the bound.
type Chooser struct {
	prefix []int
	pos    int
	points []point
}

type point struct {
	n       int
	choice  int
	deviate bool
}

// Pick is a free alphabet point: all n alternatives are explored at cost 0.
func (c *Chooser) Pick(n int) int { return c.next(n, false) }

// Deviate is a deviation point: answer 0 is the default and costs nothing; any
// other answer costs one deviation.
func (c *Chooser) Deviate(n int) int { return c.next(n, true) }

// Bool is Pick(2) == 1.
func (c *Chooser) Bool() bool { return c.next(2, false) == 1 }

func (c *Chooser) next(n int, dev bool) int {
	if n <= 0 {
		panic("chooser: empty alternative set")
	}
	ch := 0
	if c.pos < len(c.prefix) {
		ch = c.prefix[c.pos]
		if ch >= n {
			panic("chooser: replay diverged (choice out of range)")
		}
	}
	c.pos++
	c.points = append(c.points, point{n: n, choice: ch, deviate: dev})
	return ch
}

// Key renders the choice vector (the replay key of the case).
func (c *Chooser) Key() string {
	var sb strings.Builder
	for i, p := range c.points {
		if i > 0 {
			sb.WriteByte('.')
		}
		sb.WriteString(strconv.FormatInt(int64(p.choice), 36))
	}
	return sb.String()
}

// ParseKey converts a rendered choice vector back.
func ParseKey(s string) []int {
	if s == "" {
		return nil
	}
	parts := strings.Split(s, ".")
	out := make([]int, len(parts))
	for i, p := range parts {
		v, _ := strconv.ParseInt(p, 36, 64)
		out[i] = int(v)
	}
	return out
}

// Explore enumerates every execution of body whose deviation count is at most
// bound, calling body once per leaf. Leaves are sharded through r.Mine(): a
// leaf not owned by this shard is generated (the generator is cheap) but the
// body is told so through the returned value of c.Skip().
// body returns nothing; it must call r.Eval itself for executed leaves.
func Explore(r *Run, bound int, body func(c *Chooser)) {
	if r.ReplayKey != "" {
		c := &Chooser{prefix: ParseKey(r.ReplayKey)}
		body(c)
		return
	}
	var rec func(prefix []int, cost int)
	rec = func(prefix []int, cost int) {
		c := &Chooser{prefix: prefix}
		body(c)
		pts := c.points
		if r.Shard == 0 || r.NShards <= 1 {
			r.Tree(int64(len(pts)-len(prefix))+btoi(len(prefix) == 0), int64(len(pts)-len(prefix)))
		}
		// accumulate cost along the default continuation
		cst := cost
		for i := len(prefix); i < len(pts); i++ {
			p := pts[i]
			for alt := 1; alt < p.n; alt++ {
				nc := cst
				if p.deviate {
					nc++
				}
				if nc > bound {
					break
				}
				np := make([]int, i+1)
				for j := 0; j < i; j++ {
					np[j] = pts[j].choice
				}
				np[i] = alt
				rec(np, nc)
			}
			// the default answer 0 never costs anything
		}
	}
	rec(nil, 0)
}

func btoi(b bool) int64 {
	if b {
		return 1
	}
	return 0
}

// Product enumerates the full product of the given sizes, calling f with the
// index vector of each leaf this shard owns. It accounts the product tree's
// nodes and edges (every shard accounts only its own leaves' share: inner nodes
// are attributed to shard 0).
func Product(r *Run, sizes []int, f func(idx []int)) {
	idx := make([]int, len(sizes))
	total := int64(1)
	inner := int64(1)
	for _, s := range sizes {
		total *= int64(s)
		inner += total
	}
	if total == 0 {
		return
	}
	if r.Shard == 0 || r.NShards <= 1 {
		r.Tree(inner-total, inner-total-1)
	}
	for {
		if r.Mine() {
			f(idx)
			r.Tree(1, 1)
		}
		i := len(sizes) - 1
		for i >= 0 {
			idx[i]++
			if idx[i] < sizes[i] {
				break
			}
			idx[i] = 0
			i--
		}
		if i < 0 {
			return
		}
	}
}
