package engine

import (
	"encoding/json"
	"fmt"
	"os"
	"path/filepath"
	"sort"
	"strings"
)

// Finding is one entry of /verif/findings/known.json (committed; read-only at
// run time). Status "open" entries suppress exactly the mismatches their
// signature predicate accepts; "fixed" entries match nothing.
type Finding struct {
	ID        string   `json:"id"`
	Property  string   `json:"property"`
	Status    string   `json:"status"` // open | fixed
	Title     string   `json:"title"`
	What      string   `json:"what"`
	Commit    string   `json:"commit,omitempty"`
	Families  []string `json:"families"`  // families the entry applies to
	Signature string   `json:"signature"` // name of a registered predicate
	Keys      []string `json:"keys,omitempty"`
	Line      string   `json:"line,omitempty"` // "fixed: property=.. <commit> <what>" for fixed entries
}

// Signature is a predicate that accepts exactly the mismatches of one failure
// mode (input class + exact relation between expected and observed).
type Signature func(m *Mismatch) bool

var signatures = map[string]Signature{}
var known []Finding
var knownLoaded bool

// RegisterSignature makes a predicate available to known.json entries.
func RegisterSignature(name string, s Signature) {
	if _, dup := signatures[name]; dup {
		panic("duplicate signature " + name)
	}
	signatures[name] = s
}

// VerifDir is the root of the verification tree.
func VerifDir() string {
	if d := os.Getenv("VERIF_DIR"); d != "" {
		return d
	}
	return "/verif"
}

// LoadKnown reads the committed known-findings file.
func LoadKnown() error {
	if knownLoaded {
		return nil
	}
	files := []string{filepath.Join(VerifDir(), "findings", "known.json")}
	more, _ := filepath.Glob(filepath.Join(VerifDir(), "findings", "known.d", "*.json"))
	sort.Strings(more)
	files = append(files, more...)
	for _, file := range files {
		b, err := os.ReadFile(file)
		if err != nil {
			if os.IsNotExist(err) {
				continue
			}
			return err
		}
		var l []Finding
		if err := json.Unmarshal(b, &l); err != nil {
			return fmt.Errorf("%s: %w", file, err)
		}
		known = append(known, l...)
	}
	knownLoaded = true
	return nil
}

// validateKnown checks that every open finding of a property names a registered signature.
func validateKnown(prop string) error {
	for _, f := range known {
		if f.Status != "open" || f.Property != prop {
			continue
		}
		if f.Signature == "" && len(f.Keys) == 0 {
			return fmt.Errorf("known findings: %s has neither signature nor keys", f.ID)
		}
		if f.Signature != "" {
			if _, ok := signatures[f.Signature]; !ok {
				return fmt.Errorf("known findings: %s names unknown signature %q", f.ID, f.Signature)
			}
		}
	}
	return nil
}

func matchKnown(m *Mismatch) string {
	for i := range known {
		f := &known[i]
		if f.Status != "open" || f.Property != m.Property {
			continue
		}
		ok := false
		for _, fam := range f.Families {
			if fam == m.Family || (strings.HasSuffix(fam, "*") && strings.HasPrefix(m.Family, strings.TrimSuffix(fam, "*"))) {
				ok = true
				break
			}
		}
		if !ok {
			continue
		}
		if len(f.Keys) > 0 {
			hit := false
			for _, k := range f.Keys {
				if k == m.Key {
					hit = true
					break
				}
			}
			if !hit {
				continue
			}
		}
		if f.Signature != "" {
			sig := signatures[f.Signature]
			if sig == nil || !sig(m) {
				continue
			}
		}
		return f.ID
	}
	return ""
}

// KnownFor returns the findings recorded for a property, sorted by id.
func KnownFor(prop string) []Finding {
	var out []Finding
	for _, f := range known {
		if f.Property == prop {
			out = append(out, f)
		}
	}
	sort.Slice(out, func(i, j int) bool { return out[i].ID < out[j].ID })
	return out
}
