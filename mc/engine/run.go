// Package engine is the common machinery of the otto model-checking harness:
// sharded exhaustive enumeration (worker side), coverage accounting, mismatch
// classification against the committed known-findings file, evidence writing and
// the supervisor that drives worker subprocesses.
package engine

import (
	"crypto/sha1"
	"encoding/hex"
	"encoding/json"
	"fmt"
	"os"
	"sort"
	"sync"
	"sync/atomic"
	"time"
)

// Mismatch is one disagreement between the implementation and the oracle.
type Mismatch struct {
	Property string      `json:"property"`
	Family   string      `json:"family"`
	Key      string      `json:"key"`
	Input    interface{} `json:"input"`
	Expected string      `json:"expected"`
	Observed string      `json:"observed"`
	Note     string      `json:"note,omitempty"`
	// Aux carries extra structured data a signature predicate may inspect.
	Aux map[string]string `json:"aux,omitempty"`
}

// FamilyStats is the coverage accounting of one family of cases.
type FamilyStats struct {
	Evaluations int64 `json:"evaluations"`
	Nontrivial  int64 `json:"nontrivial"`
	States      int64 `json:"states"`
	Transitions int64 `json:"transitions"`
	Traces      int64 `json:"traces"`
	Mismatches  int64 `json:"mismatches"`
	Known       int64 `json:"known"`
	Outcomes    int64 `json:"distinct_outcomes"`
	Skipped     int64 `json:"skipped,omitempty"`
}

// WorkerResult is what one worker writes for the supervisor.
type WorkerResult struct {
	Shard      int                     `json:"shard"`
	Families   map[string]*FamilyStats `json:"families"`
	Violations []Mismatch              `json:"violations"`
	NViolation int64                   `json:"n_violation"`
	Known      map[string]int64        `json:"known"`
	KnownEx    map[string]Mismatch     `json:"known_examples"`
	Samples    map[string][]string     `json:"samples"`
	Caps       []string                `json:"caps"`
	Bounds     map[string]string       `json:"bounds"`
	Notes      []string                `json:"notes"`
	OutcomeSet map[string][]string     `json:"outcome_set,omitempty"`
	HarnessErr []string                `json:"harness_errors"`
	WallS      float64                 `json:"wall_s"`
}

// Run is the context handed to a family's enumeration function.
type Run struct {
	Property string
	Tier     string
	Shard    int
	NShards  int
	Seed     int64
	// ReplayKey, when non-empty, restricts execution to the case with that key.
	ReplayKey string
	Verbose   bool

	family   string
	counter  int64
	res      *WorkerResult
	outcomes map[string]map[[8]byte]struct{}
	deadline time.Time
	mu       sync.Mutex

	curKey   atomic.Value // string
	curStart atomic.Int64
	announce *os.File
}

const maxViolationsKept = 40
const maxSamples = 6

func newRun(prop, tier string, shard, nshards int, seed int64) *Run {
	r := &Run{Property: prop, Tier: tier, Shard: shard, NShards: nshards, Seed: seed}
	r.res = &WorkerResult{
		Shard:    shard,
		Families: map[string]*FamilyStats{},
		Known:    map[string]int64{},
		KnownEx:  map[string]Mismatch{},
		Samples:  map[string][]string{},
		Bounds:   map[string]string{},
	}
	r.outcomes = map[string]map[[8]byte]struct{}{}
	r.curKey.Store("")
	return r
}

// Thorough reports whether the thorough tier was requested.
func (r *Run) Thorough() bool { return r.Tier == "thorough" }

// Family returns the name of the family being enumerated.
func (r *Run) Family() string { return r.family }

func (r *Run) fs() *FamilyStats {
	f := r.res.Families[r.family]
	if f == nil {
		f = &FamilyStats{}
		r.res.Families[r.family] = f
	}
	return f
}

// Mine advances the case counter and reports whether this shard owns the case.
// Every worker enumerates the same deterministic sequence, so the shards
// partition the space exactly.
func (r *Run) Mine() bool {
	c := r.counter
	r.counter++
	if r.NShards <= 1 {
		return true
	}
	return int(c%int64(r.NShards)) == r.Shard
}

// MineKey is Mine for replay mode: when a replay key is set only that key runs.
func (r *Run) MineKey(key string) bool {
	if r.ReplayKey != "" {
		return key == r.ReplayKey
	}
	return r.Mine()
}

// Eval records one executed case; nontrivial by the family's stated rule.
func (r *Run) Eval(nontrivial bool) {
	f := r.fs()
	f.Evaluations++
	f.Traces++
	if nontrivial {
		f.Nontrivial++
	}
}

// EvalN records n executed cases of which nt were non-trivial.
func (r *Run) EvalN(n, nt int64) {
	f := r.fs()
	f.Evaluations += n
	f.Traces += n
	f.Nontrivial += nt
}

// Tree adds explored choice-tree nodes (states) and edges (transitions).
func (r *Run) Tree(states, transitions int64) {
	f := r.fs()
	f.States += states
	f.Transitions += transitions
}

// Skip records a generated case that was discarded (e.g. model step budget).
func (r *Run) Skip() { r.fs().Skipped++ }

// Outcome records an observed outcome for the distinct-outcome count.
func (r *Run) Outcome(s string) {
	h := sha1.Sum([]byte(s))
	var k [8]byte
	copy(k[:], h[:8])
	m := r.outcomes[r.family]
	if m == nil {
		m = map[[8]byte]struct{}{}
		r.outcomes[r.family] = m
	}
	if len(m) < 200000 {
		m[k] = struct{}{}
	}
}

// Sample keeps a few rendered cases per family for the evidence file.
func (r *Run) Sample(s string) {
	l := r.res.Samples[r.family]
	if len(l) < maxSamples {
		r.res.Samples[r.family] = append(l, s)
	}
}

// WantSample reports whether the family still needs samples.
func (r *Run) WantSample() bool { return len(r.res.Samples[r.family]) < maxSamples }

// Bound records a bound completed for the evidence file.
func (r *Run) Bound(name, value string) { r.res.Bounds[r.family+"."+name] = value }

// Cap records that an iteration/time cap was hit (run is then not exhaustive).
func (r *Run) Cap(msg string) {
	s := r.family + ": " + msg
	for _, c := range r.res.Caps {
		if c == s {
			return
		}
	}
	r.res.Caps = append(r.res.Caps, s)
}

// Note records a free-text note for the evidence file.
func (r *Run) Note(msg string) {
	s := r.family + ": " + msg
	for _, c := range r.res.Notes {
		if c == s {
			return
		}
	}
	if len(r.res.Notes) < 50 {
		r.res.Notes = append(r.res.Notes, s)
	}
}

// HarnessError records an oracle self-check failure (never a VIOLATION).
func (r *Run) HarnessError(msg string) {
	if len(r.res.HarnessErr) < 20 {
		r.res.HarnessErr = append(r.res.HarnessErr, r.family+": "+msg)
	}
}

// Expired reports whether the internal time budget is used up.
func (r *Run) Expired() bool {
	if r.deadline.IsZero() {
		return false
	}
	return time.Now().After(r.deadline)
}

// Begin marks the start of a case for the watchdog and crash attribution.
func (r *Run) Begin(key string) {
	r.curKey.Store(key)
	r.curStart.Store(time.Now().UnixNano())
	if r.announce != nil {
		fmt.Fprintf(r.announce, "%s\n", key)
	}
}

// End marks the end of the current case.
func (r *Run) End() {
	r.curStart.Store(0)
}

// Mismatch classifies a disagreement: a committed known finding whose signature
// matches it is counted as such, anything else is a violation.
func (r *Run) Mismatch(m Mismatch) {
	m.Property = r.Property
	if m.Family == "" {
		m.Family = r.family
	}
	f := r.fs()
	f.Mismatches++
	if id := matchKnown(&m); id != "" {
		f.Known++
		r.res.Known[id]++
		if _, ok := r.res.KnownEx[id]; !ok {
			r.res.KnownEx[id] = m
		}
		return
	}
	r.res.NViolation++
	if len(r.res.Violations) < maxViolationsKept {
		r.res.Violations = append(r.res.Violations, m)
	}
}

// Check compares expected and observed and files a mismatch when they differ.
// It returns true when they agree.
func (r *Run) Check(key string, input interface{}, expected, observed string) bool {
	if expected == observed {
		return true
	}
	r.Mismatch(Mismatch{Key: key, Input: input, Expected: expected, Observed: observed})
	return false
}

func (r *Run) finish(start time.Time) {
	for fam, m := range r.outcomes {
		if f := r.res.Families[fam]; f != nil {
			f.Outcomes = int64(len(m))
		}
		if len(m) <= 5000 {
			if r.res.OutcomeSet == nil {
				r.res.OutcomeSet = map[string][]string{}
			}
			l := make([]string, 0, len(m))
			for k := range m {
				l = append(l, hex.EncodeToString(k[:]))
			}
			sort.Strings(l)
			r.res.OutcomeSet[fam] = l
		}
	}
	r.res.WallS = time.Since(start).Seconds()
}

func (r *Run) writeResult(path string) error {
	b, err := json.Marshal(r.res)
	if err != nil {
		return err
	}
	return os.WriteFile(path, b, 0o644)
}

// KeyHash returns a short stable hash for replay file names.
func KeyHash(s string) string {
	h := sha1.Sum([]byte(s))
	return hex.EncodeToString(h[:6])
}
