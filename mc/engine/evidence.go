package engine

import (
	"encoding/json"
	"fmt"
	"os"
	"path/filepath"
	"sort"
	"time"
)

func conclude(c *Check, tier string, seed int64, results []*WorkerResult, crashes []crashInfo,
	extraViol []Mismatch, extraNotes []string, start time.Time, nworkers int) int {

	fams := map[string]*FamilyStats{}
	outcomeSets := map[string]map[string]struct{}{}
	outcomeBig := map[string]int64{}
	known := map[string]int64{}
	knownEx := map[string]Mismatch{}
	samples := map[string][]string{}
	bounds := map[string]string{}
	var caps, notes, herrs []string
	var viol []Mismatch
	var nviol int64
	seen := map[string]bool{}
	addStr := func(l *[]string, s string) {
		if !seen[s] {
			seen[s] = true
			*l = append(*l, s)
		}
	}
	for _, r := range results {
		if r == nil {
			continue
		}
		for name, f := range r.Families {
			t := fams[name]
			if t == nil {
				t = &FamilyStats{}
				fams[name] = t
			}
			t.Evaluations += f.Evaluations
			t.Nontrivial += f.Nontrivial
			t.States += f.States
			t.Transitions += f.Transitions
			t.Traces += f.Traces
			t.Mismatches += f.Mismatches
			t.Known += f.Known
			t.Skipped += f.Skipped
			if set, ok := r.OutcomeSet[name]; ok {
				m := outcomeSets[name]
				if m == nil {
					m = map[string]struct{}{}
					outcomeSets[name] = m
				}
				for _, h := range set {
					m[h] = struct{}{}
				}
			} else if f.Outcomes > outcomeBig[name] {
				outcomeBig[name] = f.Outcomes // lower bound: the largest per-shard set
			}
		}
		for id, n := range r.Known {
			known[id] += n
			if _, ok := knownEx[id]; !ok {
				knownEx[id] = r.KnownEx[id]
			}
		}
		for name, l := range r.Samples {
			for _, s := range l {
				if len(samples[name]) < maxSamples {
					samples[name] = append(samples[name], s)
				}
			}
		}
		for k, v := range r.Bounds {
			bounds[k] = v
		}
		for _, s := range r.Caps {
			addStr(&caps, "cap: "+s)
		}
		for _, s := range r.Notes {
			addStr(&notes, s)
		}
		for _, s := range r.HarnessErr {
			addStr(&herrs, s)
		}
		nviol += r.NViolation
		viol = append(viol, r.Violations...)
	}
	for name, f := range fams {
		f.Outcomes = int64(len(outcomeSets[name]))
		if outcomeBig[name] > f.Outcomes {
			f.Outcomes = outcomeBig[name]
		}
	}
	viol = append(viol, extraViol...)
	nviol += int64(len(extraViol))
	notes = append(notes, extraNotes...)

	// worker deaths
	harnessFail := false
	for _, cr := range crashes {
		m := Mismatch{Property: c.ID, Family: cr.family, Key: cr.key,
			Input:    fmt.Sprintf("worker shard %d %s", cr.shard, cr.kind),
			Expected: "case returns", Observed: cr.kind, Note: cr.log}
		if cr.family == "" {
			m.Family = "worker"
		}
		if id := matchKnown(&m); id != "" {
			known[id]++
			if _, ok := knownEx[id]; !ok {
				knownEx[id] = m
			}
			continue
		}
		// A worker that dies or hangs while executing the code under test is
		// reported as a violation attributed to the announced case.
		viol = append(viol, m)
		nviol++
	}
	if len(herrs) > 0 {
		harnessFail = true
	}

	// print known findings
	ids := make([]string, 0, len(known))
	for id := range known {
		ids = append(ids, id)
	}
	sort.Strings(ids)
	var knownLines []string
	for _, id := range ids {
		title := id
		for _, f := range KnownFor(c.ID) {
			if f.ID == id {
				title = f.Title
			}
		}
		ex := knownEx[id]
		line := fmt.Sprintf("KNOWN-FINDING: property=%s %s: %s (matched %d cases; e.g. %s)", c.ID, id, title, known[id], oneLine(fmt.Sprint(ex.Input), 120))
		fmt.Println(line)
		knownLines = append(knownLines, fmt.Sprintf("%s x%d", id, known[id]))
	}

	// An open finding that matched nothing in a complete run is stale (e.g. repaired in the tree
	// but not marked fixed) and would absorb a later regression of the same shape: say so.
	if os.Getenv("MC_FAMILY") == "" {
		for _, f := range KnownFor(c.ID) {
			if f.Status == "open" && known[f.ID] == 0 {
				thoroughOnly := tier == "quick"
				msg := fmt.Sprintf("open known finding %s matched no case of this run", f.ID)
				if thoroughOnly {
					msg += " (quick tier; it may be reachable in the thorough tier only)"
				}
				fmt.Println("NOTE:", msg)
				notes = append(notes, msg)
			}
		}
	}

	// violations -> replay files
	rdir := filepath.Join(VerifDir(), "replays", c.ID)
	os.MkdirAll(rdir, 0o755)
	sort.SliceStable(viol, func(i, j int) bool {
		if viol[i].Family != viol[j].Family {
			return viol[i].Family < viol[j].Family
		}
		return len(viol[i].Key) < len(viol[j].Key)
	})
	printed := 0
	for _, m := range viol {
		p := filepath.Join(rdir, KeyHash(m.Family+"/"+m.Key)+".json")
		b, _ := json.MarshalIndent(m, "", " ")
		os.WriteFile(p, b, 0o644)
		if printed < 25 {
			fmt.Printf("VIOLATION property=%s replay=%s\n", c.ID, p)
			fmt.Printf("  family=%s key=%s\n  input:    %s\n  expected: %s\n  observed: %s\n", m.Family, m.Key,
				oneLine(fmt.Sprint(m.Input), 300), oneLine(m.Expected, 300), oneLine(m.Observed, 300))
			printed++
		}
	}
	if nviol > int64(printed) {
		fmt.Printf("(%d violations in total; %d shown)\n", nviol, printed)
	}
	for _, h := range herrs {
		fmt.Println("HARNESS-ERROR:", h)
	}

	// evidence
	var tot FamilyStats
	famNames := make([]string, 0, len(fams))
	for name := range fams {
		famNames = append(famNames, name)
	}
	sort.Strings(famNames)
	perFam := map[string]interface{}{}
	var allSamples []interface{}
	for _, name := range famNames {
		f := fams[name]
		if f.States == 0 && f.Evaluations > 0 {
			// family did not account its enumeration tree: every executed case is a leaf
			// under one root (flat product), so nodes = leaves + 1, edges = leaves.
			f.States, f.Transitions = f.Evaluations+1, f.Evaluations
		}
		tot.Evaluations += f.Evaluations
		tot.Nontrivial += f.Nontrivial
		tot.States += f.States
		tot.Transitions += f.Transitions
		tot.Traces += f.Traces
		tot.Outcomes += f.Outcomes
		tot.Skipped += f.Skipped
		perFam[name] = f
		for _, s := range samples[name] {
			allSamples = append(allSamples, map[string]string{"family": name, "case": s})
		}
	}
	if len(allSamples) == 0 {
		allSamples = append(allSamples, "no cases executed")
	}
	exhaustive := len(caps) == 0 && len(crashes) == 0
	cov := map[string]interface{}{
		"states":                        max64(tot.States, 1),
		"transitions":                   max64(tot.Transitions, 1),
		"traces_validated_against_impl": tot.Traces,
		"evaluations":                   max64(tot.Evaluations, 1),
		"distinct_nontrivial":           tot.Nontrivial,
		"distinct_outcomes":             tot.Outcomes,
		"rule":                          c.Rule,
		"samples":                       allSamples,
		"families":                      perFam,
		"bounds":                        bounds,
		"caps_hit":                      caps,
		"exhaustive":                    exhaustive,
		"known_findings_matched":        knownLines,
		"workers":                       nworkers,
		"notes":                         notes,
		"discarded_cases":               tot.Skipped,
	}
	ev := map[string]interface{}{
		"property_id": c.ID,
		"tier":        tier,
		"seed":        seed,
		"level":       "model_checking",
		"coverage":    cov,
		"assumptions": c.Assumptions,
		"wall_s":      time.Since(start).Seconds(),
		"violations":  nviol,
	}
	edir := filepath.Join(VerifDir(), "evidence")
	os.MkdirAll(edir, 0o755)
	b, _ := json.MarshalIndent(ev, "", " ")
	if err := os.WriteFile(filepath.Join(edir, c.ID+".json"), append(b, '\n'), 0o644); err != nil {
		fmt.Fprintln(os.Stderr, "HARNESS-ERROR:", err)
		return 2
	}
	fmt.Printf("%s %s: families=%d evaluations=%d nontrivial=%d states=%d transitions=%d outcomes=%d known=%d violations=%d exhaustive=%v wall=%.1fs\n",
		c.ID, tier, len(fams), tot.Evaluations, tot.Nontrivial, tot.States, tot.Transitions, tot.Outcomes, len(known), nviol, exhaustive, time.Since(start).Seconds())
	if nviol > 0 {
		return 1
	}
	if harnessFail {
		return 2
	}
	return 0
}

func max64(a, b int64) int64 {
	if a > b {
		return a
	}
	return b
}

func oneLine(s string, n int) string {
	out := make([]rune, 0, len(s))
	for _, r := range s {
		if r == '\n' {
			out = append(out, '\\', 'n')
		} else if r < 0x20 {
			out = append(out, []rune(fmt.Sprintf("\\x%02x", r))...)
		} else {
			out = append(out, r)
		}
		if len(out) > n {
			out = append(out, '…')
			break
		}
	}
	return string(out)
}
