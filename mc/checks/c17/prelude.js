// C17 observation prelude. Installed on every runtime BEFORE the setup history H
// runs, so that the pristine built-ins it needs are captured in a closure and
// later patches of built-ins (an ingredient of H, or a mutation M) cannot blind it.
// __probe(name, fn) registers a read-only probe closure; __dump() renders every
// user-visible object reachable from the global object (and from probe results).
(function (global) {
  var gopd = Object.getOwnPropertyDescriptor, gopn = Object.getOwnPropertyNames,
      gpo = Object.getPrototypeOf, isExt = Object.isExtensible,
      ots = Object.prototype.toString, fts = Function.prototype.toString,
      dgt = Date.prototype.getTime, svo = String.prototype.valueOf,
      nvo = Number.prototype.valueOf, bvo = Boolean.prototype.valueOf,
      jstr = JSON.stringify, S = String, ajoin = Array.prototype.join,
      ipo = Object.prototype.isPrototypeOf, OP = Object.prototype, FP = Function.prototype, AP = Array.prototype;
  var probes = [];
  global.__probe = function (name, fn) { probes[probes.length] = [name, fn]; };
  global.__dump = function () {
    var objs = [], buckets = {}, out = [], head = 0;
    function id(o) {
      var key = typeof o === "function" ? "f" + o.length + o.name : ots.call(o);
      var b = buckets[key], i;
      if (b === undefined) { b = buckets[key] = []; }
      for (i = 0; i < b.length; i++) { if (objs[b[i]] === o) { return "#" + b[i]; } }
      i = objs.length; objs[i] = o; b[b.length] = i;
      return "#" + i;
    }
    function val(v) {
      switch (typeof v) {
      case "undefined": return "u";
      case "boolean": return v ? "b:1" : "b:0";
      case "number": return v === 0 && 1 / v < 0 ? "d:-0" : "d:" + v;
      case "string": return "s:" + jstr(v);
      }
      if (v === null) { return "n"; }
      return id(v);
    }
    function drain() {
      while (head < objs.length) {
        var o = objs[head], me = "#" + head, cls = ots.call(o), line, names, i, n, d, v, t;
        head++;
        line = me + " " + cls + (isExt(o) ? " ext" : " noext") + " proto=" + val(gpo(o));
        if (typeof o === "function") { line += " src=" + jstr(fts.call(o)); }
        else if (cls === "[object Date]") { line += " t=" + val(dgt.call(o)); }
        else if (cls === "[object String]") { line += " pv=" + val(svo.call(o)); }
        else if (cls === "[object Number]") { line += " pv=" + val(nvo.call(o)); }
        else if (cls === "[object Boolean]") { line += " pv=" + val(bvo.call(o)); }
        out[out.length] = line;
        names = gopn(o);
        for (i = 0; i < names.length; i++) {
          n = names[i];
          // The per-function `caller` accessor and the per-Error `stack` accessor are not described:
          // at the pinned commit getOwnPropertyDescriptor on them escaped Run as a Go panic (since
          // repaired), and describing them would add two getter objects per function to every dump.
          // Both getters are observed through probes instead (ingredients caller, error).
          if ((n === "caller" && typeof o === "function") || (n === "stack" && cls === "[object Error]")) {
            out[out.length] = me + "." + n + " (not described)"; continue;
          }
          d = gopd(o, n);
          if (d === undefined) { out[out.length] = me + "." + n + " MISSING"; continue; }
          if ("value" in d) {
            v = d.value; t = typeof v;
            // the common cases are rendered inline: a call costs more than the rest of the line
            if (t === "function" || (t === "object" && v !== null)) { v = id(v); }
            else if (t === "string") { v = "s:" + jstr(v); }
            else { v = val(v); }
            out[out.length] = me + "." + n + (d.writable ? " W" : " -") + (d.enumerable ? "E" : "-") + (d.configurable ? "C " : "- ") + v;
          } else {
            out[out.length] = me + "." + n + " A" + (d.enumerable ? "E" : "-") + (d.configurable ? "C" : "-") + " get=" + typeof d.get + ":" + val(d.get) + " set=" + typeof d.set + ":" + val(d.set);
          }
        }
      }
    }
    id(global);
    drain();
    for (var p = 0; p < probes.length; p++) {
      var r;
      try { r = "=> " + val(probes[p][1]()); } catch (e) { r = "!> " + val(e); }
      out[out.length] = "probe " + probes[p][0] + " " + r;
    }
    drain();
    // generic inheritance probe: which of THIS runtime's intrinsic prototypes (captured before
    // H ran) every object-valued global inherits from; a global whose prototype chain ends in
    // another runtime's intrinsics shows "---"
    var gn = gopn(global), gi, gd, gv;
    for (gi = 0; gi < gn.length; gi++) {
      gd = gopd(global, gn[gi]);
      if (gd === undefined || !("value" in gd)) { continue; }
      gv = gd.value;
      if (gv === null || (typeof gv !== "object" && typeof gv !== "function")) { continue; }
      out[out.length] = "inherits " + gn[gi] + " " + (ipo.call(OP, gv) ? "O" : "-") + (ipo.call(FP, gv) ? "F" : "-") + (ipo.call(AP, gv) ? "A" : "-");
    }
    return ajoin.call(out, "\n");
  };
})(this);
