// Package c17 checks property C17: Copy() yields an equivalent and fully
// independent runtime.
//
// Space: setup histories H = every subset of at most 2 (quick) / 3 (thorough) of
// the heap ingredients in alphabet.go, run in canonical order on a fresh runtime
// after the observation prelude (prelude.js). For every H: O = run(H),
// C = O.Copy(), C2 = C.Copy(), R = replay(H) on another fresh runtime.
//
//	equiv    per H: Copy returns (no Go panic); dump(O) = dump(C) = dump(C2) = dump(R)
//	heap     per H: E5 — the Go heap graphs of (O,C), (C,C2), (O,C2) intersect only in
//	         allow-listed immutable things (package heap does the walking)
//	isolate  per H, per applicable mutation M, per direction d in {O, C, C2}: run M on
//	         side d and on a fresh replay R; the result of M and the dump of side d
//	         equal those of R after M; the dumps of the two other sides are unchanged
//
// The oracle is differential: the replayed runtime R never went through Copy, so
// it is the reference for what every observation must yield; dump() is one
// generic observation program (prelude.js) that renders every user-visible
// object reachable from the global object plus the results of the probe closures
// the ingredients register.
package c17

import (
	_ "embed"
	"fmt"
	"os"
	"reflect"
	"regexp"
	"runtime/debug"
	"sort"
	"strings"
	"sync"
	"time"

	"github.com/robertkrimen/otto"

	"verif/mc/engine"
	"verif/mc/heap"
	"verif/mc/ox"
)

//go:embed prelude.js
var preludeSrc string

func init() {
	engine.Register(&engine.Check{
		ID:    "C17",
		Title: "Copy() yields an equivalent and fully independent runtime",
		Rule: fmt.Sprintf("histories H = all subsets of <= 2 (quick) / <= 3 (thorough) of %d heap ingredients (the Solo ones - rebound global special bindings, bridged Go slice/map/functions - at most one per history and only in histories of <= 1 (quick) / <= 2 (thorough) ingredients); per H: O=run(H), C=O.Copy(), C2=C.Copy(), R=replay(H). "+
			"equiv: one case per H (Copy returns; dump(O)=dump(C)=dump(C2)=dump(R)); non-trivial when H is non-empty. "+
			"heap: one case per H and runtime pair (E5 intersection of Go heap graphs vs allow-list); non-trivial when H is non-empty. "+
			"isolate: one case per (H, mutation M applicable to H (%d mutations: per-ingredient ones when the ingredient is in H, 6 generic ones for |H| <= 1 quick / <= 2 thorough), side mutated in {O,C,C2}): result and dump of the mutated side equal those of replay+M, the dumps of the other sides (its pair partners; both other runtimes in thorough for |H| <= 2) are unchanged; "+
			"non-trivial when M changes the dump of the replayed runtime. "+
			"config: one case per (configuration set on O before Copy in stack depth limit {unset,8,40,200} x stack trace limit {unset,0,3,20} x random source {unset, constant} x debugger handler {unset, recording}; probe functions defined before Copy / by the probe; one of {none,O,C,C2} re-configured after both copies; probe in e.stack of an Error thrown 5/15/25 calls deep, recursion depth reached, JSON nesting, Math.random, debugger statements): every side that was not re-configured gives the result of the replayed runtime R (same setters, never copied); non-trivial when the configuration is the default one or changes the probe's result on R.", len(ingredients), len(mutations)),
		Families: []engine.Family{
			{Name: "equiv", Run: runEquiv},
			{Name: "heap", Run: runHeap},
			{Name: "isolate", Run: runIsolate},
			{Name: "config", Run: runConfig},
		},
		Assumptions: []string{
			"the replayed runtime R (otto.New + same programs, never copied) is the reference: equivalence and post-mutation state are differential against R, so a defect that affects fresh runtimes and copies alike is invisible here (it belongs to C01/C07)",
			"dump() observes through the runtime's own Object.getOwnPropertyNames/getOwnPropertyDescriptor/getPrototypeOf/isExtensible/Object.prototype.toString, captured before H runs; the `caller` property of functions is not described (getOwnPropertyDescriptor on it panics in otto) and is observed by a probe instead",
			"E5 cannot look inside Go closures: a closure object shared by two runtimes is reported when it is heap-allocated (captures state), what it captured is not enumerated",
			"for bridged Go values the Go value itself (pointee, backing array, map, func) is shared by design and pruned from the heap comparison, and no mutation writes elements through the bridge; what otto owns about them (wrapper properties, the slice header kept for a by-value slice, the heap in which a bridged function builds results) is inside the oracle",
		},
		CrashIsViolation: true,
		QuickBudget:      20 * time.Minute,
		ThoroughBudget:   3 * time.Hour,
	})
	engine.RegisterSignature("c17-copy-nil-arguments", sigCopyNilArguments)
	engine.RegisterSignature("c17-caller-getter", sigCallerGetter)
	engine.RegisterSignature("c17-getter-closure", sigGetterClosure)
	engine.RegisterSignature("c17-error-trace", sigErrorTrace)
	engine.RegisterSignature("c17-copy-eval-binding", sigCopyEvalBinding)
	engine.RegisterSignature("c17-direct-eval-identity", sigDirectEvalIdentity)
	engine.RegisterSignature("c17-bridged-func-runtime", sigBridgedFuncRuntime)
	engine.RegisterSignature("c17-goslice-length-shared", sigGoSliceLength)
	engine.RegisterSignature("c17-bound-args-capacity", sigBoundArgsCapacity)
}

// ---------------------------------------------------------------------------
// histories

type history struct {
	idx []int
	key string
}

func (h history) names() []string {
	out := make([]string, len(h.idx))
	for i, j := range h.idx {
		out[i] = ingredients[j].Name
	}
	return out
}

func (h history) has(name string) bool {
	for _, j := range h.idx {
		if ingredients[j].Name == name {
			return true
		}
	}
	return false
}

func (h history) source() string {
	var sb strings.Builder
	for _, j := range h.idx {
		sb.WriteString("// " + ingredients[j].Name)
		sb.WriteString(ingredients[j].Src)
		sb.WriteString("\n")
	}
	return sb.String()
}

// histories enumerates every subset of at most max ingredients, smallest first;
// subsets containing a Solo ingredient only up to size soloMax, and never two of them.
func histories(max, soloMax int) []history {
	var out []history
	n := len(ingredients)
	var rec func(start int, cur []int, size int)
	rec = func(start int, cur []int, size int) {
		if len(cur) == size {
			solos := 0
			for _, j := range cur {
				if ingredients[j].Solo {
					solos++
				}
			}
			if solos > 1 || (solos == 1 && size > soloMax) {
				return
			}
			h := history{idx: append([]int(nil), cur...)}
			h.key = strings.Join(h.names(), "+")
			if h.key == "" {
				h.key = "-"
			}
			out = append(out, h)
			return
		}
		for i := start; i < n; i++ {
			rec(i+1, append(cur, i), size)
		}
	}
	for size := 0; size <= max; size++ {
		rec(0, nil, size)
	}
	return out
}

func maxSubset(r *engine.Run) int {
	if r.Thorough() {
		return 3
	}
	return 2
}

// applicable returns the mutations of h: those whose ingredient is part of h, and
// the generic ones (built-ins, fresh globals) when h has at most genericMax
// ingredients — they do not interact with H, so repeating them for every larger
// subset only repeats the same transitions.
func applicable(h history, genericMax int) []mutation {
	for _, j := range h.idx {
		if ingredients[j].Solo && genericMax > 1 {
			genericMax = 1 // a Solo ingredient meets the generic mutations alone only
		}
	}
	var out []mutation
	for _, m := range mutations {
		if (m.Needs == "" && len(h.idx) <= genericMax) || (m.Needs != "" && h.has(m.Needs)) {
			out = append(out, m)
		}
	}
	return out
}

// observed lists the sides dumped after a mutation of side d: the pair(s) d belongs
// to (O~C, C~C2); in the thorough tier all three runtimes for histories of up to two
// ingredients (the third pairing O~C2 of larger histories is covered by family heap).
func observed(d string, thorough bool) []string {
	if thorough || d == "C" {
		return sides
	}
	if d == "O" {
		return []string{"O", "C"}
	}
	return []string{"C", "C2"}
}

// ---------------------------------------------------------------------------
// driving otto

// fresh builds a runtime that has run the prelude and the programs of h.
func fresh(h history) (*otto.Otto, error) {
	vm := otto.New()
	if res := ox.Run(vm, preludeSrc); res.Panicked || res.Err != nil {
		return nil, fmt.Errorf("prelude: %v %v", res.Err, res.PanicVal)
	}
	for _, j := range h.idx {
		ing := ingredients[j]
		if ing.Go != nil {
			ing.Go(vm)
		}
		if res := ox.Run(vm, ing.Src); res.Panicked || res.Err != nil {
			return nil, fmt.Errorf("ingredient %s: %v %v", ing.Name, res.Err, res.PanicVal)
		}
	}
	return vm, nil
}

type world struct {
	O, C, C2 *otto.Otto
	// copy failure (Go panic out of Copy)
	failed string // "" or "O.Copy()" / "C.Copy()"
	pval   string
	stack  string
}

func guardedCopy(vm *otto.Otto) (out *otto.Otto, pval, stack string) {
	res := ox.Guard(func() (otto.Value, error) {
		out = vm.Copy()
		return otto.Value{}, nil
	})
	if res.Panicked {
		return nil, fmt.Sprint(res.PanicVal), res.Stack
	}
	return out, "", ""
}

func buildWorld(h history) (*world, error) {
	o, err := fresh(h)
	if err != nil {
		return nil, err
	}
	w := &world{O: o}
	c, pv, st := guardedCopy(o)
	if c == nil {
		w.failed, w.pval, w.stack = "O.Copy()", pv, st
		return w, nil
	}
	w.C = c
	c2, pv, st := guardedCopy(c)
	if c2 == nil {
		w.failed, w.pval, w.stack = "C.Copy()", pv, st
		return w, nil
	}
	w.C2 = c2
	return w, nil
}

func (w *world) side(name string) *otto.Otto {
	switch name {
	case "O":
		return w.O
	case "C":
		return w.C
	case "C2":
		return w.C2
	}
	panic(name)
}

var sides = []string{"O", "C", "C2"}

func dump(vm *otto.Otto) string {
	res := ox.Run(vm, "__dump()")
	switch {
	case res.Panicked:
		return fmt.Sprint("DUMP-PANIC: ", res.PanicVal)
	case res.Err != nil:
		return "DUMP-ERROR: " + res.Err.Error()
	}
	s, _ := res.Value.ToString()
	return s
}

// runCanon runs a program and renders its outcome canonically.
func runCanon(vm *otto.Otto, src string) string {
	res := ox.Run(vm, src)
	switch {
	case res.Panicked:
		return fmt.Sprint("panic: ", res.PanicVal)
	case res.Err != nil:
		return "throw: " + res.Err.Error()
	}
	return ox.Canon(res.Value)
}

// diffLines returns the lines only in exp ("-") and only in obs ("+").
func diffLines(exp, obs string) []string {
	le, lo := strings.Split(exp, "\n"), strings.Split(obs, "\n")
	me := make(map[string]int, len(le))
	for _, l := range le {
		me[l]++
	}
	mo := make(map[string]int, len(lo))
	for _, l := range lo {
		mo[l]++
	}
	var out []string
	for _, l := range le {
		if mo[l] == 0 {
			out = append(out, "-"+l)
		}
	}
	for _, l := range lo {
		if me[l] == 0 {
			out = append(out, "+"+l)
		}
	}
	return out
}

func clip(lines []string, n int) string {
	if len(lines) > n {
		return strings.Join(lines[:n], " ; ") + fmt.Sprintf(" ; ... (%d differing lines)", len(lines))
	}
	return strings.Join(lines, " ; ")
}

func splitDiff(d []string) (minus, plus []string) {
	for _, l := range d {
		if strings.HasPrefix(l, "-") {
			minus = append(minus, l[1:])
		} else {
			plus = append(plus, l[1:])
		}
	}
	return
}

// reporter files mismatches; in replay mode only the recorded key is filed.
type reporter struct{ r *engine.Run }

func (p reporter) file(m engine.Mismatch) {
	if p.r.ReplayKey != "" && p.r.ReplayKey != m.Key {
		return
	}
	p.r.Mismatch(m)
}

// compareDumps files a mismatch when two dumps differ.
func (p reporter) compareDumps(key string, h history, what string, exp, obs string, extra map[string]string) bool {
	if exp == obs {
		return true
	}
	d := diffLines(exp, obs)
	if len(d) == 0 {
		// same lines in a different order (own-name order, visit order)
		le, lo := strings.Split(exp, "\n"), strings.Split(obs, "\n")
		for i := 0; i < len(le) && i < len(lo); i++ {
			if le[i] != lo[i] {
				d = []string{fmt.Sprintf("-line %d: %s", i+1, le[i]), fmt.Sprintf("+line %d: %s", i+1, lo[i])}
				break
			}
		}
	}
	// The differing lines are partitioned by the ingredient whose probe they belong to
	// (everything else: "objects"), one mismatch per part, so that a history combining two
	// independent defects yields two separately classifiable reports. A single part keeps
	// the plain key.
	parts := map[string][]string{}
	var order []string
	for _, l := range d {
		g := diffGroup(l)
		if _, ok := parts[g]; !ok {
			order = append(order, g)
		}
		parts[g] = append(parts[g], l)
	}
	sort.Strings(order)
	for _, g := range order {
		dl := parts[g]
		minus, plus := splitDiff(dl)
		aux := map[string]string{"ingredients": strings.Join(h.names(), ","), "what": what, "group": g}
		if len(dl) <= 60 {
			aux["diff"] = strings.Join(dl, "\n")
		} else {
			aux["diff"] = "(more than 60 differing lines)"
		}
		for k, v := range extra {
			aux[k] = v
		}
		k := key
		if len(order) > 1 {
			k = key + "@" + g
		}
		p.file(engine.Mismatch{Key: k, Input: what + "\n" + h.source() + extra["mutation"],
			Expected: clip(minus, 8), Observed: clip(plus, 8), Aux: aux})
	}
	return false
}

var ingredientNames = func() map[string]bool {
	m := map[string]bool{}
	for _, i := range ingredients {
		m[i.Name] = true
	}
	return m
}()

// diffGroup: "probe <ingredient>.<name> ..." lines belong to <ingredient>, all other
// lines to "objects".
func diffGroup(line string) string {
	l := strings.TrimLeft(line, "+-")
	if strings.HasPrefix(l, "probe ") {
		rest := l[len("probe "):]
		if i := strings.IndexByte(rest, '.'); i > 0 && ingredientNames[rest[:i]] {
			return rest[:i]
		}
	}
	return "objects"
}

// selected says whether the case (or case group) with this key prefix runs: in
// normal mode sharding is by history; in replay mode by key prefix.
func selected(r *engine.Run, base string) bool {
	if r.ReplayKey == "" {
		return true
	}
	return r.ReplayKey == base || strings.HasPrefix(r.ReplayKey, base+"#") || strings.HasPrefix(r.ReplayKey, base+"/")
}

func setup(r *engine.Run) []history {
	debug.SetGCPercent(400)
	hs := histories(maxSubset(r), maxSubset(r)-1)
	if only := os.Getenv("MC_C17_ONLY"); only != "" {
		// development aid: restrict to histories built from the named ingredients only
		// (the run is then reported as capped, never as exhaustive)
		keep := map[string]bool{}
		for _, n := range strings.Split(only, ",") {
			keep[n] = true
		}
		var sel []history
		for _, h := range hs {
			ok := true
			for _, n := range h.names() {
				ok = ok && keep[n]
			}
			if ok {
				sel = append(sel, h)
			}
		}
		hs = sel
		r.Cap("MC_C17_ONLY=" + only)
	}
	r.Bound("ingredients", fmt.Sprint(len(ingredients)))
	r.Bound("max_subset", fmt.Sprint(maxSubset(r)))
	r.Bound("histories", fmt.Sprint(len(hs)))
	return hs
}

// mine: every worker enumerates all histories; a history belongs to one shard.
func mine(r *engine.Run, h history) bool {
	if r.ReplayKey != "" {
		return selected(r, h.key)
	}
	return r.Mine()
}

// ---------------------------------------------------------------------------
// baseline (per history, cached per process)

type baseline struct {
	err    error
	failed string // copy failure
	pval   string
	stack  string
	dumps  map[string]string // O, C, C2, R
}

var (
	baseMu    sync.Mutex
	baseCache = map[string]*baseline{}
)

func getBaseline(h history) *baseline {
	baseMu.Lock()
	defer baseMu.Unlock()
	if b, ok := baseCache[h.key]; ok {
		return b
	}
	b := &baseline{dumps: map[string]string{}}
	baseCache[h.key] = b
	w, err := buildWorld(h)
	if err != nil {
		b.err = err
		return b
	}
	rr, err := fresh(h)
	if err != nil {
		b.err = err
		return b
	}
	b.dumps["R"] = dump(rr)
	b.dumps["O"] = dump(w.O)
	if w.failed != "" {
		b.failed, b.pval, b.stack = w.failed, w.pval, w.stack
		return b
	}
	b.dumps["C"] = dump(w.C)
	b.dumps["C2"] = dump(w.C2)
	return b
}

// ---------------------------------------------------------------------------
// family equiv

func runEquiv(r *engine.Run) {
	hs := setup(r)
	rep := reporter{r}
	for _, h := range hs {
		if r.Expired() {
			r.Cap("time budget reached")
			return
		}
		if !mine(r, h) {
			continue
		}
		r.Begin(h.key)
		b := getBaseline(h)
		if b.err != nil {
			r.End()
			r.HarnessError("history " + h.key + ": " + b.err.Error())
			continue
		}
		// harness self-checks: a second replay gives the same dump (determinism of H and
		// dump) and dumping twice gives the same text (dump is read-only).
		if r2, err := fresh(h); err != nil {
			r.HarnessError("history " + h.key + ": " + err.Error())
		} else {
			d1 := dump(r2)
			d2 := dump(r2)
			if d1 != b.dumps["R"] {
				r.HarnessError("history " + h.key + ": two replays dump differently: " + clip(diffLines(b.dumps["R"], d1), 4))
			}
			if d1 != d2 {
				r.HarnessError("history " + h.key + ": dump is not read-only: " + clip(diffLines(d1, d2), 4))
			}
			if strings.HasPrefix(d1, "DUMP-") {
				r.HarnessError("history " + h.key + ": " + d1)
			}
		}
		r.End()
		r.Eval(len(h.idx) > 0)
		r.Tree(1, 3)
		if r.WantSample() && len(h.idx) > 0 {
			r.Sample(fmt.Sprintf("H=%s: dump(R) has %d lines; copy: %s", h.key, strings.Count(b.dumps["R"], "\n")+1, orOK(b.failed)))
		}
		r.Outcome(b.dumps["R"])
		if b.failed != "" {
			rep.file(engine.Mismatch{Key: h.key + "#copy", Input: b.failed + " after\n" + h.source(),
				Expected: "Copy returns", Observed: "Copy panicked: " + b.pval,
				Aux: map[string]string{"ingredients": strings.Join(h.names(), ","), "stack": trimStack(b.stack), "what": b.failed}})
			continue
		}
		for _, s := range sides {
			rep.compareDumps(h.key+"#"+s, h, "dump("+s+") vs dump(replay) before any mutation", b.dumps["R"], b.dumps[s], nil)
		}
	}
}

func orOK(s string) string {
	if s == "" {
		return "ok"
	}
	return "PANIC in " + s
}

// trimStack keeps the otto frames of a Go panic stack (function names only).
func trimStack(st string) string {
	var out []string
	for _, l := range strings.Split(st, "\n") {
		if strings.HasPrefix(l, "github.com/robertkrimen/otto.") {
			if i := strings.LastIndex(l, "("); i > 0 {
				l = l[:i]
			}
			out = append(out, strings.TrimPrefix(l, "github.com/robertkrimen/otto."))
		}
		if len(out) >= 12 {
			break
		}
	}
	return strings.Join(out, " < ")
}

// ---------------------------------------------------------------------------
// family isolate

func runIsolate(r *engine.Run) {
	hs := setup(r)
	rep := reporter{r}
	r.Bound("mutations", fmt.Sprint(len(mutations)))
	r.Bound("directions", "O,C,C2")
	genericMax := 1
	if r.Thorough() {
		genericMax = 2
	}
	r.Bound("generic_mutations_for_subsets_up_to", fmt.Sprint(genericMax))
	for _, h := range hs {
		if r.Expired() {
			r.Cap("time budget reached")
			return
		}
		if !mine(r, h) {
			continue
		}
		b := getBaseline(h)
		if b.err != nil {
			r.HarnessError("history " + h.key + ": " + b.err.Error())
			continue
		}
		for _, m := range applicable(h, genericMax) {
			mkey := h.key + "/" + m.Name
			if !selected(r, mkey) {
				continue
			}
			if b.failed != "" {
				r.Skip() // Copy panics for this history; reported by family equiv
				continue
			}
			// reference: replay + M
			rr, err := fresh(h)
			if err != nil {
				r.HarnessError("history " + h.key + ": " + err.Error())
				continue
			}
			resR := runCanon(rr, m.Src)
			dumpRM := dump(rr)
			effect := diffLines(b.dumps["R"], dumpRM)
			r.Tree(1, 0)
			for _, d := range sides {
				key := mkey + "/" + d
				if !selected(r, key) {
					continue
				}
				r.Begin(key)
				w, err := buildWorld(h)
				if err != nil || w.failed != "" {
					r.End()
					r.HarnessError(fmt.Sprintf("history %s: rebuild differs from baseline (%v %s)", h.key, err, w.failed))
					continue
				}
				res := runCanon(w.side(d), m.Src)
				after := map[string]string{}
				obsSides := observed(d, r.Thorough() && len(h.idx) <= 2)
				for _, s := range obsSides {
					after[s] = dump(w.side(s))
				}
				r.End()
				r.Eval(len(effect) > 0)
				r.Tree(0, 1)
				r.Outcome(res + "\n" + strings.Join(effect, "\n"))
				if r.WantSample() && len(effect) > 0 && len(h.idx) > 0 {
					r.Sample(fmt.Sprintf("H=%s M=%s on %s: result %s; changes %d dump lines, e.g. %s", h.key, m.Name, d, res, len(effect), clip(effect, 2)))
				}
				extra := map[string]string{"mutation": "// mutation " + m.Name + " on " + d + "\n" + m.Src, "mutation_name": m.Name, "side": d}
				if res != resR {
					rep.file(engine.Mismatch{Key: key + "#result", Input: "result of M on " + d + " vs on replay\n" + h.source() + extra["mutation"],
						Expected: resR, Observed: res,
						Aux: map[string]string{"ingredients": strings.Join(h.names(), ","), "what": "result", "mutation_name": m.Name, "side": d}})
				}
				for _, s := range obsSides {
					if s == d {
						rep.compareDumps(key+"#self", h, "dump("+d+") after M on "+d+" vs dump(replay) after M", dumpRM, after[s], extra)
					} else {
						rep.compareDumps(key+"#iso:"+s, h, "dump("+s+") after M on "+d+" vs dump("+s+") before (isolation)", b.dumps[s], after[s], extra)
					}
				}
			}
		}
	}
}

// ---------------------------------------------------------------------------
// family heap (E5)

// allowReason says why a shared identity is harmless, "" if it is not.
func allowReason(i heap.Info) string {
	if i.Static {
		return "static (program image: package-level variable or static funcval)"
	}
	if i.Kind == reflect.Func && strings.Contains(i.Func, "otto.(*runtime).toValue.func") {
		// wrapper of a Go function bridged by reflection: it captures the Go func value,
		// which is shared by design; whether it also captured the runtime it was created
		// in is invisible here and is checked behaviourally (ingredient gofunc)
		return "bridged Go function (shared by design, outside the oracle)"
	}
	return typeAllow(i.Type)
}

var (
	typeMu    sync.Mutex
	typeCache = map[reflect.Type]string{}
)

func typeAllow(t reflect.Type) string {
	typeMu.Lock()
	defer typeMu.Unlock()
	if s, ok := typeCache[t]; ok {
		return s
	}
	n := t.String()
	s := ""
	switch {
	case n == "*regexp.Regexp":
		s = "compiled regexp (immutable, safe for concurrent use)"
	case n == "*file.File" || n == "*file.FileSet":
		s = "source file table (immutable after parsing)"
	case n == "*otto.objectClass":
		s = "objectClass method table (package-level, never written)"
	case n == "*time.Location":
		s = "time zone (immutable)"
	case n == "*otto.stringWide":
		s = "wide string payload (value receivers only, never written)"
	case strings.HasPrefix(n, "*otto.node") || strings.HasPrefix(n, "[]otto.node"):
		s = "compiled syntax tree (cmpl_parse.go; never written by evaluation)"
	case n == "*otto.goStructObject" || n == "*otto.goMapObject" || n == "*otto.goArrayObject" || n == "reflect.Value":
		s = "bridged Go value (shared by design, outside the oracle)"
	}
	typeCache[t] = s
	return s
}

// pruneHeap stops the walk below allow-listed things, so that their insides
// (regexp programs, syntax trees, zone tables, bridged Go data) are not recorded.
func pruneHeap(path string, v reflect.Value) bool {
	switch v.Kind() {
	case reflect.Ptr, reflect.Slice, reflect.Struct:
		return typeAllow(v.Type()) != ""
	}
	return false
}

type leakClass struct {
	class   string
	count   int
	example heap.SharedPair
}

// leaks classifies the intersection of two heap graphs: allowed pairs are
// counted by reason; the others are reduced to their roots (a leaked identity
// whose first-visit path does not extend another leaked identity's path) and
// grouped by class.
func leaks(a, b map[uintptr]heap.Info) (allowed map[string]int, classes []leakClass, total int) {
	allowed = map[string]int{}
	var bad []heap.SharedPair
	for _, p := range heap.Shared(a, b) {
		if why := allowReason(p.B); why != "" {
			allowed[why]++
			continue
		}
		bad = append(bad, p)
	}
	total = len(bad)
	sort.SliceStable(bad, func(i, j int) bool { return len(bad[i].B.Path) < len(bad[j].B.Path) })
	var roots []heap.SharedPair
	for _, p := range bad {
		isRoot := true
		for _, q := range roots {
			if q.B.Kind != reflect.Func && strings.HasPrefix(p.B.Path, q.B.Path) && len(p.B.Path) > len(q.B.Path) {
				isRoot = false
				break
			}
		}
		if isRoot {
			roots = append(roots, p)
		}
	}
	byClass := map[string]*leakClass{}
	for _, p := range roots {
		c := classOf(p)
		lc := byClass[c]
		if lc == nil {
			lc = &leakClass{class: c, example: p}
			byClass[c] = lc
		}
		lc.count++
	}
	for _, lc := range byClass {
		classes = append(classes, *lc)
	}
	sort.Slice(classes, func(i, j int) bool { return classes[i].class < classes[j].class })
	return
}

func classOf(p heap.SharedPair) string {
	if p.B.Kind == reflect.Func {
		return "closure:" + strings.TrimPrefix(p.B.Func, "github.com/robertkrimen/otto.")
	}
	// class = type of the shared thing + the field that refers to it (no indices, no
	// property names, no access path: one root cause gives one class)
	tail := strings.TrimSuffix(stripGroups(stripGroups(p.B.Path, '(', ')', ""), '[', ']', "[]"), ".*")
	if i := strings.LastIndex(tail, "."); i >= 0 {
		tail = tail[i+1:]
	}
	s := "data:" + p.B.Type.String() + "@" + tail
	if p.Interior {
		s += "(interior)"
	}
	return s
}

// stripGroups replaces every open...close group of s by repl.
func stripGroups(s string, open, close rune, repl string) string {
	var sb strings.Builder
	depth := 0
	for _, c := range s {
		switch {
		case c == open:
			if depth == 0 {
				sb.WriteString(repl)
			}
			depth++
		case c == close && depth > 0:
			depth--
		case depth == 0:
			sb.WriteRune(c)
		}
	}
	return sb.String()
}

var heapPairs = [][2]string{{"O", "C"}, {"C", "C2"}, {"O", "C2"}}

func runHeap(r *engine.Run) {
	hs := setup(r)
	rep := reporter{r}
	if !heap.ClosureIdentity() {
		r.Note("reflect.Value layout self-test failed: func identities are code addresses, shared capturing closures are not detected")
	}
	if !heap.ImageKnown() {
		r.HarnessError("program image ranges unknown (/proc/self/maps unreadable): static data cannot be told from heap data")
		return
	}
	for _, h := range hs {
		if r.Expired() {
			r.Cap("time budget reached")
			return
		}
		if !mine(r, h) {
			continue
		}
		r.Begin(h.key)
		w, err := buildWorld(h)
		if err != nil {
			r.End()
			r.HarnessError("history " + h.key + ": " + err.Error())
			continue
		}
		if w.failed != "" {
			r.End()
			r.Skip() // reported by family equiv
			continue
		}
		graphs := map[string]map[uintptr]heap.Info{}
		for _, s := range sides {
			graphs[s] = heap.PointersPruned(w.side(s), pruneHeap)
		}
		// structural hash of the original's graph (pointers as first-visit numbers): the
		// number of distinct hashes is the number of structurally distinct heaps explored
		shape := heap.HashPruned(w.O, pruneHeap)
		r.End()
		r.Outcome("shape " + shape)
		for _, pr := range heapPairs {
			key := h.key + "/" + pr[0] + "~" + pr[1]
			allowed, classes, total := leaks(graphs[pr[0]], graphs[pr[1]])
			r.Eval(len(h.idx) > 0)
			r.Tree(int64(len(graphs[pr[1]])), int64(len(graphs[pr[1]])))
			nAllowed := 0
			for _, n := range allowed {
				nAllowed += n
			}
			var cl []string
			for _, c := range classes {
				cl = append(cl, c.class)
			}
			r.Outcome(fmt.Sprintf("%d %v", nAllowed, cl))
			if r.WantSample() && len(h.idx) > 1 {
				r.Sample(fmt.Sprintf("H=%s %s~%s: %d/%d identities, %d shared and allow-listed, %d leaked (%d root classes)",
					h.key, pr[0], pr[1], len(graphs[pr[0]]), len(graphs[pr[1]]), nAllowed, total, len(classes)))
			}
			for _, c := range classes {
				rep.file(engine.Mismatch{Key: key + "#" + c.class,
					Input:    fmt.Sprintf("heap graphs of %s and %s after\n%s", pr[0], pr[1], h.source()),
					Expected: "graphs intersect only in allow-listed immutable objects",
					Observed: fmt.Sprintf("%d shared root(s) of class %s (%d leaked identities in total), e.g. %s: %s  ==  %s: %s",
						c.count, c.class, total, pr[1], c.example.B.String(), pr[0], c.example.A.Path),
					Aux: map[string]string{"ingredients": strings.Join(h.names(), ","), "class": c.class, "pair": pr[0] + "~" + pr[1],
						"path": c.example.B.Path}})
			}
		}
	}
}

// ---------------------------------------------------------------------------
// known-finding signatures

// sigCopyNilArguments: Copy() panics with a nil dereference inside fnStash.clone
// exactly when the history holds a live closure whose function has a parameter
// named `arguments` (ingredient argsparam).
func sigCopyNilArguments(m *engine.Mismatch) bool {
	return m.Family == "equiv" && strings.HasSuffix(m.Key, "#copy") &&
		hasIngredient(m, "argsparam") &&
		m.Observed == "Copy panicked: runtime error: invalid memory address or nil pointer dereference" &&
		strings.Contains(m.Aux["stack"], "(*fnStash).clone")
}

func hasIngredient(m *engine.Mismatch, name string) bool {
	for _, n := range strings.Split(m.Aux["ingredients"], ",") {
		if n == name {
			return true
		}
	}
	return false
}

// sigCallerGetter: on a copy (or copy of a copy) a function created before Copy
// reports `f.caller` as null while it runs, because the cloned `caller` getter
// still inspects the original runtime's scope chain. Accepts exactly: history
// contains ingredient caller, the compared side is a copy, and the only
// differing dump line is probe caller.inner (true on the replay, false on the copy).
func sigCallerGetter(m *engine.Mismatch) bool {
	if !hasIngredient(m, "caller") {
		return false
	}
	switch m.Family {
	case "equiv":
		if !(strings.HasSuffix(m.Key, "#C") || strings.HasSuffix(m.Key, "#C2")) {
			return false
		}
	case "isolate":
		if !(strings.HasSuffix(m.Key, "/C#self") || strings.HasSuffix(m.Key, "/C2#self")) {
			return false
		}
	default:
		return false
	}
	return m.Aux["diff"] == "-probe caller.inner => b:1\n+probe caller.inner => b:0"
}

var getterClosures = map[string]bool{
	"closure:(*runtime).newNativeFunctionObject.func1": true, // `caller` getter of native functions
	"closure:(*runtime).newNodeFunctionObject.func1":   true, // `caller` getter of script functions
	"closure:(*runtime).newErrorObject.func1":          true, // `stack` getter of Error objects
	"closure:(*runtime).newErrorObjectError.func1":     true, // `stack` getter of thrown native errors
}

// sigGetterClosure: the per-object native getter closures (`caller`, `stack`) are
// copied by reference; each captured the original runtime / object.
func sigGetterClosure(m *engine.Mismatch) bool {
	return m.Family == "heap" && getterClosures[m.Aux["class"]]
}

// sigErrorTrace: an Error object's payload (ottoError) is copied shallowly: the
// []frame backing array is shared and frame.fn points at the original runtime's
// function objects, through which the whole original heap is reachable.
func sigErrorTrace(m *engine.Mismatch) bool {
	return m.Family == "heap" && m.Aux["class"] == "data:[]otto.frame@trace"
}

// ---- round 6 ---------------------------------------------------------------

func hasAnyIngredient(m *engine.Mismatch, names ...string) bool {
	for _, n := range names {
		if hasIngredient(m, n) {
			return true
		}
	}
	return false
}

// copySide reports whether the key of an equiv / isolate "#self" mismatch names a
// copy (C or C2) as the compared side; the "@group" suffix is ignored.
func copySide(m *engine.Mismatch) bool {
	k := m.Key
	if i := strings.LastIndex(k, "@"); i >= 0 {
		k = k[:i]
	}
	switch m.Family {
	case "equiv":
		return strings.HasSuffix(k, "#C") || strings.HasSuffix(k, "#C2")
	case "isolate":
		return strings.HasSuffix(k, "/C#self") || strings.HasSuffix(k, "/C2#self")
	}
	return false
}

func diffOf(m *engine.Mismatch) (minus, plus []string) {
	if m.Aux["diff"] == "" {
		return nil, nil
	}
	return splitDiff(strings.Split(m.Aux["diff"], "\n"))
}

// sigCopyEvalBinding: Copy() panics with a failed type assertion in runtime.clone
// itself exactly when the global property "eval" is not a function-valued data
// property at Copy() time (ingredients evalnum, evaldel, evalacc).
func sigCopyEvalBinding(m *engine.Mismatch) bool {
	return m.Family == "equiv" && strings.HasSuffix(m.Key, "#copy") &&
		hasAnyIngredient(m, "evalnum", "evaldel", "evalacc") &&
		strings.HasPrefix(m.Observed, "Copy panicked: interface conversion: interface {} is ") &&
		strings.HasPrefix(m.Aux["stack"], "(*runtime).clone < ")
}

var (
	bindingsThrows = regexp.MustCompile(`^probe bindings\.values !> #\d+$`)
	errHeader      = regexp.MustCompile(`^(#\d+) \[object Error\] ext proto=#\d+$`)
)

var directProbe = regexp.MustCompile(`^probe (evalrebound|evaluser)\.direct => s:"(2|E:ReferenceError)"$`)

// sigDirectEvalIdentity: the copy takes its internal eval identity from the global
// property "eval" at Copy() time; when that held another function (ingredients
// evalrebound, evaluser) and a script on the copy restores the built-in, eval("y")
// inside a function is no longer a direct eval there: ReferenceError instead of 2.
// Accepts exactly: mutation <ingredient>.restore run on C or C2; the result (2 on the
// replay, the ReferenceError on the copy) or the .direct probes ("2" vs "E:ReferenceError").
func sigDirectEvalIdentity(m *engine.Mismatch) bool {
	if m.Family != "isolate" || !hasAnyIngredient(m, "evalrebound", "evaluser") {
		return false
	}
	if mn := m.Aux["mutation_name"]; mn != "evalrebound.restore" && mn != "evaluser.restore" {
		return false
	}
	if s := m.Aux["side"]; s != "C" && s != "C2" {
		return false
	}
	if strings.HasSuffix(m.Key, "#result") {
		return m.Expected == "d:2" && m.Observed == "throw: ReferenceError: 'y' is not defined"
	}
	if !copySide(m) {
		return false
	}
	minus, plus := diffOf(m)
	// the same loss seen through ingredient bindings, whose probe closures read their
	// captured scopes by direct eval: probe bindings.values throws ReferenceError for the
	// first captured name (ev1), and the dump gains that one Error object
	if hasIngredient(m, "bindings") {
		switch m.Aux["group"] {
		case "bindings":
			return len(minus) == 1 && len(plus) == 1 && strings.HasPrefix(minus[0], `probe bindings.values => s:"`) &&
				bindingsThrows.MatchString(plus[0])
		case "objects":
			if len(minus) != 0 || len(plus) < 2 {
				return false
			}
			h := errHeader.FindStringSubmatch(plus[0])
			if h == nil {
				return false
			}
			msg := false
			for _, l := range plus[1:] {
				if !strings.HasPrefix(l, h[1]+".") {
					return false
				}
				msg = msg || l == h[1]+`.message WEC s:"'ev1' is not defined"`
			}
			return msg
		}
	}
	if len(minus) == 0 || len(minus) != len(plus) {
		return false
	}
	for i := range minus {
		a, b := directProbe.FindStringSubmatch(minus[i]), directProbe.FindStringSubmatch(plus[i])
		if a == nil || b == nil || a[1] != b[1] || a[2] != "2" || b[2] != "E:ReferenceError" {
			return false
		}
	}
	return true
}

var (
	resultsProbe = regexp.MustCompile(`^probe gofunc\.results => s:"(true|false),(true|false),(true|false),(.*)"$`)
	leakLine     = regexp.MustCompile(`^#\d+\.(leak --C s:"x"|leakm --C s:"y")$`)
)

// sigBridgedFuncRuntime: a Go function bridged by reflection keeps converting in the
// runtime it was created in, so on a copy its results (and what is reachable from
// them) belong to the original's heap. Accepts exactly, for histories with ingredient
// gofunc: (a) on C/C2 the probe gofunc.results differs from the replay only in the
// three prototype-identity flags, true on the replay and false on the copy; (b) for
// mutation gofunc.leak run on C/C2: the typeof result "string,string" becomes
// "undefined,undefined", the mutated copy lacks the two leak properties the replay has,
// and the ORIGINAL (side O, untouched) gains exactly those two properties.
func sigBridgedFuncRuntime(m *engine.Mismatch) bool {
	if !hasIngredient(m, "gofunc") {
		return false
	}
	if m.Family == "isolate" && m.Aux["mutation_name"] == "gofunc.leak" && (m.Aux["side"] == "C" || m.Aux["side"] == "C2") {
		if strings.HasSuffix(m.Key, "#result") {
			return m.Expected == "s:string,string" && m.Observed == "s:undefined,undefined"
		}
		if m.Aux["group"] == "objects" {
			minus, plus := diffOf(m)
			k := m.Key
			if i := strings.LastIndex(k, "@"); i >= 0 {
				k = k[:i]
			}
			switch {
			case strings.HasSuffix(k, "#self"):
				return len(plus) == 0 && allMatch(minus, leakLine, 2)
			case strings.HasSuffix(k, "#iso:O"):
				return len(minus) == 0 && allMatch(plus, leakLine, 2)
			}
			return false
		}
	}
	if !copySide(m) || m.Aux["group"] != "gofunc" {
		return false
	}
	minus, plus := diffOf(m)
	if len(minus) != 1 || len(plus) != 1 {
		return false
	}
	a, b := resultsProbe.FindStringSubmatch(minus[0]), resultsProbe.FindStringSubmatch(plus[0])
	if a == nil || b == nil || a[4] != b[4] {
		return false
	}
	changed := false
	for i := 1; i <= 3; i++ {
		if a[i] != b[i] {
			if a[i] != "true" {
				return false
			}
			changed = true
		}
	}
	return changed
}

func allMatch(lines []string, re *regexp.Regexp, n int) bool {
	if len(lines) != n {
		return false
	}
	for _, l := range lines {
		if !re.MatchString(l) {
			return false
		}
	}
	return true
}

var sliceProbe = regexp.MustCompile(`^probe goslice\.read => s:"(\d,\d,\d?),(.*)"$`)

var sliceElemLine = regexp.MustCompile(`^#\d+\.(1 WE- d:2|2 WE- d:3)$`)

// sigGoSliceLength: the wrapper of a Go slice handed over by value (*goSliceObject,
// which holds the slice header) is shared by the original and its copies: `length = 1`
// on one side truncates the slice seen by the others. Accepts exactly: the E5 class of
// the shared wrapper; and, for mutation goslice.length, the untouched sides losing
// elements 1 and 2 and reading length 1.
func sigGoSliceLength(m *engine.Mismatch) bool {
	if !hasIngredient(m, "goslice") {
		return false
	}
	if m.Family == "heap" {
		return m.Aux["class"] == "data:*otto.goSliceObject@value"
	}
	if m.Family != "isolate" || m.Aux["mutation_name"] != "goslice.length" || !strings.Contains(m.Key, "#iso:") {
		return false
	}
	minus, plus := diffOf(m)
	switch m.Aux["group"] {
	case "goslice":
		if len(minus) != 1 || len(plus) != 1 {
			return false
		}
		a, b := sliceProbe.FindStringSubmatch(minus[0]), sliceProbe.FindStringSubmatch(plus[0])
		return a != nil && b != nil && a[1] == "3,1,3" && b[1] == "1,1," && a[2] == b[2]
	case "objects":
		return len(plus) == 0 && allMatch(minus, sliceElemLine, 2)
	}
	return false
}

// sigBoundArgsCapacity: the bound-function call path appends the call's arguments into
// the spare capacity of the shared bound-argument slice, so a re-entrant call of the same
// bound function overwrites the outer call's arguments on a runtime that built the bound
// function itself (the replay: Math.max sees 99) but not on a copy, whose bound-argument
// list the cloner reallocated with exact capacity (5). Accepts exactly: mutation
// reentrant.call on C or C2, result "99|<rest>" on the replay and "5|<same rest>" on the copy.
func sigBoundArgsCapacity(m *engine.Mismatch) bool {
	if m.Family != "isolate" || !hasIngredient(m, "reentrant") || m.Aux["mutation_name"] != "reentrant.call" ||
		!strings.HasSuffix(m.Key, "#result") || (m.Aux["side"] != "C" && m.Aux["side"] != "C2") {
		return false
	}
	return strings.HasPrefix(m.Expected, "s:99|") && strings.HasPrefix(m.Observed, "s:5|") &&
		strings.TrimPrefix(m.Expected, "s:99|") == strings.TrimPrefix(m.Observed, "s:5|")
}
