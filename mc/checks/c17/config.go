package c17

// Family config: the per-runtime CONFIGURATION scalars of a runtime (everything
// runtime.clone must carry over that is not part of the JavaScript heap and is
// therefore invisible to dump()): the stack depth limit (SetStackDepthLimit), the
// stack trace limit (SetStackTraceLimit, default 10), the random source
// (SetRandomSource) and the debugger handler (SetDebuggerHandler).
//
// Space: every configuration in depth x trace x random x debugger, set on O before
// Copy; probe functions defined before Copy (so the copies run cloned function
// objects) or by the probe itself; after C = O.Copy() and C2 = C.Copy() optionally
// one side is re-configured (the others must not notice); every probe whose result
// depends on one of the fields. Oracle: the replayed runtime R (same setters, same
// programs, never copied) - each not re-configured side must give R's result.

import (
	"fmt"

	"github.com/robertkrimen/otto"

	"verif/mc/engine"
	"verif/mc/ox"
)

// -1 = setter not called (the default of otto.New)
var (
	cfgDepths = []int{-1, 8, 40, 200}
	cfgTraces = []int{-1, 0, 3, 20}
	cfgRandom = []string{"unset", "quarter"}
	cfgDebug  = []string{"unset", "handler"}
	cfgDefs   = []string{"predef", "postdef"}
	cfgAfter  = []string{"none", "O", "C", "C2"}
)

const cfgDefsSrc = `
var reached = 0;
function r(n) { if (n === 0) { throw new Error("deep"); } return r(n - 1); }
function d(n) { reached = n; if (n < 250) { d(n + 1); } }
function nest(k) { var a = []; for (var i = 0; i < k; i++) { a = [a]; } return a; }
`

type cfgProbe struct {
	Name string
	Src  string
}

func cfgStackProbe(k int) cfgProbe {
	return cfgProbe{fmt.Sprintf("stack%d", k),
		fmt.Sprintf(`var out; try { r(%d); out = "no throw"; } catch (e) { out = e.name + "|" + e.stack; } out;`, k)}
}

var cfgProbes = []cfgProbe{
	cfgStackProbe(5), cfgStackProbe(15), cfgStackProbe(25),
	{"recursion", `reached = 0; var out; try { d(1); out = "ok:" + reached; } catch (e) { out = e.name + ":" + reached; } out;`},
	{"json", `var out = ""; try { out += JSON.stringify(nest(30)).length; } catch (e) { out += e.name; }
try { out += "," + JSON.stringify(JSON.parse(JSON.stringify(nest(5)) )).length; var s = ""; for (var i = 0; i < 30; i++) { s = "[" + s + "]"; } out += "," + JSON.parse(s).length; } catch (e) { out += "," + e.name; } out;`},
	{"random", `var x = Math.random(), y = Math.random(); ((x === 0.25 || x === 0.75) ? x : "other") + "," + ((y === 0.25 || y === 0.75) ? y : "other");`},
	{"debugger", `debugger; (function () { debugger; })(); 1;`},
}

type cfgCase struct {
	depth, trace  int
	random, debug string
	defs, after   string
	probe         cfgProbe
}

func (c cfgCase) key() string {
	return fmt.Sprintf("depth=%d,trace=%d,random=%s,debugger=%s/%s/after=%s/%s", c.depth, c.trace, c.random, c.debug, c.defs, c.after, c.probe.Name)
}

// dbgLog records, per world, which runtimes the debugger handler was invoked for.
type dbgLog struct{ vms []*otto.Otto }

func (c cfgCase) configure(vm *otto.Otto, log *dbgLog) {
	if c.depth >= 0 {
		vm.SetStackDepthLimit(c.depth)
	}
	if c.trace >= 0 {
		vm.SetStackTraceLimit(c.trace)
	}
	if c.random == "quarter" {
		vm.SetRandomSource(func() float64 { return 0.25 })
	}
	if c.debug == "handler" {
		vm.SetDebuggerHandler(func(v *otto.Otto) { log.vms = append(log.vms, v) })
	}
}

// reconfigure gives one side a configuration that differs from every enumerated one
// in every field.
func reconfigure(vm *otto.Otto) {
	vm.SetStackDepthLimit(6)
	vm.SetStackTraceLimit(1)
	vm.SetRandomSource(func() float64 { return 0.75 })
	vm.SetDebuggerHandler(nil)
}

func (c cfgCase) prepare(log *dbgLog) (*otto.Otto, error) {
	vm := otto.New()
	c.configure(vm, log)
	if c.defs == "predef" {
		if res := ox.Run(vm, cfgDefsSrc); res.Panicked || res.Err != nil {
			return nil, fmt.Errorf("defs: %v %v", res.Err, res.PanicVal)
		}
	}
	return vm, nil
}

func (c cfgCase) observe(vm *otto.Otto, log *dbgLog) string {
	src := c.probe.Src
	if c.defs == "postdef" {
		src = cfgDefsSrc + src
	}
	before := len(log.vms)
	out := runCanon(vm, src)
	calls, self := len(log.vms)-before, 0
	for _, v := range log.vms[before:] {
		if v == vm {
			self++
		}
	}
	return fmt.Sprintf("%s; debugger handler calls: %d, with this runtime: %d", out, calls, self)
}

func (c cfgCase) input(side string) string {
	set := func(name string, v int) string {
		if v < 0 {
			return ""
		}
		return fmt.Sprintf("O.%s(%d); ", name, v)
	}
	s := "O = otto.New(); " + set("SetStackDepthLimit", c.depth) + set("SetStackTraceLimit", c.trace)
	if c.random == "quarter" {
		s += "O.SetRandomSource(func() float64 { return 0.25 }); "
	}
	if c.debug == "handler" {
		s += "O.SetDebuggerHandler(record); "
	}
	if c.defs == "predef" {
		s += "O.Run(defs); "
	}
	s += "C = O.Copy(); C2 = C.Copy(); "
	if c.after != "none" {
		s += fmt.Sprintf("%s.SetStackDepthLimit(6); %s.SetStackTraceLimit(1); %s.SetRandomSource(0.75); %s.SetDebuggerHandler(nil); ", c.after, c.after, c.after, c.after)
	}
	s += side + ".Run(probe)\nprobe:\n"
	if c.defs == "postdef" {
		s += cfgDefsSrc
	}
	return s + c.probe.Src + "\ndefs:" + cfgDefsSrc
}

func runConfig(r *engine.Run) {
	rep := reporter{r}
	r.Bound("stack_depth_limits", fmt.Sprint(cfgDepths))
	r.Bound("stack_trace_limits", fmt.Sprint(cfgTraces))
	r.Bound("random_sources", fmt.Sprint(cfgRandom))
	r.Bound("debugger_handlers", fmt.Sprint(cfgDebug))
	r.Bound("probe_functions_defined", fmt.Sprint(cfgDefs))
	r.Bound("reconfigured_after_copy", fmt.Sprint(cfgAfter))
	r.Bound("probes", fmt.Sprint(len(cfgProbes)))
	for _, depth := range cfgDepths {
		for _, trace := range cfgTraces {
			for _, random := range cfgRandom {
				for _, dbg := range cfgDebug {
					for _, defs := range cfgDefs {
						for _, after := range cfgAfter {
							for _, probe := range cfgProbes {
								c := cfgCase{depth, trace, random, dbg, defs, after, probe}
								key := c.key()
								if r.Expired() {
									r.Cap("time budget reached")
									return
								}
								if r.ReplayKey != "" {
									if !selected(r, key) {
										continue
									}
								} else if !r.Mine() {
									continue
								}
								r.Begin(key)
								c.run(r, rep, key)
							}
						}
					}
				}
			}
		}
	}
}

func (c cfgCase) run(r *engine.Run, rep reporter, key string) {
	ended := false
	end := func() {
		if !ended {
			ended = true
			r.End()
		}
	}
	defer end()
	rlog, wlog := &dbgLog{}, &dbgLog{}
	ref, err := c.prepare(rlog)
	if err != nil {
		r.HarnessError(key + ": " + err.Error())
		return
	}
	o, err := c.prepare(wlog)
	if err != nil {
		r.HarnessError(key + ": " + err.Error())
		return
	}
	w := &world{O: o}
	var pv, st string
	if w.C, pv, st = guardedCopy(o); w.C == nil {
		w.failed = "O.Copy()"
	} else if w.C2, pv, st = guardedCopy(w.C); w.C2 == nil {
		w.failed = "C.Copy()"
	}
	if w.failed != "" {
		end()
		r.Eval(true)
		rep.file(engine.Mismatch{Key: key + "#copy", Input: c.input(w.failed), Expected: "Copy returns", Observed: "Copy panicked: " + pv,
			Aux: map[string]string{"stack": trimStack(st), "what": w.failed}})
		return
	}
	if c.after != "none" {
		reconfigure(w.side(c.after))
	}
	exp := c.observe(ref, rlog)
	obs := map[string]string{}
	for _, s := range sides {
		if s == c.after {
			continue
		}
		obs[s] = c.observe(w.side(s), wlog)
	}
	end()
	// non-trivial: the probe's result on R differs from its result under the default
	// configuration, or the configuration is the default one (the case that pins it).
	def := cfgCase{-1, -1, "unset", "unset", c.defs, "none", c.probe}
	isDefault := c.depth < 0 && c.trace < 0 && c.random == "unset" && c.debug == "unset"
	nontrivial := isDefault
	if !isDefault {
		dlog := &dbgLog{}
		if dvm, err := def.prepare(dlog); err == nil {
			nontrivial = def.observe(dvm, dlog) != exp
		}
	}
	r.Eval(nontrivial)
	r.Tree(1, int64(len(obs)))
	r.Outcome(c.probe.Name + ": " + exp)
	if r.WantSample() && nontrivial {
		r.Sample(fmt.Sprintf("%s: every side => %.120q", key, exp))
	}
	for _, s := range sides {
		got, ok := obs[s]
		if !ok || (r.ReplayKey != "" && r.ReplayKey != key && r.ReplayKey != key+"#"+s) {
			continue
		}
		r.Check(key+"#"+s, c.input(s), exp, got)
	}
}
