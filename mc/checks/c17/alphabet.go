package c17

import (
	"github.com/robertkrimen/otto"
)

// ingredient is one heap-building program of a setup history H. Every ingredient
// uses global names with its own prefix, so any subset composes; each registers
// read-only probes (closures whose results expose state that is not reachable
// through properties: captured variables, bound targets, environment records).
type ingredient struct {
	Name string
	Src  string
	// Go runs before Src on the runtime (bridged values).
	Go func(vm *otto.Otto)
	// Solo ingredients (rebound global special bindings, bridged Go containers and
	// functions) are explored alone in the quick tier and alone or paired with one
	// non-Solo ingredient in the thorough tier; a history never holds two of them.
	Solo bool
}

// BridgedT is the bridged Go struct of ingredient "bridged". The original and its
// copies share the Go value by design (documented otto behaviour); the replayed
// runtime gets its own instance. No mutation touches it.
type BridgedT struct {
	N int
	S string
}

var ingredients = []ingredient{
	{Name: "ctr", Src: `
var ctr = (function () { var n = 0; return { inc: function () { return ++n; }, peek: function () { return n; } }; })();
ctr.inc(); ctr.inc();
__probe("ctr.peek", function () { return ctr.peek(); });`},

	{Name: "shared", Src: `
var shGet, shSet;
(function () { var v = "a"; shGet = function () { return v; }; shSet = function (x) { v = x; }; })();
shSet("b");
__probe("shared.get", function () { return shGet(); });`},

	{Name: "catchp", Src: `
var cpGet, cpSet, cpOut, cpMark = "g";
try { throw { k: 1 }; } catch (e) { cpGet = function () { return e; }; cpSet = function (x) { e = x; }; cpOut = function () { return cpMark + typeof e; }; }
__probe("catchp.get", function () { return cpGet(); });
__probe("catchp.outer", function () { return cpOut(); });`},

	{Name: "withc", Src: `
var wcO = { w: 1, other: "o" }, wcGet, wcSet, wcOut, wcMark = "g";
with (wcO) { wcGet = function () { return w; }; wcSet = function (x) { w = x; }; wcOut = function () { return wcMark + other; }; }
var wsShared = { v: 1 };
function wsMk(tag) { with (wsShared) { return function () { return tag + ":" + v; }; } }
var wsF1 = wsMk("one"), wsF2 = wsMk("two");
function wsA() { var who = "A"; with (wsShared) { return function () { return who + v; }; } }
function wsB() { var who = "B"; with (wsShared) { return function () { return who + v; }; } }
var wsFA = wsA(), wsFB = wsB();
var wsO1 = { d: "d1" }, wsO2 = { d: "d2" };
var wsDual = (function () {
  var outer = "o", a, b;
  with (wsO1) { a = function () { return outer + d; }; }
  with (wsO2) { b = function () { return outer + d; }; }
  return { a: a, b: b, set: function (x) { outer = x; } };
})();
function wsAll() { return [wsF1(), wsF2(), wsFA(), wsFB(), wsDual.a(), wsDual.b()].join(); }
__probe("withc.get", function () { return wcGet(); });
__probe("withc.outer", function () { return wcOut(); });
__probe("withc.shared", function () { return wsAll(); });`},

	{Name: "nfe", Src: `
var nfe = function fact(n) { return n <= 1 ? 1 : n * fact(n - 1); };
var nfeKill = function k() { var t = typeof k; k = 7; return t + "/" + typeof k; };
__probe("nfe.fact", function () { return nfe(4); });
__probe("nfe.self", function () { return (function me() { return typeof me; })(); });`},

	{Name: "argsparam", Src: `
var apF = (function (arguments) { return function () { return arguments; }; })(42);
__probe("argsparam.get", function () { return apF(); });`},

	{Name: "escargs", Src: `
var ea = (function (a, b, c) {
  delete arguments[1];
  return { args: arguments, get: function () { return [a, b, c].join(); }, set: function (x, y) { a = x; b = y; } };
})(1, 2, 3, 4);
__probe("escargs.formals", function () { return ea.get(); });
__probe("escargs.args", function () { return [ea.args[0], ea.args[1], ea.args[2], ea.args[3], ea.args.length].join(); });`},

	{Name: "proto2", Src: `
function PA() {} PA.prototype.x = "a"; PA.prototype.y = "ay";
function PB() {} PB.prototype = Object.create(PA.prototype); PB.prototype.x = "b"; PB.prototype.constructor = PB;
var pc = new PB(); pc.z = 1;
__probe("proto2.lookup", function () { return [pc.x, pc.y, pc.z, pc instanceof PA, new PB().x].join(); });`},

	// accessor: getter+setter closing over state, plus every degenerate accessor shape:
	// setter-only and getter-only (literal and defineProperty), both halves undefined, a
	// get+set pair whose getter was later removed, accessors on a prototype, on an array
	// index, on an arguments index and (setter-only) on the global object.
	{Name: "accessor", Src: `
var acc = (function () {
  var s = 1, o = {};
  Object.defineProperty(o, "p", { get: function () { return s; }, set: function (v) { s = v * 2; }, enumerable: true, configurable: true });
  return o;
})();
acc.p = 2;
var asLog = [];
function asPut(tag) { return function (v) { asLog[asLog.length] = tag + ":" + v; }; }
var asLit = { set x(v) { asLog[asLog.length] = "lit:" + v; }, get y() { return "gy"; } };
var asDef = {};
Object.defineProperty(asDef, "so", { set: asPut("so"), configurable: true, enumerable: true });
Object.defineProperty(asDef, "go", { get: function () { return "go" + asLog.length; }, configurable: true });
Object.defineProperty(asDef, "none", { get: undefined, set: undefined, configurable: true });
Object.defineProperty(asDef, "gs", { get: function () { return "gs"; }, set: asPut("gs"), configurable: true });
Object.defineProperty(asDef, "gs", { get: undefined });
function AsP() {}
Object.defineProperty(AsP.prototype, "inh", { set: asPut("inh"), configurable: true });
Object.defineProperty(AsP.prototype, "ro", { get: function () { return "ro"; } });
var asI = new AsP();
var asArr = [1, 2]; Object.defineProperty(asArr, "1", { set: asPut("arr"), configurable: true, enumerable: true });
var asArgs = (function (a, b) { Object.defineProperty(arguments, "0", { set: asPut("args"), configurable: true }); return arguments; })(1, 2);
Object.defineProperty(this, "asG", { set: asPut("g"), configurable: true });
asLit.x = 1; asDef.so = 2;
__probe("accessor.p", function () { return acc.p; });
__probe("accessor.log", function () { return asLog.join(); });
__probe("accessor.read", function () { return [asLit.x, asLit.y, asDef.so, asDef.go, asDef.none, asDef.gs, asI.inh, asI.ro, asArr[1], asArgs[0], asArgs[1], typeof asG].join(); });`},

	{Name: "attrs", Src: `
var at = {};
Object.defineProperty(at, "ne", { value: 1, writable: true, enumerable: false, configurable: true });
Object.defineProperty(at, "nw", { value: 2, writable: false, enumerable: true, configurable: true });
Object.defineProperty(at, "nc", { value: 3, writable: true, enumerable: true, configurable: false });
Object.defineProperty(at, "none", { value: 4 });
__probe("attrs.keys", function () { var k = []; for (var n in at) { k[k.length] = n; } return k.join(); });`},

	{Name: "frozen", Src: `
var fz = Object.freeze({ a: 1, b: { c: 2 } });
var fzLeaf = Object.freeze({ mode: "fast", retries: 3 }), fzArr = Object.freeze([10, 20, 30]);
var fzOne = Object.freeze({ only: null }), fzDef = Object.preventExtensions(Object.defineProperty({}, "k", { value: -0, enumerable: true }));
var fzSealedLeaf = Object.seal({ s: "s" }), fzNxLeaf = Object.preventExtensions([1]), fzEmpty = Object.freeze({}), fzEmptyArr = Object.freeze([]);
var fzHolder = { leaf: fzLeaf, arr: fzArr };
__probe("frozen.state", function () { return [Object.isFrozen(fz), fz.a, fz.b.c].join(); });
__probe("frozen.leaves", function () {
  return [fzLeaf instanceof Object, fzArr instanceof Array, Object.getPrototypeOf(fzLeaf) === Object.prototype, Object.getPrototypeOf(fzArr) === Array.prototype,
    fzOne instanceof Object, fzDef instanceof Object, fzSealedLeaf instanceof Object, fzNxLeaf instanceof Array, fzEmpty instanceof Object, fzEmptyArr instanceof Array,
    fzArr.join("-"), Object.keys(fzLeaf).join(), JSON.stringify(fzLeaf), fzHolder.leaf === fzLeaf, typeof fzLeaf.hasOwnProperty, typeof fzArr.push].join();
});`},

	{Name: "sealed", Src: `
var sl = Object.seal({ a: 1 });
__probe("sealed.state", function () { return [Object.isSealed(sl), Object.isFrozen(sl), sl.a].join(); });`},

	{Name: "nonext", Src: `
var nx = Object.preventExtensions({ a: 1 });
__probe("nonext.state", function () { return [Object.isExtensible(nx), nx.a].join(); });`},

	{Name: "order", Src: `
var po = { a: 1, b: 2, c: 3 }; delete po.a; po.a = 4; po.d = 5; delete po.c;
__probe("order.forin", function () { var k = []; for (var n in po) { k[k.length] = n; } return k.join(); });
__probe("order.keys", function () { return Object.keys(po).join(); });`},

	{Name: "bound", Src: `
var bT = { name: "T" }, bA = { name: "A" };
var bF = function (x, y) { return [this === bT, x === bA, this.name, x && x.name, y].join(); };
var bB = bF.bind(bT, bA);
var bThis = function () { return this; }.bind(bT);
var bArg = function (x) { return x; }.bind(null, bA);
__probe("bound.call", function () { return bB(7); });
__probe("bound.this", function () { return bThis(); });
__probe("bound.arg", function () { return bArg(); });
__probe("bound.new", function () { return typeof new bB(1); });`},

	{Name: "bound2", Src: `
var b2T = { n: 1 }, b2U = { n: 2 };
var b2F = function (a, b, c) { return [this.n, a, b, c].join(); };
var b2A = b2F.bind(b2T, "p");
var b2B = b2A.bind(b2U, "q");
__probe("bound2.call", function () { return b2B("r") + "|" + b2A("s", "t"); });`},

	{Name: "holes", Src: `
var ah = [1, , 3]; ah[5] = 6;
var al = [1, 2, 3]; Object.defineProperty(al, "length", { writable: false });
__probe("holes.state", function () { return [ah.length, 1 in ah, ah.join("-"), al.length].join(); });`},

	{Name: "date", Src: `
var dt = new Date(86400000); dt.tag = 1;
__probe("date.iso", function () { return dt.toISOString(); });`},

	{Name: "regexp", Src: `
var re = /a(b)?/g; re.exec("xxab ab");
var re2 = new RegExp("x+", "i"); re2.lastIndex = 3;
__probe("regexp.state", function () { return [String(re), re.lastIndex, re.global, String(re2), re2.lastIndex].join(); });`},

	{Name: "error", Src: `
var er = (function mk() { try { null.x; } catch (e) { return e; } })();
var er2 = (function mk2() { return (function inner() { return new RangeError("boom"); })(); })();
var er3 = new Error("top");
__probe("error.str", function () { return [String(er), String(er2), er2.name, er2.message, er3.message].join(); });
__probe("error.stack", function () { return [er.stack, er2.stack, er3.stack].join("|"); });`},

	{Name: "wrappers", Src: `
var ws = new String("hé"), wa = new String("abc"), wn = new Number(-0), wb = new Boolean(false);
var wsur = "\uD834" + "a", wso = new String("x" + String.fromCharCode(0xDC00));
ws.extra = 1;
__probe("wrappers.state", function () { return [ws.length, ws.charCodeAt(1), ws[1], wa[2], 1 / wn, wb ? 1 : 0, wb.valueOf(), wsur.length, wsur.charCodeAt(0), wso.length, wso.charCodeAt(1)].join(); });`},

	{Name: "nullproto", Src: `
var np = Object.create(null); np.a = 1; np.toString = function () { return "np" + this.a; };
__probe("nullproto.state", function () { return [Object.getPrototypeOf(np) === null, String(np), "hasOwnProperty" in np].join(); });`},

	{Name: "cyclic", Src: `
var cy = { name: "cy" }; cy.self = cy; cy.arr = [cy, { back: cy }]; cy.arr[1].arr = cy.arr;
__probe("cyclic.state", function () { return [cy.self.self === cy, cy.arr[0] === cy, cy.arr[1].back === cy, cy.arr[1].arr === cy.arr].join(); });`},

	{Name: "gget", Src: `
(function (g) {
  var hits = 0;
  Object.defineProperty(g, "gg", { get: function () { return ++hits; }, set: function (v) { hits = v * 10; }, configurable: true, enumerable: false });
  __probe("gget.hits", function () { return hits; });
})(this);
gg;`},

	{Name: "patched", Src: `
Array.prototype.extra = function () { return "extra" + this.length; };
Object.prototype.toString = function () { return "patched"; };
delete String.prototype.trim;
__probe("patched.state", function () { return [[1, 2].extra(), String({}), typeof "".trim, "" + {}].join(); });`},

	{Name: "globals", Src: `
var gv = 1; gi = 2; eval("var ge = 3");
__probe("globals.state", function () { return [typeof gv, typeof gi, typeof ge].join() + ":" + [typeof gv === "undefined" ? "-" : gv, typeof gi === "undefined" ? "-" : gi, typeof ge === "undefined" ? "-" : ge].join(); });`},

	{Name: "caller", Src: `
function clF() { return clF.caller === clG; }
function clG() { return clF(); }
function clH() { return clF.caller; }
__probe("caller.inner", function () { return clG(); });
__probe("caller.rest", function () { return clH(); });`},

	{Name: "newfn", Src: `
var nfO = "!";
var nfF = new Function("a", "b", "return a + b + nfO");
function nfCtor(v) { this.v = v; } nfCtor.prototype.get = function () { return this.v; }; nfCtor.stat = { s: 1 };
var nfI = new nfCtor(5);
__probe("newfn.state", function () { return [nfF(1, 2), nfI.get(), nfI.constructor === nfCtor, nfCtor.stat.s].join(); });`},

	{Name: "bridged", Go: func(vm *otto.Otto) { vm.Set("gs", &BridgedT{N: 7, S: "go"}) }, Src: `
var gsHolder = { ref: gs };
__probe("bridged.read", function () { return [gs.N, gs.S, gsHolder.ref === gs].join(); });`},

	// bindings: every kind of declarative binding otto can create, captured by closures, so
	// that the binding ATTRIBUTES (deletable, mutable, initialised) are part of the heap:
	// eval-declared var/function in a function scope, a nested function, a catch scope and a
	// with block inside a function (deletable); ordinary var / function / parameter /
	// uninitialised var (not deletable); named-function-expression self names (immutable);
	// catch parameters; bindings deleted (and re-declared) before the copy; eval inside a
	// program-level catch. Each scope exposes static delete/typeof/assign closures and a
	// direct-eval closure; the attributes are exercised by the bindings.* mutations
	// (differential against the replayed runtime).
	{Name: "bindings", Src: `
function bnMk(p, q) {
  var nv = 1, un;
  function nf() {}
  eval("var ev1 = 1; function ef1() { return 'ef1'; } var evGone = 2; var evBack = 3;");
  delete evGone; delete evBack; eval("var evBack = 4");
  return {
    ev: function (s) { return eval(s); },
    del: function () { return [delete ev1, delete ef1, delete nv, delete nf, delete p, delete q, delete un, delete evBack, delete evGone].join(); },
    get: function () { return [typeof ev1, typeof ef1, typeof nv, typeof nf, typeof p, typeof q, typeof un, typeof evGone, typeof evBack].join(); },
    set: function () { ev1 = "s1"; ef1 = "s2"; nv = "s3"; nf = "s4"; p = "s5"; un = "s6"; evBack = "s7"; return [ev1, ef1, nv, nf, p, un, evBack].join(); }
  };
}
var bnFn = bnMk(10);
var bnNest = (function outer(a) {
  var ov = 1;
  return (function inner(b) {
    eval("var iv = 1; function ifn() {}");
    return {
      ev: function (s) { return eval(s); },
      del: function () { return [delete iv, delete ifn, delete ov, delete a, delete b, delete inner, delete outer].join(); },
      get: function () { return [typeof iv, typeof ifn, typeof ov, typeof a, typeof b, typeof inner, typeof outer].join(); },
      set: function () { inner = 1; outer = 2; iv = 3; ov = 4; a = 5; return [typeof inner, typeof outer, iv, ov, a].join(); }
    };
  })(2);
})(1);
var bnCatch = (function () {
  try { throw "thrown"; } catch (ce) {
    eval("var cv = 1; function cf() {}");
    return {
      ev: function (s) { return eval(s); },
      del: function () { return [delete ce, delete cv, delete cf].join(); },
      get: function () { return [typeof ce, typeof cv, typeof cf].join(); },
      set: function () { ce = "c1"; cv = "c2"; return [ce, cv].join(); }
    };
  }
})();
var bnWithO = { wx: 1 };
var bnWith = (function () {
  with (bnWithO) {
    eval("var wv = 1; var wx = 2; function wf() {}");
    return {
      ev: function (s) { return eval(s); },
      del: function () { return [delete wv, delete wf, delete wx, delete wx].join(); },
      get: function () { return [typeof wv, typeof wx, typeof wf, bnWithO.wx].join(); },
      set: function () { wv = "w1"; wx = "w2"; return [wv, wx, bnWithO.wx].join(); }
    };
  }
})();
var bnG;
try { throw "g"; } catch (gce) {
  eval("var gcv = 1; function gcf() {}");
  bnG = {
    ev: function (s) { return eval(s); },
    del: function () { return [delete gce, delete gcv, delete gcf].join(); },
    get: function () { return [typeof gce, typeof gcv, typeof gcf].join(); }
  };
}
__probe("bindings.types", function () { return [bnFn.get(), bnNest.get(), bnCatch.get(), bnWith.get(), bnG.get()].join("|"); });
__probe("bindings.values", function () { return [bnFn.ev("[ev1, ef1(), nv, p, q, un, evBack].join()"), bnNest.ev("[iv, ov, a, b].join()"), bnCatch.ev("[ce, cv].join()"), bnWith.ev("[wv, wx].join()"), bnG.ev("[gce, gcv].join()")].join("|"); });`},

	// degenerate: data properties holding every kind of value, and the empty / minimal
	// instance of every container kind (object, array, function, holes-only array, object
	// whose only property is non-enumerable, environment record with zero bindings, bound
	// function with zero bound arguments, arguments object with zero actuals).
	{Name: "degenerate", Src: `
var vk = { u: undefined, n: null, nan: NaN, nz: -0, es: "", t: true, f: false, inf: -Infinity, big: 1e21, str: "s",
  fn: function () {}, bfn: function () { return this; }.bind(null), arr: [], arr2: [undefined, null, NaN, -0, ""],
  date: new Date(NaN), re: new RegExp(""), err: new Error(), so: new String(""), no: new Number(NaN), bo: new Boolean(true), obj: {} };
var vkArr = [undefined, null, NaN, -0, "", function () {}, [], {}];
var emO = {}, emA = [], emF = function () {}, emN = new Array(3), emNullP = Object.create(null);
var emNE = Object.defineProperty({}, "hidden", { value: 1, enumerable: false, writable: true, configurable: true });
var emWith; with ({}) { emWith = function () { return typeof emZ; }; }
var emB0 = function (a) { return [this === emO, a].join(); }.bind(emO);
var emArgs0 = (function () { return arguments; })();
var emArgsF = (function (a, b) { return { args: arguments, get: function () { return [a, b].join("|"); } }; })();
__probe("degenerate.values", function () {
  return [typeof vk.u, "u" in vk, vk.n === null, vk.nan !== vk.nan, 1 / vk.nz, vk.es.length, vk.t, vk.f, vk.inf, vk.big, typeof vk.fn(), typeof vk.bfn(),
    vk.arr.length, vk.arr2.length, 1 / vk.arr2[3], 0 in vk.arr2, vk.date.getTime() !== vk.date.getTime(), String(vk.re), vk.err.message === "", vk.so.length,
    vk.no.valueOf() !== vk.no.valueOf(), vk.bo.valueOf(), vkArr.length, 0 in vkArr, 1 / vkArr[3]].join();
});
__probe("degenerate.empties", function () {
  var k = []; for (var n in emNE) { k[k.length] = n; }
  return [Object.keys(emO).length, emA.length, emF.length, emN.length, 0 in emN, k.length, emNE.hidden, emWith(), emB0(5), emArgs0.length, 0 in emArgs0,
    emArgsF.args.length, emArgsF.get(), Object.getPrototypeOf(emNullP) === null].join();
});`},

	// ---- Solo ingredients -------------------------------------------------------------
	// Global special bindings rebound / deleted / turned into accessors before Copy.
	{Name: "evalrebound", Solo: true, Src: `
var erE = eval; eval = parseInt;
__probe("evalrebound.direct", function () { return (function () { var y = 2; try { return String(eval("y")); } catch (e) { return "E:" + e.name; } })(); });
__probe("evalrebound.saved", function () { return (function () { var y = 2; try { return String(erE("typeof y")); } catch (e) { return "E:" + e.name; } })(); });`},

	{Name: "evaluser", Solo: true, Src: `
var euE = eval; eval = function (s) { return "mine:" + s; };
__probe("evaluser.direct", function () { return (function () { var y = 2; try { return String(eval("y")); } catch (e) { return "E:" + e.name; } })(); });`},

	{Name: "evalnum", Solo: true, Src: `
var enE = eval; eval = 1;
__probe("evalnum.state", function () { return [typeof eval, typeof enE, enE("1+1")].join(); });`},

	{Name: "evaldel", Solo: true, Src: `
var edE = eval; var edR = delete eval;
__probe("evaldel.state", function () { return [edR, typeof eval, typeof edE, edE("1+1")].join(); });`},

	{Name: "evalacc", Solo: true, Src: `
var eaE = eval;
Object.defineProperty(this, "eval", { get: function () { return eaE; }, configurable: true });
__probe("evalacc.direct", function () { return (function () { var y = 2; try { return String(eval("y")); } catch (e) { return "E:" + e.name; } })(); });`},

	{Name: "specials", Solo: true, Src: `
var spSaved = { F: Function, A: Array, O: Object, c: console };
Function = function () { return "F2"; };
Array = function () { return "A2"; };
Object = (function () {
  function O2(v) { return spSaved.O(v); }
  var ns = spSaved.O.getOwnPropertyNames(spSaved.O), skip = { prototype: 1, length: 1, name: 1, caller: 1, arguments: 1 };
  for (var i = 0; i < ns.length; i++) { if (!skip[ns[i]]) { O2[ns[i]] = spSaved.O[ns[i]]; } }
  O2.prototype = spSaved.O.prototype;
  return O2;
})();
console = { log: "nolog" };
undefined = 1; NaN = 2; Infinity = 3;
var spTry = [typeof undefined, NaN !== NaN, 1 / Infinity].join("/");
__probe("specials.state", function () {
  return [Function(), Array(), typeof Object.keys, Object.keys({ k: 1 }).join(), typeof console.log, typeof undefined, NaN !== NaN, 1 / Infinity,
    [].constructor === spSaved.A, (function () {}).constructor === spSaved.F, ({}).constructor === spSaved.O, spTry].join();
});`},

	// kinds: one object of every object-creating construct, made by a factory BEFORE the
	// copy. The mutations run the factory again AFTER the copy and relate the new objects
	// to the old ones (kiRelate: which prototypes, constructor links, own accessor functions
	// and object-valued own properties are the very same object). On a replayed runtime both
	// generations come from one runtime; on a copy the old generation was cloned and the new
	// one is native to the copy, so any lazily initialised per-runtime singleton or intrinsic
	// that Copy() forgets shows up as a differing relation.
	{Name: "kinds", Solo: true, Src: `
function kiDecl(a) { return a; }
function kiMake() {
  var target = function (a, b) { return [this, a, b]; };
  var thrown; try { null.x; } catch (e) { thrown = e; }
  return {
    fexpr: function (x) { return x; }, decl: kiDecl, newfn: new Function("a", "return a"),
    bound: target.bind(null), boundargs: target.bind({}, 1, 2), boundnative: Math.max.bind(null, 1), boundbound: target.bind(null).bind(null, 1),
    relit: /a+/g, renew: new RegExp("b", "i"), err: new Error("e"), terr: new TypeError("t"), thrown: thrown,
    arr: [1, 2], obj: { k: 1 }, args: (function () { return arguments; })(1), created: Object.create(kiDecl.prototype), nullp: Object.create(null),
    getset: { get p() { return 1; }, set p(v) {} }, date: new Date(0), str: new String("s"), num: new Number(1), bool: new Boolean(true),
    split: "a,b".split(","), parsed: JSON.parse('{"j":[1]}'), desc: Object.getOwnPropertyDescriptor({ d: 1 }, "d"), keys: Object.keys({ a: 1 }),
    match: /(x)/.exec("x"), instance: new kiDecl(1)
  };
}
function kiSame(a, b) {
  var out = [], gopd = Object.getOwnPropertyDescriptor, names = Object.getOwnPropertyNames(a), i, n, da, db;
  function isObj(v) { return v !== null && (typeof v === "object" || typeof v === "function"); }
  out[out.length] = "proto" + (Object.getPrototypeOf(a) === Object.getPrototypeOf(b) ? "=" : "!");
  if (Object.getPrototypeOf(a) !== null) { out[out.length] = "ctor" + (a.constructor === b.constructor ? "=" : "!"); }
  for (i = 0; i < names.length; i++) {
    n = names[i]; da = gopd(a, n); db = gopd(b, n);
    if (!da || !db) { out[out.length] = n + "?"; continue; }
    if ("value" in da) { if (isObj(da.value)) { out[out.length] = n + (da.value === db.value ? "=" : "!"); } }
    else {
      if (da.get !== undefined) { out[out.length] = n + ".get" + (da.get === db.get ? "=" : "!"); }
      if (da.set !== undefined) { out[out.length] = n + ".set" + (da.set === db.set ? "=" : "!"); }
    }
  }
  return out.join(" ");
}
function kiRelate(x, y) {
  var out = [], names = Object.getOwnPropertyNames(x);
  for (var i = 0; i < names.length; i++) { out[out.length] = names[i] + ": " + kiSame(x[names[i]], y[names[i]]); }
  return out.join("; ");
}
var kiPre = kiMake(), kiPre2 = kiMake();
__probe("kinds.pre", function () { return kiRelate(kiPre, kiPre2); });`},

	// withnest: one object backing two NESTED with environments, and the global object
	// backing with environments (it already backs the global environment record) — its
	// own Solo ingredient: a
	// cloner that confuses the two records builds a cyclic scope chain, and resolving an
	// identifier through it is a fatal Go stack overflow, reported as a worker crash).
	{Name: "withnest", Solo: true, Src: `
var wnShared = { v: 1 };
var wnNest = (function () {
  var lvl = "n0";
  with (wnShared) {
    var first = function () { return lvl + v; };
    return (function () { var lvl = "n1"; with (wnShared) { return [first, function () { return lvl + v; }]; } })();
  }
})();
var wnGlob = (function () { var loc = "L"; with (this) { return function () { return loc + typeof wnShared; }; } }).call(this);
var wnGlob2; with (this) { wnGlob2 = function () { return typeof parseInt + typeof wnShared; }; }
__probe("withnest.read", function () { return [wnNest[0](), wnNest[1](), wnGlob(), wnGlob2()].join(); });`},

	// reentrant: bound functions with several bound arguments, called re-entrantly from a
	// conversion of one of their own arguments (the bound-argument list of a copy is
	// reallocated by the cloner, so capacity-dependent aliasing differs from the replay).
	{Name: "reentrant", Solo: true, Src: `
var reG = Math.max.bind(null, 1, 2, 3, 4);
var reF = function () { return Array.prototype.slice.call(arguments).join(); }.bind(null, "a", "b");
var reC = String.prototype.concat.bind("r", "p", "q");
__probe("reentrant.plain", function () { return [reG(0), reF("c"), reC("z")].join("|"); });`},

	// Bridged Go values of the remaining kinds. The Go value itself (backing array, map) is
	// necessarily common to the original and its copies; everything otto owns about it is
	// not: the wrapper object's own properties and runtime, the slice length otto keeps for
	// a slice handed over by value, and the heap in which a bridged Go function builds its
	// results and errors. Mutations never write elements through the bridge.
	{Name: "goslice", Solo: true, Go: func(vm *otto.Otto) { vm.Set("gsl", []int{1, 2, 3}) }, Src: `
var gslHolder = { ref: gsl };
__probe("goslice.read", function () { return [gsl.length, gsl[0], gsl[2], gslHolder.ref === gsl, Object.getPrototypeOf(gsl) === Array.prototype].join(); });`},

	{Name: "gomap", Solo: true, Go: func(vm *otto.Otto) { vm.Set("gm", map[string]int{"a": 1}) }, Src: `
var gmHolder = { ref: gm };
__probe("gomap.read", function () { return [gm.a, typeof gm.zz, gmHolder.ref === gm, Object.getPrototypeOf(gm) === Object.prototype].join(); });`},

	{Name: "gofunc", Solo: true, Go: func(vm *otto.Otto) {
		vm.Set("gmk", func() []int { return []int{1, 2} })
		vm.Set("gmkm", func() map[string]int { return map[string]int{"a": 1} })
		vm.Set("gconv", func(n int) int { return n * 2 })
		vm.Set("geach", func(cb func(int) int) int { return cb(1) + cb(2) })
	}, Src: `
__probe("gofunc.results", function () { return [Object.getPrototypeOf(gmk()) === Array.prototype, gmk() instanceof Array, Object.getPrototypeOf(gmkm()) === Object.prototype, gmk().join("-"), gconv(4)].join(); });
__probe("gofunc.callback", function () { return geach(function (x) { return x * 3; }); });
__probe("gofunc.error", function () { try { gconv({}); return "no error"; } catch (e) { return [e instanceof TypeError, e instanceof Error, Object.getPrototypeOf(e) === TypeError.prototype].join(); } });`},
}

// mutation is one mutation program M. Needs names the ingredient whose heap it
// mutates ("" = applicable to every history: built-ins and fresh globals).
type mutation struct {
	Name  string
	Needs string
	Src   string
}

var mutations = []mutation{
	// generic: every history
	{Name: "g.newglobal", Src: `var mNew = { a: [1, 2] }; mNew.a.push(3); mNew.a.length`},
	{Name: "g.patchmath", Src: `Math.max = function () { return "patched"; }; Math.max(1, 2)`},
	{Name: "g.protoinject", Src: `Object.prototype.injected = { deep: 1 }; ({}).injected.deep`},
	{Name: "g.deleteglobal", Src: `delete this.parseInt && delete String.prototype.charAt && typeof parseInt`},
	{Name: "g.definebuiltin", Src: `Object.defineProperty(Array.prototype, "first", { get: function () { return this[0]; }, configurable: true }); [9].first`},
	{Name: "g.freezebuiltin", Src: `Object.freeze(Number.prototype); Number.prototype.zz = 1; typeof Number.prototype.zz`},

	{Name: "ctr.inc", Needs: "ctr", Src: `ctr.inc()`},
	{Name: "ctr.replace", Needs: "ctr", Src: `ctr.peek = function () { return -1; }; ctr.peek()`},
	{Name: "shared.set", Needs: "shared", Src: `shSet("m"); shGet()`},
	{Name: "catchp.set", Needs: "catchp", Src: `cpSet(5); cpGet()`},
	{Name: "catchp.inner", Needs: "catchp", Src: `cpGet().k = 2; cpGet().k`},
	{Name: "catchp.outer", Needs: "catchp", Src: `cpMark = "m"; cpOut()`},
	{Name: "withc.set", Needs: "withc", Src: `wcSet(9); wcO.w`},
	{Name: "withc.delete", Needs: "withc", Src: `delete wcO.w`},
	{Name: "withc.sharedset", Needs: "withc", Src: `wsShared.v = 2; wsDual.set("p"); wsO1.d = "e1"; delete wsO2.d; wsAll()`},
	{Name: "withc.outer", Needs: "withc", Src: `wcMark = "m"; wcO.other = "p"; wcOut()`},
	{Name: "nfe.kill", Needs: "nfe", Src: `nfeKill()`},
	{Name: "nfe.prop", Needs: "nfe", Src: `nfe.tag = 1; nfe = null; typeof nfe`},
	{Name: "argsparam.drop", Needs: "argsparam", Src: `apF = null`},
	{Name: "escargs.write0", Needs: "escargs", Src: `ea.args[0] = "x"; ea.get()`},
	{Name: "escargs.write1", Needs: "escargs", Src: `ea.args[1] = "z"; ea.get()`},
	{Name: "escargs.formal", Needs: "escargs", Src: `ea.set("y", "w"); ea.args[0] + ea.args[1]`},
	{Name: "escargs.delete", Needs: "escargs", Src: `delete ea.args[2]; ea.args[2] = "n"; ea.get()`},
	{Name: "proto2.base", Needs: "proto2", Src: `PA.prototype.y = "m"; pc.y`},
	{Name: "proto2.unshadow", Needs: "proto2", Src: `delete PB.prototype.x; pc.x`},
	{Name: "proto2.swap", Needs: "proto2", Src: `PB.prototype = { x: "swapped" }; new PB().x + pc.x`},
	{Name: "accessor.set", Needs: "accessor", Src: `acc.p = 5; acc.p`},
	{Name: "accessor.redefine", Needs: "accessor", Src: `Object.defineProperty(acc, "p", { value: "data" }); acc.p`},
	{Name: "accessor.assignall", Needs: "accessor", Src: `asLit.x = "a"; asLit.y = "b"; asDef.so = "c"; asDef.go = "d"; asDef.none = "e"; asDef.gs = "f"; asI.inh = "g"; asI.ro = "r"; asArr[1] = "h"; asArgs[0] = "i"; asG = "j"; asLog.join()`},
	{Name: "accessor.reshape", Needs: "accessor", Src: `Object.defineProperty(asDef, "so", { get: function () { return 1; } }); Object.defineProperty(asDef, "none", { set: asPut("none") }); asDef.none = 1; delete asLit.x; Object.defineProperty(asDef, "go", { get: undefined }); [asDef.so, asDef.go, asLog.join()].join()`},
	{Name: "attrs.define", Needs: "attrs", Src: `Object.defineProperty(at, "ne", { enumerable: true }); at.nw = 9; delete at.nc; Object.keys(at).join()`},
	{Name: "attrs.delete", Needs: "attrs", Src: `delete at.nw; delete at.ne; Object.getOwnPropertyNames(at).join()`},
	{Name: "frozen.write", Needs: "frozen", Src: `fz.a = 2; fz.b.c = 3; fz.n = 1; [fz.a, fz.b.c, fz.n].join()`},
	{Name: "frozen.inherit", Needs: "frozen", Src: `Object.prototype.fzTag = 1; Array.prototype.fzM = function () { return "m" + this.length; }; delete Object.prototype.hasOwnProperty; [fzLeaf.fzTag, fzArr.fzTag, fzArr.fzM(), fzOne.fzTag, fzDef.fzTag, fzEmpty.fzTag, fzEmptyArr.fzM(), typeof fzLeaf.hasOwnProperty, fzNxLeaf.fzM()].join()`},
	{Name: "sealed.write", Needs: "sealed", Src: `sl.a = 2; delete sl.a; sl.n = 1; Object.freeze(sl); [sl.a, sl.n].join()`},
	{Name: "nonext.delete", Needs: "nonext", Src: `delete nx.a; nx.a = 1; nx.b = 2; [nx.a, nx.b].join()`},
	{Name: "order.readd", Needs: "order", Src: `delete po.b; po.b = 9; po.e = 1; Object.keys(po).join()`},
	{Name: "order.freeze", Needs: "order", Src: `Object.freeze(po); po.a = 0; po.a`},
	{Name: "bound.arg", Needs: "bound", Src: `bA.name = "A2"; bA.extra = {}; bB(1)`},
	{Name: "bound.this", Needs: "bound", Src: `bT.name = "T2"; delete bT.nope; bB(2)`},
	{Name: "bound.target", Needs: "bound", Src: `bF.prop = 1; bF = null; bB(3)`},
	{Name: "bound2.this", Needs: "bound2", Src: `b2T.n = 5; b2U.n = 6; b2B("z")`},
	{Name: "holes.push", Needs: "holes", Src: `ah.push(7); ah[1] = "fill"; ah.length`},
	{Name: "holes.cut", Needs: "holes", Src: `ah.length = 2; ah.length`},
	{Name: "holes.fixedlen", Needs: "holes", Src: `al.push(4)`},
	{Name: "date.settime", Needs: "date", Src: `dt.setTime(5)`},
	{Name: "date.setyear", Needs: "date", Src: `dt.setUTCFullYear(2001); dt.tag = 2; dt.getTime()`},
	{Name: "regexp.lastindex", Needs: "regexp", Src: `re.lastIndex = 1; re2.lastIndex = 0; re.lastIndex`},
	{Name: "regexp.exec", Needs: "regexp", Src: `re.exec("ab ab ab"); re.lastIndex`},
	{Name: "error.fields", Needs: "error", Src: `er.message = "changed"; er2.name = "X"; delete er3.message; String(er) + String(er2)`},
	{Name: "wrappers.props", Needs: "wrappers", Src: `ws.extra = 2; wn.k = 1; wb.k = wa; ws[0] = "z"; ws[0]`},
	{Name: "nullproto.edit", Needs: "nullproto", Src: `np.b = 2; delete np.a; String(np)`},
	{Name: "cyclic.cut", Needs: "cyclic", Src: `cy.arr[1].back = null; cy.self = 1; cy.arr.push(cy.arr); cy.arr.length`},
	{Name: "gget.read", Needs: "gget", Src: `gg + gg`},
	{Name: "gget.write", Needs: "gget", Src: `gg = 4; gg`},
	{Name: "gget.delete", Needs: "gget", Src: `delete gg; typeof gg`},
	{Name: "patched.repatch", Needs: "patched", Src: `Array.prototype.extra = 1; delete Object.prototype.toString; String.prototype.trim = function () { return "t"; }; " x ".trim()`},
	{Name: "globals.delete", Needs: "globals", Src: `[delete gv, delete gi, delete ge].join()`},
	{Name: "globals.assign", Needs: "globals", Src: `gv = 10; gi = 20; ge = 30; gv + gi + ge`},
	{Name: "caller.redefine", Needs: "caller", Src: `clG = function () { return "other"; }; clG()`},
	{Name: "newfn.edit", Needs: "newfn", Src: `nfO = "?"; nfCtor.prototype.get = function () { return -this.v; }; nfCtor.stat.s = 2; nfI.v = 6; nfF(1, 2) + nfI.get()`},
	{Name: "bindings.delete", Needs: "bindings", Src: `[bnFn.del(), bnFn.get(), bnNest.del(), bnNest.get(), bnCatch.del(), bnCatch.get(), bnWith.del(), bnWith.get(), bnG.del(), bnG.get()].join("|")`},
	{Name: "bindings.evdelete", Needs: "bindings", Src: `[bnFn.ev("[delete ev1, typeof ev1, delete ef1, typeof ef1, delete nv, delete p, delete arguments].join()"), bnNest.ev("[delete iv, typeof iv, delete ifn, delete inner, typeof inner].join()"), bnCatch.ev("[delete cv, typeof cv, delete cf, delete ce, typeof ce].join()"), bnWith.ev("[delete wf, typeof wf, delete wv, typeof wv].join()"), bnG.ev("[delete gcv, typeof gcv, delete gcf, delete gce].join()")].join("|")`},
	{Name: "bindings.assign", Needs: "bindings", Src: `[bnFn.set(), bnFn.get(), bnNest.set(), bnNest.get(), bnCatch.set(), bnCatch.get(), bnWith.set(), bnWith.get()].join("|")`},
	{Name: "bindings.redeclare", Needs: "bindings", Src: `[bnFn.ev("var late = 5; function lateF() {} [delete late, typeof late, delete lateF, typeof lateF].join()"), bnFn.ev("var ev1 = 'again'; var evGone = 'back'; [ev1, evGone, delete ev1, delete evGone].join()"), bnFn.get(), bnFn.del(), bnFn.ev("eval('var ev1 = 7'); [typeof ev1, delete ev1, typeof ev1].join()"), bnCatch.ev("var cv = 'r'; [cv, delete cv, typeof cv].join()"), bnCatch.get(), bnG.ev("var gcv = 'r'; eval('var gnew = 1'); [delete gcv, delete gnew, typeof gnew].join()"), bnG.get()].join("|")`},
	{Name: "degenerate.rewrite", Needs: "degenerate", Src: `vk.u = 0; vk.n = undefined; vk.nan = null; vk.nz = 0; vk.es = "x"; vkArr[3] = 0; vkArr[0] = -0; delete vk.f; vk.arr.push(undefined); vk.so.p = vk.no; 1 / vk.nz`},
	{Name: "degenerate.fill", Needs: "degenerate", Src: `emO.a = 1; emA.push(1); emF.p = 1; emNE.hidden = 2; emNE.vis = 1; emArgs0[0] = "z"; emArgsF.args[0] = "q"; emNullP.k = 1; emN[1] = 1; emZ = 0; [emB0(6), emArgsF.get(), emWith(), emArgs0.length].join()`},
	{Name: "degenerate.lock", Needs: "degenerate", Src: `Object.freeze(emO); Object.preventExtensions(emA); Object.seal(emNullP); emO.x = 1; emNullP.y = 1; [Object.isFrozen(emO), Object.isExtensible(emA), "x" in emO].join()`},
	{Name: "evalrebound.restore", Needs: "evalrebound", Src: `eval = erE; (function () { var y = 2; return eval("y"); })()`},
	{Name: "evalrebound.use", Needs: "evalrebound", Src: `[eval("12px"), (function () { var y = 3; return erE("typeof y"); })()].join()`},
	{Name: "evaluser.restore", Needs: "evaluser", Src: `eval = euE; (function () { var y = 2; return eval("y"); })()`},
	{Name: "evalnum.restore", Needs: "evalnum", Src: `eval = enE; (function () { var y = 2; return eval("y"); })()`},
	{Name: "evaldel.restore", Needs: "evaldel", Src: `eval = edE; (function () { var y = 2; return eval("y"); })()`},
	{Name: "evalacc.use", Needs: "evalacc", Src: `(function () { var y = 2; return eval("y"); })()`},
	{Name: "evalacc.restore", Needs: "evalacc", Src: `Object.defineProperty(this, "eval", { value: eaE, writable: true, configurable: true }); (function () { var y = 2; return eval("y"); })()`},
	{Name: "specials.restore", Needs: "specials", Src: `Function = spSaved.F; Array = spSaved.A; Object = spSaved.O; console = spSaved.c; [new Function("return 7")(), new Array(3).length, Object.keys({ a: 1 }).join(), typeof console.log].join()`},
	{Name: "specials.use", Needs: "specials", Src: `Array.prototype.viaNew = 1; [Function(), Array(1, 2), [] instanceof Array, [] instanceof spSaved.A, new spSaved.F("a", "return a + 1")(1), typeof [].viaNew, Object.keys(Object).length > 5].join()`},
	{Name: "withnest.set", Needs: "withnest", Src: `wnShared.v = 2; wnShared.lvl = "own"; var wnLate = 1; [wnNest[0](), wnNest[1](), wnGlob(), wnGlob2()].join()`},
	{Name: "kinds.relate", Needs: "kinds", Src: `var kiPost = kiMake(), kiPost2 = kiMake(); [kiRelate(kiPre, kiPost), kiRelate(kiPost, kiPost2)].join(" || ")`},
	{Name: "kinds.tag", Needs: "kinds", Src: `var kiT = kiMake(), kiOut = [], kiN = Object.getOwnPropertyNames(kiT); for (var kiI = 0; kiI < kiN.length; kiI++) { (function (o, p, n) { var po = Object.getPrototypeOf(o); if (po) { po["tag_" + n] = n; } kiOut[kiOut.length] = n + ":" + (po ? p["tag_" + n] : "-"); var d = Object.getOwnPropertyDescriptor(o, "caller"); if (d && d.get) { d.get.tagged = n; var e = Object.getOwnPropertyDescriptor(p, "caller"); kiOut[kiOut.length] = n + ".caller:" + (e && e.get ? e.get.tagged : "-"); } })(kiT[kiN[kiI]], kiPre[kiN[kiI]], kiN[kiI]); } kiOut.join()`},
	{Name: "reentrant.call", Needs: "reentrant", Src: `[reG({ valueOf: function () { reG(0, 99); return 0; } }, 5), reF({ toString: function () { reF("x", "y"); return "t"; } }, "u"), reC({ toString: function () { reC("m", "n"); return "k"; } }, "w")].join("|")`},
	{Name: "goslice.length", Needs: "goslice", Src: `gsl.length = 1; gsl.length`},
	{Name: "goslice.rebind", Needs: "goslice", Src: `gslHolder.ref = null; var gslN = gsl.length; gsl = undefined; gslN`},
	{Name: "gomap.rebind", Needs: "gomap", Src: `gmHolder.ref = null; var gmN = gm.a; gm = undefined; gmN`},
	{Name: "gofunc.leak", Needs: "gofunc", Src: `Object.defineProperty(Object.getPrototypeOf(gmk()), "leak", { value: "x", configurable: true }); Object.defineProperty(Object.getPrototypeOf(gmkm()), "leakm", { value: "y", configurable: true }); [typeof Array.prototype.leak, typeof Object.prototype.leakm].join()`},
	{Name: "gofunc.rebind", Needs: "gofunc", Src: `var gmkOld = gmk; gmk = function () { return [9]; }; [gmk().length, gmkOld().length, geach(function (x) { return x; })].join()`},
	{Name: "bridged.rebind", Needs: "bridged", Src: `gsHolder.ref = null; gs = 1; typeof gs`},
}
