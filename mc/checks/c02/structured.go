package c02

import (
	"encoding/base64"
	"fmt"
	"strings"

	"github.com/robertkrimen/otto"

	"verif/mc/engine"
	"verif/mc/ox"
)

// structured: built-ins whose arguments are small languages of their own. The
// surface families pass one value of each *kind*; here the argument itself is
// enumerated over a grammar: replacement templates x regexps with
// participating / non-participating / zero captures, split separators x
// limits, lastIndex values, RegExp sources built from pattern atoms (malformed
// ones included) x flags, JSON texts / replacers / gaps, Date strings, Function
// constructor parameter lists x bodies, digit counts, array lengths and
// array-likes with odd lengths, sort comparators returning odd values,
// apply / bind with array-likes, malformed percent-escapes. Every group is a
// full product of its alphabets; every case is one expression on a fresh
// Copy() of a pristine runtime. Oracle: the call returns, the result is
// usable, the runtime still answers (and can be copied).

type scaseS struct {
	Key     string
	Src     string
	Bridged string // bridged kind the source refers to, if any
	Copy    bool   // also Copy() the runtime afterwards
}

func lit(s string) string { return ox.JSLit(s) }

// structuredCases enumerates all cases of the family in a fixed order.
func structuredCases(thorough bool, emit func(c scaseS)) {
	group := func(name string, parts ...interface{}) string {
		s := make([]string, len(parts))
		for i, p := range parts {
			s[i] = fmt.Sprint(p)
		}
		return name + "/" + strings.Join(s, ".")
	}

	// ---- 1. String.prototype.replace: subject x search value x template
	subjects := []string{"ab", "abab", "", "xaby", "a😀b"}
	searches := []string{`/(x)?b/`, `/(a)|b/g`, `/b/`, `/(a)(b)/`, `/(a)(b)?/g`, `/()/g`, `/x/`, `"b"`, `/(?:a)(b)/`,
		`/(((((((((a)))))))))(b)/`, `/(((((((((a)))))))))(x)?/g`, `/$/`, `/^/g`, `/(x)?(y)?(a)?/g`, `/y(q)?(r)?/`}
	templates := []string{"$$", "$&", "$`", "$'", "$0", "$1", "$2", "$3", "$9", "$10", "$11", "$15", "$19", "$20", "$25", "$01", "$00", "$09",
		"$99", "$100", "$", "$a", "[$1$2]", "$&$&", "$1$`$'", "[$10]", "[$15]", "<$25>", "$$1", "$1$", "\\$1", "😀$1😀"}
	for si, s := range subjects {
		for pi, p := range searches {
			for ti, t := range templates {
				emit(scaseS{Key: group("replace", si, pi, ti), Src: fmt.Sprintf("%s.replace(%s, %s)", lit(s), p, lit(t))})
			}
		}
	}
	// replacer functions returning odd things
	replacers := []string{`function(){}`, `function(){ return {} }`, `function(m){ return "$1" }`, `function(){ throw new RangeError("r") }`,
		`function(){ return arguments.length }`, `function(m, a, b, c, d){ return [typeof a, typeof b, typeof c, typeof d].join() }`, `null`, `undefined`, `1`, `/b/`}
	for si, s := range subjects {
		for pi, p := range searches {
			for ri, f := range replacers {
				emit(scaseS{Key: group("replace-fn", si, pi, ri), Src: fmt.Sprintf("%s.replace(%s, %s)", lit(s), p, f)})
			}
		}
	}

	// ---- 2. split: subject x separator x limit
	seps := []string{`""`, `"b"`, `/b/`, `/(b)/`, `/(x)?b/`, `/()/`, `undefined`, `/$/`, `/(?:)/g`, `/a|(b)/`, `"ab"`, `/^/`, `null`, `/(a)(x)?/`}
	limits := []string{`undefined`, `0`, `1`, `2`, `-1`, `4294967296`, `4294967295`, `4294967297`, `NaN`, `1.5`, `"2"`, `Infinity`, `-Infinity`, `null`, `{}`}
	for si, s := range subjects {
		for pi, p := range seps {
			for li, l := range limits {
				emit(scaseS{Key: group("split", si, pi, li), Src: fmt.Sprintf("%s.split(%s, %s).length", lit(s), p, l)})
			}
		}
	}

	// ---- 3. lastIndex protocol: regexp x lastIndex x operation x subject
	regs := []string{`/b/g`, `/b/`, `/(x)?b/g`, `/$/g`, `/()/g`, `/😀/g`, `/a|(b)/gi`}
	lastIdx := []string{`0`, `1`, `2`, `5`, `-1`, `4294967296`, `NaN`, `"1"`, `1e21`, `1.5`, `Infinity`, `-Infinity`, `undefined`, `{}`, `{valueOf: function(){ throw new TypeError("v") }}`}
	ops := []string{`r.exec(s)`, `r.test(s)`, `s.match(r)`, `s.search(r)`, `s.replace(r, "[$&]")`, `s.split(r)`, `[r.exec(s), r.lastIndex, r.exec(s), r.lastIndex].join()`}
	for ri, re := range regs {
		for li, l := range lastIdx {
			for oi, op := range ops {
				for si, s := range subjects {
					emit(scaseS{Key: group("lastindex", ri, li, oi, si),
						Src: fmt.Sprintf("(function(){ var r = %s, s = %s; r.lastIndex = %s; var v = %s; return String(v) + r.lastIndex })()", re, lit(s), l, op)})
				}
			}
		}
	}

	// ---- 4. RegExp sources from pattern atoms x flags
	atoms := []string{"a", ".", `\d`, "[a-z]", "[^]", "[", "]", "(", ")", "(?:", "(?=a)", "(?!a)", `\1`, `\k`, `\u12`, `\x`, `\c`, "{", "}", "*", "+", "?",
		"{2}", "{2,1}", "{,}", "|", "^", "$", `\b`, `\0`, `\8`, "[z-a]", "(?<n>a)", `\p{L}`, `\`, "😀", "(a)", `\u{1F600}`, "(?<=a)", "[\\d-x]"}
	flagsQuick := []string{"", "g", "gim", "x", "gg"}
	flagsDeep := []string{"", "g"}
	reLen := 2
	if thorough {
		reLen = 3
	}
	na := len(atoms)
	for l := 1; l <= reLen; l++ {
		idx := make([]int, l)
		for {
			var sb strings.Builder
			ks := make([]string, l)
			for i, a := range idx {
				sb.WriteString(atoms[a])
				ks[i] = fmt.Sprint(a)
			}
			flags := flagsQuick
			if l == 3 {
				flags = flagsDeep
			}
			for fi, f := range flags {
				emit(scaseS{Key: "regexp/" + strings.Join(ks, ".") + "/" + fmt.Sprint(fi),
					Src: fmt.Sprintf(`(function(){ var r = new RegExp(%s, %s); return [r.source, r.exec("ab"), "aab".replace(r, "$1"), "ab".split(r).length, String(r)].join() })()`, lit(sb.String()), lit(f))})
			}
			i := l - 1
			for i >= 0 {
				idx[i]++
				if idx[i] < na {
					break
				}
				idx[i] = 0
				i--
			}
			if i < 0 {
				break
			}
		}
	}

	// ---- 5. JSON
	jtok := []string{"{", "}", "[", "]", ":", ",", `"a"`, "1", "-", "1e5", "true", "null", `"\u12"`, `"\`, "'a'", " ", "01", "1.", ".5", "NaN", `"\ud800"`, "\t", `"\x"`, "1e", "tru"}
	jLen := 3
	if thorough {
		jLen = 4
	}
	nj := len(jtok)
	revivers := []string{``, `, function(k, v){ return undefined }`, `, function(k, v){ if (k === "a") throw new RangeError("r"); return this }`}
	for l := 1; l <= jLen; l++ {
		idx := make([]int, l)
		for {
			var sb strings.Builder
			ks := make([]string, l)
			for i, a := range idx {
				sb.WriteString(jtok[a])
				ks[i] = fmt.Sprint(a)
			}
			for vi, rv := range revivers {
				if l == 4 && vi > 0 {
					continue
				}
				emit(scaseS{Key: "json-parse/" + strings.Join(ks, ".") + "/" + fmt.Sprint(vi), Src: fmt.Sprintf("JSON.stringify(JSON.parse(%s%s))", lit(sb.String()), rv)})
			}
			i := l - 1
			for i >= 0 {
				idx[i]++
				if idx[i] < nj {
					break
				}
				idx[i] = 0
				i--
			}
			if i < 0 {
				break
			}
		}
	}
	jvals := []string{`{a: 1, b: [1, {c: "x"}], d: undefined}`, `[1, , 3]`, `{toJSON: function(k){ return {k: k} }}`, `new Date(NaN)`, `new Date(0)`,
		`{a: new String("s"), b: new Number(1), c: new Boolean(false)}`, `"😀"`, `{get a(){ throw new TypeError("g") }}`, `function(){}`, `undefined`,
		`{a: NaN, b: Infinity, c: -0}`, `Object.create({inherited: 1})`, `(function(){ return arguments })(1, 2)`, `[[[[[1]]]]]`}
	jrepl := []string{`undefined`, `null`, `function(k, v){ return v }`, `function(k, v){ return undefined }`, `["a"]`, `[1, "a", {}, null, new String("b"), new Number(0), "a"]`,
		`[[]]`, `[,]`, `1`, `function(k, v){ throw new RangeError("r") }`, `function(k, v){ return k === "" ? v : this }`, `{length: 2, 0: "a", 1: "b"}`, `new Array(3)`}
	jspace := []string{`undefined`, `0`, `5`, `10`, `11`, `-1`, `1e21`, `4294967296`, `NaN`, `Infinity`, `-Infinity`, `1.5`, `""`, `"\t"`, `"abcdefghijkl"`,
		lit("😀😀😀😀😀😀😀😀😀😀😀😀"), `new Number(3)`, `new String("x")`, `{}`, `true`, `new Number(-1)`, `new Number(1e21)`}
	for vi, v := range jvals {
		for ri, rp := range jrepl {
			for gi, g := range jspace {
				emit(scaseS{Key: group("json-stringify", vi, ri, gi), Src: fmt.Sprintf("JSON.stringify(%s, %s, %s)", v, rp, g)})
			}
		}
	}

	// ---- 6. Date strings
	dparts := []string{"2000", "-", "01", "T", "00:00", "Z", "+01:00", "-000001", "+275760", "13", "32", "24:00", "60", ":", ".", "123", "1234567", " ", "GMT", "Jan",
		"1 Jan 2000", "", "-01-01", "T24:00:00", "+", "Mon, 01 Jan 2000 00:00:00", "(comment)", "😀", "2000-01-01T00:00:00.000", "1e21"}
	dLen := 2
	if thorough {
		dLen = 3
	}
	nd := len(dparts)
	for l := 1; l <= dLen; l++ {
		idx := make([]int, l)
		for {
			var sb strings.Builder
			ks := make([]string, l)
			for i, a := range idx {
				sb.WriteString(dparts[a])
				ks[i] = fmt.Sprint(a)
			}
			emit(scaseS{Key: "date/" + strings.Join(ks, "."),
				Src: fmt.Sprintf(`(function(){ var t = %s, d = new Date(t); var r = [Date.parse(t), d.getTime(), String(d), d.toUTCString(), d.getUTCFullYear()]; try { r.push(d.toISOString()) } catch (e) { r.push(e.name) } r.push(JSON.stringify(d)); return r.join() })()`, lit(sb.String()))})
			i := l - 1
			for i >= 0 {
				idx[i]++
				if idx[i] < nd {
					break
				}
				idx[i] = 0
				i--
			}
			if i < 0 {
				break
			}
		}
	}
	// Date from components and setters with odd numbers
	dnums := []string{`0`, `-1`, `NaN`, `Infinity`, `1e21`, `8.64e15`, `8.64e15+1`, `-8.64e15`, `1.5`, `undefined`, `"5"`, `4294967296`, `275760`, `-271821`, `{}`}
	for ai, a := range dnums {
		for bi, b := range dnums {
			emit(scaseS{Key: group("date-num", ai, bi),
				Src: fmt.Sprintf(`(function(){ var a = %s, b = %s; var d = new Date(0); return [new Date(a, b).getTime(), Date.UTC(a, b), new Date(a).getTime(), d.setUTCFullYear(a, b), d.setUTCMonth(a, b), d.setUTCHours(a, b), d.setTime(a), d.setUTCMilliseconds(b), String(d)].join() })()`, a, b)})
		}
	}

	// ---- 7. Function constructor: parameter list x body
	params := []string{"", "a", "a,b", "a,", ",", "a b", "a=1", "...a", "(", ")", "a){", "/*", "//", "arguments", "this", "a,a", "a\n", "eval", "😀", "a/**/,b",
		"a){}), (function(", "){}), (function(", "a){ return 1 }) + (function(", "a) {}; function g(", "a,/*", "a = function(){}"}
	bodies := []string{"", "return a", "}", "{", "})(", "return", "//", "/*", "}; (function(){", "return arguments", "return this", "a &^= 1", "var arguments", "\n", "'", "\\",
		"return arguments.callee", "function a(){}; return a", "return eval('a')", "debugger", "with(a){}", "return /(/", "label: break label", "return a ? : b",
		"}), (function(){", "}) + (function(){", "*/ return 1", "}; function h(){", "}))(0), ((function(){"}
	for pi, p := range params {
		for bi, b := range bodies {
			emit(scaseS{Key: group("function", pi, bi), Copy: true,
				Src: fmt.Sprintf(`var __f = Function(%s, %s); var __g = new Function("x", %s, %s); [__f.length, String(__f).length, __f(1, 2), __g(1, 2), __f.call({}, {})].join()`, lit(p), lit(b), lit(p), lit(b))})
		}
	}

	// ---- 8. digit counts and radixes
	nums := []string{`0`, `-0`, `1`, `-1.5`, `1e21`, `1e-7`, `123.456`, `NaN`, `Infinity`, `-Infinity`, `5e-324`, `1.7976931348623157e308`, `9007199254740992`, `0.5`, `1.45`, `-1e-7`}
	digits := []string{`undefined`, `0`, `1`, `2`, `20`, `21`, `22`, `36`, `37`, `100`, `101`, `-1`, `1.5`, `NaN`, `Infinity`, `-Infinity`, `2147483648`, `4294967296`, `1e21`, `"5"`, `null`, `{}`, `-0`, `0.9`}
	methods := []string{"toFixed", "toPrecision", "toExponential", "toString", "toLocaleString"}
	for ni, nmb := range nums {
		for di, d := range digits {
			for mi, m := range methods {
				emit(scaseS{Key: group("digits", ni, di, mi), Src: fmt.Sprintf("(%s).%s(%s)", nmb, m, d)})
			}
		}
	}
	for di, d := range digits {
		for si, s := range []string{`"10"`, `"0x1f"`, `"z"`, `""`, `"-0"`, `"1e3"`, `"  12abc"`, `"😀"`, `"Infinity"`} {
			emit(scaseS{Key: group("parseint", di, si), Src: fmt.Sprintf("parseInt(%s, %s)", s, d)})
		}
	}

	// ---- 9. array lengths and array-likes with odd lengths
	alens := []string{`0`, `1`, `-1`, `1.5`, `4294967295`, `4294967296`, `NaN`, `"3"`, `Infinity`, `-0`, `null`, `undefined`, `{}`, `"x"`, `true`, `[2]`, `new Number(2)`}
	for li, l := range alens {
		emit(scaseS{Key: group("array-length", li), Src: fmt.Sprintf(`(function(){ var n = %s, r = []; try { r.push(Array(n).length) } catch (e) { r.push(e.name) } try { r.push(new Array(n).length) } catch (e) { r.push(e.name) } var a = [1, 2, 3]; try { a.length = n; r.push(a.length) } catch (e) { r.push(e.name) } try { Object.defineProperty(a, "length", {value: n}); r.push(a.length) } catch (e) { r.push(e.name) } return r.join() })()`, l)})
	}
	// ToUint32(length) of every array-like below is <= 5 (2^32+1 -> 1, 2^53 -> 0, Infinity -> 0), so that
	// the legitimate O(length) loops stay short; -1 and 2^32-1 (-> 4294967295) are used only with the
	// O(1) methods pop and push.
	likeLens := []string{`0`, `1`, `2`, `5`, `1.5`, `NaN`, `"2"`, `Infinity`, `4294967297`, `9007199254740992`, `undefined`, `null`, `{}`, `true`, `-0`, `"x"`,
		`{valueOf: function(){ return 2 }}`, `{valueOf: function(){ throw new TypeError("v") }}`, `-4294967295`}
	arrayMethods := []string{`join()`, `join("-")`, `concat([1])`, `pop()`, `push(7, 8)`, `shift()`, `unshift(7)`, `slice(1)`, `slice(-1, 4294967296)`, `splice(1, 1, "z")`, `splice(0)`,
		`reverse()`, `sort()`, `indexOf("b")`, `indexOf("b", -1)`, `lastIndexOf("b")`, `lastIndexOf("b", 4294967296)`, `every(f)`, `some(f)`, `forEach(f)`, `map(f)`, `filter(f)`,
		`reduce(g)`, `reduce(g, 0)`, `reduceRight(g)`, `reduceRight(g, 0)`, `toString()`, `toLocaleString()`}
	for li, l := range likeLens {
		for mi, m := range arrayMethods {
			emit(scaseS{Key: group("arraylike", li, mi),
				Src: fmt.Sprintf(`(function(){ var f = function(x){ return x }, g = function(a, b){ return a }; var o = {length: %s, 0: "a", 1: "b", 3: "d"}; var v = Array.prototype.%s; return String(v) + "|" + String(o.length) })()`, l, callOn(m))})
		}
	}
	for li, l := range []string{`-1`, `4294967295`} {
		for mi, m := range []string{`pop.call(o)`, `push.call(o, 7)`, `push.call(o, 7, 8)`} {
			emit(scaseS{Key: group("arraylike-max", li, mi),
				Src: fmt.Sprintf(`(function(){ var o = {length: %s, 0: "a"}; var v; try { v = Array.prototype.%s } catch (e) { v = e.name } return String(v) + "|" + String(o.length) })()`, l, m)})
		}
	}

	// ---- 10. sort comparators returning odd values
	arrays := []string{`[3, 1, 2]`, `[1, 1, 1]`, `[undefined, 1, , "a"]`, `["b", "a"]`, `[{}, {}]`, `[5, 4, 3, 2, 1]`, `[]`, `[1]`, `[2, , 1, , 0]`}
	comps := []string{`undefined`, `function(){ return NaN }`, `function(){}`, `function(){ return "x" }`, `function(){ return -0 }`, `function(){ return Infinity }`,
		`function(){ return -Infinity }`, `function(){ return 1 }`, `function(){ return -1 }`, `function(a, b){ return a < b ? 1 : -1 }`, `function(){ throw new RangeError("c") }`,
		`function(){ arr.length = 0; return 1 }`, `function(){ arr.pop(); return -1 }`, `function(){ arr.push(9); return 1 }`, `function(){ return {} }`, `1`, `null`, `"x"`,
		`function(a, b){ return {valueOf: function(){ throw new TypeError("v") }} }`, `function(){ delete arr[0]; return 0 }`}
	for ai, a := range arrays {
		for ci, c := range comps {
			emit(scaseS{Key: group("sort", ai, ci), Src: fmt.Sprintf(`(function(){ arr = %s; var n = 0; var c = %s; var r = arr.sort(c); return String(r) + arr.length })()`, a, c)})
		}
	}

	// ---- 11. apply / bind with array-likes
	argLists := []struct{ Src, Bridged string }{{`undefined`, ""}, {`null`, ""}, {`[]`, ""}, {`[1, 2]`, ""}, {`(function(){ return arguments })(1, 2)`, ""}, {`{length: 2}`, ""},
		{`{length: "2", 0: 1}`, ""}, {`{length: 1.5, 0: 1}`, ""}, {`{length: -0}`, ""}, {`{length: NaN}`, ""}, {`"ab"`, ""}, {`1`, ""}, {`function(a, b){}`, ""},
		{`new String("ab")`, ""}, {`{length: 4294967297, 0: 1}`, ""}, {`{length: {valueOf: function(){ throw new TypeError("v") }}}`, ""}, {`[, 1]`, ""},
		{bridgedName("slice"), "slice"}, {bridgedName("array"), "array"}, {bridgedName("map"), "map"}, {bridgedName("struct"), "struct"}}
	fns := []string{`(function(a, b){ return [this === undefined, a, b, arguments.length].join() })`, `Math.max`, `String.prototype.concat`, `Array`, `Function.prototype.call`, `Object`}
	forms := []string{`F.apply(null, X)`, `F.apply(X, X)`, `F.bind(null).apply(1, X)`, `Function.prototype.call.apply(F, X)`, `Function.prototype.apply.call(F, 1, X)`,
		`F.bind.apply(F, X)()`, `new (F.bind.apply(F, X))()`, `Function.prototype.bind.apply(F, X).length`, `Array.prototype.slice.call(X).length`, `Array.prototype.concat.apply([], X).length`}
	for fi, f := range fns {
		for ai, a := range argLists {
			for oi, form := range forms {
				src := strings.ReplaceAll(strings.ReplaceAll(form, "F", "("+f+")"), "X", "("+a.Src+")")
				emit(scaseS{Key: group("apply", fi, ai, oi), Src: "String(" + src + ")", Bridged: a.Bridged})
			}
		}
	}

	// ---- 13. strings held as []uint16 in every operator / conversion position
	operands := []string{`String.fromCharCode(49, 50)`, `String.fromCharCode(0xD800)`, `String.fromCharCode()`, `String.fromCharCode(0x20, 49)`, `String.fromCharCode(120)`,
		`"12"`, `1`, `null`, `undefined`, `true`, `({})`, `[1]`, `new String(String.fromCharCode(49))`}
	binops := []string{"+", "-", "*", "/", "%", "<", ">", "<=", ">=", "==", "!=", "===", "!==", "&", "|", "^", "<<", ">>", ">>>", "&&", "||", ",", "in", "instanceof"}
	for ai, a := range operands {
		for bi, b := range operands {
			if ai > 4 && bi > 4 {
				continue // at least one []uint16 operand
			}
			for oi, op := range binops {
				emit(scaseS{Key: group("u16-binary", ai, bi, oi), Src: fmt.Sprintf("(function(){ var a = %s, b = %s; return a %s b })()", a, b, op)})
			}
		}
	}
	unary := []string{`+a`, `-a`, `!a`, `~a`, `typeof a`, `void a`, `a++`, `--a`, `a += 1`, `a *= 2`, `a |= 0`, `delete a`, `Number(a)`, `parseInt(a)`, `parseFloat(a)`, `isNaN(a)`, `isFinite(a)`,
		`Math.abs(a)`, `Math.max(a, 1)`, `new Date(a).getTime()`, `Date.parse(a)`, `Array(a).length`, `new Number(a) + 0`, `Boolean(a)`, `Object(a).length`, `JSON.parse(a)`, `JSON.stringify(a)`,
		`eval(a)`, `new RegExp(a).test(a)`, `encodeURIComponent(a)`, `escape(a)`, `a.length`, `a[0]`, `a.charCodeAt(0)`, `({})[a]`, `(function(){ var o = {}; o[a] = 1; return Object.keys(o).length })()`,
		`[3, 2, 1][a]`, `"abc".charAt(a)`, `"abc".substring(a)`, `[1, 2, 3].slice(a).length`, `(1).toFixed(a)`, `(255).toString(a)`, `a.toUpperCase()`, `a.localeCompare(a)`, `a.split(a).length`,
		`a.concat(a).length`, `a.indexOf(a)`, `a.replace(a, a)`, `a.trim().length`, `[a, a].sort().join().length`, `[a].indexOf(a)`, `(function(){ switch (a) { case "12": return 1; default: return 2 } })()`,
		`(function(){ for (var k in a) return k })()`, `new Function(a)`, `Function("a", "return " + a)`, `a ? 1 : 2`, `Object.keys(a)`, `new Array(a, a).join(a)`, `String(a) === a`, `new Error(a).message === a`,
		`Object.defineProperty({}, a, {value: 1})`, `Object.prototype.hasOwnProperty.call({}, a)`, `a in {}`, `setTimeout`, `[].concat(a).length`, `Array.prototype.join.call({length: 2, 0: a, 1: a}, a).length`}
	for ai, a := range operands[:5] {
		for ui, u := range unary {
			emit(scaseS{Key: group("u16-unary", ai, ui), Src: fmt.Sprintf("(function(){ var a = %s; return %s })()", a, u)})
		}
	}

	// ---- 14. inline source maps (a trailing //# sourceMappingURL=data: comment is honoured in any source)
	maps := []string{
		`{"version":3,"sources":["a.js"],"names":[],"mappings":"AAAA;AACA"}`,
		`{"version":3,"sources":[],"names":[],"mappings":"AAAC;AAAC"}`,
		`{"version":3,"sources":["a.js"],"names":[],"mappings":"ACAA;AEAA"}`,
		`{"version":3,"sources":["a.js"],"names":[],"mappings":"AAAAE"}`,
		`{"version":3,"sources":["a.js"],"names":["n"],"mappings":"AAAAC;AAAAE"}`,
		`{"version":3,"sources":["a.js"],"names":[],"mappings":"ADDD;ADDD"}`,
		`{"version":3,"sources":["a.js"],"names":[],"mappings":""}`,
		`{"version":3,"sources":["a.js"],"names":[],"mappings":";;;;"}`,
		`{"version":3,"sources":["a.js"],"names":[],"mappings":"!!!!"}`,
		`{"version":3,"sources":["a.js"],"names":[],"mappings":"A"}`,
		`{"version":3,"sources":["a.js"],"names":[],"mappings":"gggggggggggggggggggggggggggggggggB"}`,
		`{"version":3,"sections":[{"offset":{"line":0,"column":0},"map":{"version":3,"sources":[],"names":[],"mappings":"AAAC"}}]}`,
		`{"version":2,"sources":["a.js"],"mappings":"AAAA"}`,
		`{"version":3}`, `{}`, `[]`, `null`, `{"version":3,"sources":[1],"names":[2],"mappings":3}`, `{"version":3,"sources":null,"names":null,"mappings":"AAAA"}`,
		`{"version":3,"sourceRoot":"\u0000","sources":["\ud800"],"names":[],"mappings":"AAAA,CAAC,CAAC;AACD"}`, `not json`, ``,
	}
	smScripts := []string{`var e = new Error("x"); e.stack`, `undefinedFunction()`, `throw new TypeError("t")`, `(function f(){ return new Error("in f").stack })()`,
		`1 +`, `null.x`, `eval("nope()")`, `1`, `(function(){ try { nope() } catch (e) { return e.stack } })()`, `new Function("return nope()")()`}
	for mi, m := range maps {
		for si, sc := range smScripts {
			for ei, enc := range []string{"std", "raw", "broken"} {
				payload := m
				switch enc {
				case "std":
					payload = "data:application/json;base64," + base64.StdEncoding.EncodeToString([]byte(m))
				case "raw":
					payload = "data:application/json," + m
				case "broken":
					payload = "data:application/json;base64,@@" + base64.StdEncoding.EncodeToString([]byte(m))
				}
				emit(scaseS{Key: group("sourcemap", mi, si, ei), Src: sc + "\n//# sourceMappingURL=" + payload})
			}
		}
	}

	// ---- 15. apply / bind / construct with an array-like whose length claims billions of elements
	for li, l := range []string{`-1`, `4294967295`, `4294967294`, `2147483648`, `1e9`} {
		for fi, form := range []string{`(function(){}).apply(null, X)`, `Math.max.apply(null, X)`, `Function.prototype.apply.call(function(){}, null, X)`,
			`new (Function.prototype.bind.apply(function(){}, X))()`, `Function.prototype.call.apply(function(){}, X)`, `String.fromCharCode.apply(null, X)`, `Array.apply(null, X)`} {
			emit(scaseS{Key: group("apply-huge", li, fi), Src: fmt.Sprintf("(function(){ var X = {length: %s}; try { return typeof (%s) } catch (e) { return e.name } })()", l, form)})
		}
	}

	// ---- 16. every built-in that walks / sizes by a user-controlled length, on receivers that CLAIM
	// 2^32-1, 2^31 or 10^9 elements. A throwing getter sits at the indices 0, 1, 2 and at the three top
	// indices: every call below starts its walk at one of them (slice(1) / splice(1) start at index 1,
	// slice(-2) and the backward walks at the top), so a conforming walk ends at its first step
	// (RangeError "stop"); what is left to go wrong is an allocation sized by the claimed length before
	// the walk starts.
	hugeLens := []string{`-1`, `4294967295`, `2147483648`, `1e9`}
	hugeRecv := []struct{ Name, Src string }{
		{"arraylike", `(function(){ var o = {length: L}; stop(o, L); return o })()`},
		{"array", `(function(){ var a = []; a.length = L >>> 0; stop(a, L); return a })()`},
	}
	hugeMethods := []string{`join()`, `join("")`, `toString()`, `toLocaleString()`, `concat([1])`, `pop()`, `push(7)`, `shift()`, `unshift(7)`, `slice(0)`, `slice(-2)`, `slice(1, 4294967295)`,
		`splice(0, 4294967295)`, `splice(0, 0, "z")`, `splice(1)`, `reverse()`, `sort()`, `sort(function(){ return 0 })`, `indexOf(99)`, `lastIndexOf(99)`, `every(f)`, `some(f)`, `forEach(f)`,
		`map(f)`, `filter(f)`, `reduce(g)`, `reduce(g, 0)`, `reduceRight(g)`, `reduceRight(g, 0)`}
	for li, l := range hugeLens {
		if !thorough && li%3 != 0 {
			continue // quick tier: -1 and 10^9
		}
		for ri, rv := range hugeRecv {
			pre := fmt.Sprintf(`var L = %s; function stop(o, l){ var t = function(){ throw new RangeError("stop") }; var n = l >>> 0; var ks = ["0", "1", "2", String(n - 1), String(n - 2), String(n - 3)]; for (var i = 0; i < ks.length; i++) Object.defineProperty(o, ks[i], {get: t, enumerable: true, configurable: true}) } var f = function(x){ return x }, g = function(a, b){ return a }; var o = %s; `, l, rv.Src)
			for mi, m := range hugeMethods {
				emit(scaseS{Key: group("huge-length", li, ri, mi), Src: pre + fmt.Sprintf(`(function(){ try { return typeof Array.prototype.%s } catch (e) { return e.name } })()`, callOn(m))})
			}
			for oi, other := range []string{`JSON.stringify(o)`, `JSON.stringify({a: 1}, o)`, `JSON.stringify([o])`, `String(o)`, `o + ""`, `Function.prototype.apply.call(f, null, o)`, `String.fromCharCode.apply(null, o)`,
				`Math.max.apply(null, o)`, `new (Function.prototype.bind.apply(f, o))()`, `Array.apply(null, o)`, `Object.keys(o).length`, `Object.getOwnPropertyNames(o).length`, `Object.freeze(o) === o`,
				`(function(){ var c = 0; for (var k in o) if (++c > 5) break; return c })()`, `[].concat(o).length`, `Array.prototype.concat.call([], o, o).length`, `Object.defineProperties({}, o)`, `"a,b".split(",", o.length).length`,
				`new Array(o.length).length`} {
				emit(scaseS{Key: group("huge-length-other", li, ri, oi), Src: pre + fmt.Sprintf(`(function(){ try { return typeof (%s) } catch (e) { return e.name } })()`, other)})
			}
		}
	}

	// ---- 12. percent escapes and lone surrogates
	pct := []string{"%", "%4", "%41", "%E0", "%E0%A4", "%E0%A4%A", "%C0%80", "%ED%A0%80", "%FF", "%zz", "a", "%u0041", "%u00", "%F0%9F%98%80", "%F0%9F", "%80", "%25", ";/?:@&=+$,#"}
	ufns := []string{"decodeURI", "decodeURIComponent", "unescape", "encodeURI", "encodeURIComponent", "escape"}
	for ai, a := range pct {
		for bi, b := range append([]string{""}, pct...) {
			for fi, f := range ufns {
				emit(scaseS{Key: group("uri", ai, bi, fi), Src: fmt.Sprintf("%s(%s)", f, lit(a+b))})
			}
		}
	}
	for si, s := range []string{`"\uD800"`, `"\uDC00"`, `"\uD800a"`, `"a\uDBFF"`, `"\uDC00\uD800"`, `"😀"`, `String.fromCharCode(0xD800)`, `String.fromCharCode(0xD83D, 0xDE00, 0xDC00)`} {
		for fi, f := range append(ufns, "JSON.stringify", "String.prototype.toUpperCase.call", "String.prototype.normalize && String.prototype.trim.call", "new RegExp") {
			emit(scaseS{Key: group("surrogate", si, fi), Src: fmt.Sprintf("%s(%s)", f, s)})
		}
	}
}

// callOn turns `name(args)` into `name.call(o, args)`.
func callOn(m string) string {
	i := strings.Index(m, "(")
	name, args := m[:i], m[i+1:len(m)-1]
	if args == "" {
		return name + ".call(o)"
	}
	return name + ".call(o, " + args + ")"
}

func runStructured(r *rc) {
	defer muteStdout()()
	base := otto.New()
	n := 0
	groups := map[string]int{}
	stopped := false
	structuredCases(r.Thorough(), func(c scaseS) {
		if stopped {
			return
		}
		groups[c.Key[:strings.Index(c.Key, "/")]]++
		if !r.MineKey(c.Key) {
			return
		}
		n++
		if r.Expired() {
			r.Cap("time budget reached")
			stopped = true
			return
		}
		execStructured(r, base, c)
	})
	var gs []string
	for g, k := range groups {
		gs = append(gs, fmt.Sprintf("%s=%d", g, k))
	}
	sortStrings(gs)
	r.Bound("groups", strings.Join(gs, " "))
}

func sortStrings(a []string) {
	for i := 1; i < len(a); i++ {
		for j := i; j > 0 && a[j] < a[j-1]; j-- {
			a[j], a[j-1] = a[j-1], a[j]
		}
	}
}

func execStructured(r *rc, base *otto.Otto, c scaseS) {
	r.Describe(c.Src)
	r.Begin(c.Key)
	vm := base.Copy()
	if c.Bridged != "" {
		if err := installBridged(vm, map[string]bool{c.Bridged: true}); err != nil {
			r.End()
			r.HarnessError(err.Error())
			return
		}
	}
	res := ox.Guard(func() (otto.Value, error) { v, err := vm.Run(c.Src); touchErr(err); return v, err })
	var acc, cp ox.Result
	if !res.Panicked && res.Err == nil {
		acc = ox.Guard(func() (otto.Value, error) {
			_ = res.Value.String()
			_, _ = res.Value.Export()
			return otto.Value{}, nil
		})
	}
	if c.Copy && !res.Panicked {
		cp = ox.Guard(func() (otto.Value, error) { return vm.Copy().Run("typeof __f") })
	}
	post := ox.Run(vm, "1+1")
	r.End()
	out := outcome(res)
	r.Eval(!res.Panicked && res.Err == nil)
	grp := c.Key[:strings.Index(c.Key, "/")]
	r.Outcome(grp + "=>" + out)
	if r.WantSample() && sparse(c.Key, 2503) {
		r.Sample(c.Src + "  =>  " + out)
	}
	for _, pr := range []struct {
		phase string
		res   ox.Result
	}{{"call", res}, {"result-accessor", acc}, {"copy-after", cp}, {"runtime-after", post}} {
		if !pr.res.Panicked {
			continue
		}
		site, via := panicSite(pr.res.Stack)
		devDump(c.Key, c.Src, pr.phase, panicClass(pr.res.PanicVal), panicText(pr.res.PanicVal), site, via)
		r.Mismatch(engine.Mismatch{Key: c.Key, Input: c.Src, Expected: "the API call returns a value or an error",
			Observed: "Go panic escaped (" + pr.phase + "): " + panicText(pr.res.PanicVal) + " @ " + site,
			Note:     trimStack(pr.res.Stack),
			Aux: map[string]string{"group": grp, "src": c.Src, "phase": pr.phase, "class": panicClass(pr.res.PanicVal),
				"panic": panicText(pr.res.PanicVal), "site": site, "via": via}})
		if pr.phase == "call" {
			break
		}
	}
}
