package c02

import (
	"fmt"
	"os"
	"sort"
	"strconv"
	"strings"
	"sync"

	"github.com/robertkrimen/otto"

	"verif/mc/engine"
	"verif/mc/ox"
)

// discoverSrc walks the real object graph breadth-first from the global object
// through every own property (including non-enumerable ones), accessor
// get/set functions and [[Prototype]] links, and collects every function
// object it meets in the global array __F. It returns one line per function:
// path TAB length.
const discoverSrc = `
(function(global){
  var seen = [], paths = [], F = [], FP = [];
  function visit(o, path) {
    if (o === null || (typeof o !== "object" && typeof o !== "function")) return;
    for (var i = 0; i < seen.length; i++) if (seen[i] === o) return;
    seen.push(o); paths.push(path);
    if (typeof o === "function") { F.push(o); FP.push(path + "\t" + o.length); }
  }
  visit(global, "this");
  for (var i = 0; i < seen.length; i++) {
    var o = seen[i], path = paths[i];
    var names = Object.getOwnPropertyNames(o);
    for (var j = 0; j < names.length; j++) {
      var n = names[j];
      if (n.indexOf("__") === 0) continue;
      var d = Object.getOwnPropertyDescriptor(o, n);
      var child = path === "this" ? n : path + "." + n;
      if (("get" in d) || ("set" in d)) { visit(d.get, child + "<get>"); visit(d.set, child + "<set>"); }
      else visit(d.value, child);
    }
    visit(Object.getPrototypeOf(o), path + ".[[Prototype]]");
  }
  global.__F = F;
  return FP.join("\n") + "\n#objects\t" + seen.length;
})(this)
`

type fnInfo struct {
	Path string
	Idx  int // index into __F
	Len  int
}

type template struct {
	vm       *otto.Otto
	fns      []fnInfo // sorted by path
	nObjects int
}

var (
	tmplOnce sync.Once
	tmplVal  *template
	tmplErr  error
)

// getTemplate builds (once per process) the template runtime: a fresh otto.New()
// in which the surface has been discovered and the ordinary receiver/argument
// kinds have been evaluated. Every surface case runs on its own Copy() of it.
func getTemplate() (*template, error) {
	tmplOnce.Do(func() { tmplVal, tmplErr = buildTemplate() })
	return tmplVal, tmplErr
}

func buildTemplate() (*template, error) {
	vm := otto.New()
	res := ox.Run(vm, discoverSrc)
	if res.Panicked {
		return nil, fmt.Errorf("surface discovery panicked: %v", res.PanicVal)
	}
	if res.Err != nil {
		return nil, fmt.Errorf("surface discovery failed: %v", res.Err)
	}
	s, _ := res.Value.ToString()
	t := &template{vm: vm}
	seen := map[string]bool{}
	for i, l := range strings.Split(s, "\n") {
		f := strings.Split(l, "\t")
		if len(f) != 2 {
			return nil, fmt.Errorf("surface discovery: bad line %q", l)
		}
		n, _ := strconv.Atoi(f[1])
		if f[0] == "#objects" {
			t.nObjects = n
			continue
		}
		if seen[f[0]] {
			return nil, fmt.Errorf("surface discovery: duplicate path %q", f[0])
		}
		seen[f[0]] = true
		t.fns = append(t.fns, fnInfo{Path: f[0], Idx: i, Len: n})
	}
	sort.Slice(t.fns, func(i, j int) bool { return t.fns[i].Path < t.fns[j].Path })
	if len(t.fns) < 150 {
		return nil, fmt.Errorf("surface discovery found only %d functions", len(t.fns))
	}
	for _, src := range []string{kindArraySource("__R", receivers), kindArraySource("__A", argKinds)} {
		if res := ox.Run(vm, src); res.Panicked || res.Err != nil {
			return nil, fmt.Errorf("kind setup failed: %v %v", res.Err, res.PanicVal)
		}
	}
	// The copy itself is guarded once here; afterwards Copy() of the same
	// template is deterministic.
	if res := ox.Guard(func() (otto.Value, error) { vm.Copy(); return otto.Value{}, nil }); res.Panicked {
		return nil, fmt.Errorf("Copy() of the template panicked: %v", res.PanicVal)
	}
	return t, nil
}

// scase is one case of the surface families.
type scase struct {
	fn   fnInfo
	ctor bool
	recv int   // index into receivers (ignored for ctor)
	args []int // indices into argKinds
	// lits, when set, are the arguments as string literals / expressions instead
	// (family surface-frag); litNames are their names in the key.
	lits     []string
	litNames []string
}

func (c *scase) argNames() string {
	if c.lits != nil {
		return strings.Join(c.litNames, ",")
	}
	n := make([]string, len(c.args))
	for i, a := range c.args {
		n[i] = argKinds[a].Name
	}
	return strings.Join(n, ",")
}

func (c *scase) recvName() string {
	if c.ctor {
		return "-"
	}
	return receivers[c.recv].Name
}

func (c *scase) mode() string {
	if c.ctor {
		return "new"
	}
	return "call"
}

func (c *scase) key() string {
	return c.fn.Path + "|" + c.mode() + "|" + c.recvName() + "|" + c.argNames()
}

func (c *scase) source() string {
	a := make([]string, len(c.args))
	for i, x := range c.args {
		a[i] = ref("__A", argKinds, x)
	}
	if c.lits != nil {
		a = c.lits
	}
	if c.ctor {
		return fmt.Sprintf("new __F[%d](%s)", c.fn.Idx, strings.Join(a, ", "))
	}
	all := append([]string{ref("__R", receivers, c.recv)}, a...)
	return fmt.Sprintf("__F[%d].call(%s)", c.fn.Idx, strings.Join(all, ", "))
}

// rendered is the self-contained JavaScript a reader can paste into otto.
func (c *scase) rendered() string {
	a := make([]string, len(c.args))
	for i, x := range c.args {
		a[i] = kindText(argKinds[x])
	}
	if c.lits != nil {
		a = c.lits
	}
	p := strings.ReplaceAll(c.fn.Path, ".[[Prototype]]", ".__proto__")
	if c.ctor {
		return fmt.Sprintf("new (%s)(%s)", p, strings.Join(a, ", "))
	}
	all := append([]string{kindText(receivers[c.recv])}, a...)
	return fmt.Sprintf("%s.call(%s)", p, strings.Join(all, ", "))
}

func kindText(k kind) string {
	if k.Bridged != "" {
		return "<bridged Go " + k.Bridged + ">"
	}
	return k.Expr
}

func (c *scase) bridged() map[string]bool {
	var used map[string]bool
	add := func(b string) {
		if b == "" {
			return
		}
		if used == nil {
			used = map[string]bool{}
		}
		used[b] = true
	}
	if !c.ctor {
		add(receivers[c.recv].Bridged)
	}
	for _, a := range c.args {
		add(argKinds[a].Bridged)
	}
	return used
}

// argTuples enumerates the argument tuples of one arity class.
//
//	"a01":  arity 0 and the 22 arity-1 tuples
//	"a2":   the full arity-2 product over the given kind subset
//	"a34":  arity 3 and 4 with at most one deviation from (undefined, ...)
func argTuples(class string, pair []int) [][]int {
	var out [][]int
	switch class {
	case "a01":
		out = append(out, []int{})
		for i := range argKinds {
			out = append(out, []int{i})
		}
	case "a2":
		for _, i := range pair {
			for _, j := range pair {
				out = append(out, []int{i, j})
			}
		}
	case "a34":
		for _, n := range []int{3, 4} {
			out = append(out, make([]int, n))
			for pos := 0; pos < n; pos++ {
				for k := 1; k < len(argKinds); k++ {
					t := make([]int, n)
					t[pos] = k
					out = append(out, t)
				}
			}
		}
	}
	return out
}

func pairKinds(thorough bool) []int {
	if thorough {
		all := make([]int, len(argKinds))
		for i := range all {
			all[i] = i
		}
		return all
	}
	var out []int
	for _, n := range quickPairKinds {
		out = append(out, kindIndex(argKinds, n))
	}
	return out
}

// muteStdout points os.Stdout at /dev/null while console.log & co. are among
// the functions being called; the returned function restores it.
func muteStdout() func() {
	old := os.Stdout
	if f, err := os.OpenFile(os.DevNull, os.O_WRONLY, 0); err == nil {
		os.Stdout = f
		return func() { os.Stdout = old; f.Close() }
	}
	return func() {}
}

// enumerateSurface calls f for every case of an arity class, in a fixed order.
func enumerateSurface(t *template, class string, thorough bool, f func(c *scase)) {
	enumerateSurfaceFns(t.fns, class, thorough, f)
}

func enumerateSurfaceFns(fns []fnInfo, class string, thorough bool, f func(c *scase)) {
	tuples := argTuples(class, pairKinds(thorough))
	for _, fn := range fns {
		for ri := range receivers {
			if class == "a2" && !thorough && !quickPairReceivers[receivers[ri].Name] {
				continue // quick tier: the arity-2 product runs on a 12-receiver subset
			}
			for _, a := range tuples {
				f(&scase{fn: fn, recv: ri, args: a})
			}
		}
		for _, a := range tuples {
			f(&scase{fn: fn, ctor: true, args: a})
		}
	}
}

func runSurfaceClass(class string) func(r *rc) {
	return func(r *rc) {
		t, err := getTemplate()
		if err != nil {
			r.HarnessError(err.Error())
			return
		}
		defer muteStdout()()
		r.Bound("functions", fmt.Sprint(len(t.fns)))
		r.Bound("objects_walked", fmt.Sprint(t.nObjects))
		r.Bound("receiver_kinds", fmt.Sprint(len(receivers)))
		r.Bound("argument_kinds", fmt.Sprint(len(argKinds)))
		r.Bound("argument_tuples", fmt.Sprint(len(argTuples(class, pairKinds(r.Thorough())))))
		r.Note("surface hash " + surfaceHash(t))
		n := 0
		enumerateSurface(t, class, r.Thorough(), func(c *scase) {
			if why := excluded(c); why != "" {
				if r.ReplayKey == "" && r.Mine() {
					r.Skip()
				}
				return
			}
			key := c.key()
			if !r.MineKey(key) {
				return
			}
			n++
			if n&255 == 0 && r.Expired() {
				r.Cap("time budget reached")
			}
			if r.Expired() {
				return
			}
			execSurface(r, t, c, key)
		})
	}
}

func surfaceHash(t *template) string {
	var sb strings.Builder
	for _, f := range t.fns {
		sb.WriteString(f.Path)
		sb.WriteByte(';')
	}
	return engine.KeyHash(sb.String()) + fmt.Sprintf(" (%d functions, %d objects)", len(t.fns), t.nObjects)
}

// execSurface runs one surface case on a fresh Copy() of the template and files
// a mismatch when a Go panic escapes the API.
func execSurface(r *rc, t *template, c *scase, key string) {
	src := c.source()
	r.Describe(c.rendered())
	r.Begin(key)
	vm := t.vm.Copy()
	if b := c.bridged(); b != nil {
		if err := installBridged(vm, b); err != nil {
			r.End()
			r.HarnessError("cannot install bridged value: " + err.Error())
			return
		}
	}
	res := ox.Run(vm, src)
	var acc ox.Result
	if !res.Panicked && res.Err == nil {
		// the Value handed back to the host must be usable
		acc = ox.Guard(func() (otto.Value, error) {
			_ = res.Value.String()
			_, _ = res.Value.ToString()
			_, _ = res.Value.Export()
			_ = res.Value.Class()
			return otto.Value{}, nil
		})
	}
	// the runtime must still answer
	post := ox.Run(vm, "1+1")
	r.End()

	out := outcome(res)
	r.Eval(!res.Panicked && res.Err == nil)
	r.Outcome(c.fn.Path + "=>" + out)
	if r.WantSample() && sparse(key, 4999) {
		r.Sample(c.rendered() + "  =>  " + out)
	}
	if res.Panicked {
		fileCrash(r, key, c, "call", res)
		return
	}
	if acc.Panicked {
		fileCrash(r, key, c, "result-accessor", acc)
	}
	if post.Panicked {
		fileCrash(r, key, c, "runtime-after", post)
	} else if post.Err != nil || !post.Value.IsNumber() {
		// Only reported when the builtin could not legitimately have changed
		// what 1+1 means: it cannot, 1+1 involves no property lookup.
		r.Mismatch(engine.Mismatch{Key: key, Input: c.rendered(), Expected: "runtime usable after the call (1+1 evaluates)",
			Observed: fmt.Sprintf("1+1 => %v %v", post.Value, post.Err),
			Aux:      map[string]string{"fn": c.fn.Path, "mode": c.mode(), "recv": c.recvName(), "args": c.argNames(), "phase": "runtime-after", "class": "wedged"}})
	}
}

func fileCrash(r *rc, key string, c *scase, phase string, res ox.Result) {
	site, via := panicSite(res.Stack)
	devDump(key, c.rendered(), phase, panicClass(res.PanicVal), panicText(res.PanicVal), site, via)
	r.Mismatch(engine.Mismatch{
		Key:      key,
		Input:    c.rendered(),
		Expected: "the API call returns a value or an error",
		Observed: "Go panic escaped (" + phase + "): " + panicText(res.PanicVal) + " @ " + site,
		Note:     trimStack(res.Stack),
		Aux: map[string]string{
			"fn": c.fn.Path, "mode": c.mode(), "recv": c.recvName(), "args": c.argNames(),
			"phase": phase, "class": panicClass(res.PanicVal), "panic": panicText(res.PanicVal), "site": site, "via": via,
		},
	})
}

func trimStack(s string) string {
	if len(s) > 3000 {
		return s[:3000] + "\n..."
	}
	return s
}

// surface-frag: degenerate numeric / prefix / escape / pattern FRAGMENTS as the
// string value of every parameter position. The argument kinds of the other
// surface families contain three well-formed strings; parsers inside built-ins
// (parseInt after the sign is stripped, number and date grammars, percent
// escapes, replacement templates, patterns) break on the fragments that are
// left when a prefix is consumed.
var fragments = []string{"+", "-", "+ ", "0x", "0X", "-0x", "+0x", ".", "e", "e1", "+.", "-.", "0.", "Inf", " ", "\t", "\n", "\ufeff", "%", "%u", "%u1", "%4", "\\", "$", "$1", "$&",
	"/", "(", "[", "*", "0", "-0", "1e", "0b", "0o", "\u2028", "T", ":", "Z", "-1-", "{", "\"", "'", "\x00"}

// companions of a fragment in the arity-2 tuples
var fragCompanions = [][2]string{{"undefined", "undefined"}, {"0", "0"}, {"16", "16"}, {"str-abc", `"abc"`}, {"regexp", "/a/g"}}

var fragReceiversQuick = []string{"undefined", "str-abc", "0", "regexp"}
var fragReceiversDeep = []string{"undefined", "str-abc", "0", "regexp", "object", "array", "date", "String", "str-u16", "Number"}

// quick tier: the global functions and the Number / String / RegExp / JSON /
// Date / Math entry points
func fragQuickFunction(path string) bool {
	if !strings.Contains(path, ".") {
		return true
	}
	for _, p := range []string{"Number", "String", "RegExp", "JSON", "Date", "Math"} {
		if strings.HasPrefix(path, p+".") {
			return true
		}
	}
	return false
}

func runSurfaceFrag(r *rc) {
	t, err := getTemplate()
	if err != nil {
		r.HarnessError(err.Error())
		return
	}
	defer muteStdout()()
	recvNames := fragReceiversQuick
	if r.Thorough() {
		recvNames = fragReceiversDeep
	}
	for _, fn := range t.fns {
		if !r.Thorough() && !fragQuickFunction(fn.Path) {
			continue
		}
		for _, rn := range recvNames {
			ri := kindIndex(receivers, rn)
			for fi, f := range fragments {
				lit := ox.JSLit(f)
				name := fmt.Sprintf("S%02d", fi)
				tuples := [][2][]string{{{lit}, {name}}}
				for ci, c := range fragCompanions {
					if !r.Thorough() && ci != 0 && ci != 2 {
						continue // quick tier: companions undefined and 16
					}
					tuples = append(tuples, [2][]string{{lit, c[1]}, {name, c[0]}}, [2][]string{{c[1], lit}, {c[0], name}})
				}
				for _, tp := range tuples {
					for _, ctor := range []bool{false, true} {
						if ctor && rn != recvNames[0] {
							continue
						}
						c := &scase{fn: fn, recv: ri, ctor: ctor, lits: tp[0], litNames: tp[1]}
						key := c.key()
						if !r.MineKey(key) {
							continue
						}
						if r.Expired() {
							r.Cap("time budget reached")
							return
						}
						execSurface(r, t, c, key)
					}
				}
			}
		}
	}
	r.Bound("fragments", fmt.Sprint(len(fragments)))
	r.Bound("receivers", fmt.Sprint(len(recvNames)))
}
