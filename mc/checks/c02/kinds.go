package c02

import (
	"fmt"
	"strings"

	"github.com/robertkrimen/otto"

	"verif/mc/ox"
)

// A kind is one point of the receiver / argument alphabets. Ordinary kinds are
// JavaScript expressions evaluated once in the template runtime (they live in
// the global arrays __R and __A and are deep-copied with the template by
// Copy()). Bridged kinds wrap Go values; Copy() would share the underlying Go
// value between copies, so they are installed freshly after the copy, only in
// the cases that use them.
type kind struct {
	Name    string // stable short name, used in case keys and signatures
	Expr    string // JS expression (ordinary kinds)
	Bridged string // "", "struct", "map", "slice", "array"
}

const nonBMP = `"😀"`

// receivers: the 31 this-value kinds of DESIGN.md C02 (1) plus 12 added later. Array-likes have
// length <= 4 so that legitimate O(length) loops cannot be mistaken for wedges.
var receivers = []kind{
	{Name: "undefined", Expr: `undefined`},
	{Name: "null", Expr: `null`},
	{Name: "true", Expr: `true`},
	{Name: "false", Expr: `false`},
	{Name: "0", Expr: `0`},
	{Name: "-1", Expr: `-1`},
	{Name: "NaN", Expr: `NaN`},
	{Name: "2^32", Expr: `4294967296`},
	{Name: "1e21", Expr: `1e21`},
	{Name: "str-empty", Expr: `""`},
	{Name: "str-abc", Expr: `"abc"`},
	{Name: "str-nonbmp", Expr: nonBMP},
	{Name: "object", Expr: `({a:1,b:"x"})`},
	{Name: "nullproto", Expr: `Object.create(null)`},
	{Name: "frozen", Expr: `Object.freeze({a:1})`},
	{Name: "array", Expr: `[1,"b",null]`},
	{Name: "holey", Expr: `[0,,2,,]`},
	{Name: "arguments", Expr: `(function(){return arguments})(1,"b")`},
	{Name: "function", Expr: `(function(a,b){return a})`},
	{Name: "bound", Expr: `(function(a,b){return a}).bind({x:1},1)`},
	{Name: "date", Expr: `new Date(0)`},
	{Name: "date-invalid", Expr: `new Date(NaN)`},
	{Name: "regexp", Expr: `/a/g`},
	{Name: "error", Expr: `new Error("e")`},
	{Name: "String", Expr: `new String("abc")`},
	{Name: "Number", Expr: `new Number(1)`},
	{Name: "Boolean", Expr: `new Boolean(false)`},
	{Name: "go-struct", Bridged: "struct"},
	{Name: "go-map", Bridged: "map"},
	{Name: "go-slice", Bridged: "slice"},
	{Name: "go-array", Bridged: "array"},
	// third round: strings held as []uint16 (everything String.fromCharCode
	// builds), the prototype objects (class-tagged objects that may lack the
	// payload of a real instance) and a bridged map with a named key type
	{Name: "str-u16", Expr: `String.fromCharCode(49, 50)`},
	{Name: "str-lone", Expr: `String.fromCharCode(0xD800)`},
	{Name: "proto-Object", Expr: `Object.prototype`},
	{Name: "proto-Function", Expr: `Function.prototype`},
	{Name: "proto-Array", Expr: `Array.prototype`},
	{Name: "proto-String", Expr: `String.prototype`},
	{Name: "proto-Number", Expr: `Number.prototype`},
	{Name: "proto-Boolean", Expr: `Boolean.prototype`},
	{Name: "proto-Date", Expr: `Date.prototype`},
	{Name: "proto-RegExp", Expr: `RegExp.prototype`},
	{Name: "proto-Error", Expr: `Error.prototype`},
	{Name: "go-named-map", Bridged: "nmap"},
}

// arguments: the 22 argument value kinds of the design plus 4 added later.
var argKinds = []kind{
	{Name: "undefined", Expr: `undefined`},
	{Name: "null", Expr: `null`},
	{Name: "true", Expr: `true`},
	{Name: "0", Expr: `0`},
	{Name: "1", Expr: `1`},
	{Name: "-1", Expr: `-1`},
	{Name: "1.5", Expr: `1.5`},
	{Name: "NaN", Expr: `NaN`},
	{Name: "Infinity", Expr: `Infinity`},
	{Name: "2^32", Expr: `4294967296`},
	{Name: "1e21", Expr: `1e21`},
	{Name: "str-empty", Expr: `""`},
	{Name: "str-abc", Expr: `"abc"`},
	{Name: "str-nonbmp", Expr: nonBMP},
	{Name: "object", Expr: `({a:1,b:"x"})`},
	{Name: "array", Expr: `[1,"b",null]`},
	{Name: "function", Expr: `(function(a,b){return a})`},
	{Name: "date", Expr: `new Date(0)`},
	{Name: "regexp", Expr: `/a/g`},
	{Name: "thrower", Expr: `({valueOf:function(){throw new TypeError("v")},toString:function(){throw new TypeError("s")}})`},
	{Name: "go-slice", Bridged: "slice"},
	{Name: "go-map", Bridged: "map"},
	{Name: "str-u16", Expr: `String.fromCharCode(49, 50)`},
	{Name: "str-lone", Expr: `String.fromCharCode(0xD800)`},
	{Name: "proto-RegExp", Expr: `RegExp.prototype`},
	{Name: "proto-Date", Expr: `Date.prototype`},
}

// quickPairKinds: the 8-kind subset used for the arity-2 product in the quick tier.
var quickPairKinds = []string{"undefined", "null", "1", "2^32", "str-abc", "object", "array", "function"}

// NamedKey is a named string type used as the key type of a bridged map.
type NamedKey string

// EmbedInner / EmbedOuter: a struct that embeds a pointer which is nil.
type EmbedInner struct{ X int }

// EmbedOuter embeds *EmbedInner.
type EmbedOuter struct {
	*EmbedInner
	A int
}

// allBridged lists every bridged kind of the bridge family.
var allBridged = []string{"struct", "map", "slice", "array", "nmap", "anyslice", "ptrslice", "funcslice", "nilmap", "nilslice", "structval", "embednil",
	"ifacemap", "structmap", "nilfunc", "funcstruct", "nilptr", "structslice", "mapslice",
	"stale_ptr_field", "stale_iface_field", "stale_slice_elem", "stale_map_value", "stale_slice", "stale_map"}

// quickPairReceivers: the receivers of the arity-2 product in the quick tier.
var quickPairReceivers = map[string]bool{"undefined": true, "0": true, "str-abc": true, "str-u16": true, "object": true, "array": true, "function": true,
	"date": true, "regexp": true, "String": true, "go-struct": true, "go-slice": true}

// GoStruct is the bridged struct kind.
type GoStruct struct {
	A int
	B string
	C []int
	M map[string]int
	F func(int) int
	p int //nolint:unused
}

// Get is a value-receiver method.
func (g GoStruct) Get() int { return g.A }

// Inc is a pointer-receiver method.
func (g *GoStruct) Inc() { g.A++ }

// bridgedName is the global under which a bridged kind is installed.
func bridgedName(b string) string { return "__g_" + b }

func freshBridged(b string) interface{} {
	switch b {
	case "struct":
		return &GoStruct{A: 1, B: "x", C: []int{1, 2}, M: map[string]int{"k": 1}, F: func(i int) int { return i + 1 }}
	case "map":
		return map[string]int{"a": 1, "b": 2}
	case "slice":
		return []int{1, 2, 3}
	case "array":
		return &[3]int{1, 2, 3}
	case "nmap":
		return map[NamedKey]int{"a": 1, "b": 2}
	case "anyslice":
		return []interface{}{1, "b"}
	case "ptrslice":
		return []*int{nil, new(int)}
	case "funcslice":
		return []func(){nil}
	case "nilmap":
		return map[string]int(nil)
	case "nilslice":
		return []int(nil)
	case "structval":
		return struct{ A, a int }{1, 2}
	case "embednil":
		return &EmbedOuter{A: 1}
	case "ifacemap":
		return map[interface{}]int{1: 2, "a": 3}
	case "structmap":
		return map[EmbedInner]int{{X: 1}: 2}
	case "nilfunc":
		return (func())(nil)
	case "funcstruct":
		return &struct {
			F func()
			G func(int) int
			A int
		}{}
	case "nilptr":
		return (*GoStruct)(nil)
	case "structslice":
		return []EmbedInner{{X: 1}}
	case "mapslice":
		return map[string][]int{"a": {1}}
	}
	panic("bridged kind " + b)
}

// ref renders the JS expression that denotes kind i of the given alphabet in a
// runtime copied from the template.
func ref(arr string, ks []kind, i int) string {
	if ks[i].Bridged != "" {
		return bridgedName(ks[i].Bridged)
	}
	return fmt.Sprintf("%s[%d]", arr, i)
}

// installBridged sets fresh Go values for every bridged kind the case uses.
func installBridged(vm *otto.Otto, used map[string]bool) error {
	for b := range used {
		if src, ok := staleAliases[b]; ok {
			// a stale alias: a script keeps the wrapper of a member of a bridged
			// container after the container dropped the member
			if err := vm.Set(bridgedName(b)+"_owner", &StaleOwner{P: &EmbedInner{X: 1}, I: &EmbedInner{X: 2}, S: []*EmbedInner{{X: 3}}, M: map[string]*EmbedInner{"k": {X: 4}}}); err != nil {
				return err
			}
			if _, err := vm.Run(strings.ReplaceAll(src, "%O", bridgedName(b)+"_owner") + "; var " + bridgedName(b) + " = __alias;"); err != nil {
				return err
			}
			continue
		}
		if err := vm.Set(bridgedName(b), freshBridged(b)); err != nil {
			return err
		}
	}
	return nil
}

// StaleOwner holds members that a script aliases and then removes.
type StaleOwner struct {
	P *EmbedInner
	I interface{}
	S []*EmbedInner
	M map[string]*EmbedInner
}

// staleAliases: bridged kinds that are aliases (__alias) of a member of %O taken
// before the member was dropped.
var staleAliases = map[string]string{
	"stale_ptr_field":   `var __alias = %O.P; try { %O.P = null } catch (e) {}`,
	"stale_iface_field": `var __alias = %O.I; try { %O.I = null } catch (e) {}`,
	"stale_slice_elem":  `var __alias = %O.S[0]; try { %O.S[0] = null } catch (e) {} try { %O.S.length = 0 } catch (e) {}`,
	"stale_map_value":   `var __alias = %O.M.k; try { delete %O.M.k } catch (e) {}`,
	"stale_slice":       `var __alias = %O.S; try { %O.S = null } catch (e) {} try { %O.S = [] } catch (e) {}`,
	"stale_map":         `var __alias = %O.M; try { %O.M = null } catch (e) {} try { %O.M = {} } catch (e) {}`,
}

func kindArraySource(name string, ks []kind) string {
	parts := make([]string, len(ks))
	for i, k := range ks {
		if k.Bridged != "" {
			parts[i] = "null"
		} else {
			parts[i] = k.Expr
		}
	}
	return name + " = [" + strings.Join(parts, ",\n") + "];"
}

func kindIndex(ks []kind, name string) int {
	for i, k := range ks {
		if k.Name == name {
			return i
		}
	}
	panic("unknown kind " + name)
}

// outcome renders the result of a guarded call for the distinct-outcome count.
func outcome(res ox.Result) string {
	switch {
	case res.Panicked:
		return "panic:" + panicClass(res.PanicVal)
	case res.Err != nil:
		return "err:" + ox.ErrClass(res.Err)
	}
	return "ok:" + safeCanon(res.Value)
}

// safeCanon is ox.Canon behind a recover: a malformed Value handed back by the
// API must not kill the harness (it is reported by the accessor sweep).
func safeCanon(v otto.Value) (s string) {
	defer func() {
		if recover() != nil {
			s = "<accessor panicked>"
		}
	}()
	return ox.Canon(v)
}

// sparse picks roughly one case in n (by a hash of the key) for the evidence
// samples, so that the few samples kept are spread over the family.
func sparse(key string, n uint32) bool {
	h := uint32(2166136261)
	for i := 0; i < len(key); i++ {
		h = (h ^ uint32(key[i])) * 16777619
	}
	return h%n == 0
}
