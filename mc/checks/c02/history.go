package c02

import (
	"fmt"
	"strings"

	"github.com/robertkrimen/otto"

	"verif/mc/engine"
	"verif/mc/ox"
)

// history: object-model histories followed by every observer.
//
// The surface families call each built-in once on fixed kinds; crashes that
// need a short history (an existing data property redefined by an accessor
// descriptor with an explicit undefined half, then the descriptor touched or
// the runtime copied) are out of their reach. This family enumerates, for every
// subject (object shape x property name), ALL sequences of 2 (thorough: 3)
// steps over an alphabet of descriptors (complete, partial, contradictory,
// with explicit-undefined get / set), assignments, delete and freeze / seal /
// preventExtensions, and then applies every observer: getOwnPropertyDescriptor
// with every field of the result touched (JSON.stringify, String, .name,
// .call), keys, for-in, JSON.stringify, reads and writes, Value.Export, the
// Object accessors from Go, and Otto.Copy() followed by the same script
// observers on the copy. Oracle: everything returns, no Go panic, the runtime
// still answers.

type subject struct {
	Name    string
	Ctor    string // JS expression (ordinary subjects)
	Bridged string
	Props   []string
	// Shallow subjects (the arguments-object matrix) get histories of length
	// <= 1 (thorough <= 2) instead of <= 2 (thorough 3).
	Shallow bool
}

// argumentsSubjects: the arguments object for every (#formals, #actuals) in
// {0..3}^2 — each probed at every index 0..max(formals, actuals) — plus
// duplicate parameter names and a parameter named `arguments`.
func argumentsSubjects() []subject {
	var out []subject
	formals := []string{"a", "b", "c"}
	actuals := []string{"1", `"s"`, "{}"}
	for f := 0; f <= 3; f++ {
		for a := 0; a <= 3; a++ {
			var props []string
			for i := 0; i <= max(f, a); i++ {
				props = append(props, fmt.Sprint(i))
			}
			out = append(out, subject{Name: fmt.Sprintf("args-f%d-a%d", f, a), Shallow: true, Props: props,
				Ctor: fmt.Sprintf("(function(%s){ return arguments })(%s)", strings.Join(formals[:f], ", "), strings.Join(actuals[:a], ", "))})
		}
	}
	out = append(out,
		subject{Name: "args-dup-a1", Shallow: true, Props: []string{"0", "1", "2"}, Ctor: `(function(a, a){ return arguments })(1)`},
		subject{Name: "args-dup-a2", Shallow: true, Props: []string{"0", "1", "2"}, Ctor: `(function(a, a){ return arguments })(1, 2)`},
		subject{Name: "args-dup3-a0", Shallow: true, Props: []string{"0", "1", "2"}, Ctor: `(function(a, b, a){ return arguments })()`},
		subject{Name: "args-named-arguments", Shallow: true, Props: []string{"0", "1"}, Ctor: `(function(a, arguments){ return arguments })(1, [2])`},
		subject{Name: "args-named-arguments-unpassed", Shallow: true, Props: []string{"0", "1"}, Ctor: `(function(arguments, b){ return [arguments, b] })()`},
		subject{Name: "args-closure", Shallow: true, Props: []string{"0", "1"}, Ctor: `(function(arguments){ var f = function(){ return arguments }; f.keep = arguments; return f })(1)`},
		subject{Name: "args-callee-chain", Shallow: true, Props: []string{"0", "1", "callee", "length"}, Ctor: `(function(a, b){ a = 5; return arguments })(1)`},
	)
	return out
}

var subjects = append([]subject{
	{Name: "data", Ctor: `({x: 1})`, Props: []string{"x"}},
	{Name: "accessor", Ctor: `Object.defineProperty({}, "x", {get: function(){ return 1 }, set: function(v){}, enumerable: true, configurable: true})`, Props: []string{"x"}},
	{Name: "fixed-data", Ctor: `Object.defineProperty({}, "x", {value: 1})`, Props: []string{"x"}},
	{Name: "absent", Ctor: `({})`, Props: []string{"x"}},
	{Name: "u16-key", Ctor: `(function(){ var o = {}; o[String.fromCharCode(107)] = String.fromCharCode(118); return o })()`, Props: []string{"@String.fromCharCode(107)", "@String.fromCharCode(0xD800)"}},
	{Name: "inherited", Ctor: `Object.create({x: 1})`, Props: []string{"x"}},
	{Name: "array", Ctor: `[1, 2]`, Props: []string{"0", "length"}},
	{Name: "function", Ctor: `(function f(a){ return a })`, Props: []string{"prototype", "length"}},
	{Name: "arguments", Ctor: `(function(a){ return arguments })(1, 2)`, Props: []string{"0"}},
	{Name: "String", Ctor: `new String("ab")`, Props: []string{"0", "x"}},
	{Name: "go-struct", Bridged: "struct", Props: []string{"A"}},
	{Name: "go-map", Bridged: "map", Props: []string{"a"}},
	{Name: "go-slice", Bridged: "slice", Props: []string{"0"}},
	{Name: "go-array", Bridged: "array", Props: []string{"0"}},
	{Name: "go-named-map", Bridged: "nmap", Props: []string{"a", "zz"}},
}, argumentsSubjects()...)

// steps: o is the subject, P the property name. Every step runs inside
// try/catch: a thrown TypeError is a legitimate outcome of a step.
var histSteps = []struct{ Name, Src string }{
	{"def-value", `Object.defineProperty(o, P, {value: 2})`},
	{"def-data-full", `Object.defineProperty(o, P, {value: 2, writable: true, enumerable: true, configurable: true})`},
	{"def-value-undef", `Object.defineProperty(o, P, {value: undefined})`},
	{"def-value-self", `Object.defineProperty(o, P, {value: o, configurable: true})`},
	{"def-value-u16", `Object.defineProperty(o, P, {value: String.fromCharCode(104, 105)})`},
	{"def-fixed-u16", `Object.defineProperty(o, P, {value: String.fromCharCode(104, 105), writable: false, enumerable: true, configurable: false})`},
	{"assign-u16", `o[P] = String.fromCharCode(104, 105)`},
	{"def-readonly", `Object.defineProperty(o, P, {writable: false})`},
	{"def-hidden", `Object.defineProperty(o, P, {enumerable: false})`},
	{"def-fixed", `Object.defineProperty(o, P, {configurable: false})`},
	{"def-empty", `Object.defineProperty(o, P, {})`},
	{"def-get", `Object.defineProperty(o, P, {get: function(){ return 3 }})`},
	{"def-set", `Object.defineProperty(o, P, {set: function(v){ this.y = v }})`},
	{"def-getundef-set", `Object.defineProperty(o, P, {get: undefined, set: function(v){ this.y = v }})`},
	{"def-get-setundef", `Object.defineProperty(o, P, {get: function(){ return 3 }, set: undefined})`},
	{"def-getundef-setundef", `Object.defineProperty(o, P, {get: undefined, set: undefined})`},
	{"def-getundef", `Object.defineProperty(o, P, {get: undefined})`},
	{"def-accessor-full", `Object.defineProperty(o, P, {get: function(){ return 3 }, set: function(v){}, enumerable: true, configurable: true})`},
	{"def-get-throws", `Object.defineProperty(o, P, {get: function(){ throw new TypeError("g") }, configurable: true})`},
	{"def-contradictory", `Object.defineProperty(o, P, {value: 1, get: function(){}})`},
	{"def-get-noncallable", `Object.defineProperty(o, P, {get: 1})`},
	{"defs-getundef-set", `(function(){ var m = {}; m[P] = {get: undefined, set: function(v){}}; Object.defineProperties(o, m) })()`},
	{"assign", `o[P] = 5`},
	{"assign-undef", `o[P] = undefined`},
	{"delete", `delete o[P]`},
	{"freeze", `Object.freeze(o)`},
	{"seal", `Object.seal(o)`},
	{"prevent", `Object.preventExtensions(o)`},
	{"set-length", `o.length = 1`},
	{"proto-accessor", `Object.defineProperty(Object.getPrototypeOf(o), P, {get: undefined, set: function(v){}, configurable: true})`},
}

// quickFirstSteps: the first steps of the two-step histories in the quick tier.
var quickFirstSteps = map[string]bool{"def-value": true, "def-data-full": true, "def-fixed": true, "def-fixed-u16": true, "def-get": true, "def-getundef-set": true,
	"def-accessor-full": true, "assign": true, "delete": true, "freeze": true, "seal": true, "prevent": true}

// script observers (each is its own Run)
var histObservers = []struct{ Name, Src string }{
	{"gopd-fields", `(function(){ var d = Object.getOwnPropertyDescriptor(o, P); return d === undefined ? "u" : [typeof d.value, typeof d.get, typeof d.set, d.writable, d.enumerable, d.configurable].join() })()`},
	{"gopd-json", `JSON.stringify(Object.getOwnPropertyDescriptor(o, P))`},
	{"gopd-string", `(function(){ var d = Object.getOwnPropertyDescriptor(o, P); return d && (String(d.get) + String(d.set) + (d.value === o ? "self" : String(d.value))) })()`},
	{"gopd-name", `(function(){ var d = Object.getOwnPropertyDescriptor(o, P); return d && [d.get && d.get.name, d.get && d.get.length, d.set && d.set.name, d.set && d.set.length].join() })()`},
	{"gopd-call", `(function(){ var d = Object.getOwnPropertyDescriptor(o, P); if (!d) return "u"; var r = []; if (d.get && d.get.call) r.push(d.get.call(o)); if (d.set && d.set.call) r.push(d.set.call(o, 1)); return r.length })()`},
	{"gopd-keys", `(function(){ var d = Object.getOwnPropertyDescriptor(o, P); return d && Object.keys(d).map(function(k){ return k + ":" + Object.keys(Object(d[k])).length }).join() })()`},
	{"gopd-all", `Object.getOwnPropertyNames(o).map(function(n){ var d = Object.getOwnPropertyDescriptor(o, n); return n + ":" + typeof d.value + typeof d.get + typeof d.set }).join()`},
	{"keys", `Object.keys(o).join() + "|" + Object.getOwnPropertyNames(o).join()`},
	{"for-in", `(function(){ var k = []; for (var n in o) k.push(n); return k.join() })()`},
	{"json", `JSON.stringify(o)`},
	{"slice", `Array.prototype.slice.call(o).length + "|" + Array.prototype.concat.call([], o).length`},
	{"in", `(function(){ return [P in o, Object.prototype.hasOwnProperty.call(o, P)].join() })()`},
	{"read", `(function(){ return [typeof o[P], P in o, Object.prototype.hasOwnProperty.call(o, P), Object.prototype.propertyIsEnumerable.call(o, P)].join() })()`},
	{"write", `(function(){ o[P] = 9; return typeof o[P] })()`},
	{"delete", `delete o[P]`},
	{"string", `String(o) + Object.prototype.toString.call(o)`},
	{"state", `[Object.isFrozen(o), Object.isSealed(o), Object.isExtensible(o)].join()`},
	{"redefine", `(function(){ Object.defineProperty(o, P, {get: function(){ return 1 }, configurable: true}); return typeof o[P] })()`},
	{"redefine-data", `(function(){ Object.defineProperty(o, P, {value: 7, writable: true}); return typeof o[P] })()`},
}

// observers that change the subject (the runtime is rebuilt from the history
// after them, and after any observer that panicked)
var mutatingObservers = map[string]bool{"gopd-call": true, "write": true, "delete": true, "redefine": true, "redefine-data": true, "go-set": true}

// the script observers that are repeated on a Copy() of the runtime
var copyObservers = []string{"gopd-fields", "gopd-json", "gopd-string", "gopd-name", "gopd-call", "json", "read"}

func histSource(s subject, prop string, steps []int) string {
	var sb strings.Builder
	if s.Bridged != "" {
		sb.WriteString("var o = " + bridgedName(s.Bridged) + "; ")
	} else {
		sb.WriteString("var o = " + s.Ctor + "; ")
	}
	if strings.HasPrefix(prop, "@") {
		sb.WriteString("var P = " + prop[1:] + ";\n") // a computed property name
	} else {
		fmt.Fprintf(&sb, "var P = %q;\n", prop)
	}
	for _, st := range steps {
		sb.WriteString("try { " + histSteps[st].Src + " } catch (e) {}\n")
	}
	return sb.String()
}

func runHistory(r *rc) {
	defer muteStdout()()
	base := otto.New()
	depth := 2
	if r.Thorough() {
		depth = 3
	}
	n := len(histSteps)
	for _, s := range subjects {
		for _, prop := range s.Props {
			// all step sequences of length 0..depth, shortest first
			maxLen := depth
			if s.Shallow {
				maxLen = depth - 1
			}
			for l := 0; l <= maxLen; l++ {
				idx := make([]int, l)
				for {
					names := make([]string, l)
					for i, st := range idx {
						names[i] = histSteps[st].Name
					}
					// quick tier: two-step histories start with one of 12 first steps
					skip := !r.Thorough() && l == 2 && !quickFirstSteps[histSteps[idx[0]].Name]
					key := s.Name + "|" + prop + "|" + strings.Join(names, ".")
					if l == 0 {
						key = s.Name + "|" + prop + "|-"
					}
					if !skip && r.MinePrefix(key) {
						if r.Expired() {
							r.Cap("time budget reached")
							return
						}
						execHistory(r, base, s, prop, idx, key)
					}
					i := l - 1
					for i >= 0 {
						idx[i]++
						if idx[i] < n {
							break
						}
						idx[i] = 0
						i--
					}
					if i < 0 {
						break
					}
				}
			}
		}
	}
	r.Bound("subjects", fmt.Sprint(len(subjects)))
	r.Bound("steps", fmt.Sprint(n))
	r.Bound("history_length", fmt.Sprint(depth))
	r.Bound("observers", fmt.Sprint(len(histObservers)+len(copyObservers)+4))
}

func execHistory(r *rc, base *otto.Otto, s subject, prop string, steps []int, key string) {
	src := histSource(s, prop, steps)
	r.Describe(src)
	r.Begin(key)
	defer r.End()

	build := func() (*otto.Otto, ox.Result) {
		vm := base.Copy()
		// a step may store the subject inside itself (value: o); String(o) of such an
		// array is unbounded script recursion, which only has to end in a
		// RangeError when a stack depth limit is configured
		vm.SetStackDepthLimit(apiStackLimit)
		if s.Bridged != "" {
			if err := installBridged(vm, map[string]bool{s.Bridged: true}); err != nil {
				return vm, ox.Result{Err: err}
			}
		}
		return vm, ox.Run(vm, src)
	}
	report := func(observer, phase, osrc string, res ox.Result) {
		site, via := panicSite(res.Stack)
		names := strings.SplitN(key, "|", 3)[2]
		devDump(key+"#"+observer, src+osrc, phase, panicClass(res.PanicVal), panicText(res.PanicVal), site, via)
		r.Mismatch(engine.Mismatch{Key: key + "#" + observer, Input: src + osrc,
			Expected: "the API call returns a value or an error",
			Observed: "Go panic escaped (" + phase + "): " + panicText(res.PanicVal) + " @ " + site,
			Note:     trimStack(res.Stack),
			Aux: map[string]string{"subject": s.Name, "prop": prop, "steps": names, "observer": observer, "phase": phase,
				"class": panicClass(res.PanicVal), "panic": panicText(res.PanicVal), "site": site, "via": via}})
	}
	only := ""
	if i := strings.Index(r.ReplayKey, "#"); i >= 0 {
		only = r.ReplayKey[i+1:]
	}

	vm, hres := build()
	if hres.Panicked {
		r.EvalN(1, 1)
		r.Outcome("history-panic")
		report("history", "history", "", hres)
		return
	}
	dirty := false
	fresh := func() *otto.Otto {
		if dirty {
			vm, _ = build()
			dirty = false
		}
		return vm
	}
	count, ok := int64(0), int64(0)
	var outs []string
	check := func(name, osrc string, res ox.Result) {
		count++
		if res.Panicked {
			report(name, "observer", osrc, res)
			dirty = true
			outs = append(outs, "panic")
			return
		}
		if res.Err == nil {
			ok++
		}
		outs = append(outs, outcome(res))
	}
	for _, o := range histObservers {
		if only != "" && only != o.Name {
			continue
		}
		check(o.Name, o.Src, ox.Run(fresh(), o.Src))
		if mutatingObservers[o.Name] {
			dirty = true // the observer changed o: the next one sees the history afresh
		}
	}
	goObservers := []struct {
		Name string
		Do   func(vm *otto.Otto) (otto.Value, error)
	}{
		{"go-export", func(vm *otto.Otto) (otto.Value, error) {
			v, err := vm.Get("o")
			if err != nil {
				return v, err
			}
			_, err = v.Export()
			_ = v.String()
			return otto.Value{}, err
		}},
		{"go-object", func(vm *otto.Otto) (otto.Value, error) {
			v, err := vm.Get("o")
			if err != nil || !v.IsObject() {
				return v, err
			}
			ob := v.Object()
			_ = ob.Keys()
			_ = ob.KeysByParent()
			_, _ = ob.MarshalJSON()
			g, err := ob.Get(prop)
			_ = g.String()
			_, _ = g.Export()
			return g, err
		}},
		{"go-set", func(vm *otto.Otto) (otto.Value, error) {
			v, err := vm.Get("o")
			if err != nil || !v.IsObject() {
				return v, err
			}
			return otto.Value{}, v.Object().Set(prop, 11)
		}},
		{"go-context", func(vm *otto.Otto) (otto.Value, error) {
			c := vm.Context()
			for _, sv := range c.Symbols {
				_ = sv.IsDefined()
			}
			return c.This, nil
		}},
	}
	for _, g := range goObservers {
		if only != "" && only != g.Name {
			continue
		}
		g := g
		cur := fresh()
		check(g.Name, " /* "+g.Name+" */", ox.Guard(func() (otto.Value, error) { return g.Do(cur) }))
		if mutatingObservers[g.Name] {
			dirty = true
		}
	}
	// Copy() and the script observers on the copy
	if only == "" || strings.HasPrefix(only, "copy") {
		cur := fresh()
		var cp *otto.Otto
		cres := ox.Guard(func() (otto.Value, error) { cp = cur.Copy(); return otto.Value{}, nil })
		check("copy", " /* Otto.Copy() */", cres)
		if !cres.Panicked && cp != nil {
			for _, o := range histObservers {
				use := false
				for _, c := range copyObservers {
					use = use || c == o.Name
				}
				if !use || (only != "" && only != "copy" && only != "copy-"+o.Name) {
					continue
				}
				res := ox.Run(cp, o.Src)
				check("copy-"+o.Name, " /* on Otto.Copy(): */ "+o.Src, res)
				if res.Panicked {
					break
				}
			}
		}
	}
	post := ox.Run(fresh(), "1+1")
	if post.Panicked {
		report("runtime-after", "runtime-after", "1+1", post)
	}
	r.EvalN(count, ok)
	r.Outcome(strings.Join(outs, "|"))
	if r.WantSample() && sparse(key, 1499) {
		r.Sample(strings.ReplaceAll(src, "\n", " ") + " => " + strings.Join(outs[:min(4, len(outs))], "|") + "|...")
	}
}
