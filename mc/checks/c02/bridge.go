package c02

import (
	"fmt"
	"strings"

	"github.com/robertkrimen/otto"

	"verif/mc/engine"
	"verif/mc/ox"
)

// bridge: script-level operations (property read / write / delete / in /
// defineProperty / enumeration / call) on the four bridged Go kinds x property
// names. These are the operations that are syntax rather than built-in
// functions, so the surface families cannot reach them; several of them can
// kill the process (unbounded Go recursion).

var bridgeNames = []string{"0", "1", "7", "foo", "length", "A", "a", "Get", "X", "F", "G"}

// %X is the bridged object, %P the property name literal.
var bridgeOps = []struct{ Name, Src string }{
	{"get", `%X[%P]`},
	{"set-int", `%X[%P] = 1`},
	{"set-float", `%X[%P] = 1.5`},
	{"set-neg", `%X[%P] = -1`},
	{"set-2^32", `%X[%P] = 4294967296`},
	{"set-null", `%X[%P] = null`},
	{"set-array", `%X[%P] = [1]`},
	{"set-function", `%X[%P] = function(){ throw 1 }; %X[%P]()`},
	{"set-self", `%X[%P] = %X`},
	{"member-of-member", `%X[%P].X = 8; %X[%P][0] = 9; %X[%P].a = 7`},
	{"set-string", `%X[%P] = "x"`},
	{"set-object", `%X[%P] = {}`},
	{"set-undefined", `%X[%P] = undefined`},
	{"delete", `delete %X[%P]`},
	{"in", `%P in %X`},
	{"call", `%X[%P]()`},
	{"call-args", `%X[%P](1, "x", {})`},
	{"define-value", `Object.defineProperty(%X, %P, {value: 1, writable: true, enumerable: true, configurable: true})`},
	{"define-getter", `Object.defineProperty(%X, %P, {get: function(){ return 1 }, configurable: true})`},
	{"define-attrs", `Object.defineProperty(%X, %P, {enumerable: false})`},
	{"gopd", `Object.getOwnPropertyDescriptor(%X, %P)`},
	{"hasOwn", `Object.prototype.hasOwnProperty.call(%X, %P)`},
	{"for-in", `(function(){ var k = []; for (var n in %X) k.push(n); return k.join() })()`},
	// enumeration WHILE the container is mutated (the enumerators of bridged
	// slices / maps work from a snapshot of the length / key list)
	{"forin-shrink", `(function(){ var c = 0; for (var n in %X) { c++; try { %X.length = 1 } catch (e) {} } return c })()`},
	{"forin-length0", `(function(){ var c = 0; for (var n in %X) { c++; try { %X.length = 0 } catch (e) {} } return c })()`},
	{"forin-delete-all", `(function(){ var c = 0; for (var n in %X) { c++; for (var m in %X) { try { delete %X[m] } catch (e) {} } } return c })()`},
	{"forin-delete-name", `(function(){ var c = 0; for (var n in %X) { c++; try { delete %X[%P]; delete %X.b; delete %X[1]; delete %X[2] } catch (e) {} } return c })()`},
	{"forin-pop", `(function(){ var c = 0; for (var n in %X) { c++; try { Array.prototype.pop.call(%X); Array.prototype.shift.call(%X) } catch (e) {} } return c })()`},
	{"forin-push", `(function(){ var c = 0; for (var n in %X) { if (++c > 20) break; try { Array.prototype.push.call(%X, 1); %X["k" + c] = 1 } catch (e) {} } return c })()`},
	{"forin-reassign", `(function(){ var x = %X, c = 0; for (var n in x) { c++; x = {}; try { %X.length = 0 } catch (e) {} } return c })()`},
	{"forin-read-after-shrink", `(function(){ var r = []; for (var n in %X) { try { %X.length = 1 } catch (e) {} r.push(typeof %X[n], n in %X) } return r.join() })()`},
	{"keys-forEach-mutate", `Object.keys(%X).forEach(function(n){ try { %X.length = 0 } catch (e) {} try { delete %X[n] } catch (e) {} return typeof %X[n] })`},
	{"gopn-mutate", `Object.getOwnPropertyNames(%X).map(function(n){ try { %X.length = 1 } catch (e) {} return JSON.stringify(Object.getOwnPropertyDescriptor(%X, n)) }).length`},
	{"forEach-mutate", `(function(){ var c = 0; Array.prototype.forEach.call(%X, function(v, i, a){ c++; try { a.length = 1 } catch (e) {} try { delete a[i + 1] } catch (e) {} }); return c })()`},
	{"map-mutate", `Array.prototype.map.call(%X, function(v, i, a){ try { a.length = 0 } catch (e) {} return v }).length`},
	{"some-mutate", `Array.prototype.some.call(%X, function(v, i, a){ try { Array.prototype.pop.call(a) } catch (e) {} return false })`},
	{"reduce-mutate", `Array.prototype.reduce.call(%X, function(p, v, i, a){ try { a.length = 1 } catch (e) {} return p }, 0)`},
	{"sort-mutate", `(function(){ try { return Array.prototype.sort.call(%X, function(){ try { %X.length = 1 } catch (e) {} return 1 }).length } catch (e) { return e.name } })()`},
	{"stringify-replacer-mutate", `JSON.stringify(%X, function(k, v){ try { %X.length = 0 } catch (e) {} try { for (var m in %X) delete %X[m] } catch (e) {} return v })`},
	{"stringify-nested-mutate", `JSON.stringify({a: %X, toJSON: function(){ try { %X.length = 1 } catch (e) {} return {b: %X, c: %X} }})`},
	{"join-mutate", `(function(){ var t = {toString: function(){ try { %X.length = 1 } catch (e) {} return "t" }}; return [t, %X, t].join() + Array.prototype.join.call(%X, t) })()`},
	{"freeze-forin", `(function(){ try { Object.freeze(%X) } catch (e) {} var c = 0; for (var n in %X) { c++; try { %X.length = 0 } catch (e) {} } return c })()`},
	{"keys", `Object.keys(%X).concat(Object.getOwnPropertyNames(%X)).join()`},
	{"json", `JSON.stringify(%X)`},
	{"string", `String(%X) + (%X + 1)`},
	{"freeze", `Object.freeze(%X); %X[%P] = 1; Object.isFrozen(%X)`},
	{"set-then-delete", `%X[%P] = 1; delete %X[%P]; %X[%P]`},
}

// ops that do not use %P are enumerated once (with the first name)
func usesName(src string) bool { return strings.Contains(src, "%P") }

func runBridge(r *rc) {
	defer muteStdout()()
	base := (*otto.Otto)(nil)
	for _, b := range allBridged {
		for _, op := range bridgeOps {
			for ni, name := range bridgeNames {
				if ni > 0 && !usesName(op.Src) {
					continue
				}
				key := b + "|" + op.Name + "|" + name
				if !r.MineKey(key) {
					continue
				}
				src := strings.ReplaceAll(strings.ReplaceAll(op.Src, "%X", bridgedName(b)), "%P", fmt.Sprintf("%q", name))
				rendered := strings.ReplaceAll(src, bridgedName(b), "<Go "+b+">")
				aux := map[string]string{"bridged": b, "op": op.Name, "name": name}
				b := b
				func() {
					if base == nil {
						base = otto.New()
					}
					r.Describe(rendered)
					r.Begin(key)
					vm := base.Copy()
					vm.SetStackDepthLimit(apiStackLimit) // set-self makes the container cyclic
					if err := installBridged(vm, map[string]bool{b: true}); err != nil {
						r.End()
						r.HarnessError(err.Error())
						return
					}
					res := ox.Run(vm, src)
					if !res.Panicked {
						// the Go side looks at the bridged value afterwards
						if g := ox.Guard(func() (otto.Value, error) {
							v, err := vm.Get(bridgedName(b))
							if err != nil {
								return v, err
							}
							_, _ = v.Export()
							_, _ = v.MarshalJSON()
							_ = v.String()
							if o := v.Object(); o != nil {
								_ = o.Keys()
								_ = o.KeysByParent()
								_, _ = o.MarshalJSON()
							}
							return v, nil
						}); g.Panicked {
							res = g
						}
					}
					post := ox.Run(vm, "1+1")
					r.End()
					r.Eval(!res.Panicked && res.Err == nil)
					r.Outcome(op.Name + "=>" + outcome(res))
					for _, pr := range []struct {
						phase string
						res   ox.Result
					}{{"call", res}, {"runtime-after", post}} {
						if !pr.res.Panicked {
							continue
						}
						site, via := panicSite(pr.res.Stack)
						a := map[string]string{"phase": pr.phase, "class": panicClass(pr.res.PanicVal), "panic": panicText(pr.res.PanicVal), "site": site, "via": via}
						for k, v := range aux {
							a[k] = v
						}
						devDump(key, rendered, pr.phase, a["class"], a["panic"], site, via)
						r.Mismatch(engine.Mismatch{Key: key, Input: rendered, Expected: "the API call returns a value or an error",
							Observed: "Go panic escaped (" + pr.phase + "): " + panicText(pr.res.PanicVal) + " @ " + site,
							Note:     trimStack(pr.res.Stack), Aux: a})
					}
					if r.WantSample() && sparse(key, 23) {
						r.Sample(rendered + "  =>  " + outcome(res))
					}
				}()
			}
		}
	}
	r.Bound("bridged_kinds", fmt.Sprint(len(allBridged)))
	r.Bound("operations", fmt.Sprint(len(bridgeOps)))
	r.Bound("property_names", fmt.Sprint(len(bridgeNames)))
}
