package c02

import (
	"encoding/json"
	"fmt"
	"strings"

	"github.com/robertkrimen/otto"

	"verif/mc/engine"
	"verif/mc/ox"
)

// Four families added after the fifth review round. Each enumerates a class of
// inputs completely (no pasted witnesses):
//
//	walk-mutation  every built-in that walks a structure while calling user code
//	               x structure x what the user code does to the structure at a visit
//	sinks          every string representation (plain, UTF-16 backed, lone
//	               surrogates, wrapped) x every Go-typed sink it can flow into
//	globals        every special binding of the global object / intrinsic
//	               prototype method x how a script can mutate it x every public
//	               Otto method afterwards
//	descriptors    the lattice of descriptor shapes x receiver kinds (bridged
//	               and ordinary) x property names x defining operation
//
// gcase is one case of these families.
type gcase struct {
	Key     string
	Desc    string // rendered input
	Limit   int    // stack depth limit to configure (0 = none)
	Bridged []string
	Aux     map[string]string
	// Do runs the case on vm (a fresh Copy() of the family's base runtime).
	Do func(vm *otto.Otto) (otto.Value, error)
}

func execGeneric(r *rc, base *otto.Otto, c gcase, sampleMod uint32) {
	r.Describe(c.Desc)
	r.Begin(c.Key)
	vm := base.Copy()
	if c.Limit > 0 {
		vm.SetStackDepthLimit(c.Limit)
	}
	if len(c.Bridged) > 0 {
		used := map[string]bool{}
		for _, b := range c.Bridged {
			used[b] = true
		}
		if err := installBridged(vm, used); err != nil {
			r.End()
			r.HarnessError(err.Error())
			return
		}
	}
	res := ox.Guard(func() (otto.Value, error) { v, err := c.Do(vm); touchErr(err); return v, err })
	var acc ox.Result
	if !res.Panicked && res.Err == nil {
		acc = ox.Guard(func() (otto.Value, error) {
			_ = res.Value.String()
			_, _ = res.Value.Export()
			_ = res.Value.Class()
			return otto.Value{}, nil
		})
	}
	post := ox.Run(vm, "1+1")
	r.End()
	out := outcome(res)
	r.Eval(!res.Panicked && res.Err == nil)
	r.Outcome(c.Aux["group"] + "=>" + out)
	if r.WantSample() && sparse(c.Key, sampleMod) {
		r.Sample(strings.ReplaceAll(c.Desc, "\n", " ") + "  =>  " + out)
	}
	for _, pr := range []struct {
		phase string
		res   ox.Result
	}{{"call", res}, {"result-accessor", acc}, {"runtime-after", post}} {
		if !pr.res.Panicked {
			continue
		}
		site, via := panicSite(pr.res.Stack)
		aux := map[string]string{"phase": pr.phase, "class": panicClass(pr.res.PanicVal), "panic": panicText(pr.res.PanicVal), "site": site, "via": via}
		for k, v := range c.Aux {
			aux[k] = v
		}
		devDump(c.Key, c.Desc, pr.phase, aux["class"], aux["panic"], site, via)
		r.Mismatch(engine.Mismatch{Key: c.Key, Input: c.Desc, Expected: "the API call returns a value or an error",
			Observed: "Go panic escaped (" + pr.phase + "): " + panicText(pr.res.PanicVal) + " @ " + site,
			Note:     trimStack(pr.res.Stack), Aux: aux})
		if pr.phase == "call" {
			break
		}
	}
}

// touchErr applies the accessors of an error handed back by the API (the
// *otto.Error methods format positions and stack frames lazily).
func touchErr(err error) {
	if err == nil {
		return
	}
	_ = err.Error()
	if oe, ok := err.(*otto.Error); ok {
		_ = oe.String()
	}
	_ = fmt.Sprintf("%v %+v", err, err)
}

// ---------------------------------------------------------------------------
// walk-mutation

// walkers: %S is a fresh structure; mut(t, k, v) is the user code run at every
// visit (t = holder / array being walked, s = the root structure).
var walkers = []struct{ Name, Src string }{
	{"parse-reviver-array", `JSON.parse('[0, {}, [1], 3]', function(k, v){ return mut(this, k, v) })`},
	{"parse-reviver-object", `JSON.parse('{"a": 0, "b": {}, "c": [1], "d": 3}', function(k, v){ return mut(this, k, v) })`},
	{"parse-reviver-nested", `JSON.parse('[[0, {}], {"b": {}}]', function(k, v){ return mut(this, k, v) })`},
	{"stringify-replacer", `JSON.stringify(s, function(k, v){ return mut(this, k, v) })`},
	{"stringify-undefined-replacer", `JSON.stringify(undefined, function(k, v){ return mut(this, k, v) })`},
	{"stringify-primitive-replacer", `JSON.stringify(1, function(k, v){ return mut(this, k, v) }, "\t")`},
	{"stringify-replacer-gap", `JSON.stringify(s, function(k, v){ return mut(this, k, v) }, 2)`},
	{"stringify-toJSON", `(function(){ var o = {x: s, y: {toJSON: function(k){ return mut(s, k, {a: [1]}) }}, z: s}; return JSON.stringify(o) })()`},
	{"stringify-toJSON-root", `(function(){ s.toJSON = function(k){ return mut(s, k, [1, {}]) }; return JSON.stringify([s, s]) })()`},
	{"stringify-getter", `(function(){ getter(s); return JSON.stringify(s) })()`},
	{"keys-getter", `(function(){ getter(s); return Object.keys(s).map(function(k){ return typeof s[k] }).join() })()`},
	{"for-in", `(function(){ var c = 0; for (var k in s) { mut(s, k, 1); if (++c > 100) break } return c })()`},
	{"for-in-getter", `(function(){ getter(s); var c = 0; for (var k in s) { c += typeof s[k] === "x" ? 0 : 1; if (c > 100) break } return c })()`},
	{"forEach", `Array.prototype.forEach.call(s, function(v, i, a){ mut(a, i, v) })`},
	{"map", `Array.prototype.map.call(s, function(v, i, a){ return mut(a, i, v) })`},
	{"filter", `Array.prototype.filter.call(s, function(v, i, a){ return mut(a, i, v) })`},
	{"every", `Array.prototype.every.call(s, function(v, i, a){ mut(a, i, v); return true })`},
	{"some", `Array.prototype.some.call(s, function(v, i, a){ mut(a, i, v); return false })`},
	{"reduce", `Array.prototype.reduce.call(s, function(p, v, i, a){ return mut(a, i, v) }, 0)`},
	{"reduceRight", `Array.prototype.reduceRight.call(s, function(p, v, i, a){ return mut(a, i, v) }, 0)`},
	{"sort-comparator", `Array.prototype.sort.call(s, function(a, b){ mut(s, 0, a); return 1 })`},
	{"sort-comparator-alt", `Array.prototype.sort.call(s, function(a, b){ mut(s, 0, a); return n % 2 ? -1 : 1 })`},
	{"join-getter", `(function(){ getter(s); return Array.prototype.join.call(s) })()`},
	{"join-toString", `(function(){ s[0] = {toString: function(){ return String(typeof mut(s, 0, "x")) }}; s.length = s.length || 2; return Array.prototype.join.call(s) })()`},
	{"toString-element", `(function(){ s[0] = {toString: function(){ return String(typeof mut(s, 0, "x")) }}; return String([s[0], [s[0]]]) })()`},
	{"toLocaleString-element", `(function(){ var a = [{toLocaleString: function(){ return String(typeof mut(s, 0, "x")) }}, s]; return a.toLocaleString() })()`},
	{"concat-getter", `(function(){ getter(s); return Array.prototype.concat.call([], s, s).length })()`},
	{"slice-getter", `(function(){ getter(s); return Array.prototype.slice.call(s, 0).length })()`},
	{"splice-getter", `(function(){ getter(s); return Array.prototype.splice.call(s, 0, 1, "z").length })()`},
	{"reverse-getter", `(function(){ getter(s); Array.prototype.reverse.call(s); return 1 })()`},
	{"shift-getter", `(function(){ getter(s); return typeof Array.prototype.shift.call(s) })()`},
	{"unshift-getter", `(function(){ getter(s); return Array.prototype.unshift.call(s, 9) })()`},
	{"indexOf-getter", `(function(){ getter(s); return Array.prototype.indexOf.call(s, 99) + Array.prototype.lastIndexOf.call(s, 99) })()`},
	{"sort-getter", `(function(){ getter(s); Array.prototype.sort.call(s); return 1 })()`},
	{"apply-getter", `(function(){ getter(s); return typeof Math.max.apply(null, s) })()`},
	{"defineProperties-getter", `(function(){ var p = {}; Object.defineProperty(p, "q", {get: function(){ return mut(s, "q", {value: 1}) }, enumerable: true}); p.r = {value: 2}; return Object.keys(Object.defineProperties({}, p)).length })()`},
	{"create-getter", `(function(){ var p = {}; Object.defineProperty(p, "q", {get: function(){ return mut(s, "q", {value: 1}) }, enumerable: true}); return typeof Object.create(s, p) })()`},
	{"freeze-getter", `(function(){ getter(s); Object.freeze(s); return Object.isFrozen(s) })()`},
	{"descriptor-getter", `(function(){ var d = {}; Object.defineProperty(d, "value", {get: function(){ return mut(s, "value", 1) }, enumerable: true}); Object.defineProperty(s, "w", d); return typeof s.w })()`},
	{"replace-function", `"aaa".replace(/a/g, function(m, i){ return String(typeof mut(s, i, "b")) })`},
	{"replace-function-regexp", `(function(){ var re = /a/g; return "aaa".replace(re, function(m, i){ re.lastIndex = 0; mut(s, i, "b"); return "a" }) })()`},
	{"split-valueOf", `"a,b".split(",", {valueOf: function(){ mut(s, 0, 1); return 5 }}).length`},
	{"string-of", `(function(){ getter(s); return String(s).length })()`},
	{"go-export", `(function(){ getter(s); return s })()`}, // the Go side exports the result (getters run)
	{"bind-args-getter", `(function(){ getter(s); return typeof Function.prototype.bind.apply(function(){}, s) })()`},
	{"array-from-call", `(function(){ getter(s); return Array.apply(null, s).length })()`},
}

var walkStructures = []struct{ Name, Src string }{
	{"array", `[0, {}, [1], 3]`},
	{"object", `({a: 0, b: {}, c: [1], d: 3, length: 3, 0: "p", 1: {}, 2: "r"})`},
}

// mutations: the body of mut(t, k, v); "return" overrides the value handed
// back to the walker. Safe mutations cannot make the structure cyclic or
// deeper, so they also run without a stack depth limit.
var walkMutations = []struct {
	Name, Src string
	Safe      bool
}{
	{"none", ``, true},
	{"self-cycle", `t.self = t`, false},
	{"sibling-cycle", `var o = t[1] || t.b; if (o && typeof o === "object") o.self = o`, false},
	{"sibling-root", `var o = t[1] || t.b; if (o && typeof o === "object") o.root = s`, false},
	{"push-self", `if (n < 40) { if (typeof t.push === "function") t.push(t); else t["k" + n] = t }`, false},
	{"next-sibling-self", `if (/^\d+$/.test(String(k))) t[+k + 1] = t; else t.zz = t`, false},
	{"deepen", `t["d" + (n % 3)] = {d: [{e: {}}]}`, false},
	{"deepen-chain", `chain = chain.next = {}`, false},
	{"deepen-sibling", `if (/^\d+$/.test(String(k))) t[+k + 1] = [[{}]]; else t.zz = {zz: {}}`, false},
	{"lengthen", `if (n < 40) { if (typeof t.push === "function") t.push(n); else t["k" + n] = n }`, true},
	{"lengthen-length", `if (n < 40 && typeof t.length === "number") t.length = t.length + 1`, true},
	{"shorten", `if (typeof t.pop === "function") t.length = 0; else { delete t.c; delete t.d; t.length = 0 }`, true},
	{"delete-next", `delete t[+k + 1]; delete t.b; delete t.c`, true},
	{"freeze", `Object.freeze(t)`, true},
	{"sibling-getter-throws", `try { Object.defineProperty(t, /^\d+$/.test(String(k)) ? String(+k + 1) : "c", {get: function(){ throw new RangeError("g") }, configurable: true, enumerable: true}) } catch (e) {}`, true},
	{"sibling-fixed", `try { Object.defineProperty(t, /^\d+$/.test(String(k)) ? String(+k + 1) : "c", {value: 7, writable: false, configurable: false, enumerable: true}) } catch (e) {}`, true},
	{"return-this", `return t`, false},
	{"return-root", `return s`, false},
	{"return-fresh-nested", `return {a: [{b: {}}]}`, false},
	{"return-fresh-array", `return [k === ""]`, false},
	{"return-fresh-object-with-toJSON", `return {toJSON: function(){ return [{}] }}`, false},
	{"return-undefined", `return undefined`, true},
	{"return-function", `return function(){}`, true},
	{"throw", `throw new RangeError("m")`, true},
	{"reenter-stringify", `JSON.stringify(s)`, false},
	{"reenter-parse", `JSON.parse("[1,{}]", function(k2, v2){ return v2 })`, true},
	{"proto-cycle-attempt", `try { Object.setPrototypeOf && Object.setPrototypeOf(t, t) } catch (e) {} try { t.__proto__ = t } catch (e) {}`, false},
}

const walkLimit = 64

func walkSource(w, st, mu, mode string) string {
	once := ""
	if mode == "once" {
		once = "if (n > 1) return v; "
	}
	return "var n = 0, s = " + st + ", chain = s;\n" +
		"function mut(t, k, v) { n++; " + once + mu + "; return v }\n" +
		// getter(s) installs an enumerable accessor at index/key 1 that runs mut
		"function getter(o) { Object.defineProperty(o, \"1\", {get: function(){ return mut(o, 1, {g: 1}) }, enumerable: true, configurable: true}) }\n" +
		w
}

func runWalkMutation(r *rc) {
	defer muteStdout()()
	base := otto.New()
	for _, w := range walkers {
		for _, st := range walkStructures {
			for _, mu := range walkMutations {
				for _, mode := range []string{"always", "once"} {
					for _, limit := range []int{walkLimit, 0} {
						if limit == 0 && !mu.Safe {
							continue // unbounded growth is only required to stop when a limit is configured
						}
						key := fmt.Sprintf("%s|%s|%s|%s|L%d", w.Name, st.Name, mu.Name, mode, limit)
						if !r.MineKey(key) {
							continue
						}
						if r.Expired() {
							r.Cap("time budget reached")
							return
						}
						src := walkSource(w.Src, st.Src, mu.Src, mode)
						c := gcase{Key: key, Desc: fmt.Sprintf("SetStackDepthLimit(%d); Run: %s", limit, src), Limit: limit,
							Aux: map[string]string{"group": w.Name, "walker": w.Name, "structure": st.Name, "mutation": mu.Name, "mode": mode, "limit": fmt.Sprint(limit)},
							Do:  func(vm *otto.Otto) (otto.Value, error) { return vm.Run(src) }}
						execGeneric(r, base, c, 499)
					}
				}
			}
		}
	}
	r.Bound("walkers", fmt.Sprint(len(walkers)))
	r.Bound("structures", fmt.Sprint(len(walkStructures)))
	r.Bound("mutations", fmt.Sprint(len(walkMutations)))
}

// ---------------------------------------------------------------------------
// sinks

// NamedBool is a named bool type.
type NamedBool bool

// Sink types handed to the script as host functions / bridged containers.
type sinkStruct struct {
	Fn func()
	S  string
	I  int
	B  []byte
	A  interface{}
	L  []string
	M  map[string]string
	P  *string
	N  NamedKey
	F  float64
	Bo bool
}

var stringSources = []struct{ Name, Src string }{
	{"plain-ascii", `"a"`},
	{"plain-latin", `"é"`},
	{"plain-astral", `"😀"`},
	{"plain-numeric", `"12"`},
	{"plain-empty", `""`},
	{"u16-ascii", `String.fromCharCode(97)`},
	{"u16-latin", `String.fromCharCode(233)`},
	{"u16-astral", `String.fromCharCode(0xD83D, 0xDE00)`},
	{"u16-lone-high", `String.fromCharCode(0xD800)`},
	{"u16-lone-low", `String.fromCharCode(97, 0xDC00)`},
	{"u16-numeric", `String.fromCharCode(49, 50)`},
	{"u16-empty", `String.fromCharCode()`},
	{"u16-nul", `String.fromCharCode(0, 97)`},
	{"u16-concat", `"x" + String.fromCharCode(98)`},
	{"u16-method", `String.fromCharCode(97, 98).slice(1)`},
	{"u16-object", `new String(String.fromCharCode(97))`},
	{"u16-in-array", `["x", String.fromCharCode(97)]`},
	{"u16-in-object", `({k: String.fromCharCode(97)})`},
	{"u16-key-object", `(function(){ var o = {}; o[String.fromCharCode(107)] = "v"; return o })()`},
	{"u16-toString", `({toString: function(){ return String.fromCharCode(97) }})`},
	{"host-invalid-utf8", `hostBad`},
	{"host-invalid-utf8-mid", `hostBadMid`},
	{"host-bytes", `String(hostBytes)`},
	{"host-named-string", `hostNamed`},
}

// script sinks: %V is the value; the bridged names are installed on the base.
var scriptSinks = []string{
	`fString(%V)`, `fBytes(%V)`, `fAny(%V)`, `fInt(%V)`, `fFloat(%V)`, `fBool(%V)`, `fVariadic(%V, %V)`, `fStrings([%V])`, `fStrings(%V)`,
	`fMapSS({k: %V})`, `fMapSS(%V)`, `fMapSA({k: %V})`, `fStruct({S: %V, A: %V, N: %V})`, `fStruct(%V)`, `fStructPtr({S: %V})`, `fValue(%V)`, `fCall(%V)`,
	`fRune(%V)`, `fUint8(%V)`, `fAnys([%V, 1])`, `fNamed(%V)`, `fStringPtr(%V)`, `fTwo(%V, %V)`, `fError(%V)`, `fNone()`, `fString()`, `fString(%V, %V)`,
	`st.S = %V`, `st.I = %V`, `st.B = %V`, `st.A = %V`, `st.L = [%V]`, `st.L = %V`, `st.M = {k: %V}`, `st.N = %V`, `st.F = %V`, `st.Bo = %V`, `st.P = %V`,
	`st[%V]`, `st[%V] = 1`, `st.Method(%V)`,
	`mSI[%V] = 1`, `mSI[%V]`, `delete mSI[%V]`, `%V in mSI`, `mSS.k = %V`, `mSS[%V] = %V`, `mII[%V] = 1`, `mII[1] = %V`, `mSA.k = %V`, `mNamed[%V] = 1`, `mNamed[%V]`,
	`sS[0] = %V`, `sS.push(%V)`, `sS[%V]`, `sI[0] = %V`, `sB[0] = %V`, `sA[0] = %V`, `sA.push(%V)`, `aS[0] = %V`, `sS.indexOf(%V)`, `sS.join(%V)`,
	`fNamedBool(%V)`, `fNamedBool(true)`, `fCallback(function(x){ return %V })`, `fCallbackS(function(x){ return %V })`, `fCallbackS(function(x){ throw %V })`,
	`try { fCallback(function(x){ throw %V }) } catch (e) { "caught" }`, `st.Fn = function(){ throw %V }; try { st.Fn() } catch (e) { "caught" }`, `st.Fn = function(){ return %V }; st.Fn()`,
	`fCallback(%V)`, `fCallback(null)`, `fCallback(function(){ return fCallback(function(){ throw %V }) })`, `st.Fn()`, `st.Fn = null; st.Fn()`, `fNilFunc()`,
	`"abc".replace(%V, "x")`, `"abc".replace("b", %V)`, `"abc".replace(/b/, %V)`, `"abc".split(%V).length`, `"abc".indexOf(%V)`, `"abc".lastIndexOf(%V)`, `"abc".match(%V)`, `"abc".search(%V)`,
	`new RegExp(%V).test("abc")`, `RegExp("a", %V)`, `"abc".concat(%V).length`, `"abc".localeCompare(%V)`, `%V.replace("a", "b")`, `%V.split("").length`, `%V.toUpperCase() + %V.toLowerCase() + %V.trim()`,
	`%V.charAt(0) + %V.charCodeAt(0) + %V.length + %V[0]`, `%V.substring(1) + %V.slice(-1) + %V.substr(0, 1)`, `JSON.parse(%V)`, `JSON.stringify(%V) + JSON.stringify({k: %V}, null, %V)`, `eval(%V)`, `Function(%V)`, `Function(%V, "")`,
	`parseInt(%V) + parseFloat(%V) + Number(%V)`, `encodeURIComponent(%V) + encodeURI(%V)`, `decodeURIComponent(%V) + unescape(%V) + escape(%V)`, `new Date(%V).getTime() + Date.parse(%V)`,
	`(1).toLocaleString(%V)`, `new Error(%V).stack + String(new TypeError(%V))`, `Object.keys(Object(%V)).length`, `[%V].join(%V) + [%V, %V].sort()`, `Array(%V).length`, `(function(){ return arguments })(%V)[0]`,
	`Array.prototype.concat.call(sS, %V).length`, `JSON.stringify([fAny(%V), st, mSS, sS])`,
}

// hugeValues: arrays and array-likes whose length claims 2^32-1 / 2^31 / 10^9
// elements while holding one: a getter at index 0 (and at the top two indices,
// for walks that start at the end) that throws, so that every conforming walk
// ends at its first step — only an up-front allocation by the claimed length
// can hurt.
var hugeValues = []string{
	`(function(){ var a = []; a.length = 4294967295; Object.defineProperty(a, "0", {get: function(){ throw new RangeError("stop") }, enumerable: true}); return a })()`,
	`(function(){ var a = []; a.length = 2147483648; Object.defineProperty(a, "0", {get: function(){ throw new RangeError("stop") }, enumerable: true}); return a })()`,
	`(function(){ var a = []; a.length = 1e9; Object.defineProperty(a, "0", {get: function(){ throw new RangeError("stop") }, enumerable: true}); return a })()`,
	`(function(){ var o = {length: -1}; Object.defineProperty(o, "0", {get: function(){ throw new RangeError("stop") }, enumerable: true}); return o })()`,
}

// twinOps use two string values a and b (every ordered pair of representations).
var twinOps = []string{
	`a === b`, `a == b`, `a != b`, `a < b`, `a >= b`, `a + b`, `(function(){ switch (a) { case b: return 1 } return 0 })()`,
	`[a].indexOf(b) + [a].lastIndexOf(b)`, `[a, b, a].sort().length`, `[a, b].sort(function(x, y){ return x < y ? -1 : x > y ? 1 : 0 }).length`,
	`(function(){ var o = {}; Object.defineProperty(o, "k", {value: a}); Object.defineProperty(o, "k", {value: b}); return o.k })()`,
	`(function(){ var o = {}; Object.defineProperty(o, "k", {value: a, writable: false, enumerable: true}); try { Object.defineProperty(o, "k", {value: b, writable: false, enumerable: true}) } catch (e) { return e.name } return o.k })()`,
	`(function(){ var o = {}; Object.defineProperty(o, a, {value: b}); try { Object.defineProperty(o, a, {value: b}); Object.defineProperty(o, b, {value: a}) } catch (e) { return e.name } return Object.getOwnPropertyNames(o).length })()`,
	`(function(){ var o = {}; o[a] = 1; o[b] = 2; return [o[a], o[b], a in o, delete o[b], Object.keys(o).length].join() })()`,
	`(function(){ var o = Object.freeze({k: a}); o.k = b; try { Object.defineProperty(o, "k", {value: b}) } catch (e) { return e.name } return o.k })()`,
	`(function(){ var x = [a]; Object.freeze(x); try { x[0] = b; Object.defineProperty(x, "0", {value: b}) } catch (e) { return e.name } return x[0] })()`,
	`(function(f){ return f(a) === f(b) })(function(x){ return arguments[0] })`,
	`a.indexOf(b) + a.lastIndexOf(b) + a.localeCompare(b)`, `a.replace(b, a) + a.split(b).length + a.concat(b).length`, `a.match(b) + a.search(b)`,
	`JSON.stringify([a, b]) === JSON.stringify([b, a])`, `Object.is ? Object.is(a, b) : 0`, `a in {} || b in []`,
	`mSS[a] = b; mSS[b] = a; mSS[a] === mSS[b]`, `sS[0] = a; sS[1] = b; sS.indexOf(b) + sS.lastIndexOf(a)`, `st.S = a; st.S === b`,
	`(function(){ try { throw a } catch (e) { return e === b } })()`, `new Error(a).message === b`, `isNaN(a) === isNaN(b)`, `[a] == b`, `new String(a) == b`,
}

func newSinkBase() *otto.Otto {
	vm := otto.New()
	set := func(name string, v interface{}) {
		if err := vm.Set(name, v); err != nil {
			panic("sinks: cannot install " + name + ": " + err.Error())
		}
	}
	set("fString", func(s string) string { return s + "!" })
	set("fBytes", func(b []byte) int { return len(b) })
	set("fAny", func(x interface{}) interface{} { return x })
	set("fInt", func(i int) int { return i + 1 })
	set("fFloat", func(f float64) float64 { return f })
	set("fBool", func(b bool) bool { return b })
	set("fVariadic", func(s ...string) int { return len(s) })
	set("fStrings", func(s []string) int { return len(s) })
	set("fMapSS", func(m map[string]string) int { return len(m) })
	set("fMapSA", func(m map[string]interface{}) int { return len(m) })
	set("fStruct", func(s sinkStruct) string { return s.S })
	set("fStructPtr", func(s *sinkStruct) string {
		if s == nil {
			return "nil"
		}
		return s.S
	})
	set("fValue", func(v otto.Value) otto.Value { _ = v.String(); return v })
	set("fCall", func(call otto.FunctionCall) otto.Value {
		a := call.Argument(0)
		_, _ = a.ToString()
		_, _ = a.ToInteger()
		_, _ = a.ToFloat()
		_, _ = a.ToBoolean()
		_, _ = a.Export()
		_ = a.String()
		b, _ := json.Marshal(a)
		v, _ := call.Otto.ToValue(string(b))
		return v
	})
	set("fRune", func(c rune) rune { return c })
	set("fUint8", func(c uint8) uint8 { return c })
	set("fAnys", func(a []interface{}) int { return len(a) })
	set("fNamed", func(k NamedKey) NamedKey { return k })
	set("fStringPtr", func(p *string) string {
		if p == nil {
			return "nil"
		}
		return *p
	})
	set("fTwo", func(a string, b interface{}) (string, interface{}) { return a, b })
	set("fError", func(s string) (string, error) { return s, fmt.Errorf("host error %q", s) })
	set("fNone", func() {})
	set("fNamedBool", func(b NamedBool) NamedBool { return !b })
	set("fCallback", func(f func(int) int) int { return f(1) })
	set("fCallbackS", func(f func(string) string) string { return f("s") })
	set("fNilFunc", (func())(nil))
	return vm
}

func installSinkContainers(vm *otto.Otto) error {
	p := "p"
	for name, v := range map[string]interface{}{
		"hostBad":    "\xff",
		"hostBadMid": "a\xffb\xc3",
		"hostBytes":  []byte{0xff, 'a'},
		"hostNamed":  NamedKey("named"),
		"st":         &sinkStruct{S: "s", L: []string{"l"}, M: map[string]string{"k": "v"}, P: &p},
		"mSI":        map[string]int{"a": 1},
		"mSS":        map[string]string{"a": "1"},
		"mII":        map[int]int{1: 1},
		"mSA":        map[string]interface{}{"a": 1},
		"mNamed":     map[NamedKey]int{"a": 1},
		"sS":         []string{"a", "b"},
		"sI":         []int{1, 2},
		"sB":         []byte{1, 2},
		"sA":         []interface{}{1, "b"},
		"aS":         &[2]string{"a", "b"},
	} {
		if err := vm.Set(name, v); err != nil {
			return err
		}
	}
	return nil
}

// Method is a method of the bridged struct taking a string.
func (s *sinkStruct) Method(x string) string { return s.S + x }

// goSinks: the value flows through the Go API itself.
var goSinks = []struct {
	Name string
	Do   func(vm *otto.Otto, v otto.Value) (otto.Value, error)
}{
	{"Otto.Call-arg", func(vm *otto.Otto, v otto.Value) (otto.Value, error) { return vm.Call("fString", nil, v) }},
	{"Otto.Call-arg-any", func(vm *otto.Otto, v otto.Value) (otto.Value, error) { return vm.Call("fAny", nil, v, v) }},
	{"Otto.Call-this", func(vm *otto.Otto, v otto.Value) (otto.Value, error) { return vm.Call("String.prototype.concat", v, v) }},
	{"Value.Call-arg", func(vm *otto.Otto, v otto.Value) (otto.Value, error) {
		f, _ := vm.Get("fString")
		return f.Call(otto.UndefinedValue(), v)
	}},
	{"Otto.Set", func(vm *otto.Otto, v otto.Value) (otto.Value, error) {
		if err := vm.Set("zz", v); err != nil {
			return otto.Value{}, err
		}
		return vm.Run(`fString(zz) + fInt(zz)`)
	}},
	{"Export", func(vm *otto.Otto, v otto.Value) (otto.Value, error) {
		x, err := v.Export()
		_ = fmt.Sprint(x)
		return otto.Value{}, err
	}},
	{"conversions", func(vm *otto.Otto, v otto.Value) (otto.Value, error) {
		_, _ = v.ToString()
		_, _ = v.ToInteger()
		_, _ = v.ToFloat()
		_, _ = v.ToBoolean()
		_ = v.IsNaN()
		_ = v.String()
		_ = fmt.Sprintf("%v %s %q", v, v, v)
		return v, nil
	}},
	{"json.Marshal", func(vm *otto.Otto, v otto.Value) (otto.Value, error) {
		_, err := json.Marshal(v)
		return otto.Value{}, err
	}},
	{"Otto.ToValue", func(vm *otto.Otto, v otto.Value) (otto.Value, error) { return vm.ToValue(v) }},
	{"Object.Set-value", func(vm *otto.Otto, v otto.Value) (otto.Value, error) {
		o, err := vm.Object(`st`)
		if err != nil {
			return otto.Value{}, err
		}
		return otto.Value{}, o.Set("S", v)
	}},
	{"Object.Set-map", func(vm *otto.Otto, v otto.Value) (otto.Value, error) {
		o, err := vm.Object(`mSS`)
		if err != nil {
			return otto.Value{}, err
		}
		return otto.Value{}, o.Set("k", v)
	}},
	{"Object.Get-key", func(vm *otto.Otto, v otto.Value) (otto.Value, error) {
		o, err := vm.Object(`mSI`)
		if err != nil {
			return otto.Value{}, err
		}
		k, _ := v.ToString()
		return o.Get(k)
	}},
	{"Object.Call-arg", func(vm *otto.Otto, v otto.Value) (otto.Value, error) {
		o, err := vm.Object(`st`)
		if err != nil {
			return otto.Value{}, err
		}
		return o.Call("Method", v)
	}},
	{"MakeError", func(vm *otto.Otto, v otto.Value) (otto.Value, error) {
		s, _ := v.ToString()
		return vm.MakeCustomError(s, s), nil
	}},
	{"Run-source", func(vm *otto.Otto, v otto.Value) (otto.Value, error) { s, _ := v.ToString(); return vm.Run(s) }},
}

func runSinks(r *rc) {
	defer muteStdout()()
	base := newSinkBase()
	for _, src := range stringSources {
		for i, sk := range scriptSinks {
			key := fmt.Sprintf("%s|script-%02d", src.Name, i)
			if !r.MineKey(key) {
				continue
			}
			js := "var __v = " + src.Src + "; " + strings.ReplaceAll(sk, "%V", "__v")
			c := gcase{Key: key, Desc: strings.ReplaceAll(sk, "%V", src.Src),
				Aux: map[string]string{"group": "script", "source": src.Name, "sink": sk},
				Do: func(vm *otto.Otto) (otto.Value, error) {
					if err := installSinkContainers(vm); err != nil {
						return otto.Value{}, err
					}
					return vm.Run(js)
				}}
			execGeneric(r, base, c, 53)
		}
		for _, gs := range goSinks {
			key := src.Name + "|go-" + gs.Name
			if !r.MineKey(key) {
				continue
			}
			gs, src := gs, src
			c := gcase{Key: key, Desc: gs.Name + " with " + src.Src,
				Aux: map[string]string{"group": "go", "source": src.Name, "sink": gs.Name},
				Do: func(vm *otto.Otto) (otto.Value, error) {
					if err := installSinkContainers(vm); err != nil {
						return otto.Value{}, err
					}
					v, err := vm.Run(src.Src)
					if err != nil {
						return v, err
					}
					return gs.Do(vm, v)
				}}
			execGeneric(r, base, c, 53)
		}
	}
	// arrays / array-likes that CLAIM billions of elements flowing into Go-typed
	// sinks (a throwing getter at index 0 ends every conforming walk at once)
	for hi, h := range hugeValues {
		for si, sk := range []string{`fStrings(%V)`, `fAnys(%V)`, `fAny(%V)`, `fVariadic.apply(null, %V)`, `st.L = %V`, `st.A = %V`, `sS.concat(%V).length`, `fCall(%V)`, `fValue(%V)`, `fMapSA({k: %V})`,
			`sA[0] = %V`, `mSA.k = %V`, `JSON.stringify(%V)`, `JSON.stringify({}, %V)`, `String(%V)`} {
			key := fmt.Sprintf("huge-%d|sink-%02d", hi, si)
			if !r.MineKey(key) {
				continue
			}
			js := "var __v = " + h + "; " + strings.ReplaceAll(sk, "%V", "__v")
			c := gcase{Key: key, Desc: js, Limit: entryStackLimit, Aux: map[string]string{"group": "huge", "source": fmt.Sprintf("huge-%d", hi), "sink": sk},
				Do: func(vm *otto.Otto) (otto.Value, error) {
					if err := installSinkContainers(vm); err != nil {
						return otto.Value{}, err
					}
					v, err := vm.Run(js)
					if err == nil {
						// the accessor sweep of execGeneric exports the result
						_, _ = v.MarshalJSON()
					}
					return v, err
				}}
			execGeneric(r, base, c, 7)
		}
	}

	// representation twins: BOTH operands of every internal comparison / key use
	for _, a := range stringSources {
		for _, b := range stringSources {
			for i, op := range twinOps {
				key := fmt.Sprintf("%s|twin-%02d|%s", a.Name, i, b.Name)
				if !r.MineKey(key) {
					continue
				}
				js := "var a = " + a.Src + ", b = " + b.Src + "; " + op
				c := gcase{Key: key, Desc: js, Limit: entryStackLimit, Aux: map[string]string{"group": "twin", "source": a.Name, "source2": b.Name, "sink": op},
					Do: func(vm *otto.Otto) (otto.Value, error) {
						if err := installSinkContainers(vm); err != nil {
							return otto.Value{}, err
						}
						return vm.Run(js)
					}}
				execGeneric(r, base, c, 997)
			}
		}
	}
	r.Bound("twin_operations", fmt.Sprint(len(twinOps)))
	r.Bound("string_sources", fmt.Sprint(len(stringSources)))
	r.Bound("script_sinks", fmt.Sprint(len(scriptSinks)))
	r.Bound("go_sinks", fmt.Sprint(len(goSinks)))
}

// ---------------------------------------------------------------------------
// globals

// (owner expression, property): the special bindings of the global object and
// intrinsic prototype methods the runtime itself may rely on.
var globalTargets = [][2]string{
	{"this", "eval"}, {"this", "Function"}, {"this", "Object"}, {"this", "Array"}, {"this", "String"}, {"this", "Number"}, {"this", "Boolean"}, {"this", "Date"},
	{"this", "RegExp"}, {"this", "Error"}, {"this", "TypeError"}, {"this", "RangeError"}, {"this", "Math"}, {"this", "JSON"}, {"this", "console"}, {"this", "undefined"},
	{"this", "NaN"}, {"this", "Infinity"}, {"this", "parseInt"}, {"this", "isNaN"}, {"this", "__f"},
	{"Object", "prototype"}, {"Function", "prototype"}, {"Array", "prototype"}, {"Object.prototype", "toString"}, {"Object.prototype", "valueOf"},
	{"Object.prototype", "hasOwnProperty"}, {"Object.prototype", "constructor"}, {"Function.prototype", "call"}, {"Function.prototype", "apply"}, {"Function.prototype", "toString"},
	{"Array.prototype", "join"}, {"Array.prototype", "toString"}, {"Array.prototype", "length"}, {"String.prototype", "toString"}, {"String.prototype", "valueOf"},
	{"Number.prototype", "valueOf"}, {"Error.prototype", "name"}, {"Error.prototype", "toString"}, {"RegExp.prototype", "exec"}, {"Date.prototype", "toISOString"},
	{"JSON", "stringify"}, {"console", "log"}, {"Object", "defineProperty"}, {"Object", "keys"}, {"Math", "random"},
}

// %O owner, %P property name literal
var globalMutations = []struct{ Name, Src string }{
	{"assign-number", `%O[%P] = 1`},
	{"assign-undefined", `%O[%P] = undefined`},
	{"assign-null", `%O[%P] = null`},
	{"assign-object", `%O[%P] = {}`},
	{"assign-function", `%O[%P] = function(){ return 1 }`},
	{"assign-string", `%O[%P] = "s"`},
	{"delete", `delete %O[%P]`},
	{"accessor", `Object.defineProperty(%O, %P, {get: function(){ return 1 }, set: function(v){}, configurable: true})`},
	{"accessor-throws", `Object.defineProperty(%O, %P, {get: function(){ throw new TypeError("g") }, configurable: true})`},
	{"accessor-undefined", `Object.defineProperty(%O, %P, {get: undefined, set: undefined, configurable: true})`},
	{"data-fixed", `Object.defineProperty(%O, %P, {value: 1, writable: false, enumerable: true, configurable: false})`},
	{"delete-then-accessor", `delete %O[%P]; Object.defineProperty(%O, %P, {get: function(){ return this }, configurable: true})`},
	{"freeze-owner", `Object.freeze(%O)`},
	{"var-redeclare", `eval("var " + %P + " = 5")`},
	{"function-redeclare", `eval("function " + %P + "(){ return 7 }")`},
}

// every public Otto method after the mutation
var ottoActions = []struct {
	Name string
	Do   func(vm *otto.Otto, prop string) (otto.Value, error)
}{
	{"Copy", func(vm *otto.Otto, p string) (otto.Value, error) {
		c := vm.Copy()
		_, _ = c.Run(`[1, 2].join() + String({}) + typeof eval`)
		_, _ = c.Run(`eval("1") + new Function("return 1")() + JSON.stringify([1])`)
		cc := c.Copy()
		return cc.Run(`1 + 1`)
	}},
	{"Run", func(vm *otto.Otto, p string) (otto.Value, error) {
		_, _ = vm.Run(`[1, 2].join() + String({}) + (function(){ return arguments.length })(1)`)
		_, _ = vm.Run(`eval("1")`)
		_, _ = vm.Run(`new Function("return 1")()`)
		_, _ = vm.Run(`JSON.stringify({a: [1]}) + JSON.parse("[1]")`)
		_, _ = vm.Run(`try { null.x } catch (e) { String(e) + e.stack }`)
		_, _ = vm.Run(`/a/.exec("a") + new Date(0).toISOString() + (1).toFixed(1) + "a".toUpperCase()`)
		return vm.Run(`typeof ` + p)
	}},
	{"Eval", func(vm *otto.Otto, p string) (otto.Value, error) { return vm.Eval(`typeof ` + p + ` + [1].concat(2)`) }},
	{"Compile", func(vm *otto.Otto, p string) (otto.Value, error) {
		s, err := vm.Compile("", `1 + 1`)
		if err != nil {
			return otto.Value{}, err
		}
		return vm.Run(s)
	}},
	{"Get", func(vm *otto.Otto, p string) (otto.Value, error) {
		v, err := vm.Get(p)
		_ = v.String()
		_, _ = v.Export()
		return v, err
	}},
	{"Set", func(vm *otto.Otto, p string) (otto.Value, error) {
		return otto.Value{}, vm.Set(p, func(call otto.FunctionCall) otto.Value { return otto.Value{} })
	}},
	{"Set-value", func(vm *otto.Otto, p string) (otto.Value, error) { return otto.Value{}, vm.Set(p, 1) }},
	{"Call", func(vm *otto.Otto, p string) (otto.Value, error) {
		_, _ = vm.Call(p, nil, 1)
		_, _ = vm.Call("new "+p, nil, 1)
		return vm.Call(`Math.abs`, nil, -1)
	}},
	{"Object", func(vm *otto.Otto, p string) (otto.Value, error) {
		o, err := vm.Object(`({a: 1})`)
		if err != nil {
			return otto.Value{}, err
		}
		_ = o.Keys()
		_, _ = o.MarshalJSON()
		_, _ = o.Call("toString")
		_, _ = o.Call("hasOwnProperty", "a")
		return o.Get("a")
	}},
	{"ToValue", func(vm *otto.Otto, p string) (otto.Value, error) {
		for _, x := range []interface{}{1, "s", []int{1}, map[string]int{"a": 1}, &GoStruct{}, func() {}, [2]int{}, nil, 1.5, true} {
			v, err := vm.ToValue(x)
			if err == nil {
				_ = v.String()
				_, _ = v.Export()
			}
		}
		return vm.ToValue([]string{"a"})
	}},
	{"MakeError", func(vm *otto.Otto, p string) (otto.Value, error) {
		_ = vm.MakeTypeError("t").String()
		_ = vm.MakeRangeError("r").String()
		_ = vm.MakeSyntaxError("s").String()
		return vm.MakeCustomError("N", "m"), nil
	}},
	{"Context", func(vm *otto.Otto, p string) (otto.Value, error) {
		c := vm.Context()
		for _, v := range c.Symbols {
			_ = v.IsDefined()
		}
		return c.This, nil
	}},
	{"results", func(vm *otto.Otto, p string) (otto.Value, error) {
		for _, s := range []string{`[1, "a", {}]`, `({a: new Date(0), b: /x/})`, `new Error("e")`, `(function(){ return arguments })(1)`, `this`} {
			v, err := vm.Run(s)
			if err == nil {
				_ = v.String()
				_, _ = v.Export()
				_, _ = v.MarshalJSON()
				_ = v.Class()
			}
		}
		return otto.Value{}, nil
	}},
	{"host-function", func(vm *otto.Otto, p string) (otto.Value, error) {
		_ = vm.Set("hh", func(call otto.FunctionCall) otto.Value {
			v, _ := call.Otto.ToValue([]interface{}{1, "x"})
			_ = call.Otto.Context()
			return v
		})
		return vm.Run(`hh().length`)
	}},
	{"Interrupt-idle", func(vm *otto.Otto, p string) (otto.Value, error) {
		vm.Interrupt = make(chan func(), 1)
		vm.SetRandomSource(func() float64 { return 0.5 })
		vm.SetStackTraceLimit(3)
		vm.SetDebuggerHandler(func(*otto.Otto) {})
		return vm.Run(`Math.random() + (function(){ debugger; return 1 })()`)
	}},
}

func runGlobals(r *rc) {
	defer muteStdout()()
	base := otto.New()
	if res := ox.Run(base, `function __f(a){ return a }`); res.Err != nil || res.Panicked {
		r.HarnessError("globals: setup failed")
		return
	}
	for _, t := range globalTargets {
		for _, m := range globalMutations {
			for _, a := range ottoActions {
				key := t[0] + "." + t[1] + "|" + m.Name + "|" + a.Name
				if !r.MineKey(key) {
					continue
				}
				if r.Expired() {
					r.Cap("time budget reached")
					return
				}
				msrc := strings.ReplaceAll(strings.ReplaceAll(m.Src, "%O", t[0]), "%P", fmt.Sprintf("%q", t[1]))
				a, t := a, t
				c := gcase{Key: key, Desc: "Run(`" + msrc + "`); then Otto." + a.Name, Limit: entryStackLimit,
					Aux: map[string]string{"group": a.Name, "target": t[0] + "." + t[1], "mutation": m.Name, "action": a.Name},
					Do: func(vm *otto.Otto) (otto.Value, error) {
						_, _ = vm.Run(msrc) // a TypeError (non-writable binding) is a legitimate outcome
						return a.Do(vm, t[1])
					}}
				execGeneric(r, base, c, 997)
			}
		}
	}
	r.Bound("targets", fmt.Sprint(len(globalTargets)))
	r.Bound("mutations", fmt.Sprint(len(globalMutations)))
	r.Bound("otto_actions", fmt.Sprint(len(ottoActions)))
}

// ---------------------------------------------------------------------------
// descriptors

var descReceivers = []struct{ Name, Src, Bridged string }{
	{"go-struct", bridgedName("struct"), "struct"},
	{"go-map", bridgedName("map"), "map"},
	{"go-slice", bridgedName("slice"), "slice"},
	{"go-array", bridgedName("array"), "array"},
	{"go-named-map", bridgedName("nmap"), "nmap"},
	{"object", `({a: 1})`, ""},
	{"array", `[1, 2, 3]`, ""},
	{"arguments", `(function(a){ return arguments })(1, 2)`, ""},
	{"String", `new String("ab")`, ""},
	{"function", `(function(a){})`, ""},
	{"frozen", `Object.freeze({a: 1})`, ""},
}

var descNames = []string{"a", "A", "zz", "0", "7", "length"}

// descriptor shapes: every combination of the three attributes (absent / true /
// false) x payload.
var descPayloads = []struct{ Name, Src string }{
	{"none", ``},
	{"value-number", `value: 1`},
	{"value-string", `value: "x"`},
	{"value-float", `value: 1.5`},
	{"value-undefined", `value: undefined`},
	{"value-object", `value: {}`},
	{"get", `get: function(){ return 1 }`},
	{"set", `set: function(v){}`},
	{"get-set", `get: function(){ return 1 }, set: function(v){}`},
	{"get-undefined", `get: undefined`},
	{"get-set-undefined", `get: undefined, set: undefined`},
	{"value-get", `value: 1, get: function(){}`},
}

var descOps = []struct{ Name, Src string }{
	{"defineProperty", `Object.defineProperty(o, P, D)`},
	{"defineProperties", `(function(){ var m = {}; m[P] = D; return Object.defineProperties(o, m) })()`},
	{"create", `(function(){ var m = {}; m[P] = D; return Object.create(o, m) })()`},
	{"define-then-freeze", `(function(){ try { Object.defineProperty(o, P, D) } catch (e) {} Object.seal(o); Object.freeze(o); return [Object.isFrozen(o), Object.isSealed(o), Object.isExtensible(o)].join() })()`},
	{"freeze-then-define", `(function(){ Object.preventExtensions(o); Object.freeze(o); return Object.defineProperty(o, P, D) })()`},
}

func attrSrc(name string, state int) string {
	switch state {
	case 1:
		return name + ": true"
	case 2:
		return name + ": false"
	}
	return ""
}

func runDescriptors(r *rc) {
	defer muteStdout()()
	base := otto.New()
	const observe = `; (function(){ var d = Object.getOwnPropertyDescriptor(o, P); return [typeof o[P], d && typeof d.value, JSON.stringify(d), Object.keys(o).length, JSON.stringify(o) === undefined].join() })()`
	for _, rc5 := range descReceivers {
		for ni, name := range descNames {
			if !r.Thorough() && ni%2 == 1 {
				continue // quick tier: every other property name ("a", "zz", "7")
			}
			for _, op := range descOps {
				for _, pl := range descPayloads {
					for attrs := 0; attrs < 27; attrs++ {
						w, e, cfg := attrs%3, (attrs/3)%3, attrs/9
						key := fmt.Sprintf("%s|%s|%s|%s|w%de%dc%d", rc5.Name, name, op.Name, pl.Name, w, e, cfg)
						if !r.MineKey(key) {
							continue
						}
						if r.Expired() {
							r.Cap("time budget reached")
							return
						}
						var parts []string
						for _, p := range []string{pl.Src, attrSrc("writable", w), attrSrc("enumerable", e), attrSrc("configurable", cfg)} {
							if p != "" {
								parts = append(parts, p)
							}
						}
						src := fmt.Sprintf("var o = %s, P = %q, D = {%s}; try { %s } catch (e) { if (!(e instanceof TypeError) && !(e instanceof RangeError)) throw e }%s",
							rc5.Src, name, strings.Join(parts, ", "), op.Src, observe)
						c := gcase{Key: key, Desc: strings.ReplaceAll(src, rc5.Src, rc5.Name), Aux: map[string]string{"group": op.Name, "receiver": rc5.Name, "name": name,
							"op": op.Name, "payload": pl.Name, "attrs": fmt.Sprintf("w%de%dc%d", w, e, cfg)},
							Do: func(vm *otto.Otto) (otto.Value, error) { return vm.Run(src) }}
						if rc5.Bridged != "" {
							c.Bridged = []string{rc5.Bridged}
						}
						execGeneric(r, base, c, 4999)
					}
				}
			}
		}
	}
	r.Bound("receivers", fmt.Sprint(len(descReceivers)))
	r.Bound("names", fmt.Sprint(len(descNames)))
	r.Bound("shapes", fmt.Sprint(27*len(descPayloads)))
	r.Bound("operations", fmt.Sprint(len(descOps)))
}
