package c02

import (
	"encoding/json"
	"fmt"

	"github.com/robertkrimen/otto"

	"verif/mc/engine"
	"verif/mc/ox"
)

// Go-side API families.
//
// goapi-value: every Value / Object accessor x every value kind (the 31
//   receiver kinds, 7 further script-made kinds and 8 Values made without a
//   runtime), each (kind, accessor) on a fresh Copy() of the template.
// goapi-otto: Otto.Get/Set/Call/Copy/Context/Eval/ToValue on the runtime left
//   behind by every arity-0 surface call (function x receiver), plus the same
//   call made through Value.Call from Go.

// apiStackLimit is configured on every runtime of the accessor sweep: unbounded
// script-level recursion (String() of a cyclic array recurses through
// Array.prototype.join) is only required to end in a RangeError when a limit
// is configured; without one it exhausts the Go stack by design.
const apiStackLimit = 500

// extra script-made kinds for the accessor sweep
var extraKinds = []kind{
	{Name: "getter-thrower", Expr: `({get a(){ throw new TypeError("g") }, b: 1})`},
	{Name: "bad-toprimitive", Expr: `({toString: function(){ return {} }, valueOf: function(){ return {} }})`},
	{Name: "thrower", Expr: `({valueOf:function(){throw new TypeError("v")},toString:function(){throw new TypeError("s")}})`},
	{Name: "nested-array", Expr: `[[1],[2,"x"],{a:[null]}]`},
	{Name: "cyclic-object", Expr: `(function(){ var o = {a: 1}; o.self = o; return o })()`},
	{Name: "cyclic-array", Expr: `(function(){ var a = [1]; a[1] = a; return a })()`},
	{Name: "throwing-function", Expr: `(function(){ throw new RangeError("f") })`},
}

// rawKinds are Values constructed without any runtime.
var rawKinds = []struct {
	Name string
	Make func() otto.Value
}{
	{"raw-zero", func() otto.Value { return otto.Value{} }},
	{"raw-undefined", otto.UndefinedValue},
	{"raw-null", otto.NullValue},
	{"raw-NaN", otto.NaNValue},
	{"raw-true", otto.TrueValue},
	{"raw-false", otto.FalseValue},
	{"raw-int", func() otto.Value { v, _ := otto.ToValue(7); return v }},
	{"raw-string", func() otto.Value { v, _ := otto.ToValue("go"); return v }},
}

type accessor struct {
	Name string
	// Do applies the accessor; vm is the runtime the value lives in (nil for raw kinds).
	Do func(vm *otto.Otto, v otto.Value) string
	// ObjectOnly accessors need v.Object() != nil.
	ObjectOnly bool
}

func setValues(v otto.Value) []struct {
	Name string
	Val  interface{}
} {
	return []struct {
		Name string
		Val  interface{}
	}{
		{"int", 1}, {"neg", -1}, {"float", 1.5}, {"2^32", float64(4294967296)}, {"string", "x"}, {"nil", nil},
		{"goslice", []int{1}}, {"gomap", map[string]int{"k": 1}}, {"self", v}, {"struct", struct{ X int }{1}},
		{"func", func(int) int { return 0 }},
	}
}

var propNames = []string{"a", "0", "7", "length", "foo", "toString", "self", "A", "Get"}

// ve / se / be render accessor results for the distinct-outcome count.
func ve(v otto.Value, err error) string {
	if err != nil {
		return "err:" + ox.ErrClass(err)
	}
	return safeCanon(v)
}

func se(x interface{}, err error) string {
	if err != nil {
		return "err:" + ox.ErrClass(err)
	}
	return fmt.Sprintf("%T", x)
}

func accessors() []accessor {
	as := []accessor{
		{Name: "predicates", Do: func(vm *otto.Otto, v otto.Value) string {
			return fmt.Sprint(v.IsDefined(), v.IsUndefined(), v.IsNull(), v.IsPrimitive(), v.IsBoolean(), v.IsNumber(), v.IsNaN(),
				v.IsString(), v.IsObject(), v.IsFunction())
		}},
		{Name: "Class", Do: func(vm *otto.Otto, v otto.Value) string { return v.Class() }},
		{Name: "String", Do: func(vm *otto.Otto, v otto.Value) string { return fmt.Sprint(len(v.String()) > 0) }},
		{Name: "Sprintf", Do: func(vm *otto.Otto, v otto.Value) string { return fmt.Sprint(len(fmt.Sprintf("%v %s", v, v)) > 1) }},
		{Name: "ToBoolean", Do: func(vm *otto.Otto, v otto.Value) string { return se(v.ToBoolean()) }},
		{Name: "ToFloat", Do: func(vm *otto.Otto, v otto.Value) string { return se(v.ToFloat()) }},
		{Name: "ToInteger", Do: func(vm *otto.Otto, v otto.Value) string { return se(v.ToInteger()) }},
		{Name: "ToString", Do: func(vm *otto.Otto, v otto.Value) string { return se(v.ToString()) }},
		{Name: "Export", Do: func(vm *otto.Otto, v otto.Value) string { return se(v.Export()) }},
		{Name: "MarshalJSON", Do: func(vm *otto.Otto, v otto.Value) string { return se(v.MarshalJSON()) }},
		{Name: "json.Marshal", Do: func(vm *otto.Otto, v otto.Value) string { return se(json.Marshal(v)) }},
		{Name: "Object", Do: func(vm *otto.Otto, v otto.Value) string { return fmt.Sprint(v.Object() != nil) }},
		{Name: "Call()", Do: func(vm *otto.Otto, v otto.Value) string { return ve(v.Call(otto.UndefinedValue())) }},
		{Name: "Call(self,1,x)", Do: func(vm *otto.Otto, v otto.Value) string { return ve(v.Call(v, 1, "x")) }},
		{Name: "Call(null,goslice,nil)", Do: func(vm *otto.Otto, v otto.Value) string { return ve(v.Call(otto.NullValue(), []int{1}, nil)) }},
		{Name: "asArgument", Do: func(vm *otto.Otto, v otto.Value) string {
			if vm == nil {
				return "-"
			}
			return ve(vm.Call("String", nil, v)) + "," + ve(vm.Call("Object.keys", nil, v))
		}},
		{Name: "asThis", Do: func(vm *otto.Otto, v otto.Value) string {
			if vm == nil {
				return "-"
			}
			return ve(vm.Call("Object.prototype.toString", v))
		}},
		{Name: "Otto.Set", Do: func(vm *otto.Otto, v otto.Value) string {
			if vm == nil {
				return "-"
			}
			err := vm.Set("zz", v)
			return fmt.Sprint(err == nil) + "," + ve(vm.Run("typeof zz"))
		}},
		{Name: "Object.Class", ObjectOnly: true, Do: func(vm *otto.Otto, v otto.Value) string { return v.Object().Class() }},
		{Name: "Object.Value", ObjectOnly: true, Do: func(vm *otto.Otto, v otto.Value) string { return safeCanon(v.Object().Value()) }},
		{Name: "Object.Keys", ObjectOnly: true, Do: func(vm *otto.Otto, v otto.Value) string { return fmt.Sprint(len(v.Object().Keys())) }},
		{Name: "Object.KeysByParent", ObjectOnly: true, Do: func(vm *otto.Otto, v otto.Value) string { return fmt.Sprint(len(v.Object().KeysByParent())) }},
		{Name: "Object.MarshalJSON", ObjectOnly: true, Do: func(vm *otto.Otto, v otto.Value) string { return se(v.Object().MarshalJSON()) }},
	}
	for _, n := range propNames {
		n := n
		as = append(as, accessor{Name: "Object.Get(" + n + ")", ObjectOnly: true, Do: func(vm *otto.Otto, v otto.Value) string {
			r, err := v.Object().Get(n)
			_ = r.String()
			return ve(r, err)
		}})
		as = append(as, accessor{Name: "Object.Call(" + n + ")", ObjectOnly: true, Do: func(vm *otto.Otto, v otto.Value) string {
			return ve(v.Object().Call(n)) + "," + ve(v.Object().Call(n, 1, "x", nil))
		}})
	}
	for _, n := range []string{"a", "0", "7", "length", "foo", "A"} {
		n := n
		for i, sv := range setValues(otto.Value{}) {
			i, svName := i, sv.Name
			as = append(as, accessor{Name: "Object.Set(" + n + "," + svName + ")", ObjectOnly: true, Do: func(vm *otto.Otto, v otto.Value) string {
				err := v.Object().Set(n, setValues(v)[i].Val)
				r, gerr := v.Object().Get(n)
				_ = r.String()
				return "set:" + ve(otto.Value{}, err) + ",get:" + ve(r, gerr)
			}})
		}
	}
	return as
}

type apiKind struct {
	Name string
	// Get produces the value on a fresh runtime (nil runtime for raw kinds).
	Get func(t *template) (*otto.Otto, otto.Value, error)
}

func apiKinds() []apiKind {
	var out []apiKind
	for i, k := range receivers {
		i, k := i, k
		out = append(out, apiKind{Name: k.Name, Get: func(t *template) (*otto.Otto, otto.Value, error) {
			vm := t.vm.Copy()
			vm.SetStackDepthLimit(apiStackLimit)
			if k.Bridged != "" {
				if err := installBridged(vm, map[string]bool{k.Bridged: true}); err != nil {
					return nil, otto.Value{}, err
				}
			}
			v, err := vm.Run(ref("__R", receivers, i))
			return vm, v, err
		}})
	}
	for _, k := range extraKinds {
		k := k
		out = append(out, apiKind{Name: k.Name, Get: func(t *template) (*otto.Otto, otto.Value, error) {
			vm := t.vm.Copy()
			vm.SetStackDepthLimit(apiStackLimit)
			v, err := vm.Run(k.Expr)
			return vm, v, err
		}})
	}
	for _, k := range rawKinds {
		k := k
		out = append(out, apiKind{Name: k.Name, Get: func(t *template) (*otto.Otto, otto.Value, error) {
			return nil, k.Make(), nil
		}})
	}
	return out
}

func runGoAPIValue(r *rc) {
	{
		t, err := getTemplate()
		if err != nil {
			r.HarnessError(err.Error())
			return
		}
		defer muteStdout()()
		kinds, accs := apiKinds(), accessors()
		for _, k := range kinds {
			for _, a := range accs {
				key := k.Name + "|" + a.Name
				if !r.MineKey(key) {
					continue
				}
				execAPI(r, t, k, a, key)
			}
		}
		r.Bound("value_kinds", fmt.Sprint(len(kinds)))
		r.Bound("accessors", fmt.Sprint(len(accs)))
	}
}

func execAPI(r *rc, t *template, k apiKind, a accessor, key string) {
	r.Describe(a.Name + " on value kind " + k.Name)
	r.Begin(key)
	var vm *otto.Otto
	var v otto.Value
	setup := ox.Guard(func() (otto.Value, error) {
		var err error
		vm, v, err = k.Get(t)
		return v, err
	})
	if setup.Panicked || setup.Err != nil {
		r.End()
		r.HarnessError(fmt.Sprintf("cannot build value kind %s: %v %v", k.Name, setup.Err, setup.PanicVal))
		return
	}
	applicable := !a.ObjectOnly || v.IsObject()
	var res, post ox.Result
	desc := ""
	if applicable {
		res = ox.Guard(func() (otto.Value, error) { desc = a.Do(vm, v); return otto.Value{}, nil })
		if vm != nil {
			post = ox.Run(vm, "1+1")
		}
	}
	r.End()
	r.Eval(applicable)
	if !applicable {
		return
	}
	if res.Panicked {
		desc = outcome(res)
	}
	r.Outcome(a.Name + "=>" + desc)
	if r.WantSample() && sparse(key, 97) {
		r.Sample(a.Name + " on " + k.Name + " => " + desc)
	}
	for _, pr := range []struct {
		phase string
		res   ox.Result
	}{{"call", res}, {"runtime-after", post}} {
		if !pr.res.Panicked {
			continue
		}
		site, via := panicSite(pr.res.Stack)
		devDump(key, key, pr.phase, panicClass(pr.res.PanicVal), panicText(pr.res.PanicVal), site, via)
		r.Mismatch(engine.Mismatch{Key: key, Input: a.Name + " on value kind " + k.Name,
			Expected: "the accessor returns (value or error)",
			Observed: "Go panic escaped (" + pr.phase + "): " + panicText(pr.res.PanicVal) + " @ " + site,
			Note:     trimStack(pr.res.Stack),
			Aux: map[string]string{"kind": k.Name, "accessor": a.Name, "phase": pr.phase, "class": panicClass(pr.res.PanicVal),
				"panic": panicText(pr.res.PanicVal), "site": site, "via": via}})
	}
}

// goapi-otto: the Otto-level API on the runtime left behind by every arity-0
// surface call, and the same call made from Go through Value.Call.
func runGoAPIOtto(r *rc) {
	t, err := getTemplate()
	if err != nil {
		r.HarnessError(err.Error())
		return
	}
	defer muteStdout()()
	type step struct {
		Name string
		Do   func(vm *otto.Otto)
	}
	steps := []step{
		{"Get", func(vm *otto.Otto) {
			for _, n := range []string{"Object", "nope", "__R", "undefined", ""} {
				v, _ := vm.Get(n)
				_ = v.String()
			}
		}},
		{"Set", func(vm *otto.Otto) {
			_ = vm.Set("zz", 1)
			_ = vm.Set("Object", "x")
			_ = vm.Set("undefined", 1)
			_ = vm.Set("NaN", []int{1})
			_ = vm.Set("", nil)
		}},
		{"nil-objects", func(vm *otto.Otto) {
			// what Value.Object() returns for a non-object, and zero values
			var np *otto.Object
			_ = vm.Set("zn", np)
			_ = vm.Set("zo", otto.Object{})
			_ = vm.Set("zv", otto.Value{})
			_ = vm.Set("zu", otto.UndefinedValue().Object())
			_, _ = vm.Run(`typeof zn + typeof zo + typeof zv + typeof zu`)
			_, _ = vm.Run(`String(zo) + JSON.stringify([zn, zo]) + Object.keys(Object(zo)).length`)
			for _, x := range []interface{}{np, otto.Object{}, &otto.Object{}, otto.Value{}} {
				v, err := vm.ToValue(x)
				if err == nil {
					_ = v.String()
					_ = v.Class()
					_, _ = v.Export()
				}
				_, _ = vm.Call("String", nil, x)
				_, _ = vm.Call("Object.keys", x)
			}
			if o, err := vm.Object(`({})`); err == nil {
				_ = o.Set("a", np)
				_ = o.Set("b", otto.Object{})
				_, _ = o.MarshalJSON()
				_, _ = o.Call("hasOwnProperty", otto.Object{})
			}
		}},
		{"Call", func(vm *otto.Otto) {
			_, _ = vm.Call("Math.abs", nil, -1)
			_, _ = vm.Call("new Date", nil, 0)
			_, _ = vm.Call("nope", nil)
			_, _ = vm.Call("[1,2].concat", nil, 3, "x", nil)
			_, _ = vm.Call("__R[18]", map[string]int{"a": 1}, 1.5)
			_, _ = vm.Call("(", nil)
			_, _ = vm.Call("1", "this")
		}},
		{"Eval", func(vm *otto.Otto) { _, _ = vm.Eval("this"); _, _ = vm.Eval("(") }},
		{"Context", func(vm *otto.Otto) {
			c := vm.Context()
			_ = c.This.String()
			_ = vm.ContextLimit(0)
			_ = vm.ContextSkip(-1, false)
		}},
		{"ToValue", func(vm *otto.Otto) {
			for _, x := range []interface{}{nil, 1, "s", []int{1}, map[string]int{}, struct{}{}, func() {}, &GoStruct{}, [2]int{}, int8(1), uint64(1 << 63), float32(1.5)} {
				v, _ := vm.ToValue(x)
				_ = v.String()
			}
		}},
		{"MakeError", func(vm *otto.Otto) {
			_ = vm.MakeTypeError("t").String()
			_ = vm.MakeRangeError("r").String()
			_ = vm.MakeSyntaxError("s").String()
			_ = vm.MakeCustomError("N", "m").String()
		}},
		{"Copy", func(vm *otto.Otto) { c := vm.Copy(); _, _ = c.Run("1+1"); _, _ = c.Run("__R.length + __F.length") }},
	}
	for _, fn := range t.fns {
		for ri := range receivers {
			c := &scase{fn: fn, recv: ri}
			if excluded(c) != "" {
				continue
			}
			key := c.key()
			if !r.MineKey(key) {
				continue
			}
			if r.Expired() {
				r.Cap("time budget reached")
				return
			}
			r.Describe("Value.Call + Otto.Get/Set/Call/Eval/Context/ToValue/MakeError/Copy for " + c.rendered())
			r.Begin(key)
			vm := t.vm.Copy()
			if b := c.bridged(); b != nil {
				_ = installBridged(vm, b)
			}
			// the call itself, from Go
			call := ox.Guard(func() (otto.Value, error) {
				f, err := vm.Run(fmt.Sprintf("__F[%d]", fn.Idx))
				if err != nil {
					return f, err
				}
				this, err := vm.Run(ref("__R", receivers, ri))
				if err != nil {
					return this, err
				}
				return f.Call(this)
			})
			results := []struct {
				name string
				res  ox.Result
			}{{"Value.Call", call}}
			for _, s := range steps {
				s := s
				results = append(results, struct {
					name string
					res  ox.Result
				}{s.Name, ox.Guard(func() (otto.Value, error) { s.Do(vm); return otto.Value{}, nil })})
			}
			r.End()
			r.EvalN(int64(len(results)), int64(len(results)))
			r.Outcome(fn.Path + "=>" + outcome(call))
			if r.WantSample() && sparse(key, 499) {
				r.Sample("after " + c.rendered() + " (from Go: " + outcome(call) + "): Get/Set/Call/Eval/Context/ToValue/MakeError/Copy returned")
			}
			for _, pr := range results {
				if !pr.res.Panicked {
					continue
				}
				site, via := panicSite(pr.res.Stack)
				devDump(key+"#"+pr.name, c.rendered(), pr.name, panicClass(pr.res.PanicVal), panicText(pr.res.PanicVal), site, via)
				r.Mismatch(engine.Mismatch{Key: key, Input: pr.name + " after/for " + c.rendered(),
					Expected: "the API call returns (value or error)",
					Observed: "Go panic escaped (" + pr.name + "): " + panicText(pr.res.PanicVal) + " @ " + site,
					Note:     trimStack(pr.res.Stack),
					Aux: map[string]string{"fn": fn.Path, "mode": "call", "recv": c.recvName(), "args": "", "phase": pr.name,
						"class": panicClass(pr.res.PanicVal), "panic": panicText(pr.res.PanicVal), "site": site, "via": via}})
			}
		}
	}
}
