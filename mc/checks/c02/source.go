package c02

import (
	"encoding/hex"
	"errors"
	"fmt"
	"strings"

	"github.com/robertkrimen/otto"
	"github.com/robertkrimen/otto/parser"

	"verif/mc/engine"
	"verif/mc/ox"
)

// Source-text families: every text of the stated alphabets goes through the six
// source-taking entry points. One runtime per route is reused while the texts
// only fail to parse (a parse failure executes nothing); after any case that
// got past the parser — or panicked — the route's runtime is replaced by a
// fresh Copy() of a pristine runtime, so that the outcome of a case never
// depends on the cases before it (and replay by key reproduces it).

var routes = []string{"Run", "Compile", "Eval", "Object", "Call", "CallThis"}

type sourceRig struct {
	base *otto.Otto
	vms  []*otto.Otto
}

func newSourceRig() *sourceRig {
	s := &sourceRig{base: otto.New(), vms: make([]*otto.Otto, len(routes))}
	for i := range s.vms {
		s.vms[i] = s.base.Copy()
	}
	return s
}

func isParseError(err error) bool {
	if err == nil {
		return false
	}
	var el *parser.ErrorList
	if errors.As(err, &el) {
		return true
	}
	var pe *parser.Error
	if errors.As(err, &pe) {
		return true
	}
	var pv parser.Error
	return errors.As(err, &pv)
}

// route performs one entry point on the given runtime.
func doRoute(vm *otto.Otto, route, src string) ox.Result {
	return ox.Guard(func() (otto.Value, error) {
		switch route {
		case "Run":
			return vm.Run(src)
		case "Compile":
			sc, err := vm.Compile("", src)
			if err != nil {
				return otto.Value{}, err
			}
			_ = sc.String()
			return vm.Run(sc)
		case "Eval":
			return vm.Eval(src)
		case "Object":
			o, err := vm.Object(src)
			if err != nil {
				return otto.Value{}, err
			}
			_ = o.Class()
			_ = o.Keys()
			return o.Value(), nil
		case "Call":
			return vm.Call(src, nil, 1, "x")
		case "CallThis":
			return vm.Call(src, 1, 1, "x")
		}
		panic("route " + route)
	})
}

// execSource runs one source text through all routes.
func (s *sourceRig) execSource(r *rc, key, src string) {
	r.Describe(fmt.Sprintf("source %q through %s", src, strings.Join(routes, ", ")))
	r.Begin(key)
	parsed := false
	var outs [6]string
	for i, route := range routes {
		if r.ReplayKey != "" && strings.Contains(r.ReplayKey, "#") && !strings.HasSuffix(r.ReplayKey, "#"+route) {
			continue
		}
		res := doRoute(s.vms[i], route, src)
		outs[i] = outcome(res)
		clean := !res.Panicked && isParseError(res.Err)
		if !clean {
			parsed = true
			s.vms[i] = s.base.Copy()
		}
		if !res.Panicked && res.Err == nil {
			// the returned Value must be usable (Export is not applied here: a
			// three-token program such as `a = this` returns a cyclic object, and
			// Export of a cyclic object is the fatal case the goapi-value family owns)
			acc := ox.Guard(func() (otto.Value, error) {
				_ = res.Value.String()
				_, _ = res.Value.ToString()
				_ = res.Value.Class()
				return otto.Value{}, nil
			})
			if acc.Panicked {
				fileSourceCrash(r, key, src, route, "result-accessor", acc)
			}
		}
		if res.Panicked {
			fileSourceCrash(r, key, src, route, "call", res)
		}
	}
	r.End()
	nt := int64(0)
	if parsed {
		nt = int64(len(routes))
	}
	r.EvalN(int64(len(routes)), nt)
	o := strings.Join(outs[:], "|")
	r.Outcome(o)
	if parsed && r.WantSample() && sparse(key, 211) {
		r.Sample(fmt.Sprintf("%q => %s", src, o))
	}
}

func fileSourceCrash(r *rc, key, src, route, phase string, res ox.Result) {
	site, via := panicSite(res.Stack)
	devDump(key+"#"+route, fmt.Sprintf("%q", src), phase, panicClass(res.PanicVal), panicText(res.PanicVal), site, via)
	r.Mismatch(engine.Mismatch{
		Key:      key + "#" + route,
		Input:    fmt.Sprintf("%s(%q)", route, src),
		Expected: "the API call returns a value or an error",
		Observed: "Go panic escaped (" + phase + "): " + panicText(res.PanicVal) + " @ " + site,
		Note:     trimStack(res.Stack),
		Aux: map[string]string{"route": route, "src": src, "phase": phase, "class": panicClass(res.PanicVal),
			"panic": panicText(res.PanicVal), "site": site, "via": via},
	})
}

// byteAlphabet is the 40-byte alphabet of lexically interesting bytes for the
// length-3 enumeration.
var byteAlphabet = []byte{'"', '\'', '\\', '/', '*', '.', '0', 'x', 'e', '+', '-', '=', '&', '^', '|', '<', '>',
	'{', '}', '(', ')', '[', ']', ',', ';', ':', '?', '\n', '\r', 0x80, 0xC3, 0xE2, 0xFF,
	'a', ' ', '!', '%', 'u', 0x00, 0xA8}

func runBytes(r *rc) {
	defer muteStdout()()
	rig := newSourceRig()
	run := func(b []byte) bool {
		key := "b:" + hex.EncodeToString(b)
		if !r.MinePrefix(key) {
			return true
		}
		if r.Expired() {
			r.Cap("time budget reached")
			return false
		}
		rig.execSource(r, key, string(b))
		return true
	}
	// all byte strings of length <= 2
	if !run(nil) {
		return
	}
	for a := 0; a < 256; a++ {
		if !run([]byte{byte(a)}) {
			return
		}
	}
	for a := 0; a < 256; a++ {
		for b := 0; b < 256; b++ {
			if !run([]byte{byte(a), byte(b)}) {
				return
			}
		}
	}
	r.Bound("all_bytes_max_len", "2")
	// length 3 over the 40-byte alphabet (quick tier: over its first 16 bytes)
	alphabet := byteAlphabet
	if !r.Thorough() {
		alphabet = byteAlphabet[:16]
	}
	for _, a := range alphabet {
		for _, b := range alphabet {
			for _, c := range alphabet {
				if !run([]byte{a, b, c}) {
					return
				}
			}
		}
	}
	r.Bound("alphabet_len3", fmt.Sprint(len(alphabet)))
	r.Bound("routes", strings.Join(routes, ","))
}

// tokenAlphabet: 22 tokens. Tokens are joined by single spaces. `Object` is the
// one pre-defined global (so that member access, calls, `new` and compound
// assignment meet a real value within five tokens); `&^=` is the Go-only
// assignment operator the lexer produces (the binary form `&^` is rejected by
// the parser and is covered by the bytes family). No program of <= 5 of these
// tokens can loop or recurse (a function cannot be both defined and called,
// there is no loop keyword, no property name of a built-in is in the
// alphabet), so every case terminates.
var tokenAlphabet = []string{"a", "1", `"s"`, "/", "(", ")", "{", "}", "[", "]", ";", ",", ".", "=", "++", ":",
	"function", "new", "this", "Object", "&^=", "\n"}

func runTokens(r *rc) {
	defer muteStdout()()
	rig := newSourceRig()
	maxLen := 4
	if r.Thorough() {
		maxLen = 5
	}
	n := len(tokenAlphabet)
	idx := make([]int, 0, maxLen)
	var rec func(depth int) bool
	rec = func(depth int) bool {
		if depth > 0 {
			var kb, sb strings.Builder
			kb.WriteString("t:")
			for i, t := range idx {
				if i > 0 {
					kb.WriteByte('.')
					sb.WriteByte(' ')
				}
				kb.WriteString(fmt.Sprintf("%x", t+1)) // hex digit(s); +1 keeps keys free of leading-zero ambiguity
				sb.WriteString(tokenAlphabet[t])
			}
			key := kb.String()
			if r.MinePrefix(key) {
				if r.Expired() {
					r.Cap("time budget reached")
					return false
				}
				rig.execSource(r, key, sb.String())
			}
		}
		if depth == maxLen {
			return true
		}
		if !r.Thorough() && depth == 3 {
			// quick tier: length 4 only over the first 12 tokens
			for _, t := range idx {
				if t >= 12 {
					return true
				}
			}
		}
		for t := 0; t < n; t++ {
			idx = append(idx, t)
			ok := rec(depth + 1)
			idx = idx[:len(idx)-1]
			if !ok {
				return false
			}
		}
		return true
	}
	rec(0)
	r.Bound("token_alphabet", fmt.Sprint(n))
	r.Bound("token_max_len", fmt.Sprint(maxLen))
}
