package c02

import (
	"strings"

	"verif/mc/engine"
)

// Known-finding signatures. Every predicate pins one root cause: the function
// (or route / accessor / operation), the receiver / argument class that reaches
// the faulty line, the class of the panic and the otto function it originates
// in. A different panic at the same call, or the same panic from another
// function or input class, does not match and stays a VIOLATION.

func init() {
	for name, f := range signatureTable {
		f := f
		engine.RegisterSignature(name, func(m *engine.Mismatch) bool {
			if m.Aux == nil {
				return false
			}
			return f(m.Aux)
		})
	}
}

type aux = map[string]string

func argList(a aux) []string {
	if a["args"] == "" {
		return nil
	}
	return strings.Split(a["args"], ",")
}

func argAt(a aux, i int) string {
	l := argList(a)
	if i < len(l) {
		return l[i]
	}
	return "undefined" // a missing argument reads as undefined
}

func hasArg(a aux, names ...string) bool {
	for _, x := range argList(a) {
		for _, n := range names {
			if x == n {
				return true
			}
		}
	}
	return false
}

func in(s string, set ...string) bool {
	for _, x := range set {
		if s == x {
			return true
		}
	}
	return false
}

// primitive receiver / argument kinds (not undefined / null)
var primitiveKinds = []string{"true", "false", "0", "1", "-1", "1.5", "NaN", "Infinity", "2^32", "1e21", "str-empty", "str-abc", "str-nonbmp", "str-u16", "str-lone"}

// object receiver kinds that are not String objects
var nonStringObjectKinds = []string{"object", "nullproto", "frozen", "array", "holey", "arguments", "function", "bound", "date", "date-invalid",
	"regexp", "error", "Number", "Boolean", "go-struct", "go-map", "go-slice", "go-array"}

func isCallPhase(a aux) bool { return in(a["phase"], "call", "Value.Call") }

// usesBridged reports whether the case involves the given bridged kind at all.
func usesBridged(a aux, kind string) bool {
	return a["recv"] == "go-"+kind || hasArg(a, "go-"+kind) || a["kind"] == "go-"+kind || a["bridged"] == kind
}

var joinCycleSites = []string{"(*object).call", "builtinArrayJoin", "builtinArrayToString", "Value.string", "(*object).DefaultValue",
	"toPrimitive", "Value.toPrimitive", "toStringPrimitive", "(*object).get", "objectGet", "builtinArrayJoin.func1"}

var signatureTable = map[string]func(a aux) bool{
	// DESIGN #14 (C09 owns, C09-charat-generic.diff): charAt / charCodeAt use
	// call.This.object().stringValue(): a primitive this has no object (nil
	// receiver in stringValue), an object that is not a String object has a nil
	// stringObjecter (nil dereference in stringAt). undefined / null throw
	// TypeError before, String objects work.
	"c02-charat-non-string-object": func(a aux) bool {
		if !in(a["fn"], "String.prototype.charAt", "String.prototype.charCodeAt") || a["mode"] != "call" || !isCallPhase(a) || a["class"] != "nil-deref" {
			return false
		}
		switch a["site"] {
		case "(*object).stringValue":
			return in(a["recv"], primitiveKinds...)
		case "stringAt":
			return in(a["recv"], nonStringObjectKinds...)
		}
		return false
	},

	// NEW (C02-object-assign-target.diff): Object.assign's target test uses &&
	// instead of ||, so undefined / null / primitive targets get a nil *object:
	// copying a string source puts on it, copying an object source defines on
	// it, and without sources the nil object is returned inside a Value whose
	// accessors then dereference nil.
	"c02-object-assign-primitive-target": func(a aux) bool {
		if a["fn"] != "Object.assign" || a["mode"] != "call" || a["class"] != "nil-deref" || len(argList(a)) == 0 {
			return false
		}
		if !in(argAt(a, 0), append([]string{"undefined", "null"}, primitiveKinds...)...) {
			return false
		}
		switch a["phase"] {
		case "call", "Value.Call":
			return in(a["site"], "(*object).put", "(*object).defineOwnProperty")
		case "result-accessor":
			return in(a["site"], "(*object).get", "Value.Class", "(*object).DefaultValue")
		}
		return false
	},

	// DESIGN #15 (C02-tolocalestring-bad-tag.diff): the locale argument goes to
	// language.MustParse, which panics with the parse error for every string
	// that is not a well-formed BCP 47 tag. Only Number receivers get that far.
	"c02-tolocalestring-musparse": func(a aux) bool {
		return a["fn"] == "Number.prototype.toLocaleString" && a["mode"] == "call" && isCallPhase(a) &&
			a["site"] == "builtinNumberToLocaleString" && a["via"] == "language.MustParse" &&
			in(a["recv"], "0", "-1", "NaN", "2^32", "1e21", "Number") && argAt(a, 0) != "undefined"
	},

	// NEW (C06 owns the range checks, C06-number-format-range.diff): no upper
	// bound on the digits of toExponential / toPrecision; 2^32 digits is a
	// > 4 GB strconv buffer: fatal out of memory under the 2 GB address-space
	// limit of the case process (minutes of CPU and 4 GB without it).
	"c02-number-precision-unbounded": func(a aux) bool {
		return in(a["fn"], "Number.prototype.toExponential", "Number.prototype.toPrecision") && a["mode"] == "call" &&
			a["phase"] == "fatal" && a["class"] == "out-of-memory" && argAt(a, 0) == "2^32" &&
			in(a["site"], "builtinNumberToExponential", "builtinNumberToPrecision") && a["recv"] != "NaN"
	},

	// NEW (C09 owns, C09-lastindexof-position.diff): position + len(search)
	// overflows int for positions >= 2^63: negative slice bound.
	"c02-lastindexof-position-overflow": func(a aux) bool {
		return a["fn"] == "String.prototype.lastIndexOf" && a["mode"] == "call" && isCallPhase(a) &&
			a["class"] == "slice-bounds" && a["site"] == "builtinStringLastIndexOf" && argAt(a, 1) == "1e21" &&
			!in(a["recv"], "undefined", "null")
	},

	// NEW (C09 owns, C09-substr-infinite-length.diff): substr(start, length) with
	// a length >= 2^63 (Infinity, 1e21): start + length overflows.
	"c02-substr-length-overflow": func(a aux) bool {
		return a["fn"] == "String.prototype.substr" && a["mode"] == "call" && isCallPhase(a) &&
			a["class"] == "slice-bounds" && a["site"] == "builtinStringSubstr" && in(argAt(a, 1), "Infinity", "1e21") &&
			!in(a["recv"], "undefined", "null")
	},

	// F-C16-008 (C16 owns, C16-slice-setlength-unaddressable.diff): a bridged
	// slice is held by value; shrinking it calls reflect.Value.SetLen on an
	// unaddressable value (pop, shift, splice, length assignment, freeze).
	"c02-goslice-setlen-unaddressable": func(a aux) bool {
		return usesBridged(a, "slice") && a["class"] == "string" && a["site"] == "(*goSliceObject).setLength" &&
			strings.Contains(a["panic"], "reflect.Value.SetLen using unaddressable value") && a["phase"] != "fatal"
	},

	// NEW (C02-bridged-define-guards.diff): the length of a bridged slice is not
	// range-checked. 2^32 on a []int is a 32 GB reflect.MakeSlice (fatal out of
	// memory); a negative length panics in reflect (Value.Slice index out of
	// bounds once SetLen is replaced by reslicing, MakeSlice negative len).
	"c02-goslice-length-out-of-range": func(a aux) bool {
		if a["site"] != "(*goSliceObject).setLength" {
			return false
		}
		switch {
		case a["phase"] == "fatal" && a["class"] == "out-of-memory":
			return (a["kind"] == "go-slice" && a["accessor"] == "Object.Set(length,2^32)") ||
				(a["bridged"] == "slice" && a["op"] == "set-2^32" && a["name"] == "length")
		case a["phase"] == "call" && a["class"] == "string" &&
			(strings.Contains(a["panic"], "reflect.Value.Slice: slice index out of bounds") || strings.Contains(a["panic"], "reflect.MakeSlice: negative len")):
			return (a["kind"] == "go-slice" && a["accessor"] == "Object.Set(length,neg)") ||
				(a["bridged"] == "slice" && a["op"] == "set-neg" && a["name"] == "length")
		}
		return false
	},

	// DESIGN #21 / F-C16-007 (C16 owns, C16-container-store-errors.diff): a
	// failed conversion of a value stored into a bridged map / slice / array is
	// re-panicked as a plain Go error.
	"c02-bridged-store-plain-error": func(a aux) bool {
		if a["class"] != "error(*errors.errorString)" && a["class"] != "error(*strconv.NumError)" && a["class"] != "error(*fmt.wrapError)" {
			return false
		}
		switch a["site"] {
		case "goMapObject.toValue", "goMapObject.toKey":
			return usesBridged(a, "map")
		case "(*goSliceObject).setValue":
			return usesBridged(a, "slice")
		case "goArrayObject.setValue":
			return usesBridged(a, "array")
		}
		return false
	},

	// DESIGN #22 / F-C16-009 (C16 owns, C16-slice-delete-recursion.diff):
	// delete of a non-index, non-length key on a bridged slice / array calls
	// itself without bound: fatal stack overflow.
	"c02-bridged-delete-recursion": func(a aux) bool {
		return a["phase"] == "fatal" && a["class"] == "stack-overflow" && in(a["site"], "goSliceDelete", "goArrayDelete", "(*object).delete") &&
			in(a["bridged"], "slice", "array") && in(a["op"], "delete", "set-then-delete") && in(a["name"], "foo", "A", "a", "Get")
	},

	// NEW (C02-bridged-define-guards.diff): defineProperty with an accessor (or
	// value-less) descriptor on an element or the length of a bridged slice /
	// array: descriptor.value.(Value) interface-conversion panic.
	"c02-bridged-define-accessor": func(a aux) bool {
		if a["class"] != "interface-conversion" || !in(a["op"], "define-getter", "define-attrs") {
			return false
		}
		switch a["site"] {
		case "goSliceDefineOwnProperty":
			return a["bridged"] == "slice" && in(a["name"], "0", "7", "length")
		case "goArrayDefineOwnProperty":
			return a["bridged"] == "array" && in(a["name"], "0", "7")
		}
		return false
	},

	// DESIGN #16 (C04 owns, C04-no-and-not-token.diff): the lexer produces Go's
	// &^= token, the parser accepts it as an assignment operator and the
	// evaluator has no case for it: "Here be dragons" string panic.
	"c02-and-not-assign-token": func(a aux) bool {
		return a["class"] == "string" && a["phase"] == "call" && strings.Contains(a["src"], "&^=") &&
			strings.Contains(a["panic"], "Here be dragons") && strings.HasSuffix(a["panic"], ": &^") &&
			in(a["site"], "(*runtime).calculateBinaryExpression", "(*runtime).cmplEvaluateNodeAssignExpression")
	},

	// NEW (C02-call-empty-program.diff): Otto.Call(source, nil) parses
	// source + "()" and indexes program.body[0]; a source that is only a line
	// comment swallows the "()" and leaves an empty program.
	"c02-call-comment-only-source": func(a aux) bool {
		if a["route"] != "Call" || a["class"] != "index-out-of-range" || a["site"] != "Otto.Call" || a["phase"] != "call" {
			return false
		}
		s := strings.TrimLeft(a["src"], " \t\n\r\v\f\u00a0\ufeff\u2028\u2029")
		return strings.HasPrefix(s, "//") && !strings.ContainsAny(s, "\n\r\u2028\u2029")
	},

	// NEW (C02-json-stringify-depth.diff): JSON.stringify recurses in Go once per
	// nesting level; toJSON / a replacer that keeps returning fresh objects
	// makes the structure endless, the script functions return at every level
	// so the configured stack depth limit never triggers: fatal stack overflow.
	"c02-json-stringify-endless-structure": func(a aux) bool {
		return in(a["form"], "json-toJSON", "json-replacer") && a["d"] == "inf" && a["phase"] == "fatal" && a["class"] == "stack-overflow" &&
			in(a["site"], "builtinJSONStringifyWalk", "builtinJSONStringifyWalk.func2", "builtinJSONStringifyWalk.func1", "objectEnumerate", "(*object).enumerate")
	},

	// NEW (C02-native-call-at-rest-scope.diff): native functions called while the
	// runtime is at rest (from Go: Value.String, ToString, Call, Object.Call,
	// ...) enter no scope, so native-to-native recursion (Array.prototype
	// .toString -> join -> toString of an array that contains itself) is not
	// counted against the configured stack depth limit: fatal stack overflow.
	// Input class: the cyclic array kind, or an array kind into which the
	// accessor itself stores the array (Object.Set(index, self)).
	"c02-rest-state-native-recursion": func(a aux) bool {
		if a["phase"] != "fatal" || a["class"] != "stack-overflow" || !in(a["site"], joinCycleSites...) {
			return false
		}
		if a["kind"] == "cyclic-array" && a["accessor"] != "Export" {
			return true
		}
		return in(a["kind"], "array", "holey", "nested-array") && strings.HasPrefix(a["accessor"], "Object.Set(") && strings.HasSuffix(a["accessor"], ",self)")
	},

	// NEW (C02-export-cycles-and-throws.diff): Value.Export recurses through
	// object graphs without cycle detection: fatal stack overflow.
	"c02-export-cyclic": func(a aux) bool {
		return a["accessor"] == "Export" && in(a["kind"], "cyclic-object", "cyclic-array") && a["phase"] == "fatal" &&
			a["class"] == "stack-overflow" && strings.HasPrefix(a["site"], "Value.export")
	},

	// NEW (C02-export-cycles-and-throws.diff, C02-isnan-conversion-throws.diff):
	// Value.Export and Value.IsNaN run script code (getters, valueOf / toString)
	// outside catchPanic, so a thrown JavaScript exception leaves them as a Go
	// panic carrying *otto.exception.
	"c02-accessor-exception-escapes": func(a aux) bool {
		if a["class"] != "*otto.exception" || a["phase"] != "call" {
			return false
		}
		switch a["accessor"] {
		case "Export":
			return a["kind"] == "getter-thrower"
		case "predicates":
			return in(a["kind"], "nullproto", "bad-toprimitive", "thrower")
		}
		return false
	},

	// NEW (C02-bound-construct.diff): `new` on a bound function whose target is a
	// native without [[Construct]] calls a nil construct function.
	"c02-bound-native-construct": func(a aux) bool {
		if a["group"] != "apply" || a["phase"] != "call" || a["class"] != "nil-deref" || a["site"] != "bindFunctionObject.construct" {
			return false
		}
		src := a["src"]
		if !strings.HasPrefix(src, "String(new ((") || !strings.Contains(src, ").bind.apply((") {
			return false
		}
		for _, f := range []string{"Math.max", "String.prototype.concat", "Function.prototype.call"} {
			if strings.HasPrefix(src, "String(new (("+f+").bind.apply(("+f+"), ") {
				return true
			}
		}
		return false
	},

	// NEW (C02-tofloat-utf16-string.diff): ToNumber of a []uint16-backed string.
	"c02-tofloat-utf16": func(a aux) bool {
		return a["site"] == "Value.float64" && strings.HasSuffix(a["panic"], "toFloat([]uint16)") && a["phase"] != "fatal" &&
			(usesU16(a) || strings.Contains(a["src"], "fromCharCode"))
	},

	// NEW (C02-regexp-prototype-payload.diff): RegExp.prototype as the regexp.
	"c02-regexp-prototype-nil": func(a aux) bool {
		if a["class"] != "nil-deref" || !strings.HasPrefix(a["via"], "regexp.(*Regexp).") {
			return false
		}
		switch a["site"] {
		case "execRegExp":
			return in(a["fn"], "RegExp.prototype.exec", "RegExp.prototype.test", "String.prototype.match") &&
				(a["recv"] == "proto-RegExp" || argAt(a, 0) == "proto-RegExp")
		case "builtinStringSearch", "builtinStringReplace", "builtinStringSplit", "builtinStringMatch":
			return strings.HasPrefix(a["fn"], "String.prototype.") && argAt(a, 0) == "proto-RegExp"
		}
		return false
	},

	// NEW (C02-function-ctor-wrapper-escape.diff)
	"c02-function-ctor-wrapper-escape": func(a aux) bool {
		return a["group"] == "function" && a["class"] == "interface-conversion" && a["site"] == "parser.ParseFunction" &&
			strings.Contains(a["panic"], "not *ast.FunctionLiteral") && (strings.Contains(a["src"], "){") || strings.Contains(a["src"], "})"))
	},

	// NEW (C02-direct-eval-depth.diff)
	"c02-direct-eval-recursion": func(a aux) bool {
		if a["form"] != "eval-direct-self" || a["d"] == "0" {
			return false
		}
		// unbounded: the Go stack is exhausted; bounded but >= the limit: the
		// recursion completes although the limit should have stopped it
		return (a["phase"] == "fatal" && a["class"] == "stack-overflow") || (a["phase"] == "oracle" && strings.HasPrefix(a["obs"], "ok:"))
	},

	// NEW (C02-gomap-named-key.diff): reflect rejects a plain string as key of map[K]T.
	"c02-gomap-named-key": func(a aux) bool {
		if a["class"] != "string" || !in(a["site"], "goMapGetOwnProperty", "goMapDelete", "goMapDefineOwnProperty") {
			return false
		}
		if !strings.Contains(a["panic"], "MapIndex: value of type string is not assignable to type") {
			return false
		}
		return a["recv"] == "go-named-map" || a["kind"] == "go-named-map" || a["bridged"] == "nmap" || a["subject"] == "go-named-map" ||
			strings.Contains(a["src"], bridgedName("nmap"))
	},

	// NEW (C02-json-revive-depth.diff): the reviver makes the structure cyclic /
	// deeper while builtinJSONReviveWalk recurses.
	"c02-json-revive-recursion": func(a aux) bool {
		return strings.HasPrefix(a["walker"], "parse-reviver") && a["phase"] == "fatal" && a["class"] == "stack-overflow" && a["limit"] == "64" &&
			in(a["site"], "builtinJSONReviveWalk", "objectGet", "(*object).get", "objectGetProperty", "objectGetOwnProperty", "isArray", "objectLength", "(*object).enumerate", "objectEnumerate") &&
			in(a["mutation"], "self-cycle", "sibling-cycle", "sibling-root", "push-self", "next-sibling-self", "deepen", "deepen-sibling", "return-this", "return-root", "return-fresh-nested", "proto-cycle-attempt")
	},

	// NEW (C02-call-parameter-string-repr.diff): raw string payload handed to reflect.
	"c02-go-string-sink-repr": func(a aux) bool {
		if a["class"] != "string" || !in(a["site"], "(*runtime).toValue.func1", "(*runtime).convertCallParameter", "(*runtime).convertCallParameter.func1", "goStructObject.setValue") {
			return false
		}
		p := a["panic"]
		if !strings.Contains(p, "reflect") {
			return false
		}
		u16 := strings.Contains(p, "[]uint16 as type") || strings.Contains(p, "type []uint16 is not assignable to type") ||
			strings.Contains(p, "*[]uint16 as type *") || strings.Contains(p, "type *[]uint16 is not assignable to type *") || strings.Contains(p, "cannot use []uint16 as type")
		named := strings.Contains(p, "using string as type c02.NamedKey") || strings.Contains(p, "type string is not assignable to type c02.NamedKey")
		if u16 {
			return strings.HasPrefix(a["source"], "u16-") || strings.HasPrefix(a["source2"], "u16-") || usesU16(a) || strings.Contains(a["src"], "fromCharCode")
		}
		return named && a["source"] != ""
	},

	// NEW (C02-clone-eval-binding.diff)
	"c02-clone-eval-binding": func(a aux) bool {
		return a["target"] == "this.eval" && a["action"] == "Copy" && a["class"] == "interface-conversion" && a["site"] == "(*runtime).clone" &&
			(strings.Contains(a["panic"], "not *otto.object") || strings.Contains(a["panic"], "not otto.Value"))
	},

	// NEW (C02-gomap-define-valueless.diff)
	"c02-gomap-define-valueless": func(a aux) bool {
		return in(a["receiver"], "go-map", "go-named-map") && a["payload"] == "none" && a["attrs"] == "w1e1c1" && a["class"] == "interface-conversion" &&
			a["site"] == "goMapDefineOwnProperty" && strings.Contains(a["panic"], "is nil, not otto.Value")
	},

	// NEW (C02-context-throwing-getter.diff)
	"c02-context-throwing-getter": func(a aux) bool {
		return a["action"] == "Context" && a["mutation"] == "accessor-throws" && strings.HasPrefix(a["target"], "this.") && a["class"] == "*otto.exception"
	},

	// ---- round 6

	"c02-sourcemap-dangling-index": func(a aux) bool {
		return a["group"] == "sourcemap" && a["class"] == "index-out-of-range" && a["site"] == "file.(*File).Position"
	},

	"c02-uncaught-throw-unstringable": func(a aux) bool {
		return strings.HasPrefix(a["body"], "throw-") && a["class"] == "*otto.exception" && a["phase"] == "call"
	},

	"c02-apply-huge-arguments": func(a aux) bool {
		return a["group"] == "apply-huge" && a["phase"] == "fatal" && a["class"] == "out-of-memory" && a["site"] == "builtinFunctionApply"
	},

	"c02-replace-invalid-utf8": func(a aux) bool {
		return a["site"] == "builtinStringReplace" && a["via"] == "regexp.MustCompile" && a["class"] == "string" &&
			(strings.HasPrefix(a["source"], "host-invalid-utf8") || strings.HasPrefix(a["source2"], "host-invalid-utf8")) && strings.Contains(a["panic"], "invalid UTF-8")
	},

	"c02-parser-error-explosion": func(a aux) bool {
		return a["construct"] == "label-duplicate" && a["depth"] == "4000" && a["phase"] == "fatal" && a["class"] == "hang"
	},

	"c02-parser-deep-nesting": func(a aux) bool {
		return in(a["construct"], "array", "paren", "not") && a["depth"] == "1000000" && a["route"] == "Run" && a["phase"] == "fatal" && a["class"] == "stack-overflow" &&
			(strings.HasPrefix(a["site"], "parser.") || strings.Contains(a["site"], "cmpl") || strings.Contains(a["site"], "compiler"))
	},

	"c02-bridged-nil-func-callback-throw": func(a aux) bool {
		if a["site"] == "(*runtime).toValue.func1" && a["class"] == "string" && strings.Contains(a["panic"], "reflect.Value.Call: call of nil function") {
			return strings.Contains(a["sink"], "fNilFunc") || strings.Contains(a["sink"], "st.Fn") || in(a["bridged"], "nilfunc", "funcstruct", "funcslice")
		}
		return a["site"] == "(*runtime).convertCallParameter.func2" && a["class"] == "error(*errors.errorString)" &&
			(strings.Contains(a["sink"], "throw") || a["op"] == "set-function")
	},

	"c02-bridged-store-conversion": func(a aux) bool {
		if !in(a["bridged"], "ptrslice", "funcslice", "anyslice", "structslice", "mapslice", "funcstruct", "struct") {
			return false
		}
		p := a["panic"]
		switch a["site"] {
		case "Value.toReflectValue":
			return a["class"] == "error(*errors.errorString)" && strings.Contains(p, "invalid conversion of")
		case "(*goSliceObject).setValue":
			return strings.Contains(p, "call of reflect.Value.Set on zero Value") || strings.Contains(p, "reflect.Set: value of type") && strings.Contains(p, "is not assignable to type")
		case "goMapDefineOwnProperty":
			return strings.Contains(p, "reflect.Value.SetMapIndex: value of type") && strings.Contains(p, "is not assignable to type")
		}
		return false
	},

	"c02-bridged-map-key-kinds": func(a aux) bool {
		if a["site"] == "stringToReflectValue" && in(a["bridged"], "ifacemap", "structmap") {
			return strings.Contains(a["panic"], "invalid conversion of") && (strings.HasSuffix(a["panic"], "to reflect.Kind: interface") || strings.HasSuffix(a["panic"], "to reflect.Kind: struct"))
		}
		return a["bridged"] == "nilmap" && a["site"] == "goMapDefineOwnProperty" && strings.Contains(a["panic"], "assignment to entry in nil map")
	},

	"c02-bridged-struct-members": func(a aux) bool {
		if a["bridged"] == "embednil" && a["site"] == "goStructObject.getValue" {
			return strings.Contains(a["panic"], "indirection through nil pointer to embedded struct")
		}
		return in(a["bridged"], "structval", "structslice") && a["site"] == "goStructObject.setValue" && strings.Contains(a["panic"], "reflect.Value.Set using unaddressable value")
	},

	"c02-named-bool-param": func(a aux) bool {
		return a["site"] == "(*runtime).toValue.func1" && strings.Contains(a["panic"], "using bool as type c02.NamedBool") && strings.Contains(a["sink"], "fNamedBool")
	},

	// ---- round 7: allocation by a claimed length

	"c02-array-prealloc-by-length": func(a aux) bool {
		return a["phase"] == "fatal" && a["class"] == "out-of-memory" && hugeInput(a) &&
			in(a["site"], "builtinArrayJoin", "builtinArrayToLocaleString", "builtinArraySlice", "builtinArraySplice", "builtinArrayMap")
	},

	"c02-json-prealloc-by-length": func(a aux) bool {
		return a["phase"] == "fatal" && a["class"] == "out-of-memory" && hugeInput(a) && in(a["site"], "builtinJSONStringify", "builtinJSONStringifyWalk")
	},

	"c02-slice-param-claimed-length": func(a aux) bool {
		if !strings.HasPrefix(a["source"], "huge-") || a["site"] != "(*runtime).convertCallParameter" {
			return false
		}
		return (a["phase"] == "fatal" && a["class"] == "out-of-memory") || (a["class"] == "string" && strings.Contains(a["panic"], "reflect.MakeSlice: negative len"))
	},

	// ---- round 8

	"c02-gostruct-marshal-stale": func(a aux) bool {
		return strings.HasPrefix(a["bridged"], "stale_") && in(a["class"], "string", "error(*reflect.ValueError)") && strings.Contains(a["panic"], "reflect.Value.Interface on zero Value") &&
			in(a["site"], "goStructMarshalJSON", "builtinJSONStringifyWalk")
	},

	"c02-call-reentrant-at-limit": func(a aux) bool {
		return a["route"] == "reentry" && strings.HasPrefix(a["body"], "Otto.Call") && a["phase"] == "reentrant-api" && a["class"] == "*otto.exception" &&
			a["site"] == "(*runtime).enterScope"
	},

	"c02-tovalue-nil-object": func(a aux) bool {
		return a["phase"] == "nil-objects" && a["class"] == "nil-deref" && a["site"] == "toValue"
	},

	"c02-keys-bridged-map-keys": func(a aux) bool {
		return in(a["bridged"], "ifacemap", "structmap") && a["class"] == "otto.ottoError" && in(a["site"], "toValue", "reflectValuePanic") &&
			strings.Contains(a["panic"], "TypeError invalid value")
	},

	"c02-export-quadratic-depth": func(a aux) bool {
		// what is left after d1cf1ab: only nested arrays (a Go slice type per level)
		return a["construct"] == "data-nested-array" && a["route"] == "Export" && a["phase"] == "fatal" && in(a["depth"], "100000", "1000000") &&
			a["class"] == "out-of-memory" && in(a["site"], "Value.exportSeen", "Value.export")
	},

	// ---- round 9

	"c02-regexp-group-nesting": func(a aux) bool {
		return strings.HasPrefix(a["construct"], "regexp-") && a["depth"] == "5000000" && in(a["route"], "Run", "RegExp", "RegExp-doubling") &&
			a["phase"] == "fatal" && a["class"] == "stack-overflow" && strings.HasPrefix(a["site"], "parser.(*regExpParser).")
	},

	"c02-deep-data-recursion": func(a aux) bool {
		if !in(a["construct"], "data-list", "data-nested-array", "data-prototype-chain") || a["depth"] != "1000000" || a["phase"] != "fatal" || a["class"] != "stack-overflow" {
			return false
		}
		switch a["route"] {
		case "Copy":
			return in(a["site"], "objectClone", "(*cloner).object", "(*cloner).value", "(*cloner).valueArray", "(*cloner).stash", "(*cloner).property")
		case "Export":
			return strings.HasPrefix(a["site"], "Value.export")
		}
		return false
	},
}

// hugeInput: the case is one of the claimed-length groups.
func hugeInput(a aux) bool {
	return strings.HasPrefix(a["group"], "huge-length") || strings.HasPrefix(a["source"], "huge-")
}

// usesU16 reports whether the case involves one of the []uint16-backed string kinds.
func usesU16(a aux) bool {
	return in(a["recv"], "str-u16", "str-lone") || hasArg(a, "str-u16", "str-lone") || in(a["kind"], "str-u16", "str-lone")
}
