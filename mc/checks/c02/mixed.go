package c02

import (
	"fmt"
	"strings"

	"github.com/robertkrimen/otto"

	"verif/mc/engine"
	"verif/mc/ox"
)

// deep-mixed: deep-source nests ONE production very deep. A recursion guard
// that is kept in state which some production saves / restores / re-creates
// (a function literal opens a new parser scope, an accessor body is a function
// body, a parenthesised expression re-enables `in`, ...) bounds every such
// text and still leaves the recursion of the parser, the compiler and the
// evaluator unbounded for text whose nesting ALTERNATES between productions.
//
// The space: nesting "layers", each with a context it stands in (S = a
// statement is expected, E = an expression is expected) and the context of its
// hole. A mixture is a periodic word over the layers that type-checks as a
// cycle S -> ... -> S; ALL cycles of period <= 2 (thorough: <= 3) are
// enumerated, each repeated to a total of N layers, closed, through every
// source route.
//
// Oracle (differential twin): N layers through the mixture must get the verdict
// of N layers of the plain array literal through the same route - on a tree
// whose nesting is bounded that is the clean SyntaxError of the depth guard
// for every N above the guard; "accepted" means the recursion depth over this
// text is not bounded by anything but the Go stack. The death of the child
// (fatal stack overflow) is reported by the supervisor as for every family.
// The same mixture at 6 layers must be accepted (it is well-formed text): that
// is the non-triviality of the case.

type mixLayer struct {
	Name, In, Out, Open, Close string
}

var mixLayers = []mixLayer{
	// statement holding a statement
	{"fdecl", "S", "S", "function f(){", "}"},
	{"block", "S", "S", "{", "}"},
	{"if", "S", "S", "if(1)", ""},
	{"while", "S", "S", "while(0)", ""},
	{"try", "S", "S", "try{", "}finally{}"},
	{"with", "S", "S", "with({})", ""},
	{"switch", "S", "S", "switch(1){default:", "}"},
	// statement holding an expression
	{"void", "S", "E", "void ", ";"},
	{"ifcond", "S", "E", "if(", ");"},
	{"varinit", "S", "E", "var v=", ";"},
	// expression holding an expression
	{"array", "E", "E", "[", "]"},
	{"paren", "E", "E", "(", ")"},
	{"not", "E", "E", "!", ""},
	{"object", "E", "E", "{a:", "}"},
	{"arg", "E", "E", "f(", ")"},
	{"assign", "E", "E", "a=", ""},
	{"ternary", "E", "E", "1?1:", ""},
	{"comma", "E", "E", "(1,", ")"},
	// expression holding a statement
	{"fexpr", "E", "S", "function(){", "}"},
	{"fexpr-named", "E", "S", "function g(){", "}"},
	{"iife", "E", "S", "function(){", "}()"},
	{"getter", "E", "S", "{get a(){", "}}"},
	{"setter", "E", "S", "{set a(v){", "}}"},
}

// mixCycles: every word l1..lp (p <= maxPeriod) with l1 in S, adjacent contexts
// matching and lp's hole in S again.
func mixCycles(maxPeriod int) [][]mixLayer {
	var out [][]mixLayer
	var rec func(word []mixLayer, ctx string)
	rec = func(word []mixLayer, ctx string) {
		if len(word) > 0 && ctx == "S" {
			out = append(out, append([]mixLayer(nil), word...))
		}
		if len(word) == maxPeriod {
			return
		}
		for _, l := range mixLayers {
			if l.In == ctx {
				rec(append(word, l), l.Out)
			}
		}
	}
	rec(nil, "S")
	return out
}

func mixName(cy []mixLayer) string {
	names := make([]string, len(cy))
	for i, l := range cy {
		names[i] = l.Name
	}
	return strings.Join(names, ">")
}

// mixText repeats the cycle to (at least) n layers, innermost statement ";".
func mixText(cy []mixLayer, n int) string {
	var open, cl string
	for _, l := range cy {
		open += l.Open
	}
	for i := len(cy) - 1; i >= 0; i-- {
		cl += cy[i].Close
	}
	reps := (n + len(cy) - 1) / len(cy)
	return strings.Repeat(open, reps) + ";" + strings.Repeat(cl, reps)
}

var mixRoutes = []string{"Run", "Compile", "eval", "Function"}

func mixRoute(name string) func(vm *otto.Otto, text string) error {
	for _, rt := range deepRoutes {
		if rt.Name == name {
			return rt.Do
		}
	}
	return nil
}

func mixVerdict(res ox.Result) string {
	switch {
	case res.Panicked:
		return "panic:" + panicClass(res.PanicVal)
	case res.Err != nil:
		return "err:" + ox.ErrClass(res.Err)
	}
	return "accepted"
}

func runDeepMixed(r *rc) {
	defer muteStdout()()
	base := otto.New()
	// quick: period <= 2 at 10^5 layers through every route, period 3 at 3*10^4
	// layers through Compile; thorough: every cycle x route x depth
	maxPeriod := 3
	cycles := mixCycles(maxPeriod)
	plan := func(period int, route string) []int {
		switch {
		case r.Thorough():
			// 3*10^4 is not used here: a parser may count one level per cycle rather than per layer, so
			// only depths >= period x bound imply the twin's reject verdict (if>block x 30000 is accepted, harmlessly)
			return []int{100000, 400000}
		case period <= 2:
			return []int{100000}
		case route == "Compile":
			return []int{30000}
		}
		return nil
	}
	twin := map[string]string{}
	twinVerdict := func(route string, n int) string {
		k := fmt.Sprintf("%s|%d", route, n)
		if v, ok := twin[k]; ok {
			return v
		}
		do := mixRoute(route)
		vm := base.Copy()
		vm.SetStackDepthLimit(1000)
		text := strings.Repeat("[", n) + "1" + strings.Repeat("]", n)
		v := mixVerdict(ox.Guard(func() (otto.Value, error) { err := do(vm, text); touchErr(err); return otto.Value{}, err }))
		twin[k] = v
		return v
	}
	for _, cy := range cycles {
		name := mixName(cy)
		for _, route := range mixRoutes {
			for _, n := range plan(len(cy), route) {
				key := fmt.Sprintf("%s|%d|%s", name, n, route)
				if !r.MineKey(key) {
					continue
				}
				if r.Expired() {
					r.Cap("time budget reached")
					return
				}
				do := mixRoute(route)
				desc := fmt.Sprintf("%s of the cycle %q ... %q repeated to %d layers (6 layers: %s)", route, mixText(cy, 1)[:strings.Index(mixText(cy, 1), ";")], mixText(cy, 1)[strings.Index(mixText(cy, 1), ";")+1:], n, mixText(cy, 6))
				r.Describe(desc)
				r.Begin(key)
				exp := twinVerdict(route, n)
				vm := base.Copy()
				vm.SetStackDepthLimit(1000)
				_, _ = vm.Run(`function f(){}; var a`)
				shallow := mixVerdict(ox.Guard(func() (otto.Value, error) { err := do(vm, mixText(cy, 6)); return otto.Value{}, err }))
				res := ox.Guard(func() (otto.Value, error) { err := do(vm, mixText(cy, n)); touchErr(err); return otto.Value{}, err })
				post := ox.Run(vm, "1+1")
				r.End()
				obs := mixVerdict(res)
				r.Eval(shallow == "accepted")
				r.Outcome("shallow:" + shallow + " deep:" + obs)
				if r.WantSample() && sparse(key, 23) {
					r.Sample(desc + "  =>  " + obs)
				}
				aux := map[string]string{"group": "mixed", "cycle": name, "depth": fmt.Sprint(n), "route": route, "shallow": shallow}
				if post.Panicked {
					aux["phase"], aux["class"], aux["panic"] = "runtime-after", panicClass(post.PanicVal), panicText(post.PanicVal)
					r.Mismatch(engine.Mismatch{Key: key, Input: desc, Expected: "the API call returns a value or an error",
						Observed: "Go panic escaped (runtime-after): " + panicText(post.PanicVal), Note: trimStack(post.Stack), Aux: aux})
					continue
				}
				if obs != exp {
					if res.Panicked {
						aux["phase"], aux["class"], aux["panic"] = "call", panicClass(res.PanicVal), panicText(res.PanicVal)
					}
					r.Mismatch(engine.Mismatch{Key: key, Input: desc,
						Expected: exp + " (the verdict of \"[\" x " + fmt.Sprint(n) + " through " + route + ": nesting depth is bounded whatever the productions it passes through)",
						Observed: obs, Aux: aux})
				}
			}
		}
	}
	r.Bound("layers", fmt.Sprint(len(mixLayers)))
	r.Bound("cycle_period", fmt.Sprintf("<= %d (%d cycles)", maxPeriod, len(cycles)))
	if r.Thorough() {
		r.Bound("depths", "10^5, 4*10^5 for every cycle and route")
	} else {
		r.Bound("depths", "10^5 for period <= 2 through every route; 3*10^4 for period 3 through Compile")
	}
	r.Bound("routes", fmt.Sprint(len(mixRoutes)))
}
