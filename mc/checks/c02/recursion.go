package c02

import (
	"fmt"
	"strconv"
	"strings"

	"github.com/robertkrimen/otto"

	"verif/mc/engine"
	"verif/mc/ox"
)

// Recursion x limits. For every configured stack depth limit L, every depth d
// and every one of 12 call forms a script recurses d levels (d = inf: without a
// base case) inside try/catch. Oracle (what the property states, nothing more):
//
//	(a) the API call returns — no Go panic, no fatal stack overflow;
//	(b) the script observes either the full depth ("ok:d") or a caught
//	    `e instanceof RangeError`;
//	(c) d = inf always ends in the caught RangeError;
//	(d) the limit is effective: d >= L always ends in the RangeError, and per
//	    (L, form) the outcome is monotone in d (once the limit is hit, deeper
//	    recursion hits it too);
//	(e) the limit is not spuriously hit: d = 0 succeeds when L >= 16.
//
// The exact threshold per form is C18's business and is not asserted here.

type recForm struct {
	Name string
	// Src defines a global function __go(d) that recurses d levels (the level
	// count is returned); every level costs at least one script function call.
	Src string
	// Native forms recurse inside a built-in's Go code: the script function
	// they call returns at every level, so the script stack does not grow with
	// d and a finite d never has to hit the limit; d = inf must still end in
	// the RangeError instead of exhausting the Go stack.
	Native bool
}

var recForms = []recForm{
	{Name: "direct", Src: `function f(n){ return n > 0 ? 1 + f(n-1) : 0 } function __go(d){ return f(d) }`},
	{Name: "method", Src: `var o = {f: function(n){ return n > 0 ? 1 + this.f(n-1) : 0 }}; function __go(d){ return o.f(d) }`},
	{Name: "call", Src: `function f(n){ return n > 0 ? 1 + f.call(null, n-1) : 0 } function __go(d){ return f(d) }`},
	{Name: "apply", Src: `function f(n){ return n > 0 ? 1 + f.apply(null, [n-1]) : 0 } function __go(d){ return f(d) }`},
	{Name: "bound", Src: `var b; function g(n){ return n > 0 ? 1 + b(n-1) : 0 } function __go(d){ b = g.bind(null); return b(d) }`},
	{Name: "new", Src: `function F(n){ this.v = n > 0 ? 1 + new F(n-1).v : 0 } function __go(d){ return new F(d).v }`},
	{Name: "getter", Src: `var o = {n: 0, get g(){ if (this.n > 0) { this.n--; return 1 + this.g } return 0 }}; function __go(d){ o.n = d; return o.g }`},
	{Name: "valueOf", Src: `var n = 0; var o = {valueOf: function(){ if (n > 0) { n--; return 1 + (+o) } return 0 }}; function __go(d){ n = d; return +o }`},
	{Name: "forEach", Src: `function f(n){ var r = 0; if (n > 0) [1].forEach(function(){ r = 1 + f(n-1) }); return r } function __go(d){ return f(d) }`},
	{Name: "sort", Src: `function f(n){ var r = -1; if (n > 0) { [2,1].sort(function(){ if (r < 0) r = 1 + f(n-1); return 0 }); return r } return 0 } function __go(d){ return f(d) }`},
	{Name: "eval", Src: `function f(n){ return n > 0 ? 1 + eval("f(n-1)") : 0 } function __go(d){ return f(d) }`},
	{Name: "join-cycle", Src: `var a = [1]; a[1] = a; function __go(d){ return d > 0 ? String(a).length : 0 }`},
	{Name: "json-toJSON", Native: true, Src: `var o = {toJSON: function(){ return n-- > 0 ? {x: o} : 0 }}, n = 0; function __go(d){ n = d; JSON.stringify(o); return d }`},
	{Name: "json-replacer", Native: true, Src: `var n = 0; function __go(d){ n = d; JSON.stringify({}, function(k, v){ return n-- > 0 ? {x: 1} : 0 }); return d }`},
	{Name: "eval-direct-self", Src: `var n = 0, s = "n-- > 0 ? 1 + eval(s) : 0"; function __go(d){ n = d; return eval(s) }`},
	{Name: "eval-indirect-self", Src: `var n = 0, s = "n-- > 0 ? 1 + (0, eval)(s) : 0"; function __go(d){ n = d; return (0, eval)(s) }`},
	{Name: "Function-body", Src: `var F; function __go(d){ F = Function("n", "return n > 0 ? 1 + F(n - 1) : 0"); return F(d) }`},
	{Name: "Function-body-eval", Src: `var n = 0, F; function __go(d){ n = d; F = Function("return n-- > 0 ? 1 + eval('F()') : 0"); return F() }`},
	{Name: "toString-reentry", Src: `var n = 0, o = {toString: function(){ return n-- > 0 ? "x" + o : "" }}; function __go(d){ n = d; return String(o).length }`},
	{Name: "toJSON-reentry", Src: `var n = 0, o = {toJSON: function(){ return n-- > 0 ? 1 + JSON.parse(JSON.stringify(o)) : 0 }}; function __go(d){ n = d; return JSON.parse(JSON.stringify(o)) }`},
	{Name: "replace-callback", Src: `function f(n){ var r = 0; if (n > 0) "a".replace(/a/, function(){ r = 1 + f(n - 1); return "" }); return r } function __go(d){ return f(d) }`},
	{Name: "map-callback", Src: `function f(n){ return n > 0 ? 1 + [n - 1].map(f)[0] : 0 } function __go(d){ return f(d) }`},
	{Name: "reduce-callback", Src: `function f(n){ return n > 0 ? [1, 1].reduce(function(a){ return a + f(n - 1) }) : 0 } function __go(d){ return f(d) }`},
	{Name: "setter", Src: `var c = 0, o = {set s(v){ if (v > 0) { c++; this.s = v - 1 } }}; function __go(d){ c = 0; o.s = d; return c }`},
	{Name: "instanceof-bound", Src: `function f(n){ return n > 0 ? 1 + f.bind(null).call(null, n - 1) : 0 } function __go(d){ return f(d) }`},
	{Name: "sort-reentry", Src: `var a = [2, 1], n = 0; function c(){ if (n-- > 0) a.sort(c); return 0 } function __go(d){ n = d; a.sort(c); return d }`},
	{Name: "getter-self", Src: `var n = 0, o = {get x(){ return n-- > 0 ? 1 + this.x : 0 }}; function __go(d){ n = d; return o.x }`},
	{Name: "call-chain", Src: `function f(n){ return n > 0 ? 1 + Function.prototype.call.call(f, null, n - 1) : 0 } function __go(d){ return f(d) }`},
	{Name: "apply-chain", Src: `function f(n){ return n > 0 ? 1 + Function.prototype.apply.apply(f, [null, [n - 1]]) : 0 } function __go(d){ return f(d) }`},
	{Name: "concat-self", Src: `var n = 0, o = {toString: function(){ return n-- > 0 ? "x".concat(o) : "" }}; function __go(d){ n = d; return ("" + o).length }`},
	{Name: "Function", Src: `function f(n){ return n > 0 ? 1 + Function("n", "return f(n-1)")(n) : 0 } function __go(d){ return f(d) }`},
}

// recDriver is global code (no wrapper function: with L = 1 no call at all is
// possible, and the try must already be active then).
const recDriver = `var __r; try { __r = "ok:" + __go(%s) } catch (e) { __r = (e instanceof RangeError) ? "RangeError" : "other:" + e } __r`

var recLimits = []int{1, 2, 3, 4, 5, 6, 7, 8, 9, 10, 11, 12, 13, 14, 15, 16, 100, 1000, 10000}

const inf = -1

// nativeDepths: the depths of the Native forms (d does not consume script stack).
var nativeDepths = []int{0, 1, 5, inf}

// nativeLimits: the limits of the Native forms (the limit plays no role in
// how deep the Go recursion gets; two values suffice).
var nativeLimits = []int{8, 1000}

// recDepths lists the depths enumerated for a limit: 0..L+2 and unbounded. In
// the quick tier the large limits use the window {0,1,2, L-3..L+2, unbounded}.
func recDepths(L int, thorough bool) []int {
	var out []int
	if L <= 100 || (thorough && L <= 1000) {
		for d := 0; d <= L+2; d++ {
			out = append(out, d)
		}
	} else if thorough {
		// L = 10000: every depth up to 64, every 53rd depth, the window around L
		for d := 0; d <= L+2; d++ {
			if d <= 64 || d%53 == 0 || d >= L-8 {
				out = append(out, d)
			}
		}
	} else {
		out = append(out, 0, 1, 2)
		for d := L - 3; d <= L+2; d++ {
			out = append(out, d)
		}
	}
	return append(out, inf)
}

func depthName(d int) string {
	if d == inf {
		return "inf"
	}
	return strconv.Itoa(d)
}

func runRecursion(r *rc) {
	defer muteStdout()()
	var base *otto.Otto

	for _, form := range recForms {
		limits := recLimits
		if form.Native {
			limits = nativeLimits
		}
		for _, L := range limits {
			// Monotonicity per (form, L): every worker owns a subsequence of the
			// depths; once it saw the RangeError at d0, every deeper d it owns
			// must end in the RangeError too.
			firstRange := -1
			depths := recDepths(L, r.Thorough())
			if form.Native {
				depths = nativeDepths
			}
			for _, d := range depths {
				key := fmt.Sprintf("%s/L%d/d%s", form.Name, L, depthName(d))
				if !r.MineKey(key) {
					continue
				}
				if r.Expired() {
					r.Cap("time budget reached")
					return
				}
				arg := depthName(d)
				if d == inf {
					arg = "Infinity"
				}
				src := form.Src + "; " + fmt.Sprintf(recDriver, arg)
				form, L, d := form, L, d
				body := func() {
					if base == nil {
						base = otto.New()
					}
					r.Describe(fmt.Sprintf("SetStackDepthLimit(%d); Run(%q)", L, src))
					r.Begin(key)
					vm := base.Copy()
					vm.SetStackDepthLimit(L)
					res := ox.Run(vm, src)
					post := ox.Run(vm, "1+1")
					r.End()

					obs := outcome(res)
					if !res.Panicked && res.Err == nil && res.Value.IsString() {
						obs, _ = res.Value.ToString()
					}
					r.Eval(obs == "RangeError")
					r.Outcome(form.Name + ":" + strings.SplitN(obs, ":", 2)[0])
					if r.WantSample() && (d == inf || d == L) && sparse(key, 7) {
						r.Sample(fmt.Sprintf("limit %d, %s recursion to depth %s => %s", L, form.Name, depthName(d), obs))
					}
					aux := map[string]string{"form": form.Name, "L": strconv.Itoa(L), "d": depthName(d), "obs": obs}
					if res.Panicked {
						site, via := panicSite(res.Stack)
						aux["class"], aux["panic"], aux["site"], aux["via"], aux["phase"] = panicClass(res.PanicVal), panicText(res.PanicVal), site, via, "call"
						devDump(key, src, "call", aux["class"], aux["panic"], site, via)
						r.Mismatch(engine.Mismatch{Key: key, Input: src, Expected: "returns; script observes ok:d or a caught RangeError",
							Observed: "Go panic escaped: " + panicText(res.PanicVal) + " @ " + site, Note: trimStack(res.Stack), Aux: aux})
						return
					}
					exp := ""
					switch {
					case d == inf || (d >= L && !form.Native):
						exp = "RangeError"
					case d == 0 && L >= 16:
						exp = "ok:0"
					case firstRange >= 0 && d > firstRange:
						exp = "RangeError"
					default:
						if obs == "RangeError" {
							exp = "RangeError"
						} else {
							exp = "ok:" + strconv.Itoa(d)
						}
					}
					if obs == "RangeError" && firstRange < 0 {
						firstRange = d
					}
					if exp != obs {
						aux["phase"] = "oracle"
						r.Mismatch(engine.Mismatch{Key: key, Input: src, Expected: exp, Observed: obs, Aux: aux})
					}
					if post.Panicked || post.Err != nil {
						aux["phase"] = "runtime-after"
						r.Mismatch(engine.Mismatch{Key: key, Input: src, Expected: "runtime usable after the run (1+1 evaluates)",
							Observed: fmt.Sprintf("%v %v", post.PanicVal, post.Err), Aux: aux})
					}
				}
				body()
			}
		}
	}
	r.Bound("limits", fmt.Sprint(recLimits))
	r.Bound("call_forms", fmt.Sprint(len(recForms)))
}
