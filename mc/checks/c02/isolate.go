package c02

import (
	"bufio"
	"bytes"
	"encoding/json"
	"fmt"
	"io"
	"os"
	"os/exec"
	"runtime/debug"
	"strconv"
	"strings"
	"sync"
	"syscall"
	"time"

	"verif/mc/engine"
)

// Crash isolation.
//
// Several failure modes of the code under test are not recoverable panics:
// unbounded Go recursion (fatal stack overflow), allocations beyond the
// address-space limit (fatal out of memory) and CPU-bound wedges. A process
// that meets one dies. The engine's supervisor attributes the death of a
// worker to the announced case, but the rest of that worker's shard is then
// unexplored and the death carries no structured data for a known-finding
// signature. C02 expects such deaths (that is the property), so every family
// of this check runs one level further down:
//
//	supervisor -> worker (parent, executes nothing itself)
//	                 -> child process (same binary, same family, same shard)
//
// The child enumerates the shard exactly as a worker would and streams its
// accounting to the parent over stdout, announcing every case before it is
// executed. When the child dies (or its 60 s per-case watchdog fires) the
// parent files the death as a mismatch of the announced case — with the fatal
// class and the recursing/allocating otto function in Aux — and starts a new
// child that skips everything up to and including that case. Nothing is lost
// and nothing needs to be quarantined in advance.

const (
	childEnv = "C02_CHILD" // "1" in the child
	skipEnv  = "C02_SKIP"  // number of owned cases of the family to skip
	// inprocEnv = "1" runs the families directly in the worker (debugging aid).
	inprocEnv = "C02_INPROC"
)

// childAddressSpaceLimit (RLIMIT_AS of the child): a request for billions of
// digits or elements by a tiny script fails at the allocation (fatal "out of
// memory", attributed to the case) instead of grinding for minutes and putting
// memory pressure on the host.
const childAddressSpaceLimit = 2 << 30

// childMaxStack: a runaway Go recursion is recognised after 128 MB of stack
// (the engine's 256 MB takes twice as long to fill); 10000 script levels of
// every call form of the recursion family need less than that.
const childMaxStack = 128 << 20

// childWallLimit is a backstop only: the child stops by itself when the budget
// it was given runs out, and its per-case watchdog handles hangs.
const childWallLimit = thoroughBudget + 5*time.Minute

func inChild() bool { return os.Getenv(childEnv) == "1" }

var procStart = time.Now()

var limitOnce sync.Once

func limitMemory() {
	limitOnce.Do(func() {
		var rl syscall.Rlimit
		if err := syscall.Getrlimit(syscall.RLIMIT_AS, &rl); err != nil {
			return
		}
		limit := uint64(childAddressSpaceLimit)
		if rl.Max < limit || rl.Cur < limit { // RLIM_INFINITY is the largest uint64
			return
		}
		rl.Cur = limit
		_ = syscall.Setrlimit(syscall.RLIMIT_AS, &rl)
	})
}

func deepLimits() {
	debug.SetMaxStack(1000000000) // Go's default on 64-bit
	var rl syscall.Rlimit
	if err := syscall.Getrlimit(syscall.RLIMIT_AS, &rl); err == nil && rl.Max >= 6<<30 && rl.Cur >= 6<<30 {
		rl.Cur = 6 << 30
		_ = syscall.Setrlimit(syscall.RLIMIT_AS, &rl)
	}
}

// rc is the run context handed to the family bodies. It embeds the engine's
// Run; in a child process every accounting call is also streamed to the
// parent, which replays it into its own Run.
type rc struct {
	*engine.Run
	out    *bufio.Writer // nil when running directly
	skip   int
	caseNo int
	desc   string // rendered input of the case about to begin
}

// Describe sets the rendered input that accompanies the next Begin, so that a
// death of the child can be reported with the readable case, not only its key.
func (r *rc) Describe(s string) { r.desc = s }

func q(s string) string { return strconv.Quote(s) }

func (r *rc) send(tag string, fields ...string) {
	if r.out == nil {
		return
	}
	r.out.WriteString(tag)
	for _, f := range fields {
		r.out.WriteByte('\t')
		r.out.WriteString(f)
	}
	r.out.WriteByte('\n')
}

// MineKey is the engine's MineKey plus the restart offset of the child.
func (r *rc) MineKey(key string) bool {
	if !r.Run.MineKey(key) {
		return false
	}
	return r.owned()
}

// MinePrefix is MineKey for families whose replay keys carry a "#suffix".
func (r *rc) MinePrefix(key string) bool {
	if r.ReplayKey != "" {
		if r.ReplayKey != key && !strings.HasPrefix(r.ReplayKey, key+"#") {
			return false
		}
	} else if !r.Run.Mine() {
		return false
	}
	return r.owned()
}

func (r *rc) owned() bool {
	n := r.caseNo
	r.caseNo++
	return n >= r.skip
}

// Begin announces the case to the parent (and to the engine's watchdog).
func (r *rc) Begin(key string) {
	if r.out != nil {
		r.send("B", strconv.Itoa(r.caseNo-1), q(key), q(r.desc))
		r.out.Flush()
	}
	r.desc = ""
	r.Run.Begin(key)
}

// End closes the announced case.
func (r *rc) End() {
	r.Run.End()
	r.send("E")
}

// Eval forwards engine.Run.Eval.
func (r *rc) Eval(nontrivial bool) {
	r.Run.Eval(nontrivial)
	nt := "0"
	if nontrivial {
		nt = "1"
	}
	r.send("V", "1", nt)
}

// EvalN forwards engine.Run.EvalN.
func (r *rc) EvalN(n, nt int64) {
	r.Run.EvalN(n, nt)
	r.send("V", strconv.FormatInt(n, 10), strconv.FormatInt(nt, 10))
}

func (r *rc) Outcome(s string)      { r.Run.Outcome(s); r.send("O", q(s)) }
func (r *rc) Sample(s string)       { r.Run.Sample(s); r.send("S", q(s)) }
func (r *rc) Bound(n, v string)     { r.Run.Bound(n, v); r.send("D", q(n), q(v)) }
func (r *rc) Note(s string)         { r.Run.Note(s); r.send("N", q(s)) }
func (r *rc) Cap(s string)          { r.Run.Cap(s); r.send("K", q(s)) }
func (r *rc) HarnessError(s string) { r.Run.HarnessError(s); r.send("H", q(s)) }
func (r *rc) Skip()                 { r.Run.Skip(); r.send("X") }

// Mismatch forwards engine.Run.Mismatch.
func (r *rc) Mismatch(m engine.Mismatch) {
	r.Run.Mismatch(m)
	if r.out != nil {
		b, _ := json.Marshal(m)
		r.send("M", string(b))
	}
}

// supervised turns a family body into the engine's Family.Run.
func supervised(body func(r *rc)) func(r *engine.Run) {
	return func(r *engine.Run) {
		switch {
		case inChild():
			if r.Family() == "deep-source" || r.Family() == "deep-mixed" {
				// Deeply nested source text: keep Go's default 1 GB maximum stack (a
				// death must be one a default embedding would suffer too) and leave
				// room for it in the address space.
				deepLimits()
			} else {
				limitMemory()
				debug.SetMaxStack(childMaxStack)
			}
			// The bufio.Writer keeps the real stdout descriptor; the family
			// points os.Stdout at /dev/null afterwards (console.log).
			c := &rc{Run: r, out: bufio.NewWriterSize(os.Stdout, 64<<10)}
			c.skip, _ = strconv.Atoi(os.Getenv(skipEnv))
			body(c)
			c.send("DONE")
			c.out.Flush()
		case os.Getenv(inprocEnv) == "1":
			body(&rc{Run: r})
		default:
			superviseFamily(r)
		}
	}
}

// quickBudget / thoroughBudget mirror the Check registration (the engine does
// not expose the worker's deadline); the child gets what is left of it.
const (
	quickBudget    = 8 * time.Minute
	thoroughBudget = 40 * time.Minute
)

func remainingBudget(r *engine.Run) time.Duration {
	b := quickBudget
	if r.Thorough() {
		b = thoroughBudget
	}
	left := b - time.Since(procStart)
	if left < time.Second {
		left = time.Second
	}
	return left
}

// childRun is the fate of one child process.
type childRun struct {
	st   streamState
	died bool
	err  error
	log  string
}

// runChild starts one child for the family (the whole shard from case #skip,
// or the single case `key`) and replays its accounting stream into r.
func runChild(r *engine.Run, self string, skip int, key string) (childRun, error) {
	args := []string{"worker", "C02", "--tier", r.Tier, "--family", r.Family(),
		"--shard", strconv.Itoa(r.Shard), "--of", strconv.Itoa(r.NShards), "--budget", remainingBudget(r).String()}
	if key != "" {
		args = append(args, "--key", key)
	}
	cmd := exec.Command(self, args...)
	cmd.Env = append(os.Environ(), childEnv+"=1", skipEnv+"="+strconv.Itoa(skip), "TZ=UTC", "GOMAXPROCS=2", "GOTRACEBACK=single")
	// The engine's worker adopts descriptor 3 as its announce pipe whenever it is
	// open (and wraps it in an *os.File even when it is not): give the child a
	// harmless one.
	if null, e := os.OpenFile(os.DevNull, os.O_WRONLY, 0); e == nil {
		cmd.ExtraFiles = []*os.File{null}
		defer null.Close()
	}
	var stderr bytes.Buffer
	cmd.Stderr = &capWriter{w: &stderr, n: 256 << 10}
	stdout, err := cmd.StdoutPipe()
	if err != nil {
		return childRun{}, fmt.Errorf("pipe: %w", err)
	}
	if err := cmd.Start(); err != nil {
		return childRun{}, fmt.Errorf("cannot start child: %w", err)
	}
	timer := time.AfterFunc(childWallLimit, func() { _ = cmd.Process.Kill() })
	st := replayStream(r, stdout)
	werr := cmd.Wait()
	timer.Stop()
	return childRun{st: st, died: !(st.done && werr == nil), err: werr, log: stderr.String()}, nil
}

// superviseFamily runs the family's shard in child processes, restarting after
// every death. A death is believed only if it reproduces: the announced case
// is executed once more, alone, in a fresh child. (A host stall — the sandbox
// VM being paused — makes every child's 60 s watchdog fire at once on cases
// that take microseconds; such a death does not reproduce and is recorded as a
// note, not as a violation.)
func superviseFamily(r *engine.Run) {
	self, err := os.Executable()
	if err != nil {
		r.HarnessError("os.Executable: " + err.Error())
		return
	}
	skip := 0
	for deaths := 0; ; {
		if r.Expired() {
			r.Cap("time budget reached")
			return
		}
		c, err := runChild(r, self, skip, r.ReplayKey)
		if err != nil {
			r.HarnessError(err.Error())
			return
		}
		if !c.died {
			return
		}
		if !c.st.inCase {
			r.HarnessError(fmt.Sprintf("child of family %s died outside a case (after case #%d %q): %v: %s",
				r.Family(), c.st.lastIdx, c.st.lastKey, c.err, headTail(c.log, 1500)))
			return
		}
		key, desc, idx := c.st.lastKey, c.st.lastDesc, c.st.lastIdx
		if r.ReplayKey == "" {
			// confirm: the case alone in a fresh child (its accounting is replayed
			// into r, so the case is counted exactly once either way)
			c2, err := runChild(r, self, 0, key)
			if err != nil {
				r.HarnessError(err.Error())
				return
			}
			if !c2.died {
				r.Note(fmt.Sprintf("a child died (%s) in case %q but the case completes when re-executed alone: not reproducible, not reported", fatalClass(c.log), key))
				if idx < skip {
					r.HarnessError("child restarted but made no progress")
					return
				}
				skip = idx + 1
				continue
			}
			c = c2
		}
		deaths++
		class, site := fatalClass(c.log), fatalSite(c.log)
		first := firstFatalLine(c.log)
		devDump(key, desc, "fatal", class, first, site, "")
		r.Eval(true)
		r.Outcome("fatal:" + class + "@" + site)
		aux := parseKeyAux(r.Family(), key)
		aux["phase"], aux["class"], aux["site"], aux["panic"] = "fatal", class, site, first
		input := desc
		if input == "" {
			input = "case " + key + " (family " + r.Family() + ")"
		}
		r.Mismatch(engine.Mismatch{Key: key, Input: input,
			Expected: "the API call returns a value or an error",
			Observed: "process died: " + class + " @ " + site + " (" + first + ")", Note: headTail(c.log, 5000), Aux: aux})
		if r.ReplayKey != "" {
			return
		}
		if idx < skip {
			r.HarnessError("child restarted but made no progress")
			return
		}
		skip = idx + 1
		if deaths > 50000 {
			r.HarnessError("too many child deaths")
			return
		}
	}
}

type streamState struct {
	done     bool
	inCase   bool
	lastIdx  int
	lastKey  string
	lastDesc string
}

func unq(s string) string {
	u, err := strconv.Unquote(s)
	if err != nil {
		return s
	}
	return u
}

// replayStream applies the child's accounting stream to the parent's Run.
func replayStream(r *engine.Run, rd io.Reader) streamState {
	st := streamState{lastIdx: -1}
	br := bufio.NewReaderSize(rd, 256<<10)
	for {
		line, err := br.ReadString('\n')
		if len(line) > 0 && line[len(line)-1] == '\n' {
			f := strings.Split(line[:len(line)-1], "\t")
			switch {
			case f[0] == "B" && len(f) == 4:
				st.lastIdx, _ = strconv.Atoi(f[1])
				st.lastKey = unq(f[2])
				st.lastDesc = unq(f[3])
				st.inCase = true
			case f[0] == "E":
				st.inCase = false
			case f[0] == "V" && len(f) == 3:
				n, _ := strconv.ParseInt(f[1], 10, 64)
				nt, _ := strconv.ParseInt(f[2], 10, 64)
				r.EvalN(n, nt)
			case f[0] == "O" && len(f) == 2:
				r.Outcome(unq(f[1]))
			case f[0] == "S" && len(f) == 2:
				if r.WantSample() {
					r.Sample(unq(f[1]))
				}
			case f[0] == "D" && len(f) == 3:
				r.Bound(unq(f[1]), unq(f[2]))
			case f[0] == "N" && len(f) == 2:
				r.Note(unq(f[1]))
			case f[0] == "K" && len(f) == 2:
				r.Cap(unq(f[1]))
			case f[0] == "H" && len(f) == 2:
				r.HarnessError(unq(f[1]))
			case f[0] == "X":
				r.Skip()
			case f[0] == "M" && len(f) >= 2:
				var m engine.Mismatch
				if e := json.Unmarshal([]byte(strings.Join(f[1:], "\t")), &m); e == nil {
					m.Family = ""
					r.Mismatch(m)
				} else {
					r.HarnessError("unreadable mismatch from child: " + e.Error())
				}
			case f[0] == "DONE":
				st.done = true
				st.inCase = false
			}
		}
		if err != nil {
			return st
		}
	}
}

// parseKeyAux recovers the structured fields of a case from its key, for the
// signature predicates of deaths (the dead child could not send its Aux).
func parseKeyAux(family, key string) map[string]string {
	a := map[string]string{}
	f := strings.Split(key, "|")
	switch {
	case strings.HasPrefix(family, "surface") || family == "goapi-otto":
		if len(f) == 4 {
			a["fn"], a["mode"], a["recv"], a["args"] = f[0], f[1], f[2], f[3]
		}
	case family == "goapi-value":
		if len(f) == 2 {
			a["kind"], a["accessor"] = f[0], f[1]
		}
	case family == "bridge":
		if len(f) == 3 {
			a["bridged"], a["op"], a["name"] = f[0], f[1], f[2]
		}
	case family == "statements":
		a["src"] = key
	case family == "deep-source":
		if len(f) == 4 {
			a["group"], a["construct"], a["depth"], a["closed"], a["route"] = f[0], f[0], f[1], f[2], f[3]
		}
	case family == "deep-mixed":
		if len(f) == 3 {
			a["group"], a["cycle"], a["depth"], a["route"] = "mixed", f[0], f[1], f[2]
		}
	case family == "walk-mutation":
		if len(f) == 5 {
			a["group"], a["walker"], a["structure"], a["mutation"], a["mode"], a["limit"] = f[0], f[0], f[1], f[2], f[3], strings.TrimPrefix(f[4], "L")
		}
	case family == "sinks":
		if len(f) == 2 {
			a["source"], a["sink"] = f[0], f[1]
		}
	case family == "globals":
		if len(f) == 3 {
			a["target"], a["mutation"], a["action"] = f[0], f[1], f[2]
		}
	case family == "descriptors":
		if len(f) == 5 {
			a["receiver"], a["name"], a["op"], a["payload"], a["attrs"] = f[0], f[1], f[2], f[3], f[4]
		}
	case family == "entry":
		if len(f) == 2 {
			a["route"], a["body"] = f[0], f[1]
		}
	case family == "scope-mutation":
		if len(f) == 3 {
			a["kind"], a["form"], a["mutation"] = f[0], f[1], f[2]
		}
	case family == "history":
		if len(f) == 3 {
			a["subject"], a["prop"], a["steps"] = f[0], f[1], f[2]
		}
	case family == "structured":
		if i := strings.Index(key, "/"); i > 0 {
			a["group"] = key[:i]
		}
	case family == "recursion":
		g := strings.Split(key, "/")
		if len(g) == 3 {
			a["form"], a["L"], a["d"] = g[0], strings.TrimPrefix(g[1], "L"), strings.TrimPrefix(g[2], "d")
		}
	}
	return a
}

type capWriter struct {
	w *bytes.Buffer
	n int
}

func (c *capWriter) Write(p []byte) (int, error) {
	if room := c.n - c.w.Len(); room > 0 {
		if len(p) > room {
			c.w.Write(p[:room])
		} else {
			c.w.Write(p)
		}
	}
	return len(p), nil
}

func headTail(s string, n int) string {
	if len(s) <= n {
		return s
	}
	return s[:n/2] + "\n...\n" + s[len(s)-n/2:]
}

func firstFatalLine(log string) string {
	for _, l := range strings.Split(log, "\n") {
		if strings.HasPrefix(l, "fatal error:") || strings.HasPrefix(l, "panic:") || strings.HasPrefix(l, "WATCHDOG") {
			return l
		}
	}
	if i := strings.IndexByte(log, '\n'); i >= 0 {
		return log[:i]
	}
	return log
}
