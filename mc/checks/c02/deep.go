package c02

import (
	"fmt"
	"strings"

	"github.com/robertkrimen/otto"

	"verif/mc/ox"
)

// deep-source: "for any source text whatsoever" includes text that nests (or
// chains) a construct very deeply. The parser is recursive descent and the
// compiler / evaluator recurse over the tree, so the Go stack use is
// proportional to the depth; a fatal stack overflow cannot be recovered by the
// embedder. Every nesting / chaining construct x depth x route, closed and
// unclosed. Depths: 10^3, 10^4, 10^5 (quick) and 10^6 (thorough) — the bound
// covered is stated in the evidence. The child process of this family keeps
// Go's default 1 GB maximum stack, so a death here is a death in a default
// embedding.

type deepConstruct struct{ Name, Pre, Open, Mid, Close, Post string }

var deepConstructs = []deepConstruct{
	{"array", "", "[", "1", "]", ""},
	{"paren", "", "(", "1", ")", ""},
	{"object", "x = ", "{a:", "1", "}", ""},
	{"not", "", "!", "1", "", ""},
	{"minus", "", "- ", "1", "", ""},
	{"typeof", "", "typeof ", "1", "", ""},
	{"new", "", "new ", "Object", "", ""},
	{"plus-chain", "1", "+1", "", "", ""},
	{"comma-chain", "1", ",1", "", "", ""},
	{"and-chain", "1", "&&1", "", "", ""},
	{"concat-chain", `""`, `+"a"`, "", "", ""},
	{"member-chain", "var a = {}; a.b = a; a", ".b", "", "", ""},
	{"index-chain", "var a = []; a[0] = a; a", "[0]", "", "", ""},
	{"call-chain", "function f(){ return f } f", "()", "", "", ""},
	{"assign-chain", "var a; ", "a=", "1", "", ""},
	{"ternary-chain", "", "1?1:", "1", "", ""},
	{"block", "", "{", "1", "}", ""},
	{"if-chain", "", "if(1)", "1", "", ""},
	{"else-chain", "", "if(0);else ", "1", "", ""},
	{"label-duplicate", "", "l: ", "1", "", ""},
	{"label-distinct", "", "l%d: ", "1", "", ""},
	{"function-nest", "", "(function(){return ", "1", "})()", ""},
	{"function-decl-nest", "", "function f(){", "", "}", ""},
	{"try-nest", "", "try{", "1", "}finally{}", ""},
	{"with-nest", "", "with({})", "1", "", ""},
	{"switch-nest", "", "switch(1){default:", "1", "}", ""},
	{"regexp-group", "/", "(", "a", ")", "/.test('a')"},
	{"regexp-class", "/", "[a", "", "]", "/.test('a')"},
	{"regexp-noncapture", "/", "(?:", "a", ")", "/.test('a')"},
	{"regexp-lookahead", "/", "(?=", "a", ")", "/.test('a')"},
	{"regexp-alternation", "/a", "|a", "", "", "/.test('a')"},
	{"regexp-alternation-group", "/", "(a|", "b", ")", "/.test('a')"},
	{"regexp-quantifier", "/a", "{1}", "", "", "/.test('a')"},
	{"regexp-star-group", "/", "(", "a", ")*", "/.test('a')"},
	{"string-escapes", `"`, `\\u0041`, "", "", `"`},
	{"semicolons", "", ";", "", "", ""},
	{"var-list", "var a0", ",a", "", "", ""},
	{"args", "Math.max(1", ",1", "", "", ")"},
	{"array-elements", "[1", ",1", "", "", "].length"},
	{"object-members", "x = {a:1", ",a:1", "", "", "}"},
	{"params", "(function(a", ",a", "", "", "){})"},
	{"comment-nest", "", "/*", "", "*/", "1"},
	{"line-continuation", `"`, "\\\n", "", "", `"`},
}

// regexpBody strips the literal delimiters and the test call of the regexp-*
// constructs ("/((a))/.test('a')" -> "((a))"); other texts pass unchanged.
func regexpBody(text string) string {
	if strings.HasPrefix(text, "/") {
		text = text[1:]
		if i := strings.LastIndex(text, "/.test("); i >= 0 {
			text = text[:i]
		}
	}
	return text
}

// doublingScript builds the same pattern inside the script by doubling strings
// (22 doublings of "(" are 4 M characters: the whole script is ~200 bytes).
func doublingScript(c deepConstruct, n int, closed bool) string {
	rep := `function rep(s, n){ var r = ""; while (n > 0) { if (n & 1) r += s; s += s; n >>= 1 } return r } `
	body := fmt.Sprintf(`%s + rep(%s, %d) + %s`, ox.JSLit(regexpBody(c.Pre)), ox.JSLit(c.Open), n, ox.JSLit(c.Mid))
	if closed {
		body += fmt.Sprintf(` + rep(%s, %d)`, ox.JSLit(c.Close), n)
	}
	return rep + `var p = ` + body + `; void [new RegExp(p), "ab".match(p)]`
}

func deepText(c deepConstruct, n int, closed bool) string {
	var sb strings.Builder
	sb.Grow(len(c.Pre) + n*(len(c.Open)+len(c.Close)) + len(c.Mid) + len(c.Post))
	sb.WriteString(c.Pre)
	for i := 0; i < n; i++ {
		if strings.Contains(c.Open, "%d") {
			fmt.Fprintf(&sb, c.Open, i)
		} else {
			sb.WriteString(c.Open)
		}
	}
	sb.WriteString(c.Mid)
	if closed {
		for i := 0; i < n; i++ {
			sb.WriteString(c.Close)
		}
		sb.WriteString(c.Post)
	}
	return sb.String()
}

var deepRoutes = []struct {
	Name string
	Do   func(vm *otto.Otto, text string) error
}{
	{"Run", func(vm *otto.Otto, text string) error { _, err := vm.Run(text); return err }},
	{"Compile", func(vm *otto.Otto, text string) error { _, err := vm.Compile("", text); return err }},
	{"eval", func(vm *otto.Otto, text string) error {
		_ = vm.Set("__text", text)
		_, err := vm.Run(`void eval(__text)`)
		return err
	}},
	{"Function", func(vm *otto.Otto, text string) error {
		_ = vm.Set("__text", text)
		_, err := vm.Run(`void Function(__text)`)
		return err
	}},
	{"JSON.parse", func(vm *otto.Otto, text string) error {
		_ = vm.Set("__text", text)
		_, err := vm.Run(`void JSON.parse(__text)`)
		return err
	}},
	{"RegExp", func(vm *otto.Otto, text string) error {
		_ = vm.Set("__text", regexpBody(text))
		_, err := vm.Run(`void [new RegExp(__text), "ab".match(__text), "ab".search(__text), "ab".split(__text)]`)
		return err
	}},
	// RegExp-doubling: the script builds the pattern itself (handled in runDeepSource)
	{"RegExp-doubling", nil},
}

// deepDataActions walk the structure `head` from Go.
var deepDataActions = []struct {
	Name string
	Do   func(vm *otto.Otto) error
}{
	{"Copy", func(vm *otto.Otto) error { c := vm.Copy(); _, err := c.Run(`typeof head`); return err }},
	{"Export", func(vm *otto.Otto) error { v, _ := vm.Get("head"); _, err := v.Export(); return err }},
	{"MarshalJSON", func(vm *otto.Otto) error { v, _ := vm.Get("head"); _, err := v.MarshalJSON(); return err }},
	{"String", func(vm *otto.Otto) error { v, _ := vm.Get("head"); _ = v.String(); return nil }},
	{"script-walks", func(vm *otto.Otto) error {
		_, err := vm.Run(`void [String(head), JSON.stringify(head), Object.keys(head).length, typeof head.toString, head instanceof Object]`)
		return err
	}},
	{"Context", func(vm *otto.Otto) error { c := vm.Context(); _ = len(c.Symbols); return nil }},
}

// deepDepths: which depths a (construct, closed, route) is run at.
//
//	10^3, 10^4   everything, both tiers
//	10^5         thorough; closed texts only (the error path of an unclosed text is
//	             quadratic: 30 s at 10^5) and not the member / index / call chains
//	             (quadratic evaluation, 28 s at 10^5) — they terminate, but the 60 s
//	             watchdog must not be asked to tell slow from stuck
//	10^6         thorough; `[` and `(` (closed and unclosed) and `!` through Run only:
//	             the smallest texts that exhaust Go's default 1 GB stack in the parser
func deepDepths(c deepConstruct, closed bool, route string, thorough bool) []int {
	if c.Name == "label-duplicate" {
		// n duplicate labels produce n^2/2 errors, each with a position computed by
		// scanning the source: 3 s at n = 1000, 81 s at n = 4000 (12 KB of text)
		if thorough && closed && route == "Compile" {
			return []int{100, 500, 4000}
		}
		return []int{100, 500}
	}
	out := []int{1000, 10000}
	if !thorough {
		return out
	}
	chain := c.Name == "member-chain" || c.Name == "index-chain" || c.Name == "call-chain"
	if closed && !chain {
		out = append(out, 100000)
	}
	if route == "Run" && (c.Name == "array" || c.Name == "paren" || (c.Name == "not" && closed)) {
		out = append(out, 1000000)
	}
	if strings.HasPrefix(c.Name, "regexp-") && strings.Contains(c.Open, "(") && (route == "Run" || route == "RegExp" || route == "RegExp-doubling") {
		// one Go frame per "(" in the regexp transformer: 5*10^6 exhaust the default 1 GB stack (4*10^6 is the reported threshold)
		if !closed {
			out = append(out, 100000)
		}
		out = append(out, 5000000)
	}
	return out
}

func runDeepSource(r *rc) {
	defer muteStdout()()
	base := otto.New()
	for _, c := range deepConstructs {
		for _, closed := range []bool{true, false} {
			for _, rt := range deepRoutes {
				if rt.Do == nil && !strings.HasPrefix(c.Name, "regexp-") {
					continue
				}
				for _, n := range deepDepths(c, closed, rt.Name, r.Thorough()) {
					key := fmt.Sprintf("%s|%d|%v|%s", c.Name, n, closed, rt.Name)
					if !r.MineKey(key) {
						continue
					}
					if r.Expired() {
						r.Cap("time budget reached")
						return
					}
					c, n, closed, rt := c, n, closed, rt
					desc := fmt.Sprintf("%s of %q + %q x %d + %q", rt.Name, c.Pre, c.Open, n, c.Mid)
					if closed {
						desc += fmt.Sprintf(" + %q x %d + %q", c.Close, n, c.Post)
					}
					g := gcase{Key: key, Desc: desc, Limit: 1000,
						Aux: map[string]string{"group": c.Name, "construct": c.Name, "depth": fmt.Sprint(n), "closed": fmt.Sprint(closed), "route": rt.Name},
						Do: func(vm *otto.Otto) (otto.Value, error) {
							// the result is discarded: converting a 10^5-deep array to a
							// string is legitimate deep recursion of a different kind
							if rt.Do == nil { // RegExp-doubling
								_, err := vm.Run(doublingScript(c, n, closed))
								return otto.Value{}, err
							}
							return otto.Value{}, rt.Do(vm, deepText(c, n, closed))
						}}
					execGeneric(r, base, g, 211)
				}
			}
		}
	}
	// deep DATA: a structure nested N deep, built by a loop, handed to the public
	// API calls that walk structures recursively in Go
	depths := []int{10000}
	if r.Thorough() {
		depths = []int{10000, 100000, 1000000}
	}
	for _, st := range []struct{ Name, Src string }{
		{"list", `var head = null; for (var i = 0; i < N; i++) head = {next: head};`},
		{"nested-array", `var head = []; for (var i = 0; i < N; i++) head = [head];`},
		{"closure-chain", `var head = function(){ return 0 }; for (var i = 0; i < N; i++) head = (function(f){ return function(){ return f } })(head);`},
		{"prototype-chain", `var head = {}; for (var i = 0; i < N; i++) head = Object.create(head);`},
	} {
		for _, n := range depths {
			for _, act := range deepDataActions {
				if st.Name == "closure-chain" && n > 100000 {
					continue // 10^6 closures need more memory than the child may use: the script's own data
				}
				key := fmt.Sprintf("data-%s|%d|true|%s", st.Name, n, act.Name)
				if !r.MineKey(key) {
					continue
				}
				if r.Expired() {
					r.Cap("time budget reached")
					return
				}
				st, n, act := st, n, act
				g := gcase{Key: key, Desc: fmt.Sprintf("N = %d; %s then %s", n, st.Src, act.Name), Limit: 1000,
					Aux: map[string]string{"group": "data-" + st.Name, "construct": "data-" + st.Name, "depth": fmt.Sprint(n), "closed": "true", "route": act.Name},
					Do: func(vm *otto.Otto) (otto.Value, error) {
						if _, err := vm.Run(fmt.Sprintf("var N = %d; %s", n, st.Src)); err != nil {
							return otto.Value{}, err
						}
						return otto.Value{}, act.Do(vm)
					}}
				execGeneric(r, base, g, 7)
			}
		}
	}
	r.Bound("constructs", fmt.Sprint(len(deepConstructs)))
	if r.Thorough() {
		r.Bound("depths", "10^3, 10^4 all; 10^5 closed non-chain; 10^6 array / paren / not through Run")
	} else {
		r.Bound("depths", "10^3, 10^4")
	}
	r.Bound("routes", fmt.Sprint(len(deepRoutes)))
}
