// Package c02 checks property C02: no script, built-in call or host API call can
// crash or wedge the embedding Go program. The oracle is the property itself:
// every public API call returns (value or error); a Go panic that reaches the
// harness goroutine's recover, a dead process or a fired watchdog is a
// violation attributed to the announced case.
package c02

import (
	"verif/mc/engine"
)

func init() {
	engine.Register(&engine.Check{
		ID:    "C02",
		Title: "No script can crash or wedge the embedding Go program",
		Rule: "surface-*: every function reachable by BFS from the global object x 31 receiver kinds x argument tuples (arity 0,1 full; arity 2 full product, 8-kind subset in quick; arity 3-4 with <=1 deviation), " +
			"as call and as new, each on a fresh Copy() of a template runtime; non-trivial = the call returned a value (did not throw). " +
			"bytes/tokens: every source text of the stated alphabets through Run, Compile(+Run), Eval, Object, Call; non-trivial = the source parsed. " +
			"recursion: limit L x depth d x 12 call forms; non-trivial = the limit was reached. goapi: every Value/Object/Otto accessor x every value kind; non-trivial = accessor applicable to the kind. " +
			"bridge/surface-iso: cases executed in a child process of the worker so that a fatal error is observed instead of killing the shard.",
		Families: []engine.Family{
			{Name: "surface-a01", Run: supervised(runSurfaceClass("a01"))},
			{Name: "surface-a2", Run: supervised(runSurfaceClass("a2"))},
			{Name: "surface-a34", Run: supervised(runSurfaceClass("a34")), ThoroughOnly: true},
			{Name: "bridge", Run: supervised(runBridge)},
			{Name: "bytes", Run: supervised(runBytes)},
			{Name: "tokens", Run: supervised(runTokens)},
			{Name: "recursion", Run: supervised(runRecursion)},
			{Name: "goapi-value", Run: supervised(runGoAPIValue)},
			{Name: "goapi-otto", Run: supervised(runGoAPIOtto)},
		},
		Assumptions: []string{
			"a Go panic is observed by recover() in the harness goroutine (ox.Guard); fatal errors are observed as death of the worker or of the per-case child process",
			"Copy() of the template runtime is used as a fast fresh runtime; equivalence of the copy is not assumed (the oracle is 'does not crash'); bridged Go values are created freshly per case because Copy() shares them",
			"the 60 s per-case watchdog is the only wall-clock oracle; all enumerated array-likes have length <= 4",
		},
		CrashIsViolation: true,
		QuickBudget:      quickBudget,
		ThoroughBudget:   thoroughBudget,
	})
}

// excluded returns a non-empty reason for surface cases that are not executed
// because the function legitimately does not return (or needs huge work) with
// the enumerated arguments. Every exclusion is documented here.
func excluded(c *scase) string {
	return ""
}
