// Package c02 checks property C02: no script, built-in call or host API call can
// crash or wedge the embedding Go program. The oracle is the property itself:
// every public API call returns (value or error); a Go panic that reaches the
// harness goroutine's recover, a dead process or a fired watchdog is a
// violation attributed to the announced case.
package c02

import (
	"github.com/robertkrimen/otto/underscore"

	"verif/mc/engine"
)

func init() {
	// The surface is the plain ES5 library: never load underscore.js into otto.New().
	underscore.Disable()
	engine.Register(&engine.Check{
		ID:    "C02",
		Title: "No script can crash or wedge the embedding Go program",
		Rule: "surface-*: every function found by BFS over the real object graph from the global object (own properties incl. non-enumerable, getters/setters, [[Prototype]]) x 43 receiver kinds (incl. []uint16-backed strings, the nine prototype objects, a bridged map with a named key type) x argument tuples over 26 kinds " +
			"(arity 0 and 1 in full; arity 2 as a full product - on an 8-kind subset in the quick tier; arity 3-4 with at most one deviation from all-undefined, thorough tier), as call and as new; " +
			"every call on a fresh Copy() of a template runtime, bridged Go values created freshly; non-trivial = the call returned a value (did not throw). " +
			"bridge: 23 script-level operations x 7 property names x 5 bridged Go kinds. " +
			"history: 14 subjects (object shapes incl. bridged) x property names x ALL sequences of 0..2 (thorough 3) steps over 27 steps (complete / partial / contradictory descriptors, explicit-undefined get or set, assignments, delete, freeze/seal/preventExtensions), " +
			"plus the arguments-object matrix (#formals, #actuals) in {0..3}^2 with duplicate parameter names and a parameter named arguments, every index 0..max(formals, actuals), histories of 0..1 (thorough 2) steps; each followed by 19 script observers (getOwnPropertyDescriptor with every field touched, keys, for-in, JSON, read/write/redefine), 4 Go observers (Export, Object accessors, Set, Context) and Otto.Copy() plus 7 observers on the copy. " +
			"structured: full products of argument mini-languages - replace templates x regexps with participating / non-participating / zero captures, split separators x limits, lastIndex values, RegExp sources from 40 pattern atoms (length <= 2, thorough 3) x flags, " +
			"JSON texts from 25 tokens (length <= 3, thorough 4) and stringify value x replacer x gap, Date strings from 30 pieces, Function constructor parameter lists x bodies, digit counts, array lengths, array-likes with odd lengths x 28 Array methods, sort comparators, apply/bind with array-likes, percent escapes, and []uint16-backed strings in every operator / conversion position. " +
			"bytes: all byte strings of length <= 2 and length 3 over a 40-byte alphabet; tokens: all strings of <= 4 (thorough 5) tokens over a 22-token alphabet; each through Run, Compile+Run, Eval, Object, Call(nil) and Call(this); non-trivial = the text got past the parser. " +
			"statements: all sequences of <= 2 (thorough 3) statements over 46 minimal statement forms (labelled non-loops and loops, nested labels, every loop kind with break / continue, switch, try, with, function declarations containing loops, ASI cases) x {top level, function body, block} x {Run, Compile, Eval, eval(), new Function()}. " +
			"surface-frag: 44 degenerate numeric / prefix / escape / pattern fragment strings (\"-\", \"0x\", \"%u1\", \"$&\", \"(\", ...) in every position of arity-1 and arity-2 calls (with 5 companions) of every function x 10 receivers (quick: the global functions and the Number / String / RegExp / JSON / Date / Math entry points x 4 receivers). " +
			"recursion: stack depth limit L in {1..16,100,1000,10000} x depth d in {0..L+2, unbounded} x 24 call / re-entry forms (direct and indirect eval of self-evaluating code, Function-constructor bodies, valueOf / toString / toJSON / getter / setter re-entry, forEach / map / reduce / sort / replace callbacks, ...) + 2 forms that recurse inside JSON.stringify; non-trivial = the limit was hit. " +
			"goapi-value: 107 Value/Object accessor variants x 46 value kinds; goapi-otto: Value.Call and Otto.Get/Set/Call/Eval/Context/ToValue/MakeError/Copy around every arity-0 surface call. " +
			"entry: 27 entry routes (Run, Eval, Compile, Otto.Call, Value.Call and Object.Call at rest, native callback at rest, host re-entry, getters / setters / toString / toJSON run by Go-side Get / Set / Export / String / MarshalJSON, Copy) x 48 callee bodies touching frame- and scope-dependent machinery (caller, arguments.callee, this, Error().stack, direct / indirect eval, Function, with, try/finally, labels, recursion to the limit, Otto.Context from a host function). " +
			"scope-mutation: 18 binding kinds (eval-declared local / global, with property, catch parameter, global property, undeclared, ...) x 30 Reference-consuming forms x 16 sub-expressions that delete / redeclare / shadow the binding between resolution and use, through Run, Eval and Compile+Run twice. " +
			"walk-mutation: 44 built-ins that walk a structure while calling user code (JSON.parse reviver, JSON.stringify replacer / toJSON / getters, the Array iteration and sort callbacks, getters and toString during join / concat / slice / splice / apply / defineProperties / freeze, replace functions, Go-side Export) x 2 structures x 25 things the user code does to the structure at a visit (make it cyclic, deeper, longer, shorter, frozen, return the holder / the root / fresh nesting, throw, re-enter) x {every visit, first visit} x {limit 64, no limit for the mutations that cannot grow the structure}. " +
			"sinks: 20 string representations (plain, UTF-16 backed ASCII / Latin / astral / lone surrogates / NUL, wrapped, nested) x 64 script-level Go-typed sinks (host function parameters of type string, []byte, interface{}, int, float64, bool, variadic, slices, maps, structs, pointers, Value, FunctionCall; struct fields; map keys and values; slice and array elements) and 15 Go API sinks. " +
			"globals: 46 special bindings (global eval, Function, Object, ..., undefined, NaN; intrinsic prototype methods) x 15 mutations (overwrite, delete, accessor, freeze, redeclare through eval) x 15 groups of public Otto methods afterwards (Copy, Run, Eval, Compile, Get, Set, Call, Object, ToValue, Make*Error, Context, result accessors, host functions, setters). " +
			"descriptors: 11 receiver kinds (5 bridged) x 6 property names x 324 descriptor shapes (3^3 attribute states x 12 payloads incl. value-less, accessor, undefined halves, contradictory) x 5 operations (defineProperty, defineProperties, create, define-then-freeze, freeze-then-define). " +
			"deep-mixed: 23 nesting layers typed by the context they stand in and the context of their hole (statement / expression: function declarations, function expressions, IIFEs, getter and setter bodies, blocks, if / while / try / with / switch, array / object / paren / call / assignment / ternary / comma / unary) x ALL well-typed cycles of period <= 3 (71 of period <= 2, 673 of period 3) repeated to N layers x {Run, Compile, eval, Function} (quick: period <= 2 at N = 10^5 through every route and period 3 at N = 3*10^4 through Compile; thorough: N in {3*10^4, 10^5, 4*10^5}, every route); oracle: the verdict of the same number of plain array-literal levels through the same route (differential twin), non-trivial = the 6-layer text of the cycle is accepted. " +
			"Every case runs in a child process of the worker; a dead child (fatal error, watchdog) is a mismatch of the announced case and the shard continues after it.",
		Families: []engine.Family{
			{Name: "surface-a01", Run: supervised(runSurfaceClass("a01"))},
			{Name: "surface-a2", Run: supervised(runSurfaceClass("a2"))},
			{Name: "surface-a34", Run: supervised(runSurfaceClass("a34")), ThoroughOnly: true},
			{Name: "bridge", Run: supervised(runBridge)},
			{Name: "history", Run: supervised(runHistory)},
			{Name: "structured", Run: supervised(runStructured)},
			{Name: "entry", Run: supervised(runEntry)},
			{Name: "scope-mutation", Run: supervised(runScopeMutation)},
			{Name: "walk-mutation", Run: supervised(runWalkMutation)},
			{Name: "sinks", Run: supervised(runSinks)},
			{Name: "globals", Run: supervised(runGlobals)},
			{Name: "descriptors", Run: supervised(runDescriptors)},
			{Name: "deep-source", Run: supervised(runDeepSource)},
			{Name: "deep-mixed", Run: supervised(runDeepMixed)},
			{Name: "bytes", Run: supervised(runBytes)},
			{Name: "tokens", Run: supervised(runTokens)},
			{Name: "statements", Run: supervised(runStatements)},
			{Name: "surface-frag", Run: supervised(runSurfaceFrag)},
			{Name: "recursion", Run: supervised(runRecursion)},
			{Name: "goapi-value", Run: supervised(runGoAPIValue)},
			{Name: "goapi-otto", Run: supervised(runGoAPIOtto)},
		},
		Assumptions: []string{
			"a Go panic is observed by recover() in the harness goroutine (ox.Guard); fatal errors (stack overflow, out of memory) and hangs are observed as the death of the child process that executes the shard, attributed to the case it announced",
			"the child processes run with RLIMIT_AS = 2 GB and a 128 MB maximum Go stack: a request for gigabytes is a prompt 'out of memory' death instead of host memory pressure",
			"Copy() of the template runtime is used as a fast fresh runtime; equivalence of the copy is not assumed (the oracle is 'does not crash'); bridged Go values are created freshly per case because Copy() shares them",
			"the 60 s per-case watchdog is the only wall-clock oracle; all enumerated array-likes have length <= 4",
			"the accessor sweep (goapi-value) configures SetStackDepthLimit(500): unbounded script recursion without a configured limit exhausts the Go stack by design and is outside the property",
			"source texts are enumerated on a runtime that is replaced by a fresh Copy() after every text that got past the parser",
		},
		CrashIsViolation: true,
		QuickBudget:      quickBudget,
		ThoroughBudget:   thoroughBudget,
	})
}

// excluded returns a non-empty reason for surface cases that are not executed
// because the function legitimately does not return (or needs huge work) with
// the enumerated arguments. There are none: no array-like of the alphabets is
// longer than 4, 2^32 and 1e21 are rejected as lengths (RangeError) by every
// function that allocates by length, and no function of the surface blocks.
// (A case that does need gigabytes or minutes is not excluded but reported: the
// child process dies on the 2 GB address-space limit or the 60 s watchdog.)
func excluded(c *scase) string {
	return ""
}
