package c02

import (
	"fmt"
	"os"
	"regexp"
	"runtime"
	"strings"
)

const ottoPkg = "github.com/robertkrimen/otto"

var digits = regexp.MustCompile(`[0-9]+`)

// panicText renders a recovered panic value.
func panicText(p interface{}) string {
	switch v := p.(type) {
	case runtime.Error:
		return v.Error()
	case error:
		return fmt.Sprintf("%T: %s", p, v.Error())
	case string:
		return "string: " + v
	case fmt.Stringer:
		return fmt.Sprintf("%T: %s", p, v.String())
	}
	return fmt.Sprintf("%T: %v", p, p)
}

// panicClass reduces a recovered panic value to its failure class: the kind of
// Go runtime error, or the dynamic type of a foreign panic value (plus its text
// with numbers blanked). It is the "panic text class" of the known-finding
// signatures.
func panicClass(p interface{}) string {
	switch v := p.(type) {
	case runtime.Error:
		s := v.Error()
		switch {
		case strings.Contains(s, "nil pointer dereference"):
			return "nil-deref"
		case strings.Contains(s, "index out of range"):
			return "index-out-of-range"
		case strings.Contains(s, "slice bounds out of range"):
			return "slice-bounds"
		case strings.Contains(s, "interface conversion"):
			return "interface-conversion"
		case strings.Contains(s, "divide by zero"):
			return "divide-by-zero"
		case strings.Contains(s, "makeslice"):
			return "makeslice"
		case strings.Contains(s, "hash of unhashable type"):
			return "unhashable"
		}
		return "runtime:" + digits.ReplaceAllString(s, "N")
	case error:
		return fmt.Sprintf("error(%T)", p)
	case string:
		return "string"
	}
	return fmt.Sprintf("%T", p)
}

// isPanicEntry reports whether a stack-trace function line is the entry of a
// panic (explicit panic call or a runtime fault).
func isPanicEntry(fn string) bool {
	return strings.HasPrefix(fn, "panic(") || strings.HasPrefix(fn, "runtime.sigpanic") ||
		strings.HasPrefix(fn, "runtime.panic") || strings.HasPrefix(fn, "runtime.goPanic")
}

// stackFuncs extracts the function names (package path stripped of arguments)
// of a debug.Stack() dump, innermost first.
func stackFuncs(stack string) []string {
	var out []string
	for _, l := range strings.Split(stack, "\n") {
		if l == "" || l[0] == '\t' || strings.HasPrefix(l, "goroutine ") {
			continue
		}
		if i := strings.LastIndex(l, "("); i > 0 && !strings.HasPrefix(l, "panic(") {
			l = l[:i]
		}
		out = append(out, l)
	}
	return out
}

// panicSite names the otto function in which the panic originated: the first
// frame of package otto (or a sub-package) below the innermost panic entry
// that is the original one (re-panics by catchPanic and by deferred handlers
// sit above it in the dump). Line numbers are deliberately left out.
func panicSite(stack string) (site string, via string) {
	fs := stackFuncs(stack)
	origin := -1
	for i, f := range fs {
		if isPanicEntry(f) {
			origin = i
		}
	}
	if origin < 0 {
		return "?", ""
	}
	for i := origin + 1; i < len(fs); i++ {
		f := fs[i]
		if strings.HasPrefix(f, "runtime.") {
			continue
		}
		if strings.HasPrefix(f, ottoPkg) {
			return shortFunc(f), via
		}
		if via == "" {
			via = shortFunc(f)
		}
	}
	return "?", via
}

func shortFunc(f string) string {
	if strings.HasPrefix(f, ottoPkg+".") {
		return strings.TrimPrefix(f, ottoPkg+".")
	}
	if strings.HasPrefix(f, ottoPkg+"/") {
		return strings.TrimPrefix(f, ottoPkg+"/")
	}
	if i := strings.LastIndex(f, "/"); i >= 0 {
		return f[i+1:]
	}
	return f
}

// fatalClass classifies the stderr of a dead child process.
func fatalClass(log string) string {
	switch {
	case strings.Contains(log, "stack overflow") || strings.Contains(log, "stack exceeds"):
		return "stack-overflow"
	case strings.Contains(log, "out of memory") || strings.Contains(log, "cannot allocate memory"):
		return "out-of-memory"
	case strings.Contains(log, "WATCHDOG") || strings.Contains(log, "C02-HANG"):
		return "hang"
	case strings.Contains(log, "fatal error:"):
		i := strings.Index(log, "fatal error:")
		l := log[i:]
		if j := strings.IndexByte(l, '\n'); j >= 0 {
			l = l[:j]
		}
		return l
	case strings.Contains(log, "panic:"):
		return "unrecovered-panic"
	}
	return "died"
}

// fatalSite names the otto function responsible for a fatal error: for a
// stack overflow the most frequent otto frame among the frames printed (the
// recursing function; ties go to the first seen), otherwise the innermost otto
// frame of the dying goroutine (the allocating function).
func fatalSite(log string) string {
	overflow := strings.Contains(log, "stack overflow") || strings.Contains(log, "stack exceeds")
	count := map[string]int{}
	best, bestN := "?", 0
	for _, l := range strings.Split(log, "\n") {
		if !strings.HasPrefix(l, ottoPkg) {
			continue
		}
		if i := strings.LastIndex(l, "("); i > 0 {
			l = l[:i]
		}
		f := shortFunc(l)
		if !overflow {
			return f
		}
		count[f]++
		if count[f] > bestN {
			best, bestN = f, count[f]
		}
	}
	return best
}

// devDump appends one TSV line per crash to $C02_DUMP (development aid for
// grouping crash sites; unset in every registered command).
func devDump(fields ...string) {
	p := os.Getenv("C02_DUMP")
	if p == "" {
		return
	}
	f, err := os.OpenFile(p, os.O_APPEND|os.O_CREATE|os.O_WRONLY, 0o644)
	if err != nil {
		return
	}
	defer f.Close()
	for i := range fields {
		fields[i] = strings.ReplaceAll(strings.ReplaceAll(fields[i], "\t", " "), "\n", " ")
	}
	fmt.Fprintln(f, strings.Join(fields, "\t"))
}
