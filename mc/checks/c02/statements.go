package c02

import (
	"fmt"
	"strings"

	"github.com/robertkrimen/otto"

	"verif/mc/engine"
	"verif/mc/ox"
)

// statements: the byte / token families are exhaustive only for very short
// texts; parser state that one statement leaves behind for the next (label
// sets, pending labels, in-iteration / in-switch / in-function flags, ASI) needs
// whole statements. All sequences of 2 (thorough 3) statements over an
// alphabet of every statement kind in minimal form x 3 wrappers (top level,
// function body, block) x 5 routes. Loops are written so that they terminate.

var stmtAlphabet = []string{
	`a: 1;`, `a: if (x) y;`, `a: b: x;`, `a: { break a; }`, `a: ;`, `a: function f(){}`,
	`a: for (;;) break a;`, `a: while (1) { break a; }`, `b: do { continue b; } while (0);`, `a: for (var k in {q: 1}) continue a;`, `a: b: for (;;) { break b; }`,
	`for (;;) break;`, `for (var i = 0; i < 1; i++) continue;`, `while (0) break;`, `do ; while (0)`, `do { break; } while (1);`, `for (k in {}) ;`, `for (var k in {q: 1}) { continue; }`,
	`switch (1) { case 1: break; default: }`, `switch (x) { }`, `a: switch (1) { case 1: break a; }`,
	`try { } catch (e) { }`, `try { throw 1; } catch (e) { } finally { }`, `try { } finally { }`, `a: try { break a; } finally { }`,
	`with ({}) ;`, `function f() { for (;;) break; }`, `function g() { a: 1; while (0) continue; }`, `var h = function () { l: for (;;) { break l; } };`,
	`if (1) ; else ;`, `if (0) a: 1;`, `var v = 1, w;`, `;`, `{ }`, `{ a: 1; }`, `return;`, `throw 0;`, `debugger;`, `break;`, `continue;`, `break a;`, `continue a;`,
	`x = 1`, `x\n++\ny`, `(function(){ a: 1; for (;;) break; })();`, `a:\nfor (;;) { break\na }`,
}

var stmtWrappers = []struct{ Name, Pre, Post string }{
	{"top", "", ""},
	{"function", "(function () { ", " })();"},
	{"block", "{ ", " }"},
}

var stmtRoutes = []string{"Run", "Compile", "Eval", "eval", "Function"}

func runStatements(r *rc) {
	defer muteStdout()()
	base := otto.New()
	depth := 2
	if r.Thorough() {
		depth = 3
	}
	n := len(stmtAlphabet)
	for l := 1; l <= depth; l++ {
		idx := make([]int, l)
		for {
			ks := make([]string, l)
			parts := make([]string, l)
			for i, s := range idx {
				ks[i] = fmt.Sprint(s)
				parts[i] = stmtAlphabet[s]
			}
			for _, w := range stmtWrappers {
				key := w.Name + "|" + strings.Join(ks, ".")
				if r.MinePrefix(key) {
					if r.Expired() {
						r.Cap("time budget reached")
						return
					}
					execStatements(r, base, key, w.Pre+strings.Join(parts, " ")+w.Post)
				}
			}
			i := l - 1
			for i >= 0 {
				idx[i]++
				if idx[i] < n {
					break
				}
				idx[i] = 0
				i--
			}
			if i < 0 {
				break
			}
		}
	}
	r.Bound("statement_forms", fmt.Sprint(n))
	r.Bound("sequence_length", fmt.Sprint(depth))
	r.Bound("wrappers", fmt.Sprint(len(stmtWrappers)))
	r.Bound("routes", strings.Join(stmtRoutes, ","))
}

func execStatements(r *rc, base *otto.Otto, key, src string) {
	r.Describe(src)
	r.Begin(key)
	type rr struct {
		route string
		res   ox.Result
	}
	var results []rr
	var outs []string
	for _, route := range stmtRoutes {
		if i := strings.Index(r.ReplayKey, "#"); i >= 0 && r.ReplayKey[i+1:] != route {
			continue
		}
		vm := base.Copy()
		vm.SetStackDepthLimit(entryStackLimit)
		res := ox.Guard(func() (otto.Value, error) {
			var v otto.Value
			var err error
			switch route {
			case "Run":
				v, err = vm.Run(src)
			case "Compile":
				_, err = vm.Compile("", src)
			case "Eval":
				v, err = vm.Eval(src)
			case "eval":
				_ = vm.Set("__src", src)
				v, err = vm.Run(`try { eval(__src) } catch (e) { e.name }`)
			case "Function":
				_ = vm.Set("__src", src)
				v, err = vm.Run(`try { new Function(__src)() } catch (e) { e.name }`)
			}
			touchErr(err)
			return v, err
		})
		results = append(results, rr{route, res})
		outs = append(outs, outcome(res))
	}
	r.End()
	ok := int64(0)
	for _, x := range results {
		if !x.res.Panicked && x.res.Err == nil {
			ok++
		}
	}
	r.EvalN(int64(len(results)), ok)
	r.Outcome(strings.Join(outs, "|"))
	if r.WantSample() && sparse(key, 499) {
		r.Sample(src + "  =>  " + strings.Join(outs, "|"))
	}
	for _, x := range results {
		if !x.res.Panicked {
			continue
		}
		site, via := panicSite(x.res.Stack)
		devDump(key+"#"+x.route, src, "call", panicClass(x.res.PanicVal), panicText(x.res.PanicVal), site, via)
		r.Mismatch(engine.Mismatch{Key: key + "#" + x.route, Input: x.route + ": " + src,
			Expected: "returns a value or an error",
			Observed: "Go panic escaped: " + panicText(x.res.PanicVal) + " @ " + site,
			Note:     trimStack(x.res.Stack),
			Aux: map[string]string{"route": x.route, "src": src, "phase": "call", "class": panicClass(x.res.PanicVal),
				"panic": panicText(x.res.PanicVal), "site": site, "via": via}})
	}
}
