package c02

import (
	"fmt"
	"strings"

	"github.com/robertkrimen/otto"

	"verif/mc/engine"
	"verif/mc/ox"
)

// entry: ENTRY ROUTE x CALLEE BODY.
//
// The frame / scope machinery (caller, arguments.callee, this defaulting,
// Error().stack, eval, with, completion handling, the stack depth limit,
// Otto.Context) sees a different bottom of the scope stack depending on how
// the script function was entered: Run / Eval / Otto.Call push a global scope
// first, Value.Call / Object.Call / a getter run by Object.Get while the
// runtime is at rest do not, a host function may re-enter while a script is
// running. Every body that touches a piece of that machinery is entered
// through every route. Oracle: the route returns (value or error), the result
// is usable, no Go panic, the runtime still answers.

// bodies of the global function __f(a, b)
var entryBodies = []struct{ Name, Src string }{
	{"caller", `return __f.caller`},
	{"caller-name", `return String(__f.caller && __f.caller.name)`},
	{"callee", `return arguments.callee === __f`},
	{"callee-caller", `return arguments.callee.caller`},
	{"callee-caller-caller", `var c = arguments.callee.caller; return c && c.caller`},
	{"f-arguments", `return __f.arguments && __f.arguments.length`},
	{"inner-caller", `function g(){ return [g.caller === __f, g.caller && g.caller.caller] } return g()`},
	{"this", `return this`},
	{"this-type", `return typeof this + ":" + String(this === undefined)`},
	{"error-stack", `return new Error("e").stack`},
	{"error-string", `return String(Error("x")) + String(new TypeError("t").stack)`},
	{"error-throw", `throw new Error("thrown")`},
	{"throw-value", `throw {toString: function(){ return __f.caller }}`},
	{"throw-tostring-throws", `throw {toString: function(){ throw new TypeError("t") }}`},
	{"throw-tostring-throws-self", `var o = {toString: function(){ throw o }}; throw o`},
	{"throw-nullproto", `throw Object.create(null)`},
	{"throw-no-primitive", `throw {toString: function(){ return {} }, valueOf: function(){ return {} }}`},
	{"throw-undefined", `throw undefined`},
	{"throw-null", `throw null`},
	{"throw-u16", `throw String.fromCharCode(0xD800, 97)`},
	{"throw-function", `throw __f`},
	{"throw-cyclic-array", `var a = []; a[0] = a; throw a`},
	{"throw-error-weird-message", `var e = new Error("m"); e.message = {toString: function(){ throw 1 }}; e.name = Object.create(null); throw e`},
	{"throw-error-stack-getter", `var e = new RangeError("m"); Object.defineProperty(e, "stack", {get: function(){ throw 2 }}); throw e`},
	{"throw-bridged", `throw __hostReenter`},
	{"eval-direct", `return eval("1")`},
	{"eval-var", `eval("var q = 1"); return q`},
	{"eval-this", `return eval("this")`},
	{"eval-caller", `return eval("__f.caller")`},
	{"eval-indirect", `return (0, eval)("1")`},
	{"eval-indirect-this", `return (0, eval)("this")`},
	{"eval-indirect-caller", `return (0, eval)("__f.caller")`},
	{"Function-this", `return Function("return this")()`},
	{"Function-caller", `return Function("return arguments.callee.caller")()`},
	{"with", `with ({a: 1, caller: 2}) { return a + caller }`},
	{"try-finally", `try { return 1 } finally { __x = 2 }`},
	{"try-catch-finally", `try { throw __f.caller } catch (e) { return e } finally { __x = 3 }`},
	{"finally-override", `l: try { return 1 } finally { break l } return 2`},
	{"labelled-break", `l: for (;;) { m: for (;;) { break l } } return 1`},
	{"labelled-block", `l: { break l } return __f.caller`},
	{"recursion-caught", `return (function r(n){ try { return r(n + 1) } catch (e) { return n } })(0)`},
	{"recursion-uncaught", `return (function r(){ return r() })()`},
	{"recursion-caller", `return (function r(n){ return n > 5 ? r.caller === r : r(n + 1) })(0)`},
	{"host-context", `return __hostContext()`},
	{"host-reenter", `return __hostReenter(function(){ return arguments.callee.caller })`},
	{"host-reenter-self", `return a === "stop" ? __f.caller : __hostReenter(function(){ return __f("stop") })`},
	{"host-panic-caught", `try { return __hostThrow() } catch (e) { return String(e) }`},
	{"arguments-alias", `arguments[0] = 9; a = 8; return [arguments.length, arguments[0], a].join()`},
	{"typeof-undeclared", `return typeof nope + typeof arguments`},
	{"tostring-self", `return String(__f).length + String(arguments.callee).length`},
	{"callback", `return [1, 2].map(function(){ return arguments.callee.caller }).length`},
	{"sort-callback", `return [2, 1].sort(function(){ return __f.caller ? 1 : -1 }).length`},
	{"getter-inside", `return ({get p(){ return arguments.callee.caller }}).p`},
	{"new-inside", `function C(){ this.c = C.caller } return new C().c`},
	{"bound-inside", `return (function(){ return arguments.callee.caller }).bind(null)()`},
	{"apply-inside", `return (function(){ return arguments.callee.caller }).apply(null, [])`},
	{"delete-caller", `return [delete __f.caller, delete arguments.callee, __f.caller].join()`},
	{"define-caller", `try { Object.defineProperty(__f, "caller", {value: 1}) } catch (e) {} return __f.caller`},
	{"gopd-caller", `var d = Object.getOwnPropertyDescriptor(__f, "caller") || Object.getOwnPropertyDescriptor(Function.prototype, "caller"); return d && d.get && d.get.call(__f)`},
	{"gopd-caller-foreign", `var d = Object.getOwnPropertyDescriptor(__f, "caller") || Object.getOwnPropertyDescriptor(Function.prototype, "caller"); return d && d.get && [d.get.call(1), d.get.call({}), d.get.call(Math.max), d.get.call(undefined)].join()`},
}

type entryRoute struct {
	Name string
	Do   func(vm *otto.Otto) (otto.Value, error)
}

func fval(vm *otto.Otto) otto.Value { v, _ := vm.Get("__f"); return v }

var entryRoutes = []entryRoute{
	{"Run", func(vm *otto.Otto) (otto.Value, error) { return vm.Run(`__f(1, "x")`) }},
	{"Run-method", func(vm *otto.Otto) (otto.Value, error) { return vm.Run(`({m: __f}).m(1)`) }},
	{"Run-nested", func(vm *otto.Otto) (otto.Value, error) { return vm.Run(`(function outer(){ return __f(1) })()`) }},
	{"Run-new", func(vm *otto.Otto) (otto.Value, error) { return vm.Run(`new __f(1)`) }},
	{"Compile-Run", func(vm *otto.Otto) (otto.Value, error) {
		s, err := vm.Compile("", `__f(1)`)
		if err != nil {
			return otto.Value{}, err
		}
		return vm.Run(s)
	}},
	{"Eval", func(vm *otto.Otto) (otto.Value, error) { return vm.Eval(`__f(1)`) }},
	{"Otto.Call", func(vm *otto.Otto) (otto.Value, error) { return vm.Call("__f", nil, 1, "x") }},
	{"Otto.Call-this", func(vm *otto.Otto) (otto.Value, error) { return vm.Call("__f", map[string]int{"k": 1}, 1) }},
	{"Otto.Call-new", func(vm *otto.Otto) (otto.Value, error) { return vm.Call("new __f", nil, 1) }},
	{"Value.Call", func(vm *otto.Otto) (otto.Value, error) { return fval(vm).Call(otto.UndefinedValue(), 1, "x") }},
	{"Value.Call-this", func(vm *otto.Otto) (otto.Value, error) {
		o, err := vm.Run(`({k: 1})`)
		if err != nil {
			return o, err
		}
		return fval(vm).Call(o, 1)
	}},
	{"Value.Call-twice", func(vm *otto.Otto) (otto.Value, error) {
		_, _ = fval(vm).Call(otto.NullValue())
		return fval(vm).Call(otto.NullValue(), "x")
	}},
	{"Object.Call", func(vm *otto.Otto) (otto.Value, error) {
		o, err := vm.Object(`({m: __f})`)
		if err != nil {
			return otto.Value{}, err
		}
		return o.Call("m", 1, "x")
	}},
	{"Object.Call-apply", func(vm *otto.Otto) (otto.Value, error) {
		return fval(vm).Object().Call("apply", nil, []interface{}{1, 2})
	}},
	{"Object.Call-call", func(vm *otto.Otto) (otto.Value, error) { return fval(vm).Object().Call("call", nil, 1) }},
	{"Object.Call-bind", func(vm *otto.Otto) (otto.Value, error) {
		b, err := fval(vm).Object().Call("bind", nil)
		if err != nil {
			return b, err
		}
		return b.Call(otto.UndefinedValue())
	}},
	{"native-callback-at-rest", func(vm *otto.Otto) (otto.Value, error) {
		m, err := vm.Run(`Array.prototype.map`)
		if err != nil {
			return m, err
		}
		a, _ := vm.Run(`[1]`)
		return m.Call(a, fval(vm))
	}},
	{"host-reenter-running", func(vm *otto.Otto) (otto.Value, error) { return vm.Run(`__hostReenter(__f)`) }},
	{"host-reenter-at-rest", func(vm *otto.Otto) (otto.Value, error) {
		h, _ := vm.Get("__hostReenter")
		return h.Call(otto.UndefinedValue(), fval(vm))
	}},
	{"getter-Object.Get", func(vm *otto.Otto) (otto.Value, error) {
		o, err := vm.Object(`Object.defineProperty({}, "p", {get: __f, set: __f, enumerable: true})`)
		if err != nil {
			return otto.Value{}, err
		}
		return o.Get("p")
	}},
	{"setter-Object.Set", func(vm *otto.Otto) (otto.Value, error) {
		o, err := vm.Object(`Object.defineProperty({}, "p", {get: __f, set: __f, enumerable: true})`)
		if err != nil {
			return otto.Value{}, err
		}
		return otto.Value{}, o.Set("p", 1)
	}},
	{"getter-Export", func(vm *otto.Otto) (otto.Value, error) {
		v, err := vm.Run(`Object.defineProperty({}, "p", {get: __f, enumerable: true})`)
		if err != nil {
			return v, err
		}
		_, err = v.Export()
		return otto.Value{}, err
	}},
	{"getter-MarshalJSON", func(vm *otto.Otto) (otto.Value, error) {
		v, err := vm.Run(`({p: 1, toJSON: __f})`)
		if err != nil {
			return v, err
		}
		_, err = v.MarshalJSON()
		return otto.Value{}, err
	}},
	{"toString-Value.String", func(vm *otto.Otto) (otto.Value, error) {
		v, err := vm.Run(`({toString: __f, valueOf: __f})`)
		if err != nil {
			return v, err
		}
		_ = v.String()
		_, _ = v.ToFloat()
		_ = v.IsNaN()
		_, err = v.ToString()
		return otto.Value{}, err
	}},
	{"Copy-Value.Call", func(vm *otto.Otto) (otto.Value, error) { return fval(vm.Copy()).Call(otto.UndefinedValue(), 1) }},
	{"Copy-Run", func(vm *otto.Otto) (otto.Value, error) { return vm.Copy().Run(`__f(1)`) }},
	{"Value.Call-then-Run", func(vm *otto.Otto) (otto.Value, error) {
		_, _ = fval(vm).Call(otto.UndefinedValue())
		return vm.Run(`__f(1)`)
	}},
}

const entryStackLimit = 64

func newEntryBase() *otto.Otto {
	vm := otto.New()
	_ = vm.Set("__hostContext", func(call otto.FunctionCall) otto.Value {
		c := call.Otto.Context()
		_ = c.This.String()
		for _, v := range c.Symbols {
			_ = v.IsDefined()
		}
		_ = call.Otto.ContextLimit(1)
		_ = call.Otto.ContextSkip(-1, false)
		v, _ := call.Otto.ToValue(c.Callee + ":" + fmt.Sprint(len(c.Stacktrace)))
		return v
	})
	_ = vm.Set("__hostReenter", func(call otto.FunctionCall) otto.Value {
		f := call.Argument(0)
		v, err := f.Call(call.This, 1)
		if err != nil {
			panic(call.Otto.MakeCustomError("HostError", err.Error()))
		}
		_, _ = call.Otto.Run(`1 + 1`)
		_, _ = call.Otto.Eval(`typeof __f`)
		return v
	})
	_ = vm.Set("__hostAPI", func(call otto.FunctionCall) otto.Value {
		k, _ := call.Argument(0).ToInteger()
		api := reentryAPIs[int(k)%len(reentryAPIs)]
		res := ox.Guard(func() (otto.Value, error) { return api.Do(call.Otto) })
		text := "ok"
		switch {
		case res.Panicked:
			reentryPanic = res
			text = "PANIC"
		case res.Err != nil:
			text = "err:" + ox.ErrClass(res.Err)
		}
		v, _ := otto.ToValue(text)
		return v
	})
	_ = vm.Set("__hostThrow", func(call otto.FunctionCall) otto.Value {
		panic(call.Otto.MakeTypeError("from host"))
	})
	return vm
}

func runEntry(r *rc) {
	defer muteStdout()()
	base := newEntryBase()
	for _, b := range entryBodies {
		for _, rt := range entryRoutes {
			key := rt.Name + "|" + b.Name
			if !r.MineKey(key) {
				continue
			}
			src := "var __x; function __f(a, b) { " + b.Src + " }"
			r.Describe(rt.Name + " entering: " + src)
			r.Begin(key)
			vm := base.Copy()
			vm.SetStackDepthLimit(entryStackLimit)
			setup := ox.Run(vm, src)
			var res, acc, post ox.Result
			if !setup.Panicked && setup.Err == nil {
				rt := rt
				res = ox.Guard(func() (otto.Value, error) { return rt.Do(vm) })
				if !res.Panicked && res.Err == nil {
					acc = ox.Guard(func() (otto.Value, error) {
						_ = res.Value.String()
						_, _ = res.Value.Export()
						_ = res.Value.Class()
						return otto.Value{}, nil
					})
				}
				post = ox.Run(vm, `__f.length + 1`)
			}
			r.End()
			if setup.Panicked || setup.Err != nil {
				r.HarnessError(fmt.Sprintf("entry body %s does not compile: %v %v", b.Name, setup.Err, setup.PanicVal))
				continue
			}
			out := outcome(res)
			r.Eval(!res.Panicked && res.Err == nil)
			r.Outcome(b.Name + "=>" + out)
			if r.WantSample() && sparse(key, 97) {
				r.Sample(rt.Name + " -> function __f(a, b) { " + b.Src + " }  =>  " + out)
			}
			for _, pr := range []struct {
				phase string
				res   ox.Result
			}{{"call", res}, {"result-accessor", acc}, {"runtime-after", post}} {
				if !pr.res.Panicked {
					continue
				}
				site, via := panicSite(pr.res.Stack)
				devDump(key, src, pr.phase, panicClass(pr.res.PanicVal), panicText(pr.res.PanicVal), site, via)
				r.Mismatch(engine.Mismatch{Key: key, Input: rt.Name + " entering: " + src,
					Expected: "the API call returns a value or an error",
					Observed: "Go panic escaped (" + pr.phase + "): " + panicText(pr.res.PanicVal) + " @ " + site,
					Note:     trimStack(pr.res.Stack),
					Aux: map[string]string{"route": rt.Name, "body": b.Name, "phase": pr.phase, "class": panicClass(pr.res.PanicVal),
						"panic": panicText(pr.res.PanicVal), "site": site, "via": via}})
			}
		}
	}
	r.Bound("routes", fmt.Sprint(len(entryRoutes)))
	r.Bound("bodies", fmt.Sprint(len(entryBodies)))

	// host re-entry at the stack depth limit: a script recurses to depth d
	// (0..L+1) and there calls a host function that uses one public API; the API
	// must hand the host a value or an error (RangeError), not a Go panic.
	const L = 6
	for ai, api := range reentryAPIs {
		for d := 0; d <= L+1; d++ {
			key := fmt.Sprintf("reentry|%s|d%d", api.Name, d)
			if !r.MineKey(key) {
				continue
			}
			src := fmt.Sprintf(`function __f(a){ return a } var __o = {get g(){ return 1 }, set g(v){}, m: function(){ return 2 }, toString: function(){ return "s" }, toJSON: function(){ return 3 }};
function rec(n){ return n > 0 ? rec(n - 1) : __hostAPI(%d) } var __r; try { __r = rec(%d) } catch (e) { __r = "js:" + e.name } __r`, ai, d)
			r.Describe(fmt.Sprintf("SetStackDepthLimit(%d); script at depth %d calls a host function that calls %s", L, d, api.Name))
			r.Begin(key)
			vm := base.Copy()
			vm.SetStackDepthLimit(L)
			reentryPanic = ox.Result{}
			res := ox.Run(vm, src)
			inner := reentryPanic
			post := ox.Run(vm, "1+1")
			r.End()
			out := outcome(res)
			r.Eval(!res.Panicked && res.Err == nil)
			r.Outcome("reentry:" + api.Name + "=>" + out)
			for _, pr := range []struct {
				phase string
				res   ox.Result
			}{{"call", res}, {"reentrant-api", inner}, {"runtime-after", post}} {
				if !pr.res.Panicked {
					continue
				}
				site, via := panicSite(pr.res.Stack)
				devDump(key, src, pr.phase, panicClass(pr.res.PanicVal), panicText(pr.res.PanicVal), site, via)
				r.Mismatch(engine.Mismatch{Key: key, Input: fmt.Sprintf("limit %d, depth %d, host function calls %s", L, d, api.Name),
					Expected: "the API call returns a value or an error to the host function",
					Observed: "Go panic escaped (" + pr.phase + "): " + panicText(pr.res.PanicVal) + " @ " + site,
					Note:     trimStack(pr.res.Stack),
					Aux: map[string]string{"route": "reentry", "body": api.Name, "depth": fmt.Sprint(d), "phase": pr.phase, "class": panicClass(pr.res.PanicVal),
						"panic": panicText(pr.res.PanicVal), "site": site, "via": via}})
			}
		}
	}
	r.Bound("reentry_apis", fmt.Sprint(len(reentryAPIs)))
}

// reentryPanic records a Go panic that a public API raised inside the host
// function __hostAPI (the host function recovers it so that the run goes on).
var reentryPanic ox.Result

// reentryAPIs: what the host function does with the runtime it was called from.
var reentryAPIs = []struct {
	Name string
	Do   func(vm *otto.Otto) (otto.Value, error)
}{
	{"Otto.Call", func(vm *otto.Otto) (otto.Value, error) { return vm.Call("Math.abs", nil, -1) }},
	{"Otto.Call-script", func(vm *otto.Otto) (otto.Value, error) { return vm.Call("__f", nil, 1) }},
	{"Otto.Call-this", func(vm *otto.Otto) (otto.Value, error) { return vm.Call("__f", map[string]int{"a": 1}, 1) }},
	{"Otto.Call-new", func(vm *otto.Otto) (otto.Value, error) { return vm.Call("new __f", nil, 1) }},
	{"Otto.Run", func(vm *otto.Otto) (otto.Value, error) { return vm.Run(`__f(1)`) }},
	{"Otto.Eval", func(vm *otto.Otto) (otto.Value, error) { return vm.Eval(`__f(1)`) }},
	{"Otto.Compile-Run", func(vm *otto.Otto) (otto.Value, error) {
		s, err := vm.Compile("", `__f(1)`)
		if err != nil {
			return otto.Value{}, err
		}
		return vm.Run(s)
	}},
	{"Otto.Object", func(vm *otto.Otto) (otto.Value, error) {
		o, err := vm.Object(`({a: __f(1)})`)
		if err != nil {
			return otto.Value{}, err
		}
		return o.Value(), nil
	}},
	{"Otto.Get-Set", func(vm *otto.Otto) (otto.Value, error) { _ = vm.Set("zz", 1); return vm.Get("zz") }},
	{"Otto.ToValue", func(vm *otto.Otto) (otto.Value, error) { return vm.ToValue([]int{1}) }},
	{"Otto.Context", func(vm *otto.Otto) (otto.Value, error) { c := vm.Context(); return c.This, nil }},
	{"Otto.Copy", func(vm *otto.Otto) (otto.Value, error) { return vm.Copy().Run(`1`) }},
	{"Value.Call", func(vm *otto.Otto) (otto.Value, error) { return fval(vm).Call(otto.UndefinedValue(), 1) }},
	{"Value.Call-native", func(vm *otto.Otto) (otto.Value, error) {
		m, _ := vm.Get("parseInt")
		return m.Call(otto.UndefinedValue(), "1")
	}},
	{"Object.Call", func(vm *otto.Otto) (otto.Value, error) {
		v, _ := vm.Get("__o")
		return v.Object().Call("m")
	}},
	{"Object.Get-getter", func(vm *otto.Otto) (otto.Value, error) {
		v, _ := vm.Get("__o")
		return v.Object().Get("g")
	}},
	{"Object.Set-setter", func(vm *otto.Otto) (otto.Value, error) {
		v, _ := vm.Get("__o")
		return otto.Value{}, v.Object().Set("g", 1)
	}},
	{"Value.conversions", func(vm *otto.Otto) (otto.Value, error) {
		v, _ := vm.Get("__o")
		_ = v.String()
		_, _ = v.ToString()
		_, _ = v.ToFloat()
		_ = v.IsNaN()
		_, err := v.Export()
		return otto.Value{}, err
	}},
	{"Value.MarshalJSON", func(vm *otto.Otto) (otto.Value, error) {
		v, _ := vm.Get("__o")
		_, err := v.MarshalJSON()
		return otto.Value{}, err
	}},
	{"MakeError", func(vm *otto.Otto) (otto.Value, error) { return vm.MakeTypeError("t"), nil }},
}

// ---------------------------------------------------------------------------
// scope-mutation: Reference-consuming form x binding kind x a sub-expression
// that deletes / redeclares / shadows the binding between the resolution of
// the reference and its use. Oracle: returns or a JavaScript exception, never
// a Go panic.

// %B is replaced by the statements under test; x is the binding.
var scopeKinds = []struct{ Name, Src string }{
	{"eval-local", `(function(){ eval("var x = 1"); %B })()`},
	{"eval-local-function", `(function(){ eval("function x(){ return 1 }"); %B })()`},
	{"eval-local-nested", `(function(){ eval("eval('var x = 1')"); %B })()`},
	{"eval-local-inner", `(function(){ eval("var x = 1"); return (function(){ %B })() })()`},
	{"eval-global", `eval("var x = 1"); %B`},
	{"indirect-eval-global", `(0, eval)("var x = 1"); %B`},
	{"with-property", `var o = {x: 1}; (function(){ with (o) { %B } })()`},
	{"with-inherited", `var o = Object.create({x: 1}); (function(){ with (o) { %B } })()`},
	{"catch-parameter", `(function(){ try { throw 1 } catch (x) { %B } })()`},
	{"global-property", `this.x = 1; %B`},
	{"global-var", `var x = 1; %B`},
	{"undeclared", `%B`},
	{"var-local", `(function(){ var x = 1; %B })()`},
	{"parameter", `(function(x){ %B })(1)`},
	{"parameter-arguments", `(function(x){ arguments[0] = 3; %B })(1)`},
	{"named-function-expression", `(function x(){ %B })()`},
	{"function-declaration", `(function(){ function x(){ return 1 } %B })()`},
	{"eval-local-in-with", `var o = {}; (function(){ with (o) { eval("var x = 1"); %B } })()`},
}

// %M is the mutating sub-expression (value 2)
var scopeForms = []struct{ Name, Src string }{
	{"assign", `x = %M`},
	{"add-assign", `x += %M`},
	{"sub-assign", `x -= %M`},
	{"or-assign", `x |= %M`},
	{"shift-assign", `x >>>= %M`},
	{"assign-self", `x = x + %M`},
	{"post-increment", `%M; x = {valueOf: function(){ delete x; eval("delete x"); return 1 }}; x++`},
	{"pre-decrement", `%M; x = {valueOf: function(){ delete x; eval("delete x"); return 1 }}; --x`},
	{"increment-after", `(%M, x++)`},
	{"typeof-after", `(%M, typeof x)`},
	{"typeof-comma", `typeof (%M, x)`},
	{"delete-after", `(%M, delete x)`},
	{"delete-twice", `delete x; %M; delete x`},
	{"call", `x(%M)`},
	{"call-method", `x.call(null, %M)`},
	{"new", `new x(%M)`},
	{"member-assign", `x.y = %M`},
	{"index-assign", `x[%M] = 1`},
	{"for-in-target", `for (x in (%M, {a: 1, b: 2})) { delete x; eval("delete x") }`},
	{"for-in-var", `for (var x in {a: %M}) { eval("delete x") }`},
	{"var-initialiser", `var x = %M`},
	{"eval-var-initialiser", `eval("var x = %M")`},
	{"eval-function-redeclare", `eval("function x(){ return %M }"); x()`},
	{"closure-after", `var g = function(){ return x }; %M; g()`},
	{"closure-assign-after", `var g = function(v){ x = v; return x }; %M; g(3)`},
	{"conditional", `(%M) ? x : x`},
	{"array-literal", `[x, %M, x].length`},
	{"compound-member", `x.y += %M`},
	{"assign-chain", `x = x = %M`},
	{"logical", `x && (%M) && x`},
}

var scopeMutations = []struct{ Name, Src string }{
	{"none", `2`},
	{"delete", `(delete x, 2)`},
	{"eval-delete", `(eval("delete x"), 2)`},
	{"delete-both", `(delete x, eval("delete x"), 2)`},
	{"eval-redeclare", `(eval("var x = 5"), 2)`},
	{"eval-function", `(eval("function x(){ return 6 }"), 2)`},
	{"delete-with-object", `(delete o.x, 2)`},
	{"delete-global", `(delete this.x, (function(){ return delete this.x })(), 2)`},
	{"inner-assign", `((function(){ x = 9 })(), 2)`},
	{"shadow", `(function(){ var x = 7; return 2 })()`},
	{"valueOf-deletes", `({valueOf: function(){ delete x; eval("delete x"); return 2 }})`},
	{"undefine-delete", `(x = undefined, delete x, 2)`},
	{"replace-with-object", `(o = {}, 2)`},
	{"indirect-eval-delete", `((0, eval)("delete x"), 2)`},
	{"redeclare-delete", `(eval("var x"), eval("delete x"), delete x, 2)`},
	{"throw", `(function(){ delete x; throw new RangeError("m") })()`},
}

func runScopeMutation(r *rc) {
	defer muteStdout()()
	base := otto.New()
	routes := []string{"Run", "Eval", "Compile"}
	for _, k := range scopeKinds {
		for _, f := range scopeForms {
			for _, m := range scopeMutations {
				key := k.Name + "|" + f.Name + "|" + m.Name
				if !r.MinePrefix(key) {
					continue
				}
				msrc := m.Src
				if strings.Contains(f.Src, `eval("`) {
					msrc = strings.ReplaceAll(msrc, `"`, `'`) // the form embeds it in a string literal
				}
				body := strings.ReplaceAll(f.Src, "%M", msrc) + `; __r = typeof x`
				src := "var __r; " + strings.ReplaceAll(k.Src, "%B", body) + "; __r"
				r.Describe(src)
				r.Begin(key)
				var outs []string
				type rr struct {
					route string
					res   ox.Result
				}
				var results []rr
				for _, route := range routes {
					if i := strings.Index(r.ReplayKey, "#"); i >= 0 && r.ReplayKey[i+1:] != route {
						continue
					}
					vm := base.Copy()
					// x(...) inside `function x(){...}` is unbounded recursion: only
					// with a limit configured does it have to end in a RangeError
					vm.SetStackDepthLimit(entryStackLimit)
					var res ox.Result
					switch route {
					case "Run":
						res = ox.Run(vm, src)
					case "Eval":
						res = ox.Guard(func() (otto.Value, error) { return vm.Eval(src) })
					case "Compile":
						res = ox.Guard(func() (otto.Value, error) {
							s, err := vm.Compile("", src)
							if err != nil {
								return otto.Value{}, err
							}
							_, _ = vm.Run(s)
							return vm.Run(s) // a compiled script is run twice on the same runtime
						})
					}
					if !res.Panicked {
						post := ox.Run(vm, "typeof x")
						if post.Panicked {
							res = post
						}
					}
					results = append(results, rr{route, res})
					outs = append(outs, outcome(res))
				}
				r.End()
				ok := int64(0)
				for _, x := range results {
					if !x.res.Panicked && x.res.Err == nil {
						ok++
					}
				}
				r.EvalN(int64(len(results)), ok)
				r.Outcome(strings.Join(outs, "|"))
				if r.WantSample() && sparse(key, 1009) {
					r.Sample(src + "  =>  " + strings.Join(outs, "|"))
				}
				for _, x := range results {
					if !x.res.Panicked {
						continue
					}
					site, via := panicSite(x.res.Stack)
					devDump(key+"#"+x.route, src, "call", panicClass(x.res.PanicVal), panicText(x.res.PanicVal), site, via)
					r.Mismatch(engine.Mismatch{Key: key + "#" + x.route, Input: x.route + ": " + src,
						Expected: "returns a value or a JavaScript exception",
						Observed: "Go panic escaped: " + panicText(x.res.PanicVal) + " @ " + site,
						Note:     trimStack(x.res.Stack),
						Aux: map[string]string{"kind": k.Name, "form": f.Name, "mutation": m.Name, "route": x.route, "phase": "call",
							"class": panicClass(x.res.PanicVal), "panic": panicText(x.res.PanicVal), "site": site, "via": via}})
				}
			}
		}
	}
	r.Bound("binding_kinds", fmt.Sprint(len(scopeKinds)))
	r.Bound("forms", fmt.Sprint(len(scopeForms)))
	r.Bound("mutations", fmt.Sprint(len(scopeMutations)))
	r.Bound("routes", strings.Join(routes, ","))
}
