package c20

import (
	"fmt"
	"hash/fnv"
	"math"
	"reflect"
	"sort"
	"strconv"
	"strings"
)

// ---------------------------------------------------------------------------
// E5 (b): structural hash of a Script / Program
// ---------------------------------------------------------------------------

// StructHash computes a structural hash of everything reachable from v by
// read-only reflection: exported and unexported fields, maps, slices, arrays,
// interfaces and pointers; scalars and strings by content; dynamic types by
// name; pointers by first-visit number (so aliasing structure is part of the
// hash while addresses are not); funcs by nil-ness only (opaque). Two calls
// on an unmodified object give the same hash.
func StructHash(v interface{}) uint64 {
	h := &hasher{seen: map[visitKey]int{}}
	h.buf = make([]byte, 0, 4096)
	h.value(reflect.ValueOf(v), 0)
	f := fnv.New64a()
	f.Write(h.buf)
	return f.Sum64()
}

type visitKey struct {
	p uintptr
	t reflect.Type
}

type hasher struct {
	seen map[visitKey]int
	buf  []byte
}

func (h *hasher) tag(b byte) { h.buf = append(h.buf, b) }
func (h *hasher) u64(x uint64) {
	h.buf = append(h.buf, byte(x), byte(x>>8), byte(x>>16), byte(x>>24), byte(x>>32), byte(x>>40), byte(x>>48), byte(x>>56))
}
func (h *hasher) str(s string) {
	h.u64(uint64(len(s)))
	h.buf = append(h.buf, s...)
}

func scalarLess(a, b reflect.Value) bool {
	switch a.Kind() {
	case reflect.String:
		return a.String() < b.String()
	case reflect.Bool:
		return !a.Bool() && b.Bool()
	case reflect.Int, reflect.Int8, reflect.Int16, reflect.Int32, reflect.Int64:
		return a.Int() < b.Int()
	default:
		return a.Uint() < b.Uint()
	}
}

// opaqueType: types whose interior is not part of the hashed structure
// (synchronised or immutable library objects).
func opaqueType(t reflect.Type) bool {
	switch t.PkgPath() {
	case "regexp", "regexp/syntax", "time", "sync", "sync/atomic", "reflect", "internal/abi", "runtime", "unsafe", "gopkg.in/sourcemap.v1":
		return true
	}
	return false
}

func (h *hasher) value(v reflect.Value, depth int) {
	if depth > 10000 {
		h.tag('!')
		return
	}
	if !v.IsValid() {
		h.tag('0')
		return
	}
	switch v.Kind() {
	case reflect.Bool:
		if v.Bool() {
			h.tag('T')
		} else {
			h.tag('F')
		}
	case reflect.Int, reflect.Int8, reflect.Int16, reflect.Int32, reflect.Int64:
		h.tag('i')
		h.u64(uint64(v.Int()))
	case reflect.Uint, reflect.Uint8, reflect.Uint16, reflect.Uint32, reflect.Uint64, reflect.Uintptr:
		h.tag('u')
		h.u64(v.Uint())
	case reflect.Float32, reflect.Float64:
		h.tag('f')
		h.u64(math.Float64bits(v.Float()))
	case reflect.Complex64, reflect.Complex128:
		c := v.Complex()
		h.tag('c')
		h.u64(math.Float64bits(real(c)))
		h.u64(math.Float64bits(imag(c)))
	case reflect.String:
		h.tag('s')
		h.str(v.String())
	case reflect.Func:
		if v.IsNil() {
			h.tag('0')
		} else {
			h.tag('L')
		}
	case reflect.Chan, reflect.UnsafePointer:
		if v.Pointer() == 0 {
			h.tag('0')
		} else {
			h.tag('@')
		}
	case reflect.Interface:
		if v.IsNil() {
			h.tag('0')
			return
		}
		e := v.Elem()
		h.tag('I')
		h.str(e.Type().String())
		h.value(e, depth+1)
	case reflect.Ptr:
		if v.IsNil() {
			h.tag('0')
			return
		}
		k := visitKey{v.Pointer(), v.Type()}
		if n, ok := h.seen[k]; ok {
			h.tag('^')
			h.u64(uint64(n))
			return
		}
		h.seen[k] = len(h.seen)
		h.tag('*')
		if opaqueType(v.Type().Elem()) {
			h.tag('#')
			return
		}
		h.value(v.Elem(), depth+1)
	case reflect.Struct:
		t := v.Type()
		h.tag('{')
		if opaqueType(t) {
			h.tag('#')
		} else {
			for i := 0; i < t.NumField(); i++ {
				h.value(v.Field(i), depth+1)
			}
		}
		h.tag('}')
	case reflect.Array:
		h.tag('[')
		for i := 0; i < v.Len(); i++ {
			h.value(v.Index(i), depth+1)
		}
		h.tag(']')
	case reflect.Slice:
		if v.IsNil() {
			h.tag('0')
			return
		}
		h.tag('[')
		h.u64(uint64(v.Len()))
		if v.Type().Elem().Kind() == reflect.Uint8 {
			for i := 0; i < v.Len(); i++ {
				h.tag(byte(v.Index(i).Uint()))
			}
		} else {
			for i := 0; i < v.Len(); i++ {
				h.value(v.Index(i), depth+1)
			}
		}
		h.tag(']')
	case reflect.Map:
		if v.IsNil() {
			h.tag('0')
			return
		}
		h.tag('M')
		h.u64(uint64(v.Len()))
		switch v.Type().Key().Kind() {
		case reflect.String, reflect.Bool, reflect.Int, reflect.Int8, reflect.Int16, reflect.Int32, reflect.Int64,
			reflect.Uint, reflect.Uint8, reflect.Uint16, reflect.Uint32, reflect.Uint64, reflect.Uintptr:
			// scalar keys (every map inside otto): canonical order = sorted keys,
			// hashed with the one shared pointer numbering
			keys := v.MapKeys()
			sort.Slice(keys, func(a, b int) bool { return scalarLess(keys[a], keys[b]) })
			for _, k := range keys {
				h.value(k, depth+1)
				h.tag('=')
				h.value(v.MapIndex(k), depth+1)
			}
		default:
			// other key types (pointers, interfaces): entries are hashed
			// independently, each with a private copy of the pointer numbering
			// made so far, and combined in sorted order, so that the result does
			// not depend on Go's map iteration order
			var ents []string
			it := v.MapRange()
			for it.Next() {
				sub := &hasher{seen: map[visitKey]int{}}
				for k, n := range h.seen {
					sub.seen[k] = n
				}
				sub.value(it.Key(), depth+1)
				sub.tag('=')
				sub.value(it.Value(), depth+1)
				ents = append(ents, string(sub.buf))
			}
			sort.Strings(ents)
			for _, e := range ents {
				h.str(e)
			}
		}
	default:
		h.tag('?')
	}
}

// ---------------------------------------------------------------------------
// E5 (a): heap regions reachable from a runtime, and their intersection
// ---------------------------------------------------------------------------

// Region is one heap object (allocation or part of one) reachable from a root.
type Region struct {
	Start, End uintptr
	Type       string
	Path       string
	// Immutable: the object is of an allow-listed immutable kind (compiled
	// node tree, *file.File, objectClass table, *regexp.Regexp,
	// *time.Location, sourcemap consumer). The walker records such an object
	// but does not descend into it: what it contains is covered by the
	// structural-hash half of the check.
	Immutable bool
	// Spare: a slice whose capacity exceeds its length (an append writes in place).
	Spare bool
	// Zero: every byte reachable by reflection in the pointee is zero (used
	// to recognise inert package-level sentinels such as nilGetSetObject).
	Zero bool
}

// immutableType is the allow-list of the design: objects of these types may be
// reachable from several runtimes.
func immutableType(t reflect.Type) (bool, string) {
	name := t.Name()
	switch t.PkgPath() {
	case "regexp":
		return name == "Regexp", "*regexp.Regexp (safe for concurrent use)"
	case "time":
		return name == "Location", "*time.Location"
	case "gopkg.in/sourcemap.v1":
		return true, "sourcemap consumer"
	case "github.com/robertkrimen/otto/file":
		return name == "File", "*file.File (immutable after construction)"
	case "github.com/robertkrimen/otto/ast":
		return true, "parsed AST (shared Program)"
	case "github.com/robertkrimen/otto":
		if name == "objectClass" {
			return true, "objectClass table (package-level, function pointers)"
		}
		if name == "goMapObject" || name == "goStructObject" || name == "goArrayObject" {
			// wrapper around embedder-owned Go data (map / pointer / array): its
			// fields are written only at construction; the Go data behind it is
			// common to all copies by construction (reference semantics of the
			// value the embedder passed in). NOT goSliceObject: setLength
			// replaces its slice header.
			return true, "immutable wrapper of a bridged Go value"
		}
		if strings.HasPrefix(name, "node") && name != "nodeFunctionObject" {
			return true, "compiled node tree"
		}
		if name == "Script" {
			return true, "compiled Script"
		}
	}
	return false, ""
}

type walker struct {
	seen    map[visitKey]bool
	regions []Region
}

// Regions walks everything reachable from root through mutable paths.
func Regions(root interface{}, name string) []Region {
	w := &walker{seen: map[visitKey]bool{}}
	w.value(reflect.ValueOf(root), name, 0)
	sort.Slice(w.regions, func(i, j int) bool { return w.regions[i].Start < w.regions[j].Start })
	return w.regions
}

func (w *walker) value(v reflect.Value, path string, depth int) {
	if !v.IsValid() || depth > 100000 {
		return
	}
	switch v.Kind() {
	case reflect.Interface:
		if !v.IsNil() {
			w.value(v.Elem(), path, depth+1)
		}
	case reflect.Ptr:
		if v.IsNil() {
			return
		}
		et := v.Type().Elem()
		size := et.Size()
		if size == 0 {
			return
		}
		k := visitKey{v.Pointer(), v.Type()}
		if w.seen[k] {
			return
		}
		w.seen[k] = true
		imm, _ := immutableType(et)
		reg := Region{Start: v.Pointer(), End: v.Pointer() + size, Type: v.Type().String(), Path: path, Immutable: imm}
		if imm || opaqueType(et) {
			// opaque library objects are recorded but not entered; of those only
			// the allow-listed ones and Go type metadata count as immutable
			switch et.PkgPath() {
			case "reflect", "internal/abi", "runtime":
				reg.Immutable = true
			}
			w.regions = append(w.regions, reg)
			return
		}
		reg.Zero = v.Elem().IsZero()
		w.regions = append(w.regions, reg)
		w.value(v.Elem(), path+"*", depth+1)
	case reflect.Struct:
		t := v.Type()
		if opaqueType(t) {
			// time.Time carries a *Location; sync types carry nothing to follow
			if t.PkgPath() == "time" && t.Name() == "Time" {
				for i := 0; i < t.NumField(); i++ {
					if f := v.Field(i); f.Kind() == reflect.Ptr {
						w.value(f, path+"."+t.Field(i).Name, depth+1)
					}
				}
			}
			return
		}
		for i := 0; i < t.NumField(); i++ {
			f := v.Field(i)
			switch f.Kind() {
			case reflect.Interface, reflect.Ptr, reflect.Struct, reflect.Array, reflect.Slice, reflect.Map, reflect.Chan, reflect.UnsafePointer:
				w.value(f, path+"."+t.Field(i).Name, depth+1)
			}
		}
	case reflect.Array:
		if !hasPointers(v.Type().Elem()) {
			return
		}
		for i := 0; i < v.Len(); i++ {
			w.value(v.Index(i), path+"["+strconv.Itoa(i)+"]", depth+1)
		}
	case reflect.Slice:
		if v.IsNil() || v.Cap() == 0 {
			return
		}
		es := v.Type().Elem().Size()
		if es == 0 {
			return
		}
		k := visitKey{v.Pointer(), v.Type()}
		first := !w.seen[k]
		w.seen[k] = true
		if first {
			w.regions = append(w.regions, Region{Start: v.Pointer(), End: v.Pointer() + uintptr(v.Cap())*es, Type: v.Type().String(), Path: path, Spare: v.Cap() > v.Len()})
		}
		if !first || !hasPointers(v.Type().Elem()) {
			return
		}
		for i := 0; i < v.Len(); i++ {
			w.value(v.Index(i), path+"["+strconv.Itoa(i)+"]", depth+1)
		}
	case reflect.Map:
		if v.IsNil() {
			return
		}
		k := visitKey{v.Pointer(), v.Type()}
		if w.seen[k] {
			return
		}
		w.seen[k] = true
		w.regions = append(w.regions, Region{Start: v.Pointer(), End: v.Pointer() + 8, Type: v.Type().String(), Path: path})
		kp, vp := hasPointers(v.Type().Key()), hasPointers(v.Type().Elem())
		if !kp && !vp {
			return
		}
		it := v.MapRange()
		for it.Next() {
			ks := ""
			if it.Key().Kind() == reflect.String {
				ks = it.Key().String()
			} else {
				ks = "?"
			}
			if kp {
				w.value(it.Key(), path+"<key "+ks+">", depth+1)
			}
			if vp {
				w.value(it.Value(), path+"["+ks+"]", depth+1)
			}
		}
	case reflect.Chan, reflect.UnsafePointer:
		if p := v.Pointer(); p != 0 {
			k := visitKey{p, v.Type()}
			if !w.seen[k] {
				w.seen[k] = true
				w.regions = append(w.regions, Region{Start: p, End: p + 1, Type: v.Type().String(), Path: path})
			}
		}
	}
}

var ptrCache = map[reflect.Type]bool{}

// hasPointers reports whether values of type t can reference other heap
// objects the walker follows (strings and funcs are not followed).
func hasPointers(t reflect.Type) bool {
	if b, ok := ptrCache[t]; ok {
		return b
	}
	ptrCache[t] = false // recursion guard (recursive types go through pointers, which return true first)
	var b bool
	switch t.Kind() {
	case reflect.Ptr, reflect.Interface, reflect.Slice, reflect.Map, reflect.Chan, reflect.UnsafePointer:
		b = true
	case reflect.Array:
		b = hasPointers(t.Elem())
	case reflect.Struct:
		for i := 0; i < t.NumField(); i++ {
			if hasPointers(t.Field(i).Type) {
				b = true
				break
			}
		}
	}
	ptrCache[t] = b
	return b
}

// SharedRegion is an overlap between the heap graphs of two roots.
type SharedRegion struct {
	A, B Region
}

func (s SharedRegion) String() string {
	return fmt.Sprintf("%s at %s  <->  %s at %s", s.A.Type, s.A.Path, s.B.Type, s.B.Path)
}

// Intersect returns every pair of overlapping regions of two sorted region lists.
func Intersect(a, b []Region) []SharedRegion {
	var out []SharedRegion
	j0 := 0
	for _, ra := range a {
		// regions are sorted by start; a region of b that ends at or before
		// ra.Start cannot overlap ra or any later region of a
		for j0 < len(b) && b[j0].End <= ra.Start {
			j0++
		}
		for j := j0; j < len(b) && b[j].Start < ra.End; j++ {
			if b[j].End > ra.Start {
				out = append(out, SharedRegion{ra, b[j]})
			}
		}
	}
	return out
}

// Classify splits shared regions into allowed ones (grouped by reason) and
// offending ones.
func Classify(sh []SharedRegion) (allowed map[string]int, bad []SharedRegion) {
	allowed = map[string]int{}
	for _, s := range sh {
		switch {
		case s.A.Immutable && s.B.Immutable:
			allowed["immutable:"+s.A.Type]++
		case s.A.Type == "[]uint16" && s.B.Type == "[]uint16" && s.A.Start == s.B.Start && !s.A.Spare && !s.B.Spare:
			// payload of a string held as UTF-16 code units: Copy() duplicates the
			// Value (header) only, which is fine for an immutable string as long as
			// nobody can append in place: capacity == length
			allowed["immutable:[]uint16 string payload without spare capacity"]++
		case s.A.Type == "[]otto.frame" && s.B.Type == "[]otto.frame" && s.A.Start == s.B.Start:
			// stack trace of an error value: ottoError is a value type whose trace
			// slice is written only by newError before the value is published
			// (error.go); Copy() duplicates the header, the elements are never
			// written again
			allowed["immutable:[]otto.frame (error stack trace, written only at construction)"]++
		case s.A.Zero && s.B.Zero && s.A.Start == s.B.Start && strings.HasSuffix(s.A.Type, "otto.object"):
			allowed["sentinel:all-zero "+s.A.Type]++
		default:
			bad = append(bad, s)
		}
	}
	return allowed, bad
}
