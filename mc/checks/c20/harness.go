package c20

import (
	"fmt"
	"strings"

	"github.com/robertkrimen/otto"
	"github.com/robertkrimen/otto/ast"
	"github.com/robertkrimen/otto/parser"

	"verif/mc/ox"
)

// Scenario names (also the family names of the check).
const (
	ScFresh      = "fresh"       // two fresh runtimes (created inside the threads)
	ScCopyBefore = "copy-before" // a template and two copies made before the threads start
	ScCopyDuring = "copy-during" // each thread copies the shared template while the other runs
	ScScript     = "script"      // two fresh runtimes sharing compiled *otto.Script values
	ScScript3    = "script3"     // three fresh runtimes sharing compiled *otto.Script values
	ScProgram    = "program"     // two fresh runtimes sharing parsed *ast.Program values
	ScReuse      = "reuse"       // shared Script executed r times per runtime
	ScCopyOnly   = "copy-only"   // two goroutines Copy() one shared template twice each
)

// Scenarios lists all scenarios in canonical order.
var Scenarios = []string{ScFresh, ScCopyBefore, ScCopyDuring, ScScript, ScScript3, ScProgram, ScReuse, ScCopyOnly, ScCopyInside}

// Spec identifies one case: a scenario and, per thread, the list of bodies the
// thread executes in sequence on its runtime.
type Spec struct {
	Scenario string
	Bodies   [][]int
}

// Name renders the spec ("fresh/literals+regexp", "reuse/json,json+json,json").
func (sp Spec) Name() string {
	var th []string
	for _, l := range sp.Bodies {
		var names []string
		for _, b := range l {
			names = append(names, Bodies[b].Name)
		}
		th = append(th, strings.Join(names, ","))
	}
	return sp.Scenario + "/" + strings.Join(th, "+")
}

// ParseSpec is the inverse of Name.
func ParseSpec(s string) (Spec, error) {
	i := strings.IndexByte(s, '/')
	if strings.HasPrefix(s, ScCopyInside+"/") {
		// copy-inside/<context>/<threads>: the context is part of the scenario
		i = strings.LastIndexByte(s, '/')
	}
	if i < 0 {
		return Spec{}, fmt.Errorf("bad case name %q", s)
	}
	sp := Spec{Scenario: s[:i]}
	ok := insideContext(sp.Scenario) != nil
	for _, sc := range Scenarios {
		if sc == sp.Scenario && sc != ScCopyInside {
			ok = true
		}
	}
	if !ok {
		return Spec{}, fmt.Errorf("unknown scenario %q", sp.Scenario)
	}
	for _, th := range strings.Split(s[i+1:], "+") {
		var l []int
		for _, name := range strings.Split(th, ",") {
			if name == "" {
				continue // a thread without bodies (copy-only)
			}
			idx := -1
			for bi, b := range Bodies {
				if b.Name == name {
					idx = bi
				}
			}
			if idx < 0 {
				return Spec{}, fmt.Errorf("unknown body %q", name)
			}
			l = append(l, idx)
		}
		sp.Bodies = append(sp.Bodies, l)
	}
	return sp, nil
}

// Shared is one object shared between the runtimes of a case that execution
// must never modify.
type Shared struct {
	Name string
	Obj  interface{} // *otto.Script or *ast.Program
	Hash uint64      // structural hash taken right after construction
}

// Case is one instantiated scenario: fresh objects, ready to run once.
type Case struct {
	Spec     Spec
	Threads  []func() // thread functions
	Logs     [][]string
	VMs      []*otto.Otto // runtime of each thread (set when the thread creates/receives it)
	Template *otto.Otto
	Shared   []*Shared
	// Problems collects immutability failures of shared objects ("<when>: <what>").
	Problems []string
	// TemplateLog is the observation of the template itself, taken by Finish
	// after all threads are done (the template never runs a thread program).
	TemplateLog []string
	// queued is the number of functions the harness queued on the template's
	// Interrupt channel before any copy was taken.
	queued   int
	finished bool

	yield    func()
	hooked   bool
	baseline bool
	brf, brs bool
	// frameProblems is per thread (threads append concurrently in free mode);
	// Finish merges it into Problems
	frameProblems [][]string
	// templateThread, when set (free-running mode, copy-before), keeps the
	// template itself running while the copies run
	templateThread func()
}

// Options of NewCase.
type Options struct {
	// Yield is the scheduling point function; nil = free running (no hooks installed).
	Yield func()
	// Baseline: every execution of a "shared" script/program uses a freshly
	// compiled/parsed private object instead (the solo reference).
	Baseline bool
	// NoBridgeFunc / NoBridgeSlice switch off the two Probe items that exercise
	// the open known finding F-C20-001 (results of reflected Go functions; the
	// length of the bridged slice). Only the free-running race pass sets them,
	// and only while the supervisor's pre-check finds the defect present: with
	// halt_on_error the known race would otherwise end the pass at once and
	// hide every other race.
	NoBridgeFunc, NoBridgeSlice bool
	// OnSnap (copy-inside only) is called inside the host callback right after
	// the copies were taken, while the template is still executing its script.
	OnSnap func(c *Case)
	// BusyTemplate (free-running mode only): in copy-before the template itself
	// runs a small loop on a goroutine of its own while its copies run, and the
	// copies make the frames observation in their threads as well.
	BusyTemplate bool
}

// bridgedStruct is the Go struct the template exposes by pointer.
type bridgedStruct struct {
	N int
	S string
}

// Twice is a method callable from JavaScript.
func (b *bridgedStruct) Twice() int { return 2 * b.N }

func lcg(seed uint32) func() float64 {
	s := seed
	return func() float64 {
		s = s*1664525 + 1013904223
		return float64(s>>8) / float64(1<<24)
	}
}

// equip installs the per-runtime host function, random source and hooks.
func (c *Case) equip(tid int, vm *otto.Otto) {
	logp := &c.Logs[tid]
	_ = vm.Set("log", func(call otto.FunctionCall) otto.Value {
		parts := make([]string, len(call.ArgumentList))
		for i, a := range call.ArgumentList {
			parts[i] = ox.Canon(a)
		}
		*logp = append(*logp, strings.Join(parts, " "))
		return otto.UndefinedValue()
	})
	_ = vm.Set("halt", func(call otto.FunctionCall) otto.Value {
		// stop the script through the runtime's own Interrupt channel, if it has one
		if vm.Interrupt != nil {
			select {
			case vm.Interrupt <- func() { panic("c20: halted through the runtime's own Interrupt channel") }:
			default:
			}
		}
		return otto.UndefinedValue()
	})
	// twins, created in THIS runtime, of the bridged values the template carries
	_ = vm.Set("gconv2", func(n int) int { return n * 2 })
	_ = vm.Set("gstruct2", &bridgedStruct{N: 7, S: "s"})
	_ = vm.Set("BRF", c.brf)
	_ = vm.Set("BRS", c.brs)
	_ = vm.Set("TID", tid+1) // per-thread constant: lets equal programs pass different arguments
	// per-runtime settings, changed AFTER a Copy: they must not reach the
	// template or the sibling (Finish observes all of them at rest)
	vm.SetRandomSource(lcg(uint32(7919 * (tid + 1))))
	vm.SetStackDepthLimit(30 + 5*tid)
	vm.SetStackTraceLimit(2 + tid)
	vm.SetDebuggerHandler(func(o *otto.Otto) {
		*logp = append(*logp, fmt.Sprintf("debugger: handler of T%d called with own runtime: %v", tid, o == vm))
	})
	if c.Template == nil {
		// fresh runtimes poll their own (empty) channel; copies keep whatever
		// Copy() gave them - installing one here would hide a channel
		// inherited from the template
		vm.Interrupt = make(chan func(), 1)
	}
	if c.hooked {
		y := c.yield
		otto.VerifSetStepHook(vm, func(int) { y() })
		otto.VerifSetSyncHook(vm, func(int) { y() })
	}
	c.VMs[tid] = vm
}

func (c *Case) point() {
	if c.yield != nil {
		c.yield()
	}
}

// exec runs src (string, *otto.Script or *ast.Program) on vm and logs the outcome.
func (c *Case) exec(tid int, vm *otto.Otto, what string, src interface{}) {
	c.point()
	res := ox.Run(vm, src)
	var line string
	switch {
	case res.Panicked:
		line = fmt.Sprintf("%s PANIC %v", what, res.PanicVal)
	case res.Err != nil:
		line = fmt.Sprintf("%s !! %s", what, res.Err.Error())
	default:
		line = fmt.Sprintf("%s => %s", what, ox.Canon(res.Value))
	}
	c.Logs[tid] = append(c.Logs[tid], line)
	if c.hooked {
		// cooperative mode only: in the free-running mode the other threads are
		// executing right now and the harness must not add synchronisation
		// between them; there the shared objects are checked after the join
		c.CheckShared(fmt.Sprintf("after T%d %s", tid, what))
	}
}

// CheckShared compares the structural hash of every shared object with the
// hash taken at construction.
func (c *Case) CheckShared(when string) {
	for _, sh := range c.Shared {
		if h := StructHash(sh.Obj); h != sh.Hash {
			// (the new hash value is not part of the observation: once a Script
			// points into a runtime its value depends on that runtime's state)
			c.Problems = append(c.Problems, fmt.Sprintf("%s: shared %s was modified (structural hash differs from the hash taken at construction)", when, sh.Name))
			sh.Hash = h // report each modification once
		}
	}
}

func compileScript(src string) *otto.Script {
	s, err := otto.New().Compile("", src)
	if err != nil {
		panic("c20: harness body does not compile: " + err.Error())
	}
	return s
}

func parseProgram(src string) *ast.Program {
	p, err := parser.ParseFile(nil, "", src, 0)
	if err != nil {
		panic("c20: harness body does not parse: " + err.Error())
	}
	return p
}

// NewCase instantiates a scenario.
func NewCase(sp Spec, opt Options) *Case {
	n := len(sp.Bodies)
	c := &Case{Spec: sp, Logs: make([][]string, n), VMs: make([]*otto.Otto, n), yield: opt.Yield, hooked: opt.Yield != nil, baseline: opt.Baseline, brf: !opt.NoBridgeFunc, brs: !opt.NoBridgeSlice, frameProblems: make([][]string, n)}
	c.Threads = make([]func(), n)

	newTemplate := func(syncPoints bool, queued int) *otto.Otto {
		t := otto.New()
		if res := ox.Run(t, Prelude); res.Err != nil || res.Panicked {
			panic(fmt.Sprintf("c20: prelude failed: %v %v", res.Err, res.PanicVal))
		}
		// bridged Go values of every kind, set on the template before any Copy()
		// (the Go data behind a slice / map / pointer is the embedder's and is
		// common to all copies by construction; the probes only read it, apart
		// from the length of the slice, which is otto's own state)
		_ = t.Set("gslice", []int{1, 2, 3})
		_ = t.Set("gmap", map[string]int{"a": 1, "b": 2})
		_ = t.Set("gstruct", &bridgedStruct{N: 7, S: "s"})
		_ = t.Set("garray", [2]int{4, 5})
		_ = t.Set("gmk", func() []int { return []int{1, 2} })
		_ = t.Set("gconv", func(n int) int { return n * 2 })
		_ = t.Set("gcb", func(f func(int) int) int { return f(20) + 1 })
		_ = t.Set("gff", func() func() int { return func() int { return 9 } })
		// per-runtime state of the template, all installed BEFORE any Copy():
		// Interrupt channel (buffered) with a queued function meant for the
		// template only, stack depth limit, trace limit, random source,
		// debugger handler
		t.Interrupt = make(chan func(), 2)
		for k := 0; k < queued; k++ {
			t.Interrupt <- func() { panic("c20: interrupt queued for the TEMPLATE was delivered") }
		}
		c.queued = queued
		t.SetStackDepthLimit(60)
		t.SetStackTraceLimit(7)
		t.SetRandomSource(lcg(424243))
		tl := &c.TemplateLog
		t.SetDebuggerHandler(func(o *otto.Otto) {
			*tl = append(*tl, fmt.Sprintf("debugger: handler of the template called with the template: %v", o == t))
		})
		if c.hooked && syncPoints {
			y := c.yield
			otto.VerifSetSyncHook(t, func(int) { y() })
		}
		return t
	}

	// shared compiled forms, one per distinct body
	shared := map[int]*Shared{}
	share := func(kind string) {
		for _, l := range sp.Bodies {
			for _, b := range l {
				if shared[b] != nil {
					continue
				}
				sh := &Shared{Name: kind + ":" + Bodies[b].Name}
				if kind == "script" {
					sh.Obj = compileScript(Bodies[b].Src)
				} else {
					sh.Obj = parseProgram(Bodies[b].Src)
				}
				sh.Hash = StructHash(sh.Obj)
				shared[b] = sh
				if !c.baseline {
					c.Shared = append(c.Shared, sh)
				}
			}
		}
	}
	source := func(kind string, b int) interface{} {
		if c.baseline {
			if kind == "script" {
				return compileScript(Bodies[b].Src)
			}
			return parseProgram(Bodies[b].Src)
		}
		return shared[b].Obj
	}

	switch sp.Scenario {
	case ScFresh:
		for i := range c.Threads {
			i := i
			c.Threads[i] = func() {
				c.point()
				vm := otto.New()
				c.equip(i, vm)
				for k, b := range sp.Bodies[i] {
					c.exec(i, vm, fmt.Sprintf("run%d:%s", k, Bodies[b].Name), Bodies[b].Src)
				}
			}
		}
	case ScCopyBefore:
		queued := 1
		if opt.BusyTemplate {
			queued = 0 // the template runs and would consume its own interrupt
		}
		c.Template = newTemplate(false, queued) // copied here, before the threads exist
		for i := range c.Threads {
			i := i
			vm := c.Template.Copy()
			c.equip(i, vm)
			c.Threads[i] = func() {
				for k, b := range sp.Bodies[i] {
					c.exec(i, vm, fmt.Sprintf("run%d:%s", k, Bodies[b].Name), Bodies[b].Src)
				}
				c.exec(i, vm, "probe", Probe)
				if opt.BusyTemplate {
					c.frames(i, vm, "frames while the template runs")
				}
			}
		}
		if opt.BusyTemplate {
			t := c.Template
			c.templateThread = func() { _ = ox.Run(t, TemplateSpin) }
		}
	case ScCopyDuring:
		c.Template = newTemplate(true, 1)
		for i := range c.Threads {
			i := i
			c.Threads[i] = func() {
				c.point()
				vm := c.Template.Copy()
				c.equip(i, vm)
				for k, b := range sp.Bodies[i] {
					c.exec(i, vm, fmt.Sprintf("run%d:%s", k, Bodies[b].Name), Bodies[b].Src)
				}
				c.exec(i, vm, "probe", Probe)
			}
		}
	case ScCopyOnly:
		c.Template = newTemplate(true, 0) // channel installed, nothing queued
		for i := range c.Threads {
			i := i
			c.Threads[i] = func() {
				c.point()
				first := c.Template.Copy()
				c.point()
				vm := c.Template.Copy()
				c.equip(i, vm)
				c.exec(i, vm, "probe-second", ProbeMini)
				for k, b := range sp.Bodies[i] {
					c.exec(i, vm, fmt.Sprintf("run%d:%s", k, Bodies[b].Name), Bodies[b].Src)
				}
				c.equip(i, first)
				c.exec(i, first, "probe-first", ProbeMini)
			}
		}
	case ScScript, ScScript3, ScReuse, ScProgram:
		kind := "script"
		if sp.Scenario == ScProgram {
			kind = "program"
		}
		share(kind)
		for i := range c.Threads {
			i := i
			c.Threads[i] = func() {
				c.point()
				vm := otto.New()
				c.equip(i, vm)
				for k, b := range sp.Bodies[i] {
					c.exec(i, vm, fmt.Sprintf("run%d:%s", k, Bodies[b].Name), source(kind, b))
				}
			}
		}
	default:
		ctx := insideContext(sp.Scenario)
		if ctx == nil {
			panic("c20: unknown scenario " + sp.Scenario)
		}
		// nothing queued on the Interrupt channel: the template itself executes
		c.Template = newTemplate(false, 0)
		t := c.Template
		taken := 0
		_ = t.Set("snap", func(call otto.FunctionCall) otto.Value {
			// one copy per thread, all taken at this point of the template's execution
			taken++
			for i := range c.Threads {
				c.equip(i, t.Copy())
			}
			if opt.OnSnap != nil {
				opt.OnSnap(c)
			}
			return otto.UndefinedValue()
		})
		if res := ox.Run(t, ctx.Src+InsideAfter); res.Err != nil || res.Panicked || taken != 1 {
			panic(fmt.Sprintf("c20: copy-inside context %s failed: %v %v (snap called %d times)", ctx.Name, res.Err, res.PanicVal, taken))
		}
		for i := range c.Threads {
			i := i
			vm := c.VMs[i]
			c.Threads[i] = func() {
				c.exec(i, vm, "cont", InsideCont(i))
				for k, b := range sp.Bodies[i] {
					c.exec(i, vm, fmt.Sprintf("run%d:%s", k, Bodies[b].Name), Bodies[b].Src)
				}
				c.exec(i, vm, "probe", ProbeMini)
				if opt.BusyTemplate {
					c.frames(i, vm, "frames while the template runs")
				}
			}
		}
		if opt.BusyTemplate {
			c.templateThread = func() { _ = ox.Run(t, TemplateSpin) }
		}
	}
	return c
}

// PostSrc is run by Finish on every runtime at rest (no scheduling points): it
// observes the per-runtime settings (stack depth limit, trace limit, random
// source, debugger handler).
const postExpr = `[(function d(n) { try { return d(n + 1); } catch (e) { return n; } })(0),
 (function f(n) { return n ? f(n - 1) : new Error("x").stack.split("\n").length; })(9), Math.floor(Math.random() * 100000),
 typeof MINE === "undefined" ? "-" : MINE.join("|")].join("/")`

const PostSrc = "debugger; " + postExpr

// TemplatePostSrc additionally observes the template's user state, which no
// copy may have changed.
const TemplatePostSrc = `debugger; [T.arr.join(), T.counter, T.seen, T.re.lastIndex, T.d.getTime(), T.err.message, T.obj.n.deep[0], "gone" in T.obj, T.args[0], T.cat("t"), T.next(), T.audit.join(), T.u16 + "," + T.u16n + "," + T.u16a.length + "," + T.prims.join(), "bridge", gslice.length, typeof Array.prototype.leak, gmk() instanceof Array, "/bridge", T.calls, T.where, T.gsv, T.proto.pc, T.rd(), T.ev(), T.cth(), T.wth()].join("|") + "#" + ` + postExpr

func runLine(vm *otto.Otto, what string, src interface{}) string {
	res := ox.Run(vm, src)
	switch {
	case res.Panicked:
		return fmt.Sprintf("%s PANIC %v", what, res.PanicVal)
	case res.Err != nil:
		return fmt.Sprintf("%s !! %s", what, res.Err.Error())
	}
	return fmt.Sprintf("%s => %s", what, ox.Canon(res.Value))
}

// Finish is called once, after all thread functions have returned and nothing
// is running: it observes every runtime at rest and the template.
//   - every thread runtime runs PostSrc (its own limits / random source / handler);
//   - the functions queued on the template's Interrupt channel before the copies
//     were taken must still be queued: an interrupt is delivered only to the
//     runtime whose channel it was put on, and the template never ran;
//   - the template runs TemplatePostSrc: its user state and settings are those
//     of a template no copy was ever taken from.
func (c *Case) Finish() {
	if c.finished {
		return
	}
	c.finished = true
	for i, vm := range c.VMs {
		if vm == nil {
			continue
		}
		otto.VerifSetStepHook(vm, nil)
		otto.VerifSetSyncHook(vm, nil)
		c.Logs[i] = append(c.Logs[i], runLine(vm, "post", PostSrc))
		if c.Template != nil {
			c.frames(i, vm, "frames at rest")
		}
	}
	for _, l := range c.frameProblems {
		c.Problems = append(c.Problems, l...)
	}
	if t := c.Template; t != nil {
		otto.VerifSetSyncHook(t, nil)
		if n := len(t.Interrupt); n != c.queued {
			c.Problems = append(c.Problems, fmt.Sprintf("the template's Interrupt channel holds %d queued function(s) after the copies ran, %d were queued for the template (the template itself never ran: another runtime received them)", n, c.queued))
		}
		for len(t.Interrupt) > 0 {
			<-t.Interrupt
		}
		c.TemplateLog = append(c.TemplateLog, runLine(t, "template", TemplatePostSrc))
	}
}

// frames runs FramesSrc on a copy and records a problem when a native function
// object created in the template builds its errors from another call chain
// than the copy's own.
func (c *Case) frames(i int, vm *otto.Otto, what string) {
	line := runLine(vm, what, FramesSrc)
	c.Logs[i] = append(c.Logs[i], line)
	if k := strings.Index(line, "FOREIGN-FRAMES"); k >= 0 {
		msg := line[k:]
		if len(msg) > 700 {
			msg = msg[:700] + " ..."
		}
		c.frameProblems[i] = append(c.frameProblems[i], fmt.Sprintf("T%d %s: %s", i, what, msg))
	}
}

// TemplateThread returns the function that keeps the template running (nil in
// all but the free-running copy-before cases).
func (c *Case) TemplateThread() func() { return c.templateThread }

// AllLogs returns the thread logs followed, for template scenarios, by the
// template's own log.
func (c *Case) AllLogs() [][]string {
	out := append([][]string{}, c.Logs...)
	if c.Template != nil {
		out = append(out, c.TemplateLog)
	}
	return out
}

// RenderLogs renders observation logs (threads, then the template if any).
func RenderLogs(logs [][]string) string {
	var sb strings.Builder
	for i, l := range logs {
		fmt.Fprintf(&sb, "T%d[%s]", i, strings.Join(l, " ; "))
		if i+1 < len(logs) {
			sb.WriteString(" || ")
		}
	}
	return sb.String()
}

// SoloThread runs thread i of a fresh baseline instance alone and returns its log.
func SoloThread(sp Spec, i int) []string { return SoloThreadOpt(sp, i, Options{}) }

// SoloThreadOpt is SoloThread with the bridge switches of opt.
func SoloThreadOpt(sp Spec, i int, opt Options) []string {
	opt.Baseline, opt.Yield = true, nil
	c := NewCase(sp, opt)
	c.Threads[i]()
	c.Finish()
	return c.Logs[i]
}

// SoloTemplate returns the log of the template of a fresh instance none of
// whose threads ran (nil for scenarios without a template).
func SoloTemplate(sp Spec) []string {
	c := NewCase(sp, Options{Baseline: true})
	if c.Template == nil {
		return nil
	}
	// copy-before takes its copies at construction; the others never copy here
	for i := range c.VMs {
		c.VMs[i] = nil
	}
	c.Finish()
	return c.TemplateLog
}

// Solo computes the reference logs of a spec: every thread of the case is run
// ALONE (nothing else running, private freshly compiled scripts) on a fresh
// instance of the scenario; for template scenarios the last element is the
// log of a template nothing was run on. It is computed twice; a difference
// means a body is not deterministic (a harness error).
func Solo(sp Spec) ([][]string, error) {
	once := func() [][]string {
		out := make([][]string, len(sp.Bodies))
		for i := range sp.Bodies {
			out[i] = SoloThread(sp, i)
		}
		if t := SoloTemplate(sp); t != nil {
			out = append(out, t)
		}
		return out
	}
	a, b := once(), once()
	if RenderLogs(a) != RenderLogs(b) {
		return nil, fmt.Errorf("solo logs of %s are not deterministic:\n%s\n%s", sp.Name(), RenderLogs(a), RenderLogs(b))
	}
	return a, nil
}
