package c20

import (
	"fmt"
	"strings"

	"github.com/robertkrimen/otto"
	"github.com/robertkrimen/otto/ast"
	"github.com/robertkrimen/otto/parser"

	"verif/mc/ox"
)

// Scenario names (also the family names of the check).
const (
	ScFresh      = "fresh"       // two fresh runtimes (created inside the threads)
	ScCopyBefore = "copy-before" // a template and two copies made before the threads start
	ScCopyDuring = "copy-during" // each thread copies the shared template while the other runs
	ScScript     = "script"      // two fresh runtimes sharing compiled *otto.Script values
	ScScript3    = "script3"     // three fresh runtimes sharing compiled *otto.Script values
	ScProgram    = "program"     // two fresh runtimes sharing parsed *ast.Program values
	ScReuse      = "reuse"       // shared Script executed r times per runtime
	ScCopyOnly   = "copy-only"   // two goroutines Copy() one shared template twice each
)

// Scenarios lists all scenarios in canonical order.
var Scenarios = []string{ScFresh, ScCopyBefore, ScCopyDuring, ScScript, ScScript3, ScProgram, ScReuse, ScCopyOnly}

// Spec identifies one case: a scenario and, per thread, the list of bodies the
// thread executes in sequence on its runtime.
type Spec struct {
	Scenario string
	Bodies   [][]int
}

// Name renders the spec ("fresh/literals+regexp", "reuse/json,json+json,json").
func (sp Spec) Name() string {
	var th []string
	for _, l := range sp.Bodies {
		var names []string
		for _, b := range l {
			names = append(names, Bodies[b].Name)
		}
		th = append(th, strings.Join(names, ","))
	}
	return sp.Scenario + "/" + strings.Join(th, "+")
}

// ParseSpec is the inverse of Name.
func ParseSpec(s string) (Spec, error) {
	i := strings.IndexByte(s, '/')
	if i < 0 {
		return Spec{}, fmt.Errorf("bad case name %q", s)
	}
	sp := Spec{Scenario: s[:i]}
	ok := false
	for _, sc := range Scenarios {
		if sc == sp.Scenario {
			ok = true
		}
	}
	if !ok {
		return Spec{}, fmt.Errorf("unknown scenario %q", sp.Scenario)
	}
	for _, th := range strings.Split(s[i+1:], "+") {
		var l []int
		for _, name := range strings.Split(th, ",") {
			if name == "" {
				continue // a thread without bodies (copy-only)
			}
			idx := -1
			for bi, b := range Bodies {
				if b.Name == name {
					idx = bi
				}
			}
			if idx < 0 {
				return Spec{}, fmt.Errorf("unknown body %q", name)
			}
			l = append(l, idx)
		}
		sp.Bodies = append(sp.Bodies, l)
	}
	return sp, nil
}

// Shared is one object shared between the runtimes of a case that execution
// must never modify.
type Shared struct {
	Name string
	Obj  interface{} // *otto.Script or *ast.Program
	Hash uint64      // structural hash taken right after construction
}

// Case is one instantiated scenario: fresh objects, ready to run once.
type Case struct {
	Spec     Spec
	Threads  []func() // thread functions
	Logs     [][]string
	VMs      []*otto.Otto // runtime of each thread (set when the thread creates/receives it)
	Template *otto.Otto
	Shared   []*Shared
	// Problems collects immutability failures of shared objects ("<when>: <what>").
	Problems []string

	yield    func()
	hooked   bool
	baseline bool
}

// Options of NewCase.
type Options struct {
	// Yield is the scheduling point function; nil = free running (no hooks installed).
	Yield func()
	// Baseline: every execution of a "shared" script/program uses a freshly
	// compiled/parsed private object instead (the solo reference).
	Baseline bool
}

func lcg(seed uint32) func() float64 {
	s := seed
	return func() float64 {
		s = s*1664525 + 1013904223
		return float64(s>>8) / float64(1<<24)
	}
}

// equip installs the per-runtime host function, random source and hooks.
func (c *Case) equip(tid int, vm *otto.Otto) {
	logp := &c.Logs[tid]
	_ = vm.Set("log", func(call otto.FunctionCall) otto.Value {
		parts := make([]string, len(call.ArgumentList))
		for i, a := range call.ArgumentList {
			parts[i] = ox.Canon(a)
		}
		*logp = append(*logp, strings.Join(parts, " "))
		return otto.UndefinedValue()
	})
	_ = vm.Set("TID", tid+1) // per-thread constant: lets equal programs pass different arguments
	vm.SetRandomSource(lcg(uint32(7919 * (tid + 1))))
	if c.hooked {
		y := c.yield
		otto.VerifSetStepHook(vm, func(int) { y() })
		otto.VerifSetSyncHook(vm, func(int) { y() })
	}
	c.VMs[tid] = vm
}

func (c *Case) point() {
	if c.yield != nil {
		c.yield()
	}
}

// exec runs src (string, *otto.Script or *ast.Program) on vm and logs the outcome.
func (c *Case) exec(tid int, vm *otto.Otto, what string, src interface{}) {
	c.point()
	res := ox.Run(vm, src)
	var line string
	switch {
	case res.Panicked:
		line = fmt.Sprintf("%s PANIC %v", what, res.PanicVal)
	case res.Err != nil:
		line = fmt.Sprintf("%s !! %s", what, res.Err.Error())
	default:
		line = fmt.Sprintf("%s => %s", what, ox.Canon(res.Value))
	}
	c.Logs[tid] = append(c.Logs[tid], line)
	if c.hooked {
		// cooperative mode only: in the free-running mode the other threads are
		// executing right now and the harness must not add synchronisation
		// between them; there the shared objects are checked after the join
		c.CheckShared(fmt.Sprintf("after T%d %s", tid, what))
	}
}

// CheckShared compares the structural hash of every shared object with the
// hash taken at construction.
func (c *Case) CheckShared(when string) {
	for _, sh := range c.Shared {
		if h := StructHash(sh.Obj); h != sh.Hash {
			// (the new hash value is not part of the observation: once a Script
			// points into a runtime its value depends on that runtime's state)
			c.Problems = append(c.Problems, fmt.Sprintf("%s: shared %s was modified (structural hash differs from the hash taken at construction)", when, sh.Name))
			sh.Hash = h // report each modification once
		}
	}
}

func compileScript(src string) *otto.Script {
	s, err := otto.New().Compile("", src)
	if err != nil {
		panic("c20: harness body does not compile: " + err.Error())
	}
	return s
}

func parseProgram(src string) *ast.Program {
	p, err := parser.ParseFile(nil, "", src, 0)
	if err != nil {
		panic("c20: harness body does not parse: " + err.Error())
	}
	return p
}

// NewCase instantiates a scenario.
func NewCase(sp Spec, opt Options) *Case {
	n := len(sp.Bodies)
	c := &Case{Spec: sp, Logs: make([][]string, n), VMs: make([]*otto.Otto, n), yield: opt.Yield, hooked: opt.Yield != nil, baseline: opt.Baseline}
	c.Threads = make([]func(), n)

	newTemplate := func(syncPoints bool) *otto.Otto {
		t := otto.New()
		if res := ox.Run(t, Prelude); res.Err != nil || res.Panicked {
			panic(fmt.Sprintf("c20: prelude failed: %v %v", res.Err, res.PanicVal))
		}
		if c.hooked && syncPoints {
			y := c.yield
			otto.VerifSetSyncHook(t, func(int) { y() })
		}
		return t
	}

	// shared compiled forms, one per distinct body
	shared := map[int]*Shared{}
	share := func(kind string) {
		for _, l := range sp.Bodies {
			for _, b := range l {
				if shared[b] != nil {
					continue
				}
				sh := &Shared{Name: kind + ":" + Bodies[b].Name}
				if kind == "script" {
					sh.Obj = compileScript(Bodies[b].Src)
				} else {
					sh.Obj = parseProgram(Bodies[b].Src)
				}
				sh.Hash = StructHash(sh.Obj)
				shared[b] = sh
				if !c.baseline {
					c.Shared = append(c.Shared, sh)
				}
			}
		}
	}
	source := func(kind string, b int) interface{} {
		if c.baseline {
			if kind == "script" {
				return compileScript(Bodies[b].Src)
			}
			return parseProgram(Bodies[b].Src)
		}
		return shared[b].Obj
	}

	switch sp.Scenario {
	case ScFresh:
		for i := range c.Threads {
			i := i
			c.Threads[i] = func() {
				c.point()
				vm := otto.New()
				c.equip(i, vm)
				for k, b := range sp.Bodies[i] {
					c.exec(i, vm, fmt.Sprintf("run%d:%s", k, Bodies[b].Name), Bodies[b].Src)
				}
			}
		}
	case ScCopyBefore:
		c.Template = newTemplate(false) // copied here, before the threads exist
		for i := range c.Threads {
			i := i
			vm := c.Template.Copy()
			c.equip(i, vm)
			c.Threads[i] = func() {
				for k, b := range sp.Bodies[i] {
					c.exec(i, vm, fmt.Sprintf("run%d:%s", k, Bodies[b].Name), Bodies[b].Src)
				}
				c.exec(i, vm, "probe", Probe)
			}
		}
	case ScCopyDuring:
		c.Template = newTemplate(true)
		for i := range c.Threads {
			i := i
			c.Threads[i] = func() {
				c.point()
				vm := c.Template.Copy()
				c.equip(i, vm)
				for k, b := range sp.Bodies[i] {
					c.exec(i, vm, fmt.Sprintf("run%d:%s", k, Bodies[b].Name), Bodies[b].Src)
				}
				c.exec(i, vm, "probe", Probe)
			}
		}
	case ScCopyOnly:
		c.Template = newTemplate(true)
		for i := range c.Threads {
			i := i
			c.Threads[i] = func() {
				c.point()
				first := c.Template.Copy()
				c.point()
				vm := c.Template.Copy()
				c.equip(i, vm)
				c.exec(i, vm, "probe-second", ProbeMini)
				for k, b := range sp.Bodies[i] {
					c.exec(i, vm, fmt.Sprintf("run%d:%s", k, Bodies[b].Name), Bodies[b].Src)
				}
				c.equip(i, first)
				c.exec(i, first, "probe-first", ProbeMini)
			}
		}
	case ScScript, ScScript3, ScReuse, ScProgram:
		kind := "script"
		if sp.Scenario == ScProgram {
			kind = "program"
		}
		share(kind)
		for i := range c.Threads {
			i := i
			c.Threads[i] = func() {
				c.point()
				vm := otto.New()
				c.equip(i, vm)
				for k, b := range sp.Bodies[i] {
					c.exec(i, vm, fmt.Sprintf("run%d:%s", k, Bodies[b].Name), source(kind, b))
				}
			}
		}
	default:
		panic("c20: unknown scenario " + sp.Scenario)
	}
	return c
}

// RenderLogs renders the observation logs of all threads.
func RenderLogs(logs [][]string) string {
	var sb strings.Builder
	for i, l := range logs {
		fmt.Fprintf(&sb, "T%d[%s]", i, strings.Join(l, " ; "))
		if i+1 < len(logs) {
			sb.WriteString(" || ")
		}
	}
	return sb.String()
}

// Solo computes the reference logs of a spec: every thread of the case is run
// ALONE (nothing else running, private freshly compiled scripts) on a fresh
// instance of the scenario. It is computed twice; a difference means a body is
// not deterministic (a harness error).
func Solo(sp Spec) ([][]string, error) {
	once := func() [][]string {
		out := make([][]string, len(sp.Bodies))
		for i := range sp.Bodies {
			c := NewCase(sp, Options{Baseline: true})
			c.Threads[i]()
			out[i] = c.Logs[i]
		}
		return out
	}
	a, b := once(), once()
	if RenderLogs(a) != RenderLogs(b) {
		return nil, fmt.Errorf("solo logs of %s are not deterministic:\n%s\n%s", sp.Name(), RenderLogs(a), RenderLogs(b))
	}
	return a, nil
}
