// Package c20 checks that otto runtimes are independent.
//
// Part 1 (enumeration, engines E4 + E5): every scenario (fresh runtimes, copies
// of a template made before / during the other's run, runtimes sharing one
// compiled Script or one parsed Program, a Script reused r times, concurrent
// Copy of one template) is run under a cooperative scheduler whose scheduling
// points are otto's evaluation steps and clone()'s lock/unlock; ALL schedules
// with at most b preemptions are enumerated by stateless DFS. Oracle: every
// runtime's observation log equals its solo log; the structural hash of every
// shared Script/Program is unchanged at every context switch and after every
// execution; the heap graphs of the runtimes intersect only in allow-listed
// immutable objects.
//
// Part 2 (race detector, not enumeration): the same bodies run free on real
// goroutines in a separate -race build (cmd/mc-c20race), driven from Extra.
package c20

import (
	"fmt"
	"os"
	"regexp"
	"runtime"
	"sort"
	"strings"
	"time"

	"github.com/robertkrimen/otto"

	"verif/mc/engine"
)

func init() {
	if v := os.Getenv(soloEnv); v != "" {
		soloChild(v) // reference child process: prints one solo log and exits
	}
	// the cheap schedule-independent oracles run first, so that a time budget
	// that runs out on a slow machine never cuts them
	fams := []engine.Family{
		{Name: "selfcheck", Run: runSelfCheck, Solo: true},
		{Name: "pkgstate", Run: runPkgState},
		{Name: "sharing", Run: runSharing},
	}
	for _, sc := range Scenarios {
		sc := sc
		fams = append(fams, engine.Family{Name: sc, Run: func(r *engine.Run) { runScenario(r, sc, false) }})
	}
	// thorough tier: the base families above run exactly the quick enumeration
	// (so quick is a subset of thorough by construction); the "+" families then
	// extend every case to its full preemption bound and count only the
	// schedules beyond the base bound. They come last and share the remaining
	// time budget in proportion to their estimated sizes, so that a slow machine
	// shortens every family a little instead of starving the last ones.
	for _, sc := range Scenarios {
		sc := sc
		fams = append(fams, engine.Family{Name: sc + deepSuffix, ThoroughOnly: true, Run: func(r *engine.Run) { runScenario(r, sc, true) }})
	}
	engine.Register(&engine.Check{
		ID:    "C20",
		Title: "Runtimes are independent: concurrent use of separate runtimes is race-free",
		Rule: "case = (scenario, bodies per thread, schedule); schedules are ALL interleavings of the threads with at most b preemptions, " +
			"scheduling points = every otto evaluation step (interrupt polling point), clone() before-lock/after-unlock, and the harness points before New/Copy/Run; " +
			"canonical alternatives: running thread first, then ascending ids; a schedule is identified by its choice vector. " +
			"evaluations = distinct schedules executed on the real implementation; non-trivial = schedules with at least one preemption " +
			"(a thread was switched out in the middle of its program); distinct outcomes = distinct (case, observation logs): one per case when the property holds. " +
			"Families <scenario> enumerate the quick bound (1 preemption) in both tiers; the thorough-only families <scenario>+ extend the cases to bound 2 " +
			"(3 for bodies of at most 60 scheduling points and for copy-only) and count only the schedules beyond the quick bound; work is sharded by the subtree below the first preemption. " +
			"copy-inside: the template EXECUTES a script that calls a Go host function from inside a nesting context (33 contexts: labelled statements of depth 0..6, every loop kind, switch, try/catch/finally, with, block, nested calls, direct/indirect eval and Function code, callbacks of forEach/sort/replace, a getter, a toString conversion; mostly with 3 labels pending at the call); the host function takes one Copy() per thread at that point; the template finishes its script (labels, loops, switch) and every copy runs a continuation of labelled loops/block/switch/try-finally whose label names differ per thread, then the short probe; case key = <context>/<bodies>. " +
			"sharing: reflective heap walk of the runtimes of a case at rest and with all threads stopped mid-program (copy-inside: also inside the host callback, template mid-execution). " +
			"After the threads of a case have finished, every runtime and the template are observed at rest (own stack depth limit, trace limit, random source, debugger handler; the template's user state; the function queued on the template's Interrupt channel before the copies were taken must still be queued). " +
			"RACE (supervisor side): the same cases free-running under the Go race detector.",
		Families: fams,
		Assumptions: []string{
			"the cooperative scheduler decides result-independence and Script/Program immutability at the granularity of evaluation steps; interleavings INSIDE one built-in call are not enumerated",
			"the 'no data race' half of the verdict (family RACE) comes from the Go race detector's happens-before analysis over the accesses actually executed by the free-running -race build of the same harness bodies (GOMAXPROCS=16, real goroutines, no scheduler); it is NOT an enumeration result",
			"race pass: every process start runs its first round cold (no otto code executed before the goroutines start) so that lazily initialised package-level state is first touched concurrently; happens-before edges that library code adds on its own (sync.Pool in fmt/regexp, the math/rand lock) can order two conflicting accesses and hide them from the detector in a given run",
			"mutable package-level state that is neither reachable from a runtime by reflection nor touched by any of the harness bodies is outside the bound",
			"Go func values (closures) are opaque to reflection: sharing through captured variables is covered only behaviourally (solo-log oracle, race detector)",
			"solo reference = the same thread program run alone, on a fresh instance of the scenario with privately compiled scripts, in a FRESH PROCESS of this binary (nothing else of otto ran in it); the same thread run alone in the worker process (after other runtimes ran there) must give the same log (key <case>@solo), which also establishes that the bodies are deterministic",
			"pkgstate is a syntactic inventory (go/parser, no type checker) of the package-level variables of the source tree the binary was built from: a write through an alias or inside a method of the variable's own type is not seen",
			"bridged Go values: the Go data behind a slice/map/pointer set on a template is the embedder's and common to all copies by construction; the probes only read it (and set the slice LENGTH, which is otto's own state); closures of reflected Go functions are opaque to the heap walk, their results are stored and walked",
			"a function installed with SetRandomSource / SetDebuggerHandler is the embedder's, like a bridged Go function: Copy() hands the same Go func value to the copy by design, so a stateful source shared by template and copies is the embedder's shared state, not otto's; the harness gives every runtime its own source after Copy() and checks that changing it on one runtime does not reach the others",
			"misuse (two goroutines on ONE runtime, registry.Enable/Disable concurrently with New) is outside the statement",
		},
		CrashIsViolation: true,
		QuickBudget:      100 * time.Second,
		ThoroughBudget:   thoroughBudget,
		Extra:            racePass,
	})
}

// plan is one case with its preemption bound.
type plan struct {
	spec  Spec
	bound int
}

func rep(b, r int) []int {
	out := make([]int, r)
	for i := range out {
		out[i] = b
	}
	return out
}

// short bodies (few evaluation steps) get a higher preemption bound.
func isShort(steps map[int]int, bodies ...int) bool {
	for _, b := range bodies {
		if steps[b] > 60 {
			return false
		}
	}
	return true
}

// plans lists the cases of a scenario for a tier. The quick list is a subset
// of the thorough list (same cases, lower bounds).
func plans(scenario string, thorough bool, steps map[int]int) []plan {
	nb := len(Bodies)
	var out []plan
	b12 := 1
	if thorough {
		b12 = 2
	}
	switch scenario {
	case ScFresh:
		// every unordered pair of bodies; the full bound for the band |i-j| <= 2
		// (cyclic: same body, neighbours), one preemption for the distant pairs
		for i := 0; i < nb; i++ {
			for j := i; j < nb; j++ {
				bd := 1
				if d := j - i; d <= 2 || d >= nb-2 {
					bd = b12
				}
				if thorough && isShort(steps, i, j) {
					bd = 3
				}
				out = append(out, plan{Spec{scenario, [][]int{{i}, {j}}}, bd})
			}
		}
	case ScCopyBefore, ScCopyDuring:
		// neighbouring bodies (i, i+1) for even i: every body takes part; the
		// copy threads are long (body + Probe), so the case list is kept short
		for i := 0; i < nb; i += 2 {
			out = append(out, plan{Spec{scenario, [][]int{{i}, {(i + 1) % nb}}}, b12})
		}
	case ScScript, ScProgram:
		for i := 0; i < nb; i++ {
			bd := b12
			if thorough && isShort(steps, i) {
				bd = 3
			}
			out = append(out, plan{Spec{scenario, [][]int{{i}, {i}}}, bd})
		}
		// two shared objects executed in opposite orders
		for i := 0; i < nb; i++ {
			j := (i + 1) % nb
			bd := 1
			if i == 0 {
				bd = b12
			}
			out = append(out, plan{Spec{scenario, [][]int{{i, j}, {j, i}}}, bd})
		}
	case ScScript3:
		for i := 0; i < nb; i += 2 {
			bd := 1
			if thorough && isShort(steps, i) {
				bd = 2
			}
			out = append(out, plan{Spec{scenario, [][]int{{i}, {i}, {i}}}, bd})
		}
	case ScReuse:
		for i := 0; i < nb; i++ {
			b2 := 1
			if i%2 == 0 {
				b2 = b12
			}
			out = append(out, plan{Spec{scenario, [][]int{rep(i, 2), rep(i, 2)}}, b2})
			bd := 1
			if thorough && isShort(steps, i) {
				bd = 2
			}
			out = append(out, plan{Spec{scenario, [][]int{rep(i, 3), rep(i, 3)}}, bd})
		}
	case ScCopyOnly:
		bd := 1
		if thorough {
			bd = 3
		}
		// no bodies: Copy, Copy, probe the second copy, probe the first copy
		out = append(out, plan{Spec{scenario, [][]int{{}, {}}}, bd})
	case ScCopyInside:
		out = insidePlans(thorough)
	}
	return out
}

// result of one executed schedule
type execResult struct {
	logs     string
	problems string
	choices  []int
	points   []spoint
	preempt  int
	trace    string
	err      string
}

func (e *execResult) observed() string {
	if e.problems == "" {
		return e.logs
	}
	return e.logs + " ## " + e.problems
}

// insideSnap is the pseudo switch number with which execute calls inspect from
// inside the host callback of a copy-inside case (template mid-execution).
const insideSnap = -2

// execute runs one case under the scheduler with the given choice prefix.
func execute(sp Spec, prefix []int, inspect func(c *Case, nswitch int)) *execResult {
	var s *sched
	c := NewCase(sp, Options{Yield: func() { s.Yield() }, OnSnap: func(c *Case) {
		if inspect != nil {
			inspect(c, insideSnap)
		}
	}})
	s = newSched(len(c.Threads), prefix)
	s.onSwitch = func(n int) {
		c.CheckShared(fmt.Sprintf("at context switch %d", n))
		if inspect != nil {
			inspect(c, n)
		}
	}
	s.run(c.Threads)
	c.CheckShared("after all threads")
	c.Finish()
	if inspect != nil {
		inspect(c, -1)
	}
	return &execResult{
		logs:     RenderLogs(c.AllLogs()),
		problems: strings.Join(c.Problems, " ; "),
		choices:  s.choices(),
		points:   s.points,
		preempt:  s.preemptions(),
		trace:    s.traceString(),
		err:      s.err,
	}
}

type soloCache struct {
	m map[string]string
}

// get returns the reference of a case: every thread run alone in a fresh
// process. The same threads are then run alone in THIS process (which has a
// history: other runtimes ran in it before); a difference means that the
// result of a script depends on what other runtimes did earlier - shared
// package-level state - and is filed as a violation of the case (key @solo).
func (sc *soloCache) get(r *engine.Run, sp Spec) (string, bool) {
	name := sp.Name()
	if v, ok := sc.m[name]; ok {
		return v, v != ""
	}
	logs, err := IsolatedSolo(sp)
	if err != nil {
		r.HarnessError(err.Error())
		sc.m[name] = ""
		return "", false
	}
	v := RenderLogs(logs)
	sc.m[name] = v
	if here := RenderLogs(InProcessSolo(sp)); here != v {
		again := RenderLogs(InProcessSolo(sp))
		r.Mismatch(engine.Mismatch{
			Key:      sp.Key() + "@solo",
			Input:    name + ": every thread run ALONE, one after the other, in a process in which other runtimes have run before",
			Expected: v,
			Observed: here,
			Note:     "expected = the same threads run alone in fresh processes; a second in-process computation gave: " + again,
			Aux:      bridgeAux(v, here, ""),
		})
	}
	return v, true
}

// bodySteps measures the number of scheduling points of each body run alone on
// a fresh runtime (used for the short/long classification and for evidence).
func bodySteps() map[int]int {
	out := map[int]int{}
	for i := range Bodies {
		n := 0
		c := NewCase(Spec{ScFresh, [][]int{{i}}}, Options{Yield: func() { n++ }})
		c.Threads[0]()
		out[i] = n
	}
	return out
}

// exploration of a case stops after its first violating schedule and of a
// family after maxViolationsPerFamily (per worker): a real defect fails
// thousands of schedules and one replayable witness per case is enough
const maxViolationsPerCase = 1
const maxViolationsPerFamily = 3

const deepSuffix = "+"

const thoroughBudget = 14 * time.Minute

var procStart = time.Now()

// estimate of the number of schedules of a plan (only used to divide the time
// budget between the "+" families): (total scheduling points)^b / b!.
func estimate(p plan, steps map[int]int) float64 {
	total := 0.0
	for _, l := range p.spec.Bodies {
		for _, b := range l {
			total += float64(steps[b])
		}
		if p.spec.Scenario == ScCopyBefore || p.spec.Scenario == ScCopyDuring {
			total += 260
		}
		if p.spec.Scenario == ScCopyOnly {
			total += 85
		}
		if insideContext(p.spec.Scenario) != nil {
			total += 230
		}
	}
	e := 1.0
	for k := 1; k <= p.bound; k++ {
		e *= total / float64(k)
	}
	return e
}

// deepPlans returns the cases of a scenario whose thorough bound exceeds the
// base (quick) bound, with that base bound.
func deepPlans(scenario string, steps map[int]int) (out []plan, base []int) {
	quick := plans(scenario, false, steps)
	for i, p := range plans(scenario, true, steps) {
		if p.bound > quick[i].bound {
			out = append(out, p)
			base = append(base, quick[i].bound)
		}
	}
	return out, base
}

func runScenario(r *engine.Run, scenario string, deep bool) {
	runtime.GOMAXPROCS(1)
	solo := &soloCache{m: map[string]string{}}
	if r.ReplayKey != "" {
		replayKey(r, scenario, solo)
		return
	}
	steps := bodySteps()
	var pl []plan
	var base []int
	var deadline time.Time
	if deep {
		pl, base = deepPlans(scenario, steps)
		// time slice of this family: remaining budget x own weight / weight of
		// this and all later "+" families
		own, rest := 0.0, 0.0
		seen := false
		for _, sc := range Scenarios {
			if sc == scenario {
				seen = true
			}
			if !seen {
				continue
			}
			dp, _ := deepPlans(sc, steps)
			w := 0.0
			for _, p := range dp {
				w += estimate(p, steps)
			}
			if sc == scenario {
				own = w
			}
			rest += w
		}
		remaining := time.Until(procStart.Add(thoroughBudget - 15*time.Second))
		if remaining < 0 {
			remaining = 0
		}
		if rest > 0 {
			deadline = time.Now().Add(time.Duration(float64(remaining) * own / rest))
		}
	} else {
		// the base enumeration is the quick one in both tiers
		pl = plans(scenario, false, steps)
		base = make([]int, len(pl))
		for i := range base {
			base[i] = -1
		}
	}
	completed := 0
	famViolations := 0
	stopped := false
	only := os.Getenv("MC_C20_ONLY") // development aid: restrict to cases whose name contains this
	for i, p := range pl {
		if only != "" && !strings.Contains(p.spec.Name(), only) {
			r.Cap("MC_C20_ONLY set: cases filtered")
			continue
		}
		if r.Expired() || (!deadline.IsZero() && time.Now().After(deadline)) {
			r.Cap(fmt.Sprintf("time budget reached before case %s (%d of %d cases completed)", p.spec.Name(), completed, len(pl)))
			stopped = true
			break
		}
		if famViolations >= maxViolationsPerFamily {
			r.Cap(fmt.Sprintf("exploration stopped after %d violating cases", famViolations))
			stopped = true
			break
		}
		ok, bad := exploreCase(r, p, base[i], deadline, solo)
		if ok {
			completed++
		}
		if bad {
			famViolations++
		}
	}
	if !stopped && completed == len(pl) {
		bounds := map[int]int{}
		maxBound := 0
		for _, p := range pl {
			bounds[p.bound]++
			if p.bound > maxBound {
				maxBound = p.bound
			}
		}
		var parts []string
		for b := 0; b <= maxBound; b++ {
			if bounds[b] > 0 {
				parts = append(parts, fmt.Sprintf("%d cases at <=%d preemptions", bounds[b], b))
			}
		}
		val := strings.Join(parts, ", ")
		if deep {
			val += " (completed by every worker unless caps_hit lists this family)"
		}
		r.Bound("preemption_bound", val)
		r.Bound("cases", fmt.Sprint(len(pl)))
	}
}

// exploreCase enumerates all schedules of one case with at most p.bound
// preemptions. Schedules without preemption are executed by every worker (and
// counted by shard 0); the subtree below each first preemption is owned by one
// worker (r.Mine on the running index of first-preemption nodes).
func exploreCase(r *engine.Run, p plan, base int, deadline time.Time, solo *soloCache) (complete bool, violated bool) {
	sp := p.spec
	want, ok := solo.get(r, sp)
	if !ok {
		return false, false
	}
	name := sp.Name()
	caseName := sp.Key()
	violations := 0
	complete = true
	count0 := r.Shard == 0 || r.NShards <= 1

	var rec func(prefix []int, cost int, owned bool)
	rec = func(prefix []int, cost int, owned bool) {
		// after the violation limit only the (few) preemption-free schedules are
		// still executed, so that every worker keeps calling r.Mine() in step
		if violations >= maxViolationsPerCase && owned {
			return
		}
		if r.Expired() || (!deadline.IsZero() && time.Now().After(deadline)) {
			if complete {
				r.Cap(fmt.Sprintf("time budget reached inside %s (bound %d not completed)", name, p.bound))
			}
			complete = false
			return
		}
		key := caseName + "@" + sparse(prefix)
		r.Begin(key)
		res := execute(sp, prefix, nil)
		r.End()
		if res.err != "" {
			r.HarnessError(name + "@" + sparse(prefix) + ": " + res.err)
			return
		}
		// schedules within the base bound were counted (and checked) by the base family
		if (owned || count0) && res.preempt > base {
			r.Eval(res.preempt > 0)
			r.Tree(int64(len(res.points)-len(prefix)), int64(len(res.points)-len(prefix)))
			r.Outcome(name + "|" + res.observed())
			if r.WantSample() && res.preempt == p.bound {
				r.Sample(fmt.Sprintf("%s schedule %s (%d preemptions): %s => logs equal solo: %v", name, sparse(res.choices), res.preempt, res.trace, res.logs == want))
			}
			if res.logs != want || res.problems != "" {
				// mismatches of the open known finding (bridged Go values) are
				// filed but do not stop the exploration of the case
				if bridgeAux(want, res.logs, res.problems)["only_bridged_values"] != "1" || !hasTemplate(sp.Scenario) {
					violations++
				}
				report(r, sp, caseName, res, want)
			}
		}
		pts := res.points
		for i := len(prefix); i < len(pts); i++ {
			nc := cost + int(pts[i].cost)
			if nc > p.bound {
				continue
			}
			for alt := 1; alt < pts[i].n; alt++ {
				own := owned
				if !owned && nc > 0 {
					// first preemption on this path: shard here
					if !r.Mine() {
						continue
					}
					own = true
				}
				np := make([]int, i+1)
				for j := 0; j < i; j++ {
					np[j] = pts[j].choice
				}
				np[i] = alt
				rec(np, nc, own)
			}
		}
	}
	rec(nil, 0, false)
	if violations >= maxViolationsPerCase {
		r.Note(fmt.Sprintf("%s: exploration of this case stopped after %d violating schedules", name, violations))
		complete = false
	}
	return complete, violations > 0
}

// report re-executes a failing schedule twice from its full choice vector and
// files the mismatch only if all three executions observed the same thing.
func report(r *engine.Run, sp Spec, caseName string, res *execResult, want string) {
	full := res.choices
	aux := bridgeAux(want, res.logs, res.problems)
	for k := 0; k < 2 && aux["only_bridged_values"] != "1"; k++ {
		again := execute(sp, full, nil)
		if again.err != "" || again.observed() != res.observed() || sparse(again.choices) != sparse(full) {
			r.HarnessError(fmt.Sprintf("%s@%s: failing schedule did not replay deterministically (replay %d): first %q, replay %q %s",
				sp.Name(), sparse(full), k+1, res.observed(), again.observed(), again.err))
			return
		}
	}
	r.Mismatch(engine.Mismatch{
		Key:      caseName + "@" + sparse(full),
		Input:    fmt.Sprintf("%s, schedule %s (%d preemptions), interleaving %s", sp.Name(), sparse(full), res.preempt, res.trace),
		Expected: want,
		Observed: res.observed(),
		Note:     "replayed twice with identical observations; expected = solo logs (each thread alone), shared Script/Program unmodified",
		Aux:      aux,
	})
}

func replayKey(r *engine.Run, scenario string, solo *soloCache) {
	i := strings.LastIndexByte(r.ReplayKey, '@')
	if i < 0 {
		return
	}
	sp, err := ParseSpec(scenario + "/" + r.ReplayKey[:i])
	if err != nil {
		r.HarnessError(err.Error())
		return
	}
	if r.ReplayKey[i+1:] == "solo" {
		// history-dependence witness: run the threads alone twice in this process
		InProcessSolo(sp)
		solo.get(r, sp)
		r.Eval(true)
		return
	}
	prefix, err := parseSparse(r.ReplayKey[i+1:])
	if err != nil {
		r.HarnessError(err.Error())
		return
	}
	want, ok := solo.get(r, sp)
	if !ok {
		return
	}
	res := execute(sp, prefix, nil)
	if res.err != "" {
		r.HarnessError(res.err)
		return
	}
	r.Eval(res.preempt > 0)
	if res.logs != want || res.problems != "" {
		report(r, sp, r.ReplayKey[:i], res, want)
	}
}

// ---------------------------------------------------------------------------
// sharing: heap graph intersection
// ---------------------------------------------------------------------------

func sharingSpecs() []Spec {
	nb := len(Bodies)
	var out []Spec
	for _, sc := range []string{ScFresh, ScCopyBefore, ScCopyDuring, ScScript, ScProgram, ScReuse, ScCopyOnly} {
		for i := 0; i < nb; i++ {
			j := (i + 1) % nb
			switch sc {
			case ScFresh:
				out = append(out, Spec{sc, [][]int{{i}, {i}}}, Spec{sc, [][]int{{i}, {j}}})
			case ScCopyBefore, ScCopyDuring:
				out = append(out, Spec{sc, [][]int{{i}, {j}}})
			case ScScript, ScProgram:
				out = append(out, Spec{sc, [][]int{{i}, {i}}})
			case ScReuse:
				out = append(out, Spec{sc, [][]int{rep(i, 2), rep(i, 2)}})
			case ScCopyOnly:
				if i == 0 {
					out = append(out, Spec{sc, [][]int{{}, {}}})
				}
			}
		}
	}
	for _, ctx := range InsideContexts {
		out = append(out, insideSpec(ctx, [][]int{{}, {}}))
	}
	out = append(out, Spec{ScScript3, [][]int{{1}, {1}, {1}}}, Spec{ScScript3, [][]int{{4}, {4}, {4}}})
	return out
}

// runSharing walks the heap graphs of the runtimes of a case (and of the
// template) (a) with every thread stopped in the middle of its program and
// (b) at rest after all threads have finished, and requires the pairwise
// intersections to consist of allow-listed immutable objects only.
func runSharing(r *engine.Run) {
	runtime.GOMAXPROCS(1)
	for _, sp := range sharingSpecs() {
		key := sp.Name()
		if !r.MineKey(key) {
			continue
		}
		r.Begin(key)
		sharingCase(r, sp, key)
		r.End()
	}
	r.Bound("walk_points", "all threads stopped mid-program; at rest after completion; copy-inside: also inside the host callback that took the copies, template mid-execution")
}

func sharingCase(r *engine.Run, sp Spec, key string) {
	// learn the length of each thread's program: root schedules starting with each thread
	n := len(sp.Bodies)
	root := execute(sp, nil, nil)
	if root.err != "" {
		r.HarnessError(key + ": " + root.err)
		return
	}
	// T0 runs first; its number of scheduling points = recorded points - 1 (initial pick)
	// stop T0 half-way, then T1 half-way of ITS program, ... : build the prefix incrementally
	prefix := []int{0}
	own := 0 // scheduling points of T0 = the preemption points following the initial pick
	for i := 1; i < len(root.points) && root.points[i].cost > 0; i++ {
		own++
	}
	half := own / 2
	for k := 0; k < half; k++ {
		prefix = append(prefix, 0)
	}
	prefix = append(prefix, 1) // preempt T0 -> T1 (first other thread)
	for t := 1; t < n; t++ {
		probe := execute(sp, prefix, nil)
		if probe.err != "" {
			r.HarnessError(key + ": " + probe.err)
			return
		}
		// points recorded after the prefix while thread t ran to completion
		ran := 0
		for i := len(prefix); i < len(probe.points); i++ {
			if probe.points[i].cost > 0 {
				ran++
			} else {
				break
			}
		}
		for k := 0; k < ran/2; k++ {
			prefix = append(prefix, 0)
		}
		// preempt thread t: alternatives are [t, others ascending]; pick the next higher thread if any, else T0
		alt := 1
		if t+1 < n {
			alt = 1 + t // others ascending: 0..t-1 come first, then t+1
		}
		prefix = append(prefix, alt)
	}
	midSwitch := n // the n-th context switch happens when the last thread is preempted mid-way
	var report []string
	allowedTotal := map[string]int{}
	walks := 0
	inspect := func(c *Case, nswitch int) {
		if nswitch != midSwitch && nswitch != -1 && nswitch != insideSnap {
			return
		}
		when := "mid-run"
		if nswitch == -1 {
			when = "at rest"
		}
		if nswitch == insideSnap {
			when = "inside the host callback that took the copies (template executing)"
		}
		type root struct {
			name string
			regs []Region
		}
		var roots []root
		for i, vm := range c.VMs {
			if vm != nil {
				roots = append(roots, root{fmt.Sprintf("T%d", i), Regions(vm, fmt.Sprintf("T%d", i))})
			}
		}
		if c.Template != nil {
			roots = append(roots, root{"template", Regions(c.Template, "template")})
		}
		for i := 0; i < len(roots); i++ {
			for j := i + 1; j < len(roots); j++ {
				walks++
				allowed, bad := Classify(Intersect(roots[i].regs, roots[j].regs))
				for k, v := range allowed {
					allowedTotal[k] += v
				}
				for _, b := range bad {
					report = append(report, fmt.Sprintf("%s %s/%s: %s", when, roots[i].name, roots[j].name, b.String()))
				}
			}
		}
	}
	res := execute(sp, prefix, inspect)
	if res.err != "" {
		r.HarnessError(key + ": " + res.err)
		return
	}
	r.Eval(true)
	r.Tree(int64(walks), int64(walks))
	var keys []string
	for k, v := range allowedTotal {
		keys = append(keys, fmt.Sprintf("%s x%d", k, v))
	}
	sort.Strings(keys)
	// outcome: the set of allow-listed kinds met (counts vary with allocation details)
	var kinds []string
	for k := range allowedTotal {
		kinds = append(kinds, k)
	}
	sort.Strings(kinds)
	r.Outcome(strings.Join(kinds, ","))
	if r.WantSample() {
		r.Sample(fmt.Sprintf("%s: %d pairwise intersections; shared (all allow-listed): %s", key, walks, strings.Join(keys, ", ")))
	}
	if len(report) > 0 {
		aux := map[string]string{"all_via_bridged_values": "1"}
		for _, l := range report {
			if !viaBridgedValue(l) {
				aux["all_via_bridged_values"] = "0"
			}
		}
		sort.Strings(report)
		if len(report) > 8 {
			report = append(report[:8], fmt.Sprintf("... %d more", len(report)-8))
		}
		r.Mismatch(engine.Mismatch{
			Key:      key,
			Input:    key + ": heap graphs of the runtimes (reflective walk), schedule " + sparse(prefix),
			Expected: "intersection consists of allow-listed immutable objects only",
			Observed: strings.Join(report, " ; "),
			Aux:      aux,
		})
	}
}

// ---------------------------------------------------------------------------
// selfcheck: the harness's own machinery
// ---------------------------------------------------------------------------

func runSelfCheck(r *engine.Run) {
	runtime.GOMAXPROCS(1)
	steps := bodySteps()
	var parts []string
	for i, b := range Bodies {
		parts = append(parts, fmt.Sprintf("%s=%d", b.Name, steps[i]))
		if steps[i] < 20 {
			r.HarnessError(fmt.Sprintf("body %s has only %d scheduling points", b.Name, steps[i]))
		}
	}
	r.Note("scheduling points per body (fresh runtime, incl. the points before New and Run): " + strings.Join(parts, " "))
	// every body must run to completion without an uncaught error on a fresh runtime
	for i, b := range Bodies {
		logs, err := Solo(Spec{ScFresh, [][]int{{i}}})
		if err != nil {
			r.HarnessError(err.Error())
			continue
		}
		last := logs[0][len(logs[0])-1]
		r.Eval(true)
		r.Outcome(last)
		if strings.Contains(last, "!!") || strings.Contains(last, "PANIC") {
			r.HarnessError(fmt.Sprintf("body %s does not complete normally: %s", b.Name, last))
		}
		if r.WantSample() {
			r.Sample(fmt.Sprintf("solo %s: %s", b.Name, strings.Join(logs[0], " ; ")))
		}
	}
	// every copy-inside context runs to completion on a template and calls snap() exactly once
	for _, ctx := range InsideContexts {
		func() {
			defer func() {
				if p := recover(); p != nil {
					r.HarnessError(fmt.Sprint(p))
				}
			}()
			sp := insideSpec(ctx, [][]int{{}, {}})
			if back, err := ParseSpec(sp.Name()); err != nil || back.Name() != sp.Name() || back.Key() != sp.Key() {
				r.HarnessError("case name of " + sp.Name() + " does not parse back")
			}
			NewCase(sp, Options{})
		}()
	}
	// the scheduler replays: same prefix twice gives the same points, trace and logs
	sp := Spec{ScFresh, [][]int{{0}, {1}}}
	a := execute(sp, []int{0, 0, 0, 0, 0, 1}, nil)
	b := execute(sp, []int{0, 0, 0, 0, 0, 1}, nil)
	if a.trace != b.trace || a.observed() != b.observed() || len(a.points) != len(b.points) || a.err != "" {
		r.HarnessError(fmt.Sprintf("scheduler replay is not deterministic: %s / %s %s", a.trace, b.trace, a.err))
	}
	if a.preempt != 1 {
		r.HarnessError(fmt.Sprintf("expected 1 preemption, got %d (%s)", a.preempt, a.trace))
	}
	// an out-of-range choice is a hard error
	if bad := execute(sp, []int{5}, nil); bad.err == "" {
		r.HarnessError("out-of-range choice was not detected")
	}
	// the structural hash sees a modification of a Script's source text / tree and is stable otherwise
	s1, s2 := compileScript(Bodies[0].Src), compileScript(Bodies[0].Src)
	s3 := compileScript(Bodies[0].Src + " ")
	if StructHash(s1) != StructHash(s2) || StructHash(s1) != StructHash(s1) {
		r.HarnessError("structural hash is not stable")
	}
	if StructHash(s1) == StructHash(s3) {
		r.HarnessError("structural hash does not distinguish different scripts")
	}
	// the hash terminates and is deterministic on a cyclic graph with maps (a
	// whole runtime); two fresh runtimes are structurally identical
	va, vb := otto.New(), otto.New()
	if ha, hb := StructHash(va), StructHash(vb); ha != StructHash(va) || ha != hb {
		r.HarnessError("structural hash of a whole runtime is not deterministic")
	}
	if _, err := va.Run("var changed = 1"); err != nil || StructHash(va) == StructHash(vb) {
		r.HarnessError("structural hash does not see a new global variable")
	}
	// the region walker finds a deliberately shared mutable object
	type box struct{ p *[]int }
	sh := &[]int{1, 2, 3}
	ba, bb := &box{sh}, &box{sh}
	if _, bad := Classify(Intersect(Regions(ba, "a"), Regions(bb, "b"))); len(bad) == 0 {
		r.HarnessError("region walker does not find a shared mutable object")
	}
	r.Eval(true)
}

// ---------------------------------------------------------------------------
// known finding: bridged Go values are not re-homed by Copy()
// ---------------------------------------------------------------------------

var bridgeSegment = regexp.MustCompile(`bridge.*?/bridge`)

// maskBridge blanks the log items between the "bridge" ... "/bridge" markers
// (the observations of bridged Go values made by the Probe and by the
// template's own log).
func maskBridge(s string) string { return bridgeSegment.ReplaceAllString(s, "bridge#/bridge") }

// bridgeAux classifies a log mismatch for the known-finding signature:
// only_bridged_values=1 iff expected and observed are equal once the
// observations of bridged Go values are blanked and no other problem (modified
// Script, consumed interrupt) was recorded.
func bridgeAux(expected, observed, problems string) map[string]string {
	v := "0"
	if problems == "" && expected != observed && maskBridge(expected) == maskBridge(observed) {
		v = "1"
	}
	return map[string]string{"only_bridged_values": v}
}

// viaBridgedValue: a shared heap region is attributable to the bridged values
// iff every copy's path reaches it through the result of a reflected Go function stored
// by the Probe (T.made) or it is the *goSliceObject wrapper of the bridged slice.
func viaBridgedValue(line string) bool {
	i := strings.Index(line, ": ")
	if i < 0 {
		return false
	}
	sides := strings.Split(line[i+2:], "  <->  ")
	if len(sides) != 2 {
		return false
	}
	for _, side := range sides {
		if strings.Contains(side, " at template") {
			continue // the template's own path to its own heap
		}
		ok := strings.Contains(side, ".property[made]") ||
			(strings.HasPrefix(side, "*otto.goSliceObject at ") && strings.HasSuffix(side, ".property[gslice].value.value*.value"))
		if !ok {
			return false
		}
	}
	return true
}

func init() {
	engine.RegisterSignature("c20-bridged-go-values-keep-template-runtime", func(m *engine.Mismatch) bool {
		switch strings.TrimSuffix(m.Family, deepSuffix) {
		case ScCopyBefore, ScCopyDuring:
			return m.Aux["only_bridged_values"] == "1"
		case "sharing":
			return m.Aux["all_via_bridged_values"] == "1" && (strings.HasPrefix(m.Key, ScCopyBefore+"/") || strings.HasPrefix(m.Key, ScCopyDuring+"/") || strings.HasPrefix(m.Key, ScCopyOnly+"/"))
		}
		return false
	})
}
