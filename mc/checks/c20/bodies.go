package c20

// Body is one small JavaScript program of the C20 harness. Every body logs
// intermediate observations through the host function log(...) and ends in an
// expression whose value is the final observation. Bodies are deterministic:
// no Date.now, no enumeration of JSON.parse'd objects (Go map order), Math.random
// only through the per-runtime SetRandomSource seam.
//
// Together the bodies touch every piece of package-level state of otto that the
// design lists: literal nodes (trueLiteral, falseLiteral, nullLiteral,
// emptyStatement), regexp literals, new RegExp, the runtime parser (eval,
// Function), error creation with stack traces, sort with comparator, replace with
// callback and with $-patterns (builtinStringReplaceRegexp), JSON both ways, Date
// parsing/formatting (dateLayoutList, utcTimeZone), defineProperty with
// get: undefined (nilGetSetObject sentinel), number formatting
// (matchLeading0Exponent, defaultLanguage), URI coding (encodeURI regexps),
// parseFloat/parseInt regexps, Math.random.
type Body struct {
	Name string
	Src  string
}

// Bodies is the fixed list of harness programs (order is part of the case keys).
var Bodies = []Body{
	{"literals", `
var a = [1, 2.5, 0x10, "s", true, false, null];
var o = {x: 1, get z() { return null; }, f: function(q) { return q === null; }};
log(a.join("|"), o.z, o.f(null), o.f(false));
;
log(/ab+c/gi.source, true && !false, null == undefined, .5e1, "A\x42\n".length);
a.length + o.x;
`},
	{"regexp", `
var re = /(\d+)-(\w+)/g, m, out = [];
while ((m = re.exec("12-ab 3-c")) !== null) { out.push(m[2] + re.lastIndex); }
log(out.join(), /x/.test("axb"), "aXbxc".replace(/x/gi, "_"), "a,b;c".split(/[,;]/).length);
log(re.global, re.multiline, String(re), re.lastIndex);
"q1w22".match(/\d+/g).join("+") + "abc".search(/c/);
`},
	{"newregexp", `
var r1 = new RegExp("a" + "b*", "g"), r2 = RegExp(r1);
log(r1 === r2, r1.source, "xabbbyab".replace(r1, "-"), new RegExp("[a-c]+", "i").exec("xxBCAd")[0]);
try { new RegExp("("); log("no error"); } catch (e) { log(e.name); }
try { new RegExp("a", "gg"); log("no error"); } catch (e2) { log(e2.name); }
r1.test("ab") + ":" + r1.lastIndex;
`},
	{"evalfn", `
var q = eval("var w = 1 + 2; w * 2");
var mul = new Function("a", "b", "return a * b");
log(q, w, mul(3, 4), mul.length, Function("return typeof this")());
try { eval("var = ;"); log("no error"); } catch (e) { log(e.name); }
try { new Function("a", "return a +"); log("no error"); } catch (e2) { log(e2.name); }
(0, eval)("typeof q") + eval("[true, null, /r/.source].join()");
`},
	{"errors", `
function thrower(k) { if (k > 1) { return thrower(k - 1); } return null.x; }
try { thrower(2); } catch (e) { log(e.name, e instanceof TypeError, e.stack.split("\n").length); }
try { undefinedName; } catch (e2) { log(e2.name, e2.message); }
try { throw new Error("m1"); } catch (e4) { log(String(e4), e4.stack.indexOf("m1") >= 0); } finally { log("fin"); }
try { new Array(-1); } catch (e3) { e3.name + (new RangeError("r").stack.length > 0); }
`},
	{"sort", `
var n = 0, arr = [5, 3, 9, 1];
arr.sort(function(x, y) { n++; return x - y; });
log(arr.join(), n > 0, ["b", "a", "C", 10, 9].sort().join());
var objs = [{k: 2, v: "b"}, {k: 1, v: "a"}];
objs.sort(function(p, r) { return p.k - r.k; });
objs[0].v + arr.reverse()[0];
`},
	{"replacecb", `
var cnt = 0;
var t = "a1b22c333".replace(/\d+/g, function(m, off) { cnt++; return "<" + m.length + "@" + off + ">"; });
log(t, cnt);
log("john smith".replace(/(\w+)\s(\w+)/, "$2, $1 [$&] $$"), "aaa".replace("a", "b"), "a.b".replace(".", "$&$&"));
"one two".replace(/(\w+) (\w+)/, function(m, g1, g2) { return g2 + " " + g1; });
`},
	{"json", `
var src = {a: [1, "two", null, {b: 1.5}], s: "q\"\né", u: undefined, f: function() {}};
log(JSON.stringify(src), JSON.stringify([1, [2]], null, 1), JSON.stringify({k: 1, j: 2}, ["j"]));
var back = JSON.parse('{"arr": [1, {"x": "y"}], "t": true, "z": null, "e": 1e2, "s": "\\u0041"}');
log(back.arr[1].x, back.t, back.z, back.e, back.s);
try { JSON.parse("{bad"); log("no error"); } catch (e) { log(e.name); }
JSON.stringify(JSON.parse("[1,[2]]", function(k, v) { return v === 2 ? 4 : v; })) + JSON.stringify(new Date(0));
`},
	{"date", `
var d = new Date("2001-02-03T04:05:06Z");
log(d.getTime(), d.toISOString(), d.getUTCDay(), d.getUTCMonth());
log(Date.parse("2001/02/03 04:05:06"), Date.parse("2001-02"), Date.UTC(1999, 11, 31, 23, 59, 59, 999), isNaN(Date.parse("junk")));
var d2 = new Date(Date.UTC(2000, 1, 29)); d2.setUTCDate(30);
log(d2.toUTCString(), JSON.stringify(d2), String(new Date(NaN)));
new Date(2020, 0, 15, 12).getUTCHours() + typeof Date();
`},
	{"defprop", `
var o = {};
Object.defineProperty(o, "x", {get: undefined, configurable: true, enumerable: true});
var dx = Object.getOwnPropertyDescriptor(o, "x");
log(o.x, typeof dx.get, typeof dx.set, dx.enumerable, "get" in dx);
Object.defineProperty(o, "y", {set: undefined}); o.y = 5;
Object.defineProperty(o, "z", {get: function() { return 42; }, set: undefined, enumerable: true});
Object.freeze(o);
log(o.y, Object.keys(o).join(), Object.isFrozen(o), delete o.x);
Object.create(o, {own: {value: "v"}}).own + o.z;
`},
	{"numfmt", `
log((255).toString(16), (0.1 + 0.2).toFixed(10), 1e21 + "", 1e-7 + "", 1 / 3 + "");
log((1234.5678).toExponential(2), (1234.5678).toPrecision(6), (1e21).toFixed(2), (1234.5).toLocaleString());
log(parseInt("0x1f"), parseInt("12px", 10), parseFloat("3.14abc"), parseFloat("-Infinityx"), Number("  12  "), +"1e3");
String(-0) + (-1.5e-10).toString() + (5e-324).toString() + 2e+21;
`},
	{"uri", `
log(encodeURIComponent("a b&c/d?\u00e9"), encodeURI("http://x/a b?q=1&r=\u00e9#h"));
log(decodeURIComponent("%41%20%C3%A9"), decodeURI("%3B%41%2f"), escape("a b+c\u00e9"), unescape("%u0041%41"));
try { decodeURIComponent("%"); log("no error"); } catch (e) { log(e.name); }
try { encodeURIComponent("\uD800"); log("no error"); } catch (e2) { log(e2.name); }
decodeURIComponent(encodeURIComponent("~!*()'\u4e2d")) + encodeURI(";/?:@&=+$,#");
`},
	{"random", `
var r = [];
for (var i = 0; i < 2; i++) { r.push(Math.floor(Math.random() * 1000)); }
var x = Math.random();
log(r.join(), x >= 0 && x < 1, Math.max(1, 7, 3), Math.round(2.5));
Math.floor(Math.random() * 1000) + ":" + (Math.atan2(0, -1) === Math.PI);
`},
	{"control", `
var acc = [];
outer: for (var i = 0; i < 3; i++) { do { if (i == 1) continue outer; acc.push(i); } while (false); }
function f(a) { return arguments.length + (this && this.k) + a; }
log(acc.join(), f.call({k: "c"}, 2, 3), f.bind({k: "b"}, 5)(6));
switch (acc.length) { case 2: log("two"); case 5: log("fall"); break; default: log("dflt"); }
for (var k in {p: 1, q: 2}) { acc.push(k); } with ({wv: 9}) { acc.push(wv); }
var fi = ""; for (var fk = (fi += "I", "z") in {a: 1, b: 2}) { fi += fk; } log(fi, fk);
acc.join() + [1, 2].map(function(v) { return v * 2; });
`},
	// The next bodies first use a construct normally (the "victim" part, logged)
	// and then leave the same kind of construct ABRUPTLY, by a throw from the
	// middle of it, over overlapping property names: whatever per-statement
	// scratch state the interpreter keeps outside the runtime (a pooled set of
	// visited names, a cached comparator, a reused buffer) is left in its
	// mid-statement condition, and the victim part of the NEXT runtime - run
	// sequentially after it or interleaved - would see it.
	{"abortloops", `
var seen = []; for (var k in {alpha: 1, beta: 2, gamma: 3}) { seen.push(k); }
log(seen.join());
try { for (var k2 in {alpha: 1, beta: 2}) { if (k2 == "beta") throw k2; } } catch (e) { log("forin", e); }
try { for (var i = 0; i < 3; i++) { if (i == 1) throw i; } } catch (e1) { log("for", e1); }
try { var w = 0; while (true) { if (++w == 2) throw w; } } catch (e2) { log("while", e2); }
try { switch (1) { case 1: with ({p: 5}) { try { throw p; } finally { log("fin"); } } } } catch (e3) { log("switch-with", e3); }
seen.length;
`},
	{"abortcalls", `
var o = {alpha: 1, beta: 2};
log(Object.keys(o).join(), [3, 1, 2].sort(function(a, b) { return a - b; }).join(), "a-b".replace(/-/, function() { return "+"; }), JSON.stringify(o));
try { [1, 2, 3].forEach(function(v) { if (v == 2) throw "fe" + v; }); } catch (e) { log(e); }
try { [3, 1, 2].sort(function(a, b) { throw "cmp"; }); } catch (e1) { log(e1); }
try { "a-b-c".replace(/-/g, function(m, off) { if (off > 1) throw "rp" + off; return "+"; }); } catch (e2) { log(e2); }
try { JSON.stringify({alpha: 1, beta: {toJSON: function() { throw "tj"; }}}); } catch (e3) { log(e3); }
try { JSON.parse('{"beta": 2}', function(k, v) { if (v === 2) throw "rv"; return v; }); } catch (e4) { log(e4); }
`},
	// halt() queues a panicking function on the runtime's OWN Interrupt channel
	// (the documented way to stop a script): the for-in below is left by a Go
	// panic that no JavaScript handler sees, and Run itself ends abruptly.
	{"abortintr", `
var names = []; for (var k in {alpha: 1, beta: 2, gamma: 3}) { names.push(k); }
log(names.join(), Object.keys({beta: 1, alpha: 2}).join());
for (var k2 in {alpha: 1, beta: 2}) { halt(); log("after halt", k2); }
log("not reached when the runtime has its own Interrupt channel");
`},
}

// Prelude is run once on a template runtime before it is copied: it gives the
// copies non-trivial user state of every clonable kind: array, regexp with
// lastIndex, date, error, closure with captured counter, accessor, arguments
// object, and bound functions with 1-4 bound arguments, primitive-only and
// with object arguments. The bind calls are made with 2, 3 and 5 arguments on
// purpose: the bound list is a sub-slice of the bind call's argument slice
// (capacities 2, 4, 8), so cat and cat4 carry spare capacity that a later call
// with extra arguments appends into in place. The receivers of the bound
// concat functions convert through a JavaScript toString, which puts
// scheduling points between that append and the use of the argument list.
const Prelude = `
var T = {
  arr: [1, 2, 3], re: /t+/g, d: new Date(86400000), err: new Error("tmpl"), counter: 0, seen: 0,
  obj: {n: {deep: [0]}, gone: 1},
  next: (function() { var c = 0; return function() { c++; return c; }; })(),
  add: function(x) { return x + this.k; },
  mix: function(o, p, q) { return o.deep.length + p + q + this.k; },
  args: (function(a, b) { return arguments; })(1, 2)
};
T.subject = {toString: function() { T.seen++; return "s:"; }};
T.bound = T.add.bind({k: 10});
T.cat = String.prototype.concat.bind(T.subject, "a", "b");
T.cat4 = String.prototype.concat.bind(T.subject, 1, 2, 3, 4);
T.cat1 = String.prototype.concat.bind(T.subject, "z");
T.pushb = Array.prototype.push.bind(T.arr, 7, 8);
T.bobj = T.mix.bind({k: 10}, T.obj.n, 2);
Object.defineProperty(T, "acc", {get: function() { return this.counter * 2; }, set: undefined, configurable: true});
T.re.exec("xttty");
T.next();
// one function per binding kind, each counting in template-derived state:
// named function expression recursing through its self-name (the only
// immutable declarative binding), closure over an eval-declared variable,
// catch-parameter closure, with-scope closure, getter/setter pair, functions
// stored in an array / on a prototype chain, arguments-object aliasing
T.calls = 0; T.where = "tmpl";
T.fact = function self(n) { T.calls++; return n < 2 ? T.where : n + self(n - 1); };
T.same = function me() { return me === T.same; };
T.ev = (function() { eval("var ec = 0"); return function() { return ++ec; }; })();
try { throw {n: 0}; } catch (ex) { T.cth = function() { return ++ex.n; }; }
with ({w: 0}) { T.wth = function() { return ++w; }; }
T.gsv = 0;
Object.defineProperty(T, "gs", {get: function() { return T.gsv; }, set: function(v) { T.gsv = v + 1; }, configurable: true});
T.fns = [function() { return ++T.calls; }, {f: function() { return T.calls += 10; }}];
T.proto = {pc: 0, inc: function() { return ++this.pc; }};
T.child = Object.create(T.proto);
T.alias = (function(a) { T.rd = function() { return a; }; return arguments; })(1);
// strings held as UTF-16 code units (String.fromCharCode) and built by
// concatenation - ASCII, non-ASCII, astral - and arrays of primitives: data
// that looks immutable; every copy derives NEW values from it by appending
T.f = String.fromCharCode;
T.u16 = T.f(97) + T.f(98); T.u16 = T.u16 + T.f(99);
T.u16n = T.f(0x100) + T.f(0x4e2d); T.u16n = T.u16n + T.f(0xe9);
T.u16a = T.f(0xd83d) + T.f(0xde00); T.u16a = T.u16a + T.f(33);
T.prims = [1, "two", 3.5].concat([true]);
// accessor SHAPES: {get only, set only, get+set, both undefined} on an object
// literal, through defineProperty, on a prototype, on an array index, on the
// global object and on a function; every setter counts in T.audit
T.audit = [];
T.shapes = {get ro() { return T.audit.length; }, set wo(v) { T.audit.push("lit" + v); }, get rw() { return T.audit.length; }, set rw(v) { T.audit.push("rw" + v); }};
Object.defineProperty(T.shapes, "dwo", {set: function(v) { T.audit.push("dp" + v); }, configurable: true});
Object.defineProperty(T.shapes, "dro", {get: function() { return "dro" + T.audit.length; }, configurable: true});
Object.defineProperty(T.shapes, "none", {get: undefined, set: undefined, configurable: true});
T.sproto = {}; Object.defineProperty(T.sproto, "pwo", {set: function(v) { T.audit.push("proto" + v); }});
T.schild = Object.create(T.sproto);
T.sarr = [0]; Object.defineProperty(T.sarr, "1", {set: function(v) { T.audit.push("idx" + v); }, configurable: true});
Object.defineProperty(this, "gwo", {set: function(v) { T.audit.push("glob" + v); }, configurable: true});
Object.defineProperty(T.add, "fwo", {set: function(v) { T.audit.push("fn" + v); }});
// helpers of the frames observation (FramesSrc): the stack of an error thrown
// through a native function object tells WHICH runtime's call chain built it
T.getCaller = function g() { return g.caller; };
T.trace = function(f) { return (function inner() { try { return "ok:" + f(); } catch (e) { return e.name + "|" + String(e.stack).replace(/\d+/g, "#").replace(/\s+/g, " "); } })(); };
"prelude";
`

// Probe reads, calls and mutates the template-derived state (TID is the
// per-thread constant the harness sets on every runtime); it runs on a copy
// after the body, so state wrongly shared between copies (or with the
// template) shows up in the other copy's log.
const Probe = `
T.arr.push(T.counter++); T.d.setUTCDate(T.next() + 1); T.obj.n.deep[0]++; delete T.obj.gone; T.d.setTime(T.d.getTime() + TID);
log(T.arr.join(), T.acc, T.bound(T.args[0]++), T.obj.n.deep[0], T.d.getTime(), T.re.test("ttxtt"), T.re.lastIndex, T.err.message += "!");
log(T.cat("<" + TID + ">"), T.cat4(TID, "!"), T.cat1(TID), T.pushb(TID), T.bobj(TID), T.seen, "gone" in T.obj);
if (BRF) { T.made = gmk(); Object.getPrototypeOf(T.made).leak = "copy" + TID; }
log("bridge", BRF && Object.getPrototypeOf(T.made) === Array.prototype, BRF && T.made instanceof Array, BRF && T.made.join(), BRF && gff()(), gslice.length, BRS && (gslice.length = TID, gslice.length), gslice[0], gmap.a + gmap.b, gstruct.N + gstruct.Twice(), garray[1], gconv(TID), gcb(function(x) { return x + TID; }), "/bridge");
T.shapes.wo = TID; T.shapes.rw = TID; T.shapes.dwo = TID; T.shapes.none = TID; T.schild.pwo = TID; T.sarr[1] = TID; gwo = TID; T.add.fwo = TID;
log("accessors", T.audit.join(), T.shapes.ro, T.shapes.rw, T.shapes.dro, T.shapes.none, T.shapes.wo, T.sarr.length);
var MINE = [T.u16 + T.f(87 + TID), T.u16n + T.f(0x3b1 + TID), T.u16a + T.f(48 + TID), T.u16 + T.u16n, T.prims.concat(TID).join(), T.prims.slice(1).concat("s" + TID).join()];
log("derived", MINE.join("|"), T.u16, T.u16n, T.u16a.length, T.u16.slice(1), T.u16n.charCodeAt(2), T.prims.join());
T.where = "copy" + TID; T.gs = TID; T.alias[0] += TID;
log(T.fact(3), T.same(), T.calls, T.ev(), T.cth(), T.wth(), T.gs, T.fns[0](), T.fns[1].f(), T.child.inc(), T.proto.pc, T.rd());
`

// ProbeMini is the short probe of the copy-only scenario.
const ProbeMini = `T.arr.push(T.next()); log(T.arr.join(), T.re.lastIndex++, T.cat(TID), T.pushb(TID));`

// FramesSrc is run on every COPY at rest (Finish) and, in the free-running
// mode, also at the end of every copy thread. Native function objects that
// exist per runtime instance and are created at run time - the
// [[ThrowTypeError]] accessor of a bound function, the caller getter of a
// function, the stack getter of an error, reflected Go functions and methods -
// carry Go closures the heap walk cannot look into. Each of them was created in
// the TEMPLATE; here it is used in the copy next to a twin created in the copy
// itself (FB, gconv2, gstruct2), in the same call chain: the stack frames of the
// errors they throw must be identical (digits blanked). A closure that still
// works for the template's runtime builds its error from the template's scope
// chain and gives different frames.
const FramesSrc = `
var FB = (function() {}).bind(null), FOREIGN = [];
function sameFrames(what, a, b) { if (a !== b) { FOREIGN.push(what + ": template-created {" + a + "} copy-created {" + b + "}"); } return a; }
[sameFrames("get bound.caller", T.trace(function() { return T.bound.caller; }), T.trace(function() { return FB.caller; })),
 sameFrames("get bound.arguments", T.trace(function() { return T.cat.arguments; }), T.trace(function() { return FB.arguments; })),
 sameFrames("set bound.caller", T.trace(function() { T.pushb.caller = 1; }), T.trace(function() { FB.caller = 1; })),
 sameFrames("reflected Go function", T.trace(function() { return gconv(); }), T.trace(function() { return gconv2(); })),
 sameFrames("reflected Go function, conversion", T.trace(function() { return gconv({}); }), T.trace(function() { return gconv2({}); })),
 sameFrames("Go method", T.trace(function() { return gstruct.Twice(1); }), T.trace(function() { return gstruct2.Twice(1); })),
 T.trace(function pc() { return T.getCaller() === pc; }), T.trace(function() { return null.x; }),
 String(T.err.stack).replace(/\d+/g, "#").replace(/\s+/g, " ")].join(" ;; ") + (FOREIGN.length ? " FOREIGN-FRAMES " + FOREIGN.join(" ## ") : "");
`

// TemplateSpin keeps the template itself busy (free-running mode only) while
// its copies run: a copy that reaches into the template's runtime then races
// with the template's own scope stack.
const TemplateSpin = `for (var spin = 0; spin < 60; spin++) { (function(a) { return [a].concat(spin).length; })(spin); } spin;`
