package c20

import (
	"bytes"
	"fmt"
	"go/ast"
	"go/parser"
	"go/printer"
	"go/token"
	"os"
	"path/filepath"
	"runtime/debug"
	"sort"
	"strings"

	"verif/mc/engine"
)

// ---------------------------------------------------------------------------
// pkgstate: schedule-independent inventory of otto's package-level variables
// ---------------------------------------------------------------------------
//
// Package-level state that no runtime points to is invisible to the heap walk
// and, when it is goroutine-safe (sync.Pool, a mutex-guarded cache), also to
// the race detector, although its CONTENTS can carry one runtime's history into
// another. This family enumerates every package-level `var` of the otto source
// tree the binary was built from (the module's replace directory) and every
// place that can change one after package initialisation:
//
//   - an assignment / ++ / -- / op= whose target is rooted in the variable
//     (x = .., x[i] = .., x.f = .., *x = ..), outside func init;
//   - its address being taken (&x) outside func init;
//   - a method call on a variable whose type or initialiser names a
//     synchronised container (sync.Pool, sync.Map, sync.Mutex, atomic.*): such
//     a variable exists only to be mutated at run time.
//
// Every such variable must be on the reviewed list below (with the reason why
// it cannot carry state from one runtime to another); anything else is a
// violation. It is a syntactic, conservative audit (no type checker is
// available offline): a write through an alias or inside a method of the
// variable's own type is not seen; those are left to the behavioural families.

// reviewedPackageState lists the package-level variables of the unchanged tree
// that are written (or have their address taken) after init, with the reason
// they are harmless for runtime independence.
var reviewedPackageState = map[string]string{
	"otto.nilGetSetObject": "only its address is used, as a sentinel (&nilGetSetObject is compared by identity and normalised to nil by defineOwnProperty before it could be stored); the object itself is never written and stays all-zero (also checked by the heap walk)",
	"registry.registry":    "appended by registry.Register, which importing packages call from package-level initialisers; Register/Enable/Disable concurrently with otto.New is user misuse outside the statement",
}

type pkgVar struct {
	Key    string // "<package>.<name>"
	Pos    string
	Decl   string
	Writes []string
	Sync   bool
}

// ottoSourceDir returns the directory of the otto module this binary was built from.
func ottoSourceDir() string {
	if bi, ok := debug.ReadBuildInfo(); ok {
		for _, d := range bi.Deps {
			if d.Path == "github.com/robertkrimen/otto" && d.Replace != nil && d.Replace.Path != "" {
				return d.Replace.Path
			}
		}
	}
	if d := os.Getenv("REPO_DIR"); d != "" {
		return d
	}
	return "/repo"
}

func exprString(fset *token.FileSet, n ast.Node) string {
	var b bytes.Buffer
	_ = printer.Fprint(&b, fset, n)
	s := strings.Join(strings.Fields(b.String()), " ")
	if len(s) > 90 {
		s = s[:90] + "..."
	}
	return s
}

func rootIdent(e ast.Expr) *ast.Ident {
	for {
		switch x := e.(type) {
		case *ast.Ident:
			return x
		case *ast.SelectorExpr:
			e = x.X
		case *ast.IndexExpr:
			e = x.X
		case *ast.StarExpr:
			e = x.X
		case *ast.ParenExpr:
			e = x.X
		case *ast.SliceExpr:
			e = x.X
		default:
			return nil
		}
	}
}

// scanPackageState parses one package directory.
func scanPackageState(dir, pkg string) ([]*pkgVar, error) {
	fset := token.NewFileSet()
	ents, err := os.ReadDir(dir)
	if err != nil {
		return nil, err
	}
	var files []*ast.File
	for _, e := range ents {
		n := e.Name()
		if e.IsDir() || !strings.HasSuffix(n, ".go") || strings.HasSuffix(n, "_test.go") {
			continue
		}
		f, err := parser.ParseFile(fset, filepath.Join(dir, n), nil, 0)
		if err != nil {
			return nil, err
		}
		if f.Name.Name != pkg {
			continue
		}
		files = append(files, f)
	}
	vars := map[string]*pkgVar{}
	topSpecs := map[*ast.ValueSpec]bool{}
	for _, f := range files {
		for _, d := range f.Decls {
			gd, ok := d.(*ast.GenDecl)
			if !ok || gd.Tok != token.VAR {
				continue
			}
			for _, s := range gd.Specs {
				vs := s.(*ast.ValueSpec)
				topSpecs[vs] = true
				decl := exprString(fset, vs)
				for _, name := range vs.Names {
					if name.Name == "_" {
						continue
					}
					p := fset.Position(name.Pos())
					v := &pkgVar{Key: pkg + "." + name.Name, Pos: fmt.Sprintf("%s:%d", filepath.Base(p.Filename), p.Line), Decl: decl}
					for _, marker := range []string{"sync.Pool", "sync.Map", "sync.Mutex", "sync.RWMutex", "sync.Once", "atomic."} {
						if strings.Contains(decl, marker) {
							v.Sync = true
						}
					}
					vars[name.Name] = v
				}
			}
		}
	}
	isPkgVar := func(id *ast.Ident) *pkgVar {
		if id == nil {
			return nil
		}
		v := vars[id.Name]
		if v == nil {
			return nil
		}
		if id.Obj == nil {
			return v // unresolved in this file: declared in another file of the package
		}
		if vs, ok := id.Obj.Decl.(*ast.ValueSpec); ok && topSpecs[vs] {
			return v
		}
		return nil // a local of the same name
	}
	for _, f := range files {
		for _, d := range f.Decls {
			fd, ok := d.(*ast.FuncDecl)
			if !ok || fd.Body == nil || (fd.Recv == nil && fd.Name.Name == "init") {
				continue
			}
			where := func(n ast.Node) string {
				p := fset.Position(n.Pos())
				return fmt.Sprintf("%s:%d (%s)", filepath.Base(p.Filename), p.Line, fd.Name.Name)
			}
			ast.Inspect(fd.Body, func(n ast.Node) bool {
				switch x := n.(type) {
				case *ast.AssignStmt:
					if x.Tok == token.DEFINE {
						return true
					}
					for _, l := range x.Lhs {
						if v := isPkgVar(rootIdent(l)); v != nil {
							v.Writes = append(v.Writes, "assigned at "+where(x)+": "+exprString(fset, x))
						}
					}
				case *ast.IncDecStmt:
					if v := isPkgVar(rootIdent(x.X)); v != nil {
						v.Writes = append(v.Writes, "inc/dec at "+where(x))
					}
				case *ast.UnaryExpr:
					if x.Op == token.AND {
						if v := isPkgVar(rootIdent(x.X)); v != nil {
							v.Writes = append(v.Writes, "address taken at "+where(x))
						}
					}
				case *ast.RangeStmt:
					if x.Tok == token.ASSIGN {
						for _, l := range []ast.Expr{x.Key, x.Value} {
							if l != nil {
								if v := isPkgVar(rootIdent(l)); v != nil {
									v.Writes = append(v.Writes, "range-assigned at "+where(x))
								}
							}
						}
					}
				case *ast.CallExpr:
					if sel, ok := x.Fun.(*ast.SelectorExpr); ok {
						if v := isPkgVar(rootIdent(sel.X)); v != nil && v.Sync {
							v.Writes = append(v.Writes, "method "+sel.Sel.Name+" called at "+where(x))
						}
					}
					// clear(x), delete(x, k), copy(x, ..) on a package-level container
					if id, ok := x.Fun.(*ast.Ident); ok && id.Obj == nil && len(x.Args) > 0 {
						switch id.Name {
						case "clear", "delete", "copy":
							if v := isPkgVar(rootIdent(x.Args[0])); v != nil {
								v.Writes = append(v.Writes, id.Name+"() at "+where(x))
							}
						}
					}
				}
				return true
			})
		}
	}
	var out []*pkgVar
	for _, v := range vars {
		out = append(out, v)
	}
	sort.Slice(out, func(i, j int) bool { return out[i].Key < out[j].Key })
	return out, nil
}

var ottoPackages = []struct{ dir, pkg string }{
	{".", "otto"}, {"ast", "ast"}, {"dbg", "dbg"}, {"file", "file"}, {"parser", "parser"}, {"registry", "registry"}, {"token", "token"},
}

func runPkgState(r *engine.Run) {
	root := ottoSourceDir()
	total, written := 0, 0
	for _, p := range ottoPackages {
		vars, err := scanPackageState(filepath.Join(root, p.dir), p.pkg)
		if err != nil {
			r.HarnessError(fmt.Sprintf("pkgstate: cannot scan %s: %v", filepath.Join(root, p.dir), err))
			return
		}
		for _, v := range vars {
			key := v.Key
			if !r.MineKey(key) {
				continue
			}
			total++
			mutable := len(v.Writes) > 0 || v.Sync
			r.Eval(mutable)
			r.Tree(1, 1)
			if !mutable {
				r.Outcome("read-only")
				continue
			}
			written++
			why, ok := reviewedPackageState[key]
			if r.WantSample() {
				r.Sample(fmt.Sprintf("%s (%s) `%s`: %s; reviewed: %v", key, v.Pos, v.Decl, strings.Join(v.Writes, " | "), ok))
			}
			if ok {
				r.Outcome("reviewed:" + key)
				_ = why
				continue
			}
			r.Outcome("unreviewed:" + key)
			obs := strings.Join(v.Writes, " ; ")
			if v.Sync && obs == "" {
				obs = "synchronised container type"
			}
			if len(obs) > 700 {
				obs = obs[:700] + " ..."
			}
			r.Mismatch(engine.Mismatch{
				Key:      key,
				Input:    fmt.Sprintf("package-level variable %s declared at %s: %s", key, v.Pos, v.Decl),
				Expected: "no package-level variable is changed after package initialisation (or it is on the reviewed list with the reason why it cannot carry state between runtimes)",
				Observed: obs,
				Note:     "syntactic inventory of the source tree the binary was built from: " + root,
			})
		}
	}
	r.Bound("package_level_vars", fmt.Sprintf("%d scanned in %d packages, %d changed after init (all reviewed unless reported)", total, len(ottoPackages), written))
}
