package c20

import (
	"fmt"
	"strings"
)

// ---------------------------------------------------------------------------
// copy-inside: Copy() taken BY A HOST FUNCTION WHILE THE TEMPLATE IS EXECUTING
// ---------------------------------------------------------------------------
//
// Every other template scenario copies a template AT REST (between Run calls).
// Here the template runs a script that calls the Go host function snap() from
// inside a nesting context (labelled statements of depth 1..6, loops, switch,
// try/catch/finally, with, nested calls, eval/Function code, callbacks of
// built-ins, accessors); snap() takes one copy per thread at that very point,
// so whatever per-EXECUTION state the runtime holds at that moment (pending
// labels, scope stack, eval depth, halting flags, ...) is live in the template
// while Copy() reads it. The template then finishes its script (which goes on
// using labels and loops) and the copies run a continuation that enters
// labelled statements, loops, switch and try/finally (label names differ per
// thread), under the schedule explorer, the heap walk (also taken INSIDE the
// callback, template mid-execution) and the free-running -race pass.
//
// A case of this scenario is Spec{Scenario: "copy-inside/<context>", Bodies}:
// the context is part of the scenario string, so every cache key, replay key
// and solo reference that is derived from Spec.Scenario distinguishes contexts.

// ScCopyInside is the family name; the scenario of a case is ScCopyInside + "/" + context name.
const ScCopyInside = "copy-inside"

// InsideContext is one nesting context: Src calls snap() exactly once.
type InsideContext struct {
	Name string
	Src  string
}

func labelled(n int, stmt string) string {
	var sb strings.Builder
	for i := 1; i <= n; i++ {
		fmt.Fprintf(&sb, "L%d: ", i)
	}
	return sb.String() + stmt
}

// InsideContexts is the fixed list of copy points (order is part of the case order).
var InsideContexts = func() []InsideContext {
	var out []InsideContext
	// bare labelled statements of depth 0..6 (the pending-label list has
	// lengths 0..6, i.e. capacities 0,1,2,4,4,8,8 when built by append)
	out = append(out, InsideContext{"plain", `snap();`})
	for n := 1; n <= 6; n++ {
		out = append(out, InsideContext{fmt.Sprintf("lab%d", n), labelled(n, `snap();`)})
	}
	l3 := labelled(3, `snap();`)
	out = append(out,
		InsideContext{"lab3-if", labelled(3, `if (T.counter == 0) snap();`)},
		InsideContext{"lab3-var", labelled(3, `var sv = snap();`)},
		InsideContext{"lab3-call", labelled(3, `(function() { M1: snap(); })();`)},
		InsideContext{"for", `for (var ci = 0; ci < 2; ci++) { if (ci == 1) snap(); }`},
		InsideContext{"for-lab3", `for (var ci = 0; ci < 2; ci++) { if (ci == 1) ` + l3 + ` }`},
		InsideContext{"lab2-for", `A1: A2: for (var ci = 0; ci < 3; ci++) { if (ci == 1) { snap(); continue A1; } }`},
		InsideContext{"while", `var cw = 0; while (cw < 2) { cw++; if (cw == 2) ` + l3 + ` }`},
		InsideContext{"dowhile", `var cd = 0; D1: do { cd++; if (cd == 2) ` + l3 + ` } while (cd < 2);`},
		InsideContext{"forin", `for (var ck in {a: 1, b: 2}) { if (ck == "b") ` + l3 + ` }`},
		InsideContext{"switch", `switch (T.counter) { case 0: ` + l3 + ` break; default: }`},
		InsideContext{"lab3-switch", `S1: S2: S3: switch (T.counter) { case 0: L1: snap(); break S2; }`},
		InsideContext{"try", `try { ` + l3 + ` } finally { T.counter; }`},
		InsideContext{"catch", `try { throw 1; } catch (ce) { ` + l3 + ` }`},
		InsideContext{"finally", `F1: try { break F1; } finally { ` + l3 + ` }`},
		InsideContext{"with", `with ({cwv: 1}) { ` + l3 + ` }`},
		InsideContext{"block", `B1: B2: B3: { ` + l3 + ` }`},
		InsideContext{"calls", `(function cf(n) { if (n) { return cf(n - 1); } ` + l3 + ` })(3);`},
		InsideContext{"eval", `eval("` + l3 + `");`},
		InsideContext{"lab3-eval", labelled(3, `eval("E1: snap();");`)},
		InsideContext{"indirect-eval", `(0, eval)("` + l3 + `");`},
		InsideContext{"function", `new Function("` + l3 + `")();`},
		InsideContext{"foreach", `[1].forEach(function() { ` + l3 + ` });`},
		InsideContext{"sort", `var cs = 0; [2, 1].sort(function(a, b) { if (!cs++) { ` + l3 + ` } return a - b; });`},
		InsideContext{"replace", `"a".replace(/a/, function() { ` + l3 + ` return "b"; });`},
		InsideContext{"getter", `({get g() { ` + l3 + ` return 1; }}).g;`},
		InsideContext{"tostring", labelled(3, `String({toString: function() { G1: G2: G3: snap(); return "s"; }});`)},
	)
	return out
}()

// InsideAfter is appended to every context: the template goes on using
// labels, loops and switch after the copies were taken.
const InsideAfter = `
TO: TP: for (var tq = 0; tq < 2; tq++) { TI: for (;;) { continue TO; } }
TS: switch (1) { case 1: break TS; }
"inside";
`

// insideContext returns the context of a scenario string ("copy-inside/<name>"), or nil.
func insideContext(scenario string) *InsideContext {
	if !strings.HasPrefix(scenario, ScCopyInside+"/") {
		return nil
	}
	name := scenario[len(ScCopyInside)+1:]
	for i := range InsideContexts {
		if InsideContexts[i].Name == name {
			return &InsideContexts[i]
		}
	}
	return nil
}

func insideSpec(ctx InsideContext, bodies [][]int) Spec {
	return Spec{Scenario: ScCopyInside + "/" + ctx.Name, Bodies: bodies}
}

// familyOf returns the family (registered scenario) a scenario string belongs to.
func familyOf(scenario string) string {
	if strings.HasPrefix(scenario, ScCopyInside+"/") {
		return ScCopyInside
	}
	return scenario
}

// Key is the case key of a spec inside its family (Name without the family prefix).
func (sp Spec) Key() string { return sp.Name()[len(familyOf(sp.Scenario))+1:] }

// insideCont is the continuation every copy runs first: labelled loops of
// every kind, a labelled block, switch and try/finally. The label names
// carry the thread number, so that two copies never use the same name.
const insideContSrc = `
var r = [];
XT: for (var i = 0; i < 2; i++) { YT: for (;;) { r.push(i); continue XT; } }
ZT: { WT: switch (r.length) { default: r.push("s"); break ZT; } }
VT: do { UT: for (var p in {a: 1}) { continue VT; } } while (r.length < 2);
QT: RT: ST: try { break RT; } finally { r.push("f"); }
log(r.join(), typeof snap);
r.length + ":" + T.counter;
`

// InsideCont returns the continuation of thread tid.
func InsideCont(tid int) string {
	s := insideContSrc
	for _, l := range []string{"XT", "YT", "ZT", "WT", "VT", "UT", "PT", "QT", "RT", "ST"} {
		s = strings.ReplaceAll(s, l, fmt.Sprintf("%s%d", l[:1], tid))
	}
	return s
}

// insideBodies: the thread programs of the copy-inside cases of a context
// (besides the continuation and the short probe every copy runs).
func insidePlans(thorough bool) []plan {
	bd := 1
	if thorough {
		bd = 2
	}
	control := -1
	for i, b := range Bodies {
		if b.Name == "control" {
			control = i
		}
	}
	var out []plan
	for _, ctx := range InsideContexts {
		out = append(out, plan{insideSpec(ctx, [][]int{{}, {}}), bd})
	}
	// three copies taken at the same point, and copies that go on with the
	// label/loop/switch/with body, at the label depths with spare capacity
	for _, name := range []string{"lab3"} {
		ctx := *insideContext(ScCopyInside + "/" + name)
		out = append(out, plan{insideSpec(ctx, [][]int{{}, {}, {}}), 1})
		out = append(out, plan{insideSpec(ctx, [][]int{{control}, {control}}), 1})
	}
	return out
}
