package c20

import (
	"fmt"
	"strconv"
	"strings"
)

// sched is the E4 cooperative scheduler. Every thread of a case runs on its
// own goroutine but exactly one goroutine executes at any time: a thread runs
// until it reaches a scheduling point (Yield, called from otto's step hook, from
// the clone() lock hooks and from explicit points of the harness), where the
// decision procedure picks the thread that continues. Decisions are taken from
// a recorded prefix of choices and are 0 afterwards (stateless replay).
//
// Canonical order of the alternatives at a decision: the running thread first
// if it is still enabled, then the other enabled threads by ascending id.
// Choosing an alternative other than 0 while the running thread is still
// enabled is a preemption (cost 1); a choice among the remaining threads after
// the running one has finished is free. Decisions with one alternative are
// not recorded.
type sched struct {
	n        int
	wake     []chan struct{}
	done     chan struct{}
	cur      int
	finished []bool
	nfin     int

	prefix []int
	points []spoint
	trace  []seg // executed interleaving: (tid, number of scheduling points passed)
	err    string

	// onSwitch, when set, is called on every context switch (all threads are
	// then at a scheduling point, none is executing) with the running count.
	onSwitch func(nswitch int)
	nswitch  int
}

type spoint struct {
	n      int  // number of alternatives
	choice int  // alternative taken
	cost   int8 // cost of a non-zero alternative (1 = preemption, 0 = free)
}

type seg struct{ tid, steps int }

func newSched(n int, prefix []int) *sched {
	s := &sched{n: n, prefix: prefix, cur: -1, done: make(chan struct{}), finished: make([]bool, n)}
	s.wake = make([]chan struct{}, n)
	for i := range s.wake {
		s.wake[i] = make(chan struct{}, 1)
	}
	return s
}

// choose is the decision procedure. running is the thread that reached the
// point (or -1 at the start); enabled says whether it can continue.
func (s *sched) choose(running int, enabled bool) int {
	var opts [8]int
	k := 0
	if enabled {
		opts[k] = running
		k++
	}
	for t := 0; t < s.n; t++ {
		if t != running && !s.finished[t] {
			opts[k] = t
			k++
		}
	}
	if k == 0 {
		return -1
	}
	if k == 1 {
		return opts[0]
	}
	pos := len(s.points)
	ch := 0
	if pos < len(s.prefix) {
		ch = s.prefix[pos]
		if ch < 0 || ch >= k {
			if s.err == "" {
				s.err = fmt.Sprintf("replay diverged: choice %d out of range (%d alternatives) at decision %d", ch, k, pos)
			}
			ch = 0
		}
	}
	cost := int8(0)
	if enabled {
		cost = 1
	}
	s.points = append(s.points, spoint{n: k, choice: ch, cost: cost})
	return opts[ch]
}

func (s *sched) account(t int) {
	if l := len(s.trace); l > 0 && s.trace[l-1].tid == t {
		s.trace[l-1].steps++
		return
	}
	s.trace = append(s.trace, seg{t, 1})
}

// Yield is a scheduling point of the running thread.
func (s *sched) Yield() {
	t := s.cur
	s.account(t)
	next := s.choose(t, true)
	if next == t {
		return
	}
	s.switchTo(next)
	<-s.wake[t]
}

func (s *sched) switchTo(next int) {
	s.nswitch++
	if s.onSwitch != nil {
		s.onSwitch(s.nswitch)
	}
	s.cur = next
	s.wake[next] <- struct{}{}
}

// exit is called by a thread when its function has returned.
func (s *sched) exit(t int) {
	s.finished[t] = true
	s.nfin++
	if s.nfin == s.n {
		close(s.done)
		return
	}
	next := s.choose(t, false)
	s.switchTo(next)
}

// run executes the thread functions under the scheduler and returns when all
// of them have finished.
func (s *sched) run(threads []func()) {
	for i := range threads {
		i := i
		go func() {
			<-s.wake[i]
			defer s.exit(i)
			threads[i]()
		}()
	}
	first := s.choose(-1, false)
	s.cur = first
	s.wake[first] <- struct{}{}
	<-s.done
}

// choices returns the full choice vector of the executed schedule.
func (s *sched) choices() []int {
	out := make([]int, len(s.points))
	for i, p := range s.points {
		out[i] = p.choice
	}
	return out
}

// preemptions counts the preemptive switches of the executed schedule.
func (s *sched) preemptions() int {
	n := 0
	for _, p := range s.points {
		if p.choice != 0 && p.cost > 0 {
			n++
		}
	}
	return n
}

func (s *sched) traceString() string {
	var sb strings.Builder
	for i, g := range s.trace {
		if i > 0 {
			sb.WriteByte(' ')
		}
		fmt.Fprintf(&sb, "T%dx%d", g.tid, g.steps)
	}
	return sb.String()
}

// sparse renders a choice vector as "pos:choice,..." (zero choices omitted).
func sparse(v []int) string {
	var parts []string
	for i, c := range v {
		if c != 0 {
			parts = append(parts, strconv.Itoa(i)+":"+strconv.Itoa(c))
		}
	}
	if len(parts) == 0 {
		return "-"
	}
	return strings.Join(parts, ",")
}

// parseSparse is the inverse of sparse.
func parseSparse(s string) ([]int, error) {
	if s == "-" || s == "" {
		return nil, nil
	}
	var out []int
	for _, part := range strings.Split(s, ",") {
		i := strings.IndexByte(part, ':')
		if i < 0 {
			return nil, fmt.Errorf("bad schedule element %q", part)
		}
		pos, err1 := strconv.Atoi(part[:i])
		ch, err2 := strconv.Atoi(part[i+1:])
		if err1 != nil || err2 != nil || pos < 0 || pos > 1<<20 {
			return nil, fmt.Errorf("bad schedule element %q", part)
		}
		for len(out) <= pos {
			out = append(out, 0)
		}
		out[pos] = ch
	}
	return out, nil
}
