package c20

import (
	"crypto/sha1"
	"encoding/hex"
	"encoding/json"
	"fmt"
	"os"
	"os/exec"
	"path/filepath"
	"strconv"
	"strings"

	"verif/mc/engine"
)

// ---------------------------------------------------------------------------
// Isolated solo references
// ---------------------------------------------------------------------------
//
// "The same scripts run alone" is taken literally: the reference log of a
// thread program is produced in a FRESH PROCESS in which nothing else of otto
// has run before, so no history of other runtimes (a dirty pooled object, a
// warmed cache) can be part of the reference. The child is this very binary,
// started with MC_C20_SOLO=<spec name>#<thread index> (-1 = the template);
// results are cached on disk per run (<VERIF_DIR>/.work/C20/iso-*, which the
// supervisor wipes at the start of every check) so that the worker processes
// share them.

const soloEnv = "MC_C20_SOLO"

// soloChild is called from init when the process is a reference child.
func soloChild(arg string) {
	i := strings.LastIndexByte(arg, '#')
	if i < 0 {
		fmt.Fprintln(os.Stderr, "c20: bad "+soloEnv)
		os.Exit(2)
	}
	sp, err := ParseSpec(arg[:i])
	idx, err2 := strconv.Atoi(arg[i+1:])
	if err != nil || err2 != nil || idx < -1 || idx >= len(sp.Bodies) {
		fmt.Fprintln(os.Stderr, "c20: bad "+soloEnv, err, err2)
		os.Exit(2)
	}
	var log []string
	if idx < 0 {
		log = SoloTemplate(sp)
	} else {
		log = SoloThread(sp, idx)
	}
	b, _ := json.Marshal(log)
	os.Stdout.Write(b)
	os.Exit(0)
}

func isoDir() string {
	exe, _ := os.Executable()
	tag := "x"
	if st, err := os.Stat(exe); err == nil {
		tag = fmt.Sprintf("%d-%d", st.Size(), st.ModTime().UnixNano())
	}
	h := sha1.Sum([]byte(exe + "|" + tag))
	return filepath.Join(engine.VerifDir(), ".work", "C20", "iso-"+hex.EncodeToString(h[:5]))
}

// isolated returns the log of thread idx (-1: template) of sp run alone in a fresh process.
func isolated(sp Spec, idx int) ([]string, error) {
	// the reference of a thread depends on its own program only
	key := sp.Scenario + "|template"
	one := Spec{Scenario: sp.Scenario, Bodies: sp.Bodies}
	if idx >= 0 {
		key = fmt.Sprintf("%s|%v|%d|%d", sp.Scenario, sp.Bodies[idx], idx, len(sp.Bodies))
	}
	h := sha1.Sum([]byte(key))
	dir := isoDir()
	file := filepath.Join(dir, hex.EncodeToString(h[:10])+".json")
	if b, err := os.ReadFile(file); err == nil {
		var out []string
		if json.Unmarshal(b, &out) == nil {
			return out, nil
		}
	}
	exe, err := os.Executable()
	if err != nil {
		return nil, err
	}
	cmd := exec.Command(exe)
	cmd.Env = append(os.Environ(), soloEnv+"="+one.Name()+"#"+strconv.Itoa(idx), "TZ=UTC", "GOMAXPROCS=1")
	cmd.Stderr = os.Stderr
	b, err := cmd.Output()
	if err != nil {
		return nil, fmt.Errorf("isolated reference %s#%d: %v", sp.Name(), idx, err)
	}
	var out []string
	if err := json.Unmarshal(b, &out); err != nil {
		return nil, fmt.Errorf("isolated reference %s#%d: bad output %q", sp.Name(), idx, b)
	}
	if out == nil {
		out = []string{}
	}
	_ = os.MkdirAll(dir, 0o755)
	tmp := fmt.Sprintf("%s.%d.tmp", file, os.Getpid())
	if os.WriteFile(tmp, b, 0o644) == nil {
		_ = os.Rename(tmp, file)
	}
	return out, nil
}

// IsolatedSolo returns the reference logs of a spec: every thread alone in its
// own fresh process, then (template scenarios) the untouched template.
func IsolatedSolo(sp Spec) ([][]string, error) {
	var out [][]string
	for i := range sp.Bodies {
		l, err := isolated(sp, i)
		if err != nil {
			return nil, err
		}
		out = append(out, l)
	}
	if hasTemplate(sp.Scenario) {
		l, err := isolated(sp, -1)
		if err != nil {
			return nil, err
		}
		out = append(out, l)
	}
	return out, nil
}

func hasTemplate(sc string) bool {
	return sc == ScCopyBefore || sc == ScCopyDuring || sc == ScCopyOnly || insideContext(sc) != nil
}

// InProcessSolo runs every thread of a fresh instance alone IN THIS PROCESS,
// i.e. after whatever other runtimes have run in it before.
func InProcessSolo(sp Spec) [][]string {
	out := make([][]string, 0, len(sp.Bodies)+1)
	for i := range sp.Bodies {
		out = append(out, SoloThread(sp, i))
	}
	if t := SoloTemplate(sp); t != nil {
		out = append(out, t)
	}
	return out
}
