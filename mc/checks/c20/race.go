package c20

import (
	"bytes"
	"context"
	"flag"
	"fmt"
	"os"
	"os/exec"
	"path/filepath"
	"runtime"
	"strings"
	"sync"
	"time"

	"github.com/robertkrimen/otto"

	"verif/mc/engine"
)

// ---------------------------------------------------------------------------
// Part 2, harness side: the same cases, free running (cmd/mc-c20race, -race)
// ---------------------------------------------------------------------------

// RaceSpecs lists the cases of the free-running pass: every scenario with
// every (unordered) pair of bodies.
func RaceSpecs() []Spec {
	nb := len(Bodies)
	var out []Spec
	for _, sc := range Scenarios {
		switch sc {
		case ScFresh, ScCopyBefore, ScCopyDuring:
			for i := 0; i < nb; i++ {
				for j := i; j < nb; j++ {
					out = append(out, Spec{sc, [][]int{{i}, {j}}})
				}
			}
		case ScScript, ScProgram:
			// both threads execute both shared objects, in opposite orders
			for i := 0; i < nb; i++ {
				for j := i; j < nb; j++ {
					if i == j {
						out = append(out, Spec{sc, [][]int{{i}, {i}}})
					} else {
						out = append(out, Spec{sc, [][]int{{i, j}, {j, i}}})
					}
				}
			}
		case ScScript3:
			for i := 0; i < nb; i++ {
				j := (i + 1) % nb
				out = append(out, Spec{sc, [][]int{{i}, {i}, {i}}}, Spec{sc, [][]int{{i, j}, {j, i}, {i, j}}})
			}
		case ScReuse:
			for i := 0; i < nb; i++ {
				out = append(out, Spec{sc, [][]int{rep(i, 2), rep(i, 2)}}, Spec{sc, [][]int{rep(i, 3), rep(i, 3)}})
			}
		case ScCopyOnly:
			for i := 0; i < nb; i++ {
				out = append(out, Spec{sc, [][]int{{i}, {i}}})
			}
		case ScCopyInside:
			// every copy point, four copies taken at it, all running the
			// label/loop continuation while the template runs its own loop
			for _, ctx := range InsideContexts {
				out = append(out, insideSpec(ctx, [][]int{{}, {}, {}, {}}))
			}
		}
	}
	return out
}

// RaceMain is the main function of cmd/mc-c20race: it runs every case of
// RaceSpecs with its threads on real goroutines (no scheduler, no hooks),
// several cases at a time, for a number of rounds, and compares every
// thread's log with its solo log. Data races are reported by the Go race
// detector the binary is built with (GORACE=halt_on_error=1 exitcode=66).
//
// The first round runs COLD: nothing of otto has been executed in the process
// before the free-running goroutines start, so lazily initialised or cached
// package-level state is first touched concurrently (a sequential warm-up
// would populate every cache and hide exactly the writes the detector needs
// to see). The solo references are computed after that round, sequentially,
// with nothing else running. --start rotates the order of the cases so that
// different cases get the cold start in different invocations.
func RaceMain() {
	tier := flag.String("tier", "quick", "")
	rounds := flag.Int("rounds", 0, "")
	par := flag.Int("parallel", 8, "cases in flight")
	startAt := flag.Int("start", 0, "rotation of the case order")
	bridgeFunc := flag.Bool("bridge-func", true, "probe results of reflected Go functions in copies")
	bridgeSlice := flag.Bool("bridge-slice", true, "probe the length of the bridged Go slice in copies")
	flag.Parse()
	opt := Options{NoBridgeFunc: !*bridgeFunc, NoBridgeSlice: !*bridgeSlice, BusyTemplate: true}
	if *rounds == 0 {
		*rounds = 1 // quick: the cold round only (the supervisor starts the binary twice)
		if *tier == "thorough" {
			*rounds = 3
		}
	}
	runtime.GOMAXPROCS(16)
	all := RaceSpecs()
	specs := make([]Spec, len(all))
	for k := range all {
		// stride 37 is coprime to the number of cases: consecutive cases come
		// from different scenarios / bodies
		specs[k] = all[((k+*startAt)*37)%len(all)]
	}
	if gcd(37, len(all)) != 1 {
		fmt.Println("C20RACE-HARNESS stride is not coprime to the number of cases")
		os.Exit(4)
	}

	type done struct {
		sp   Spec
		logs [][]string
		prob []string
	}
	var mu sync.Mutex
	var results []done
	var pairs, cases int64

	runRound := func(order []Spec) {
		jobs := make(chan Spec, 64)
		var wg sync.WaitGroup
		for w := 0; w < *par; w++ {
			wg.Add(1)
			go func() {
				defer wg.Done()
				for sp := range jobs {
					c := NewCase(sp, opt)
					start := make(chan struct{})
					var tw sync.WaitGroup
					for i := range c.Threads {
						i := i
						tw.Add(1)
						go func() {
							defer tw.Done()
							<-start
							c.Threads[i]()
						}()
					}
					if tt := c.TemplateThread(); tt != nil {
						tw.Add(1)
						go func() {
							defer tw.Done()
							<-start
							tt()
						}()
					}
					close(start)
					tw.Wait()
					c.CheckShared("after all threads (free run)")
					c.Finish()
					n := int64(len(sp.Bodies))
					mu.Lock()
					cases++
					pairs += n * (n - 1) / 2
					results = append(results, done{sp, c.AllLogs(), c.Problems})
					mu.Unlock()
				}
			}()
		}
		for _, sp := range order {
			jobs <- sp
		}
		close(jobs)
		wg.Wait()
	}

	// round 0: cold
	runRound(specs)

	// solo references: sequential, nothing else running (their determinism is
	// established by the main check, which computes every reference twice)
	solo := map[string][]string{}
	soloKey := func(sp Spec, i int) string { return fmt.Sprintf("%s|%v|%d", sp.Scenario, sp.Bodies[i], i) }
	for _, sp := range specs {
		for i := range sp.Bodies {
			k := soloKey(sp, i)
			if _, ok := solo[k]; !ok {
				solo[k] = SoloThreadOpt(sp, i, opt)
			}
		}
		if _, ok := solo[sp.Scenario+"|template"]; !ok {
			solo[sp.Scenario+"|template"] = SoloTemplate(sp)
		}
	}

	for round := 1; round < *rounds; round++ {
		order := make([]Spec, len(specs))
		for k := range specs {
			order[k] = specs[(k*7+round)%len(specs)]
		}
		runRound(order)
	}

	nfail := 0
	for _, d := range results {
		var want [][]string
		for i := range d.sp.Bodies {
			want = append(want, solo[soloKey(d.sp, i)])
		}
		if t := solo[d.sp.Scenario+"|template"]; t != nil {
			want = append(want, t)
		}
		w, g := RenderLogs(want), RenderLogs(d.logs)
		if len(d.prob) > 0 {
			g += " ## " + strings.Join(d.prob, " ; ")
		}
		if w != g {
			nfail++
			if nfail <= 10 {
				fmt.Printf("C20RACE-MISMATCH %s\n  expected: %s\n  observed: %s\n", d.sp.Name(), w, g)
			}
		}
	}
	fmt.Printf("C20RACE cases=%d goroutine_pairs=%d rounds=%d specs=%d start=%d in_flight=%d gomaxprocs=%d mismatches=%d\n",
		cases, pairs, *rounds, len(specs), *startAt, *par, runtime.GOMAXPROCS(0), nfail)
	if nfail > 0 {
		os.Exit(3)
	}
}

func gcd(a, b int) int {
	for b != 0 {
		a, b = b, a%b
	}
	return a
}

// ---------------------------------------------------------------------------
// Part 2, supervisor side: build and run the -race binary
// ---------------------------------------------------------------------------

func envDefault(env []string, kv string) []string {
	name := kv[:strings.IndexByte(kv, '=')+1]
	for _, e := range env {
		if strings.HasPrefix(e, name) {
			return env
		}
	}
	return append(env, kv)
}

// racePass is the check's Extra function (runs in the supervisor after the
// workers). It builds cmd/mc-c20race with -race against the same otto tree as
// the running binary and executes it; a detector report (or any other failure
// of the free-running pass) becomes a violation.
func racePass(tier string) ([]engine.Mismatch, []string, error) {
	src := os.Getenv("MC_SRC")
	if src == "" {
		src = "/verif/mc"
	}
	bindir := filepath.Join(engine.VerifDir(), ".bin")
	if err := os.MkdirAll(bindir, 0o755); err != nil {
		return nil, nil, err
	}
	bin := filepath.Join(bindir, "mc-c20race")
	args := []string{"build", "-race", "-tags", "verif"}
	if mf := os.Getenv("MC_MODFILE"); mf != "" {
		args = append(args, "-modfile="+mf)
	}
	args = append(args, "-o", bin, "./cmd/mc-c20race")
	env := os.Environ()
	for _, kv := range []string{"GOFLAGS=-mod=mod", "GOPROXY=off", "GOSUMDB=off", "GOTOOLCHAIN=local", "GOCACHE=/verif/.cache/go-build", "CGO_ENABLED=1"} {
		env = envDefault(env, kv)
	}
	t0 := time.Now()
	build := exec.Command("go", args...)
	build.Dir = src
	build.Env = env
	if out, err := build.CombinedOutput(); err != nil {
		return nil, nil, fmt.Errorf("race pass: go %s failed: %v\n%s", strings.Join(args, " "), err, out)
	}
	buildS := time.Since(t0).Seconds()

	ctx, cancel := context.WithTimeout(context.Background(), 12*time.Minute)
	defer cancel()
	renv := []string{}
	for _, e := range os.Environ() {
		if strings.HasPrefix(e, "GORACE=") || strings.HasPrefix(e, "GOMAXPROCS=") || strings.HasPrefix(e, "TZ=") {
			continue
		}
		renv = append(renv, e)
	}
	renv = append(renv, "GORACE=halt_on_error=1 exitcode=66", "GOMAXPROCS=16", "TZ=UTC", "GOTRACEBACK=single")
	// open known finding F-C20-001: while the defect is present the two Probe
	// items that exercise it are switched off in the free-running pass
	fnDefect, sliceDefect := BridgeDefects()
	var bridgeArgs []string
	if fnDefect {
		bridgeArgs = append(bridgeArgs, "--bridge-func=false")
	}
	if sliceDefect {
		bridgeArgs = append(bridgeArgs, "--bridge-slice=false")
	}
	// several invocations, each with a different rotation of the case order, so
	// that different cases meet the cold (nothing initialised yet) process start
	starts := []int{0, 211}
	if tier == "thorough" {
		starts = []int{0, 97, 211, 331, 419, 523}
	}
	var stdout, stderr bytes.Buffer
	var err error
	var summaries []string
	var totCases, totPairs int64
	failedStart := -1
	t1 := time.Now()
	for _, st := range starts {
		stdout.Reset()
		stderr.Reset()
		run := exec.CommandContext(ctx, bin, append([]string{"--tier", tier, "--start", fmt.Sprint(st)}, bridgeArgs...)...)
		run.Env = renv
		run.Stdout, run.Stderr = &stdout, &stderr
		err = run.Run()
		for _, l := range strings.Split(stdout.String(), "\n") {
			if strings.HasPrefix(l, "C20RACE ") {
				summaries = append(summaries, l)
				var c, p int64
				fmt.Sscanf(l, "C20RACE cases=%d goroutine_pairs=%d", &c, &p)
				totCases += c
				totPairs += p
			}
		}
		if err != nil {
			failedStart = st
			break
		}
	}
	runS := time.Since(t1).Seconds()
	summary := fmt.Sprintf("%d process starts (cold first round each, case order rotated), %d cases, %d goroutine-pairs executed", len(summaries), totCases, totPairs)
	const how = "free-running -race build of the same harness bodies (every scenario x every pair of bodies, real goroutines, GOMAXPROCS=16, no scheduler)"
	if err != nil {
		code := -1
		if ee, ok := err.(*exec.ExitError); ok {
			code = ee.ExitCode()
		}
		report := stderr.String()
		kind := "free-running pass failed"
		switch {
		case code == 66 || strings.Contains(report, "WARNING: DATA RACE"):
			kind = "DATA RACE reported by the Go race detector"
		case code == 3:
			kind = "free-running logs differ from the solo logs"
			report = stdout.String() + report
		case code == 4:
			return nil, nil, fmt.Errorf("race pass: harness error: %s", stdout.String())
		case strings.Contains(report, "fatal error: concurrent map"):
			kind = "Go runtime detected concurrent map access"
		}
		if len(report) > 6000 {
			report = report[:6000] + "\n..."
		}
		m := engine.Mismatch{
			Property: "C20", Family: "RACE", Key: "race-pass",
			Input:    how,
			Expected: "no race detector report, all logs equal to the solo logs, exit status 0",
			Observed: fmt.Sprintf("%s (exit status %d): %s", kind, code, report),
			Note:     "verdict of the Go race detector (happens-before analysis over executed accesses), not of enumeration; re-run: GORACE='halt_on_error=1 exitcode=66' " + bin + " --tier " + tier + " --start " + fmt.Sprint(failedStart),
		}
		return []engine.Mismatch{m}, []string{"race: " + kind}, nil
	}
	if len(bridgeArgs) > 0 {
		how2 := fmt.Sprintf("race: known finding F-C20-001 is present in this tree (reflected-function defect: %v, shared slice wrapper: %v): the Probe items that exercise it were switched off in the free-running pass (%s) so that the detector keeps running; they stay on in the cooperative families", fnDefect, sliceDefect, strings.Join(bridgeArgs, " "))
		summary += "; " + how2
	}
	note := fmt.Sprintf("race: %s: no detector report, all logs equal solo; %s; build %.1fs run %.1fs. "+
		"This half of the verdict is the Go race detector's happens-before analysis over the executed accesses, not an enumeration.",
		how, summary, buildS, runS)
	return nil, []string{note}, nil
}

// BridgeDefects probes, sequentially and in this process, whether the two
// sub-defects of known finding F-C20-001 are present in the otto tree this
// binary was built from.
func BridgeDefects() (reflectedFunc, sliceWrapper bool) {
	t := otto.New()
	_ = t.Set("s", []int{1, 2, 3})
	_ = t.Set("mk", func() []int { return []int{1} })
	c := t.Copy()
	if v, err := c.Run(`Object.getPrototypeOf(mk()) === Array.prototype`); err == nil {
		b, _ := v.ToBoolean()
		reflectedFunc = !b
	}
	_, _ = c.Run(`s.length = 1`)
	if v, err := t.Run(`s.length`); err == nil {
		n, _ := v.ToInteger()
		sliceWrapper = n != 3
	}
	return
}
