// Package c15 checks that values survive the Go -> JavaScript -> Go round trip:
// every boundary Go value of every supported kind is Set into a runtime, read
// back through every accessor of the API and observed from a script; every
// boundary JavaScript value is read through the Go API and compared with the
// in-language conversions transported bit-exactly through a recording host
// function; the API call paths are compared with the equivalent in-language call.
package c15

import (
	"time"

	"verif/mc/checks/brig"
	"verif/mc/engine"
)

func init() {
	engine.Register(&engine.Check{
		ID:    "C15",
		Title: "Values survive the Go to JavaScript to Go round trip",
		Rule: "E1 full products. go-scalars: every boundary value of every Go scalar kind (plus pointers, named types, nil forms) x 22 observations " +
			"(Set, Get, ToValue, Export, ToInteger, ToFloat, ToString, ToBoolean, MarshalJSON, predicates, script typeof/===literal/Number/String/Boolean/JSON.stringify " +
			"recorded through a host function); go-containers: every []interface{}/map[string]interface{} shape of the stated depth over 6 leaves; go-typed: typed slices, " +
			"maps, arrays, structs by value and by pointer; js-prims: boundary JS values x Go predicates/conversions vs in-language typeof/Number/String/Boolean; " +
			"js-json: every JSON-like container of the stated depth -> Export by value; js-arrays: every array of length <= 3 over 11 element kinds; js-nested: " +
			"homogeneous nestings to depth 4 x leaf-kind pairs; calls: (callee kind x this x args) cells on 5 call paths; reentrant: every API path (Otto.Call with nil/null/object this and new, Value.Call, Object.Call, Run, Get, Set, Eval) issued from inside a host function called from 8 script contexts (global code, shadowing locals, parameters, closure, with, with in a function, nested catch clauses, method of a local object); callargs: Go argument tuples of arity 0..3 over 17 kinds (scalars, nil, otto.Value, *otto.Object, slices, arrays, maps, structs, pointers, funcs) in every position x 10 API call routes vs the in-language call on the same values; typeset: ordered pairs (and triples) of 20 look-alike bridged values (anonymous structs with permuted fields, same-named local types, reflect.StructOf, named vs unnamed, embedded, crossed json tags, alike maps/slices) in one and in two runtimes, each fully observed after the others; numsinks: 78 boundary Go numbers of every width (integer min/-1/0/1/max, both zeros, +-MaxFloat32 and the smallest float32 subnormal with their double neighbours, MaxFloat64, +-Infinity, NaN, 2^53, 2^63, 2^64) x 6 Go->JS transports (Set global, bridged slice element / map value / struct field, Go function result, literal) x 10 JS->Go sinks (call, variadic alone and as tail, struct field, slice / array / map element, array->slice, object->map, object->struct parameter) x 12 destination widths: exactly representable values arrive bit for bit, the others are refused loudly with nothing stored. retained: var c = <slot> for 5 holder slots (pointer field, nested pointer field, map value, slice element, interface field) x every sequence of 1 and 2 of 7 operations (re-point / nil the slot from script and from Go, rename the pointees through the reference, the slot and Go), all views against a Go pointer model after every step; samenamed: ordered pairs and triples of 6 distinct struct types printing the same name with different layouts in one runtime, fields read / tested / written by name with the Go side read after every write, object -> struct parameter, each observed again after the others. " +
			"A case is non-trivial when the " +
			"value reached the runtime (Set/Run succeeded) so that all observations were made; distinct outcomes are distinct full observation vectors.",
		Families: []engine.Family{
			{Name: "go-scalars", Run: runGoScalars},
			{Name: "go-containers", Run: runGoContainers},
			{Name: "go-typed", Run: runGoTyped},
			{Name: "js-prims", Run: runJSPrims},
			{Name: "js-json", Run: runJSJSON},
			{Name: "js-arrays", Run: runJSArrays},
			{Name: "js-nested", Run: runJSNested},
			{Name: "calls", Run: runCalls},
			{Name: "reentrant", Run: runReentrant},
			{Name: "callargs", Run: runCallArgs},
			{Name: "typeset", Run: runTypeset},
			{Name: "slicelen", Run: runSliceLen},
			{Name: "setnames", Run: runSetNames},
			{Name: "gonumber", Run: runGoNumber},
			{Name: "utf16store", Run: runUTF16Store},
			{Name: "sliceref", Run: brig.RunSliceRef},
			{Name: "restore", Run: brig.RunReentrantStore},
			{Name: "earlyexit", Run: brig.RunEarlyExit},
			{Name: "mapkeys", Run: brig.RunMapKeys},
			{Name: "kindtwins", Run: func(r *engine.Run) { brig.RunKindTwins(r, false) }},
			{Name: "numsinks", Run: brig.RunNumSinks},
			{Name: "retained", Run: brig.RunRetained},
			{Name: "samenamed", Run: brig.RunSameNamed},
		},
		Assumptions: []string{
			"ref/bridge is the reference: ES5 9.2/9.3.1/9.4/9.8.1 conversions, the natural JS counterpart of a Go value (nil and nil pointers are undefined, pointers transparent, numbers the nearest double, unexported fields absent)",
			"strconv shortest float formatting/parsing and encoding/json are trusted (digits of 9.8.1; JSON texts are compared after parsing)",
			"the recording host function reads its already-primitive arguments with ToFloat/ToBoolean and the internal UTF-16 units by reflection (ox.StringUnits)",
			"Export promises: original dynamic type for bool/int*/uint*/float64/string and bridged containers, float64 for float32 (widening), the pointee for pointers, the underlying basic kind for named types",
		},
		CrashIsViolation: true,
		QuickBudget:      80 * time.Second,
		ThoroughBudget:   12 * time.Minute,
	})
}
