package c15

import (
	"fmt"

	"github.com/robertkrimen/otto"

	"verif/mc/checks/brig"
	"verif/mc/engine"
	"verif/mc/ox"
	"verif/mc/ref/bridge"
)

// setnames: Otto.Set / Otto.Get on every kind of top-level NAME: new names,
// existing variables, built-in writable globals, and read-only bindings (NaN,
// undefined, Infinity, a non-writable property of the global object, a
// getter-only accessor). Set's doc comment: "If there is an error (like the
// binding is read-only ...) then an error is returned." So Set either returns
// an error, or a following Get (and the script) reads the value back.

func runSetNames(r *engine.Run) {
	names := []string{"fresh", "existing", "NaN", "undefined", "Infinity", "frozen", "getterOnly", "parseInt", "Object", "eval", "$dollar", "ünï"}
	vals := []gval{{"int", 5}, {"string", "s"}, {"nil", nil}, {"slice", []int{1, 2}}}
	r.Bound("names", fmt.Sprint(len(names)))
	for _, n := range names {
		for _, gv := range vals {
			key := n + "/" + gv.name
			if !r.MineKey(key) {
				continue
			}
			r.Begin(key)
			vm := otto.New()
			ox.Run(vm, `var existing = 1; Object.defineProperty(this, "frozen", {value: 1, writable: false, configurable: false});
				Object.defineProperty(this, "getterOnly", {get: function () { return 1 }, configurable: false});`)
			exp, got := brig.NewObs(), brig.NewObs()
			verdict := brig.Safe(func() string {
				err := vm.Set(n, gv.v)
				if err != nil {
					return "Set returned an error"
				}
				x, gerr := vm.Get(n)
				if gerr != nil {
					return "Set returned nil, Get an error: " + gerr.Error()
				}
				e, _ := x.Export()
				if bridge.Render(e) != bridge.Render(canonScalar(gv.v)) {
					return "Set returned nil but Get gives " + bridge.Render(e)
				}
				vm.Set("__probe", gv.v)
				res := ox.Run(vm, `(function(g){ return typeof g[`+fmt.Sprintf("%q", n)+`] === typeof __probe })(this)`)
				if res.Err != nil || res.Panicked {
					return fmt.Sprint("script read failed: ", res.Err, res.PanicVal)
				}
				if b, _ := res.Value.ToBoolean(); !b {
					return "Set returned nil but the script sees another value"
				}
				return "Set stored the value"
			})
			r.End()
			want := "Set stored the value"
			if verdict == "Set returned an error" && (n == "NaN" || n == "undefined" || n == "Infinity" || n == "frozen" || n == "getterOnly") {
				want = verdict
			}
			exp.Put("Set/Get", want)
			got.Put("Set/Get", verdict)
			r.Eval(verdict == "Set stored the value")
			r.Tree(1, 1)
			r.Outcome(verdict)
			if r.WantSample() {
				r.Sample(fmt.Sprintf("vm.Set(%q, %s) => %s", n, bridge.Render(gv.v), verdict))
			}
			brig.Compare(r, key, fmt.Sprintf("vm.Set(%q, %s); vm.Get(%q)", n, bridge.Render(gv.v), n), exp, got, map[string]string{"name": n})
		}
	}
}
