package c15

import (
	"fmt"
	"strings"

	"github.com/robertkrimen/otto"

	"verif/mc/checks/brig"
	"verif/mc/engine"
	"verif/mc/ox"
)

// reentrant: every API call path issued RE-ENTRANTLY, from inside a Go host
// function that a script called - from global code, from a function whose locals
// shadow the globals the source text names, from a with block, from nested catch
// clauses, from a closure. The source given to Otto.Call / Otto.Run / Otto.Object
// and the names given to Otto.Get / Otto.Set are documented as top-level
// ("Call the given JavaScript...", "Get the value of the top-level binding"), so
// they must resolve as GLOBAL code whatever the script was doing when it called
// the host function; the reference is the same source run as global code on a
// twin runtime. Otto.Eval is documented to stay in the current scope ("the code
// evaluated has access to everything already defined in the current stack
// frame"): its reference is the in-language direct eval at the same place.

const reentrantPrelude = `
function pick() { return "global-pick"; }
var box = { name: "global-box", tag: function (n) { return this.name + ":" + n; } };
function Ctor(a) { this.tag = "global-ctor:" + a; }
var g = "global-g";
var other = { name: "global-other" };
`

const shadowDecls = `pick: function () { return "%[1]s-pick"; }, box: { name: "%[1]s-box", tag: function (n) { return "%[1]s-tag:" + n; } }, ` +
	`Ctor: function (a) { this.tag = "%[1]s-ctor:" + a; }, g: "%[1]s-g", other: { name: "%[1]s-other" }, localOnly: 1`

type reCtx struct {
	name   string
	src    string // contains @HOST@ where the host function (or the eval twin) is called
	localG string // what `g` denotes at that place ("" = the global g)
}

func reContexts() []reCtx {
	locals := func(tag string) string {
		return fmt.Sprintf(`var pick = function () { return "%[1]s-pick"; }; var box = { name: "%[1]s-box", tag: function (n) { return "%[1]s-tag:" + n; } }; `+
			`var Ctor = function (a) { this.tag = "%[1]s-ctor:" + a; }; var g = "%[1]s-g"; var other = { name: "%[1]s-other" }; var localOnly = 1; `, tag)
	}
	return []reCtx{
		{"global", `@HOST@ + "|" + g`, ""},
		{"function", `(function outer() { ` + locals("local") + `return @HOST@ + "|" + g; })()`, "local-g"},
		{"params", `(function outer(pick, box, Ctor, g, other, localOnly) { return @HOST@ + "|" + g; })(` +
			`function () { return "param-pick"; }, { name: "param-box", tag: function (n) { return "param-tag:" + n; } }, ` +
			`function (a) { this.tag = "param-ctor:" + a; }, "param-g", { name: "param-other" }, 1)`, "param-g"},
		{"closure", `(function outer() { ` + locals("outer") + `return (function inner() { return @HOST@ + "|" + g; })(); })()`, "outer-g"},
		{"with", `var __w; with ({ ` + fmt.Sprintf(shadowDecls, "with") + ` }) { __w = @HOST@ + "|" + g; } __w`, "with-g"},
		{"with-in-function", `(function () { with ({ ` + fmt.Sprintf(shadowDecls, "fwith") + ` }) { return @HOST@ + "|" + g; } })()`, "fwith-g"},
		{"catch", `var __c; try { throw function () { return "catch-pick"; }; } catch (pick) { ` +
			`try { throw { name: "catch-box", tag: function (n) { return "catch-tag:" + n; } }; } catch (box) { ` +
			`try { throw function (a) { this.tag = "catch-ctor:" + a; }; } catch (Ctor) { ` +
			`try { throw "catch-g"; } catch (g) { try { throw { name: "catch-other" }; } catch (other) { try { throw 1; } catch (localOnly) { ` +
			`__c = @HOST@ + "|" + g; } } } } } } __c`, "catch-g"},
		{"method-of-local", `(function outer() { ` + locals("m") + `var o = { h: __host }; return o.h() + "|" + g; })()`, "m-g"},
	}
}

type rePath struct {
	name string
	do   func(vm *otto.Otto) (otto.Value, error)
	twin string // the same thing as global source text ("" for Eval paths)
	eval string // Eval paths: the source handed to Eval (twin: direct eval in place)
	post string // "tag": describe result.tag
}

func rePaths() []rePath {
	return []rePath{
		{name: "Call(pick,nil)", do: func(vm *otto.Otto) (otto.Value, error) { return vm.Call("pick", nil) }, twin: `pick()`},
		{name: "Call(box.tag,nil,7)", do: func(vm *otto.Otto) (otto.Value, error) { return vm.Call("box.tag", nil, 7) }, twin: `box.tag(7)`},
		{name: "Call(g.toUpperCase,nil)", do: func(vm *otto.Otto) (otto.Value, error) { return vm.Call("g.toUpperCase", nil) }, twin: `g.toUpperCase()`},
		{name: "Call(pick,null)", do: func(vm *otto.Otto) (otto.Value, error) { return vm.Call("pick", otto.NullValue()) }, twin: `pick.call(null)`},
		{name: "Call(box.tag,other,7)", do: func(vm *otto.Otto) (otto.Value, error) {
			o, err := vm.Get("other")
			if err != nil {
				return otto.Value{}, err
			}
			return vm.Call("box.tag", o, 7)
		}, twin: `box.tag.call(other, 7)`},
		{name: "Call(new Ctor,nil,1)", do: func(vm *otto.Otto) (otto.Value, error) { return vm.Call("new Ctor", nil, 1) }, twin: `new Ctor(1)`, post: "tag"},
		{name: "Call(typeof-probe)", do: func(vm *otto.Otto) (otto.Value, error) {
			return vm.Call(`(function () { return typeof localOnly + "," + g; })`, nil)
		}, twin: `(function () { return typeof localOnly + "," + g; })()`},
		{name: "Get(pick)+Value.Call", do: func(vm *otto.Otto) (otto.Value, error) {
			f, err := vm.Get("pick")
			if err != nil {
				return otto.Value{}, err
			}
			return f.Call(otto.UndefinedValue())
		}, twin: `pick()`},
		{name: "Object(box).Call(tag,7)", do: func(vm *otto.Otto) (otto.Value, error) {
			o, err := vm.Object("box")
			if err != nil {
				return otto.Value{}, err
			}
			return o.Call("tag", 7)
		}, twin: `box.tag(7)`},
		{name: "Run(pick())", do: func(vm *otto.Otto) (otto.Value, error) { return vm.Run("pick()") }, twin: `pick()`},
		{name: "Run(g)", do: func(vm *otto.Otto) (otto.Value, error) { return vm.Run("g") }, twin: `g`},
		{name: "Run(typeof localOnly)", do: func(vm *otto.Otto) (otto.Value, error) { return vm.Run("typeof localOnly") }, twin: `typeof localOnly`},
		{name: "Run(this===global)", do: func(vm *otto.Otto) (otto.Value, error) { return vm.Run("this.g") }, twin: `this.g`},
		{name: "Get(g)", do: func(vm *otto.Otto) (otto.Value, error) { return vm.Get("g") }, twin: `g`},
		{name: "Get(localOnly)", do: func(vm *otto.Otto) (otto.Value, error) { return vm.Get("localOnly") }, twin: `typeof localOnly === "undefined" ? undefined : localOnly`},
		{name: "Set(g)+Run(g)", do: func(vm *otto.Otto) (otto.Value, error) {
			if err := vm.Set("g", "set-by-host"); err != nil {
				return otto.Value{}, err
			}
			return vm.Run("g")
		}, twin: `g = "set-by-host", g`},
		{name: "Set(fresh)+Run", do: func(vm *otto.Otto) (otto.Value, error) {
			if err := vm.Set("freshName", 41); err != nil {
				return otto.Value{}, err
			}
			return vm.Run("this.freshName + 1")
		}, twin: `freshName = 41, this.freshName + 1`},
		{name: "Eval(pick())", do: func(vm *otto.Otto) (otto.Value, error) { return vm.Eval("pick()") }, eval: `pick()`},
		{name: "Eval(box.tag(7))", do: func(vm *otto.Otto) (otto.Value, error) { return vm.Eval("box.tag(7)") }, eval: `box.tag(7)`},
		{name: "Eval(g)", do: func(vm *otto.Otto) (otto.Value, error) { return vm.Eval("g") }, eval: `g`},
		{name: "Eval(typeof localOnly)", do: func(vm *otto.Otto) (otto.Value, error) { return vm.Eval("typeof localOnly") }, eval: `typeof localOnly`},
	}
}

func describeRe(v otto.Value, err error, post string) string {
	if err != nil {
		return "err:" + ox.ErrClass(err)
	}
	if post == "tag" && v.IsObject() {
		t, gerr := v.Object().Get("tag")
		if gerr != nil {
			return "err:" + ox.ErrClass(gerr)
		}
		v = t
	}
	s, serr := v.ToString()
	if serr != nil {
		return "err:" + ox.ErrClass(serr)
	}
	return s
}

func freshReentrant(p *rePath) (*otto.Otto, error) {
	vm := otto.New()
	if _, err := vm.Run(reentrantPrelude); err != nil {
		return nil, err
	}
	err := vm.Set("__host", func(call otto.FunctionCall) otto.Value {
		var out string
		func() {
			defer func() {
				if r := recover(); r != nil {
					out = "PANIC: " + brig.OneLine(fmt.Sprint(r))
				}
			}()
			v, err := p.do(call.Otto)
			out = describeRe(v, err, p.post)
		}()
		r, _ := otto.ToValue(out)
		return r
	})
	return vm, err
}

func runStrGuard(vm *otto.Otto, src string) string {
	res := ox.Run(vm, src)
	switch {
	case res.Panicked:
		return "PANIC: " + brig.OneLine(fmt.Sprint(res.PanicVal))
	case res.Err != nil:
		return "error: " + res.Err.Error()
	}
	s, _ := res.Value.ToString()
	return s
}

func runReentrant(r *engine.Run) {
	ctxs := reContexts()
	paths := rePaths()
	r.Bound("contexts", fmt.Sprint(len(ctxs)))
	r.Bound("paths", fmt.Sprint(len(paths)))
	for _, c := range ctxs {
		for pi := range paths {
			p := &paths[pi]
			key := c.name + "/" + p.name
			if !r.MineKey(key) {
				continue
			}
			r.Begin(key)
			// the reference
			var exp string
			tw, err := freshReentrant(p)
			if err != nil {
				r.HarnessError("prelude: " + err.Error())
				r.End()
				return
			}
			if p.eval != "" {
				// direct eval at the very place the host function is called from
				exp = runStrGuard(tw, strings.Replace(c.src, "@HOST@", "String(eval("+fmt.Sprintf("%q", p.eval)+"))", 1))
				if c.name == "method-of-local" {
					exp = runStrGuard(tw, strings.Replace(c.src, "o.h()", "String(eval("+fmt.Sprintf("%q", p.eval)+"))", 1))
				}
			} else {
				post := ""
				if p.post == "tag" {
					post = ".tag"
				}
				res := runStrGuard(tw, "String(("+p.twin+")"+post+")")
				lg := c.localG
				if lg == "" {
					lg = runStrGuard(tw, "g")
				}
				exp = res + "|" + lg
			}
			// the implementation: the same path from inside the host function
			vm, err := freshReentrant(p)
			if err != nil {
				r.HarnessError("prelude: " + err.Error())
				r.End()
				return
			}
			src := strings.Replace(c.src, "@HOST@", "__host()", 1)
			got := runStrGuard(vm, src)
			// and the runtime is still usable, with the global bindings where they belong
			after := runStrGuard(vm, `pick() + "," + box.tag(1) + "," + typeof localOnly`)
			r.End()
			r.Eval(!strings.HasPrefix(got, "error") && !strings.HasPrefix(got, "PANIC"))
			r.Tree(1, 1)
			r.Outcome(got)
			if r.WantSample() {
				r.Sample(c.name + ": " + p.name + " => " + got)
			}
			e, o := brig.NewObs(), brig.NewObs()
			e.Put("result", exp)
			o.Put("result", got)
			e.Put("afterwards", "global-pick,global-box:1,undefined")
			o.Put("afterwards", after)
			brig.Compare(r, key, src+"   where __host does "+p.name, e, o, map[string]string{"context": c.name, "path": p.name})
		}
	}
}
