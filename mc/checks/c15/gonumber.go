package c15

import (
	"fmt"
	"reflect"

	"verif/mc/checks/brig"
	"verif/mc/engine"
	"verif/mc/ref/bridge"
)

// gonumber: a number that arrives from Go (any integer or float carrier, at the
// lattice extremes) must behave in EVERY operator exactly like the JavaScript
// Number it reads back as. The bridged value x and its float64 twin t (the same
// number handed over as a Go float64, which is how a script-computed Number is
// held) go through a panel of operations; the results must be identical
// (differential, model-free). A representation leak - an operator that uses the
// exact Go integer instead of the double the script sees - shows as a difference.

var gonumberPanel = []string{
	"v|0", "v>>>0", "~v", "v<<1", "v>>1", "v>>>1", "v&65535", "v^1", "v%7", "v%4294967296", "v*1", "v+0", "v-1", "v/3", "-v", "+v",
	`v+""`, "String(v)", "v.toString()", "v.toString(2)", "v.toString(16)", "v.toFixed(0)", "v.toExponential(3)", "v.toPrecision(20)",
	"JSON.stringify(v)", "JSON.stringify([v])", "JSON.stringify({k:v})", "Math.floor(v)", "Math.round(v)", "Math.abs(v)", "Math.max(v,0)",
	"[10,20,30][v]", `"abcdef".charAt(v)`, `"abcdef".substr(v)`, "new Array(3).concat([1]).slice(v).length", "v===v*1", "v==String(v*1)",
	"v<2", "isFinite(v)", "isNaN(v)", "parseInt(v)", "parseFloat(v)", "Number(v)", "typeof v", "v===t", "v-t", "(function(o){o[v]=1; return Object.keys(o)[0]})({})",
	"new Date(v).getTime()", "v>>0", "1<<v", "Math.pow(2,31)|v", "(v).toLocaleString!==undefined",
}

func runGoNumber(r *engine.Run) {
	var vals []gval
	for _, gv := range goScalars() {
		switch reflect.Indirect(reflect.ValueOf(gv.v)).Kind() {
		case reflect.Int, reflect.Int8, reflect.Int16, reflect.Int32, reflect.Int64,
			reflect.Uint, reflect.Uint8, reflect.Uint16, reflect.Uint32, reflect.Uint64, reflect.Float32, reflect.Float64:
			if gv.v != nil {
				vals = append(vals, gv)
			}
		}
	}
	r.Bound("carriers", fmt.Sprint(len(vals)))
	r.Bound("operations", fmt.Sprint(len(gonumberPanel)))
	var g *brig.Rig
	for _, gv := range vals {
		key := gv.name
		if !r.MineKey(key) {
			continue
		}
		if g == nil {
			g = brig.NewRig()
		}
		rv := reflect.Indirect(reflect.ValueOf(gv.v))
		var twin float64
		switch {
		case rv.CanInt():
			twin = float64(rv.Int())
		case rv.CanUint():
			twin = float64(rv.Uint())
		default:
			twin = rv.Float()
		}
		r.Begin(key)
		g.VM.Set("x", gv.v)
		g.VM.Set("t", twin)
		exp, got := brig.NewObs(), brig.NewObs()
		for _, op := range gonumberPanel {
			src := "(function(v){ try { return " + op + "; } catch (e) { return \"throws \" + e.name; } })"
			exp.Put(op, g.EvalCanon(src+"(t)"))
			got.Put(op, g.EvalCanon(src+"(x)"))
		}
		// and through a bridged container element / struct field
		r.End()
		r.Eval(true)
		r.Tree(1, 1)
		r.Outcome(got.String())
		if r.WantSample() {
			r.Sample(fmt.Sprintf("x = %s: x|0 = %s, String(x) = %s", bridge.Render(gv.v), got.M["v|0"], got.M["String(v)"]))
		}
		brig.Compare(r, key, fmt.Sprintf("vm.Set(\"x\", %s); vm.Set(\"t\", float64 twin %s); op(x) vs op(t)", bridge.Render(gv.v), bridge.NumStr(twin)), exp, got,
			map[string]string{"gokind": fmt.Sprintf("%T", gv.v), "twin": bridge.NumStr(twin)})
	}
}
