package c15

import (
	"fmt"
	"strings"

	"github.com/robertkrimen/otto"

	"verif/mc/checks/brig"
	"verif/mc/engine"
	"verif/mc/ox"
)

// calls: every (callee, this, args) cell is executed in-language and through
// Value.Call, Otto.Call (with and without a this), Object.Call and
// Otto.Call("new ..."); all routes must produce the same description of
// (this, arguments, result | error class and message). Differential: the
// in-language call is the reference, no model.

const callPrelude = `
var __global = this;
var o = {name: "o"}, o2 = {name: "o2"};
function __d(v) {
  var t = typeof v;
  if (v === null) return "null";
  if (t === "undefined") return "undefined";
  if (t === "object" || t === "function") {
    if (v === __global) return "global";
    if (v === o) return "o";
    if (v === o2) return "o2";
    var c = Object.prototype.toString.call(v).slice(8, -1);
    if (c === "Number" || c === "String" || c === "Boolean") return "boxed " + c + "(" + __d(v.valueOf()) + ")";
    if (c === "Array" || c === "GoSlice") { var s = []; for (var i = 0; i < v.length; i++) s.push(__d(v[i])); return c + "[" + s.join(",") + "]"; }
    if (typeof v.tag === "string") return "tagged{" + v.tag + "}";
    return c;
  }
  if (t === "number") return "number " + (v === 0 && 1 / v < 0 ? "-0" : String(v));
  return t + " " + String(v);
}
function __args(a, from) { var s = []; for (var i = from; i < a.length; i++) s.push(__d(a[i])); return "(" + s.join("; ") + ")"; }
function __da2(self) { return "this=" + __d(self) + " args=" + __args(arguments, 1); }
function jsf() { return "this=" + __d(this) + " args=" + __args(arguments, 0); }
function jsthrow() { throw new RangeError("this=" + __d(this) + " args=" + __args(arguments, 0)); }
function jsret() { return arguments.length ? arguments[0] : this; }
function F() { this.tag = "F isF=" + (this instanceof F) + " args=" + __args(arguments, 0); }
function G() { return o2; }
var bound = jsf.bind(o2, "pre");
var notfn = 5;
o.m = jsf; o.t = jsthrow; o.nf = 5; o.r = jsret;
function __try(f) { try { return "ok:" + __d(f()); } catch (e) { return "err:" + ((e instanceof Error) ? e.name + (e.message ? ": " + e.message : "") : "thrown " + __d(e)); } }
`

type callArg struct {
	src string      // in-language source
	gov interface{} // the Go value handed to the API (nil stays nil; "@o" = the object o)
}

type callThis struct {
	name string
	src  string
	gov  interface{}
}

func callArgTuples() [][]callArg {
	one := callArg{"1", 1}
	str := callArg{`"s"`, "s"}
	und := callArg{"undefined", otto.UndefinedValue()}
	nilA := callArg{"undefined", nil}
	null := callArg{"null", otto.NullValue()}
	obj := callArg{"o", "@o"}
	tru := callArg{"true", true}
	flt := callArg{"1.5", 1.5}
	neg0 := callArg{"-0", negZero()}
	u8 := callArg{"200", uint8(200)}
	gs := callArg{"gs", "@gs"}
	return [][]callArg{
		{}, {one}, {str}, {und}, {nilA}, {null}, {obj}, {tru}, {flt}, {neg0}, {u8}, {gs},
		{one, str}, {tru, flt}, {obj, und}, {nilA, one}, {str, null}, {one, one, one},
	}
}

func negZero() float64 {
	z := 0.0
	return -z
}

func callThises() []callThis {
	return []callThis{
		{"undefined", "undefined", otto.UndefinedValue()},
		{"null", "null", otto.NullValue()},
		{"5", "5", 5},
		{"s", `"s"`, "s"},
		{"true", "true", true},
		{"o", "o", "@o"},
		{"gs", "gs", "@gs"},
	}
}

var callees = []string{"jsf", "jsthrow", "jsret", "bound", "gof", "o.m", "o.t", "o.g", "o.r", "String.prototype.toUpperCase",
	"Array.prototype.concat", "notfn", "o.nf", "nosuch", "(function(){ return __da2(this, arguments.length) })"}

var ctors = []string{"F", "G", "Object", "Array", "Number", "String", "jsthrow", "notfn", "gof", "bound", "o.m"}

type callRig struct {
	vm  *otto.Otto
	o   otto.Value
	gs  otto.Value
	gsv []int
}

func newCallRig() *callRig {
	c := &callRig{vm: otto.New(), gsv: []int{1, 2}}
	vm := c.vm
	if res := ox.Run(vm, callPrelude); res.Err != nil || res.Panicked {
		panic(fmt.Sprint("c15 call prelude: ", res.Err, res.PanicVal))
	}
	da2, _ := vm.Get("__da2")
	vm.Set("gof", func(call otto.FunctionCall) otto.Value {
		args := []interface{}{call.This}
		for _, a := range call.ArgumentList {
			args = append(args, a)
		}
		v, err := da2.Call(otto.UndefinedValue(), args...)
		if err != nil {
			panic(err)
		}
		return v
	})
	vm.Set("gs", c.gsv)
	ox.Run(vm, "o.g = gof")
	c.o, _ = vm.Get("o")
	c.gs, _ = vm.Get("gs")
	return c
}

func (c *callRig) gov(x interface{}) interface{} {
	switch x {
	case "@o":
		return c.o
	case "@gs":
		return c.gs
	}
	return x
}

func (c *callRig) describe(v otto.Value, err error) string {
	if err != nil {
		if oe, ok := err.(*otto.Error); ok {
			return "err:" + oe.Error()
		}
		return "err:go:" + brig.OneLine(err.Error())
	}
	if e := c.vm.Set("__r", v); e != nil {
		return "set:" + e.Error()
	}
	res := ox.Run(c.vm, "__d(__r)")
	if res.Err != nil || res.Panicked {
		return fmt.Sprint("describe failed: ", res.Err, res.PanicVal)
	}
	s, _ := res.Value.ToString()
	return "ok:" + s
}

func (c *callRig) inLanguage(expr string) string {
	res := ox.Run(c.vm, "__try(function(){ return "+expr+"; })")
	if res.Panicked {
		return "PANIC: " + brig.OneLine(fmt.Sprint(res.PanicVal))
	}
	if res.Err != nil {
		return "error: " + res.Err.Error()
	}
	s, _ := res.Value.ToString()
	return s
}

// classOnly reduces "err:Class: message" to "err:Class" (messages of
// not-callable / unresolvable-reference errors name the route, not the cell).
func classOnly(s string) string {
	if strings.HasPrefix(s, "err:") {
		if i := strings.Index(s[4:], ":"); i >= 0 {
			return s[:4+i]
		}
	}
	return s
}

func guardCall(f func() (otto.Value, error)) (v otto.Value, err error, pan string) {
	defer func() {
		if p := recover(); p != nil {
			pan = "PANIC: " + brig.OneLine(fmt.Sprint(p))
		}
	}()
	v, err = f()
	return
}

func runCalls(r *engine.Run) {
	tuples := callArgTuples()
	thises := callThises()
	if !r.Thorough() {
		tuples = tuples[:13]
	}
	r.Bound("callees", fmt.Sprint(len(callees)))
	r.Bound("constructors", fmt.Sprint(len(ctors)))
	r.Bound("this_values", fmt.Sprint(len(thises)+1))
	r.Bound("argument_tuples", fmt.Sprint(len(tuples)))
	var c *callRig
	fresh := func() {
		if c == nil {
			c = newCallRig()
		}
	}
	for _, callee := range callees {
		msgFree := callee == "notfn" || callee == "o.nf" || callee == "nosuch"
		for ti := -1; ti < len(thises); ti++ {
			for ai, tuple := range tuples {
				tname := "nil"
				if ti >= 0 {
					tname = thises[ti].name
				}
				key := fmt.Sprintf("call/%s/this=%s/args#%d", callee, tname, ai)
				if !r.MineKey(key) {
					continue
				}
				fresh()
				srcs := make([]string, len(tuple))
				govs := make([]interface{}, len(tuple))
				for i, a := range tuple {
					srcs[i] = a.src
					govs[i] = c.gov(a.gov)
				}
				argSrc := strings.Join(srcs, ", ")
				exp := brig.NewObs()
				got := brig.NewObs()
				r.Begin(key)
				var ref, input string
				if ti < 0 {
					// this == nil: the plain in-language call (method calls keep their base)
					input = callee + "(" + argSrc + ")"
					ref = c.inLanguage(input)
					v, err, pan := guardCall(func() (otto.Value, error) { return c.vm.Call(callee, nil, govs...) })
					put(got, "Otto.Call(nil)", c, v, err, pan)
					exp.Put("Otto.Call(nil)", ref)
					if i := strings.LastIndex(callee, "."); i > 0 && !strings.Contains(callee, "(") && strings.HasPrefix(callee, "o.") {
						name := callee[i+1:]
						v, err, pan := guardCall(func() (otto.Value, error) { return c.o.Object().Call(name, govs...) })
						put(got, "Object.Call", c, v, err, pan)
						exp.Put("Object.Call", ref)
					}
				} else {
					t := thises[ti]
					sep := ""
					if argSrc != "" {
						sep = ", "
					}
					input = "(" + callee + ").call(" + t.src + sep + argSrc + ")"
					ref = c.inLanguage(input)
					tv := c.gov(t.gov)
					v, err, pan := guardCall(func() (otto.Value, error) { return c.vm.Call(callee, tv, govs...) })
					put(got, "Otto.Call(this)", c, v, err, pan)
					exp.Put("Otto.Call(this)", ref)
					if callee != "nosuch" {
						fv, ferr := c.vm.Run(callee)
						if ferr != nil {
							got.Put("Value.Call", "callee: "+ferr.Error())
						} else {
							thisV, terr := c.vm.ToValue(tv)
							if terr != nil {
								got.Put("Value.Call", "this: "+terr.Error())
							} else {
								v, err, pan := guardCall(func() (otto.Value, error) { return fv.Call(thisV, govs...) })
								put(got, "Value.Call", c, v, err, pan)
							}
						}
						exp.Put("Value.Call", ref)
					}
				}
				r.End()
				if msgFree {
					for _, n := range exp.Names {
						exp.Put(n, classOnly(exp.M[n]))
						got.Put(n, classOnly(got.M[n]))
					}
				}
				r.Eval(strings.HasPrefix(ref, "ok:"))
				r.Tree(1, 1)
				r.Outcome(ref)
				if r.WantSample() {
					r.Sample(input + " => " + ref)
				}
				dirty := false
				for _, n := range got.Names {
					if strings.HasPrefix(got.M[n], "PANIC") {
						dirty = true
					}
				}
				brig.Compare(r, key, input, exp, got, map[string]string{"callee": callee, "this": tname})
				if dirty || strings.HasPrefix(ref, "PANIC") {
					c = nil
				}
			}
		}
	}
	for _, ctor := range ctors {
		for ai, tuple := range tuples {
			key := fmt.Sprintf("new/%s/args#%d", ctor, ai)
			if !r.MineKey(key) {
				continue
			}
			fresh()
			srcs := make([]string, len(tuple))
			govs := make([]interface{}, len(tuple))
			for i, a := range tuple {
				srcs[i] = a.src
				govs[i] = c.gov(a.gov)
			}
			input := "new " + ctor + "(" + strings.Join(srcs, ", ") + ")"
			r.Begin(key)
			ref := c.inLanguage(input)
			exp := brig.NewObs()
			got := brig.NewObs()
			for _, t := range []struct {
				name string
				v    interface{}
			}{{"Otto.Call(new,nil)", nil}, {"Otto.Call(new,this)", c.o}} {
				tv := t.v
				v, err, pan := guardCall(func() (otto.Value, error) { return c.vm.Call("new "+ctor, tv, govs...) })
				put(got, t.name, c, v, err, pan)
				exp.Put(t.name, ref)
			}
			r.End()
			if ctor == "notfn" {
				for _, n := range exp.Names {
					exp.Put(n, classOnly(exp.M[n]))
					got.Put(n, classOnly(got.M[n]))
				}
			}
			r.Eval(strings.HasPrefix(ref, "ok:"))
			r.Tree(1, 1)
			r.Outcome(ref)
			if r.WantSample() {
				r.Sample(input + " => " + ref)
			}
			brig.Compare(r, key, input, exp, got, map[string]string{"callee": "new " + ctor})
			for _, n := range got.Names {
				if strings.HasPrefix(got.M[n], "PANIC") {
					c = nil
					break
				}
			}
		}
	}
}

func put(o *brig.Obs, name string, c *callRig, v otto.Value, err error, pan string) {
	if pan != "" {
		o.Put(name, pan)
		return
	}
	o.Put(name, c.describe(v, err))
}
