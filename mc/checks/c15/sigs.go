package c15

import (
	"math"
	"math/big"
	"regexp"
	"strconv"
	"strings"

	"verif/mc/engine"
	"verif/mc/ref/bridge"
)

func init() {
	engine.RegisterSignature("c15-int-exact-digits", sigExactDigits)
	engine.RegisterSignature("c15-float32-via-reflect", sigFloat32Reflect)
	engine.RegisterSignature("c15-tointeger-uint-via-double", sigToIntegerUint)
	engine.RegisterSignature("c15-int-literal-beyond-2p53", sigIntLiteral)
	engine.RegisterSignature("c15-export-same-kind-different-type", sigExportTypes)
	engine.RegisterSignature("c15-call-undefined-this-native", sigCallUndefinedThis)
	engine.RegisterSignature("c15-non-ascii-exported-field-hidden", func(m *engine.Mismatch) bool {
		// struct{ Éclair int; Ωmega string }: the fields are absent from every script view, reads give undefined, writes do not reach Go
		if !strings.Contains(m.Aux["value"], "non-ASCII capitals") {
			return false
		}
		switch c := m.Aux["component"]; {
		case c == "js.view" || c == "js.JSON":
			return strings.HasSuffix(m.Observed, "={}")
		case strings.HasPrefix(c, "read "):
			return strings.HasSuffix(m.Observed, "=u")
		case strings.HasPrefix(c, "write "):
			return strings.Contains(m.Observed, "{Éclair: 3, Ωmega: \"w\"}")
		}
		return false
	})
	engine.RegisterSignature("c15-set-readonly-name-silent", func(m *engine.Mismatch) bool {
		// Set on a read-only global binding returns nil and stores nothing
		switch m.Aux["name"] {
		case "NaN", "undefined", "Infinity", "frozen", "getterOnly":
			return strings.HasPrefix(m.Observed, "Set/Get=Set returned nil but Get gives ")
		}
		return false
	})
	engine.RegisterSignature("c15-promoted-field-depth-rule", func(m *engine.Mismatch) bool {
		// struct{ TZMid{TZInner{X}}; TZOther{X} }: X resolves to the deeper TZInner.X (1) instead of TZOther.X (2)
		if !strings.Contains(m.Aux["value"], "depth rule") {
			return false
		}
		switch m.Aux["component"] {
		case "read X":
			return m.Observed == "read X=d:1"
		case "write X":
			return strings.Contains(m.Observed, "TZInner{X: 10") && strings.Contains(m.Observed, "TZOther{X: 2}")
		}
		return false
	})
	engine.RegisterSignature("c15-marshaljson-undefined-bytes", func(m *engine.Mismatch) bool {
		// a function value (typeof x === "function"): MarshalJSON returns exactly the bytes "undefined"
		return m.Aux["component"] == "MarshalJSON.valid" && m.Observed == "MarshalJSON.valid=neither: undefined"
	})
}

var digitRun = regexp.MustCompile(`[0-9]+`)

// sigExactDigits accepts: a String()/ToString()/JSON.stringify observation of a
// number that came from a Go integer kind, where observed and expected are
// identical except for integer digit runs, and for every differing run the
// observed run is an integer of magnitude > 2^53 whose nearest double prints
// (ES5 9.8.1) as the expected run - i.e. otto printed the exact int64/uint64
// digits instead of the digits of the double the number denotes (defect #11).
func sigExactDigits(m *engine.Mismatch) bool {
	switch m.Aux["component"] {
	case "ToString", "js.String", "js.JSON":
	default:
		return false
	}
	return digitsLeak(m.Expected, m.Observed)
}

func digitsLeak(exp, obs string) bool {
	if digitRun.ReplaceAllString(exp, "#") != digitRun.ReplaceAllString(obs, "#") {
		return false
	}
	e := digitRun.FindAllString(exp, -1)
	o := digitRun.FindAllString(obs, -1)
	if len(e) != len(o) {
		return false
	}
	diff := 0
	for i := range e {
		if e[i] == o[i] {
			continue
		}
		diff++
		v, ok := new(big.Int).SetString(o[i], 10)
		if !ok || v.Cmp(big.NewInt(1<<53)) <= 0 || v.BitLen() > 64 {
			return false
		}
		f, _ := new(big.Float).SetInt(v).Float64()
		if bridge.NumberToString(f) != e[i] {
			return false
		}
	}
	return diff > 0
}

// sigFloat32Reflect accepts: the original is a float32 reached through
// reflection (pointer to float32 or a named float32 type); the Value then
// holds a Go float32, which Export hands back unwidened and which every
// numeric conversion rejects with the Go panic "toFloat(float32)" (the script
// probe dies at its first conversion, leaving the later js.* slots empty).
func sigFloat32Reflect(m *engine.Mismatch) bool {
	if m.Aux["f32reflect"] != "1" {
		return false
	}
	c := m.Aux["component"]
	_, obs, _ := strings.Cut(m.Observed, "=")
	_, exp, _ := strings.Cut(m.Expected, "=")
	switch {
	case strings.Contains(obs, "PANIC: toFloat(float32)"):
		return true
	case strings.HasSuffix(c, "Export"):
		return strings.HasPrefix(exp, "float64(") && obs == "float32("+strings.TrimPrefix(exp, "float64(")
	case strings.HasPrefix(c, "js.") && obs == "":
		return true
	}
	return false
}

// sigToIntegerUint accepts: ToInteger of a uint/uint64 original above 2^53 that
// fits int64 returns int64(float64(original)) (rounded through a double)
// instead of the original.
func sigToIntegerUint(m *engine.Mismatch) bool {
	if m.Aux["component"] != "ToInteger" || (m.Aux["gokind"] != "uint" && m.Aux["gokind"] != "uint64") {
		return false
	}
	u, err := strconv.ParseUint(m.Aux["godec"], 10, 64)
	if err != nil || u <= 1<<53 || u > math.MaxInt64 {
		return false
	}
	return m.Expected == "ToInteger="+m.Aux["godec"] && m.Observed == "ToInteger="+strconv.FormatInt(bridge.ToIntegerSat(float64(u)), 10)
}

var intLiteral = regexp.MustCompile(`^-?[0-9]+$`)

// sigIntLiteral accepts: the source is a decimal integer literal of magnitude
// > 2^53 that is not a double; otto keeps it as int64, so ToInteger returns the
// literal's digits while the in-language Number(x) is the rounded double.
func sigIntLiteral(m *engine.Mismatch) bool {
	src := m.Aux["src"]
	if m.Aux["component"] != "agree.ToInteger" || !intLiteral.MatchString(src) {
		return false
	}
	v, err := strconv.ParseInt(src, 10, 64)
	if err != nil || bridge.ToIntegerSat(float64(v)) == v {
		return false
	}
	return m.Observed == "agree.ToInteger=go "+src+" vs js "+strconv.FormatInt(bridge.ToIntegerSat(float64(v)), 10)
}

var setPanic = regexp.MustCompile(`PANIC: reflect\.Set: value of type (\S.*?) is not assignable to type (\S.*)$`)

// sigExportTypes accepts: Export of a JS array whose elements export to
// different Go types of the same kind (and element kind) dies with
// reflect.Set's "value of type X is not assignable to type Y", where Y is the
// type of the LAST element's export (export() builds reflect.SliceOf of it) and
// X the type of the first element whose type differs; both composite types.
func sigExportTypes(m *engine.Mismatch) bool {
	switch m.Aux["component"] {
	case "Export.byvalue", "crash":
	default:
		return false
	}
	g := setPanic.FindStringSubmatch(m.Observed)
	if g == nil || g[1] == g[2] {
		return false
	}
	types := strings.Split(m.Aux["elemTypes"], ";")
	if len(types) < 2 {
		return false
	}
	last := types[len(types)-1]
	first := ""
	for _, t := range types {
		if t != last {
			first = t
			break
		}
	}
	if g[2] != last || g[1] != first {
		return false
	}
	comp := func(t string) bool { return strings.HasPrefix(t, "[") || strings.HasPrefix(t, "map[") }
	return comp(g[1]) && comp(g[2])
}

var nativeCallees = map[string]bool{"gof": true, "o.g": true, "String.prototype.toUpperCase": true, "Array.prototype.concat": true}

// sigCallUndefinedThis accepts: a native callee (host function or built-in)
// called with this = undefined; the in-language f.call(undefined, ...) hands the
// global object to the callee (builtinFunctionCall's "FIXME Not ECMA5") while
// Value.Call / Otto.Call pass undefined as ES5 15.3.4.4 prescribes. Observed is
// expected with "global" replaced by "undefined" for the host function, or the
// TypeError the built-in raises for an undefined this.
func sigCallUndefinedThis(m *engine.Mismatch) bool {
	if m.Aux["this"] != "undefined" || !nativeCallees[m.Aux["callee"]] {
		return false
	}
	c := m.Aux["component"]
	if c != "Value.Call" && c != "Otto.Call(this)" {
		return false
	}
	_, obs, _ := strings.Cut(m.Observed, "=")
	_, exp, _ := strings.Cut(m.Expected, "=")
	if strings.Replace(exp, "this=global", "this=undefined", 1) == obs && exp != obs {
		return true
	}
	if strings.HasPrefix(obs, "err:TypeError") && strings.HasPrefix(exp, "ok:") &&
		(strings.Contains(exp, "[OBJECT ENVIRONMENT]") || strings.Contains(exp, "Array[global")) {
		return true
	}
	return false
}
