package c15

import (
	"encoding/json"
	"fmt"
	"reflect"
	"strings"

	"verif/mc/checks/brig"
	"verif/mc/engine"
	"verif/mc/ox"
	"verif/mc/ref/bridge"
)

// utf16store: otto holds some strings as UTF-16 code units ([]uint16) instead of
// Go strings (String.fromCharCode, concatenations with them). Every such string
// is sent into every Go-side store sink - elements of []interface{} / []string,
// values of map[string]interface{} / map[string]string, string and interface{}
// fields of a bridged struct, Go function parameters (string, interface{},
// ...string), a global read back with Get+Export - and must arrive as a Go
// string with the same text (a lone surrogate as U+FFFD, the documented stand-in);
// the script must read the slot back as a string equal to what Go holds; Export
// and MarshalJSON of the container must be those of the Go value.

type U16Box struct {
	Name string
	Any  interface{}
	Tags []string
}

func runUTF16Store(r *engine.Run) {
	type sval struct{ name, src, want string }
	vals := []sval{
		{"literal", `"hi"`, "hi"},
		{"fromCharCode ASCII", "String.fromCharCode(104, 105)", "hi"},
		{"fromCharCode non-ASCII", "String.fromCharCode(233, 8364)", "é€"},
		{"fromCharCode astral pair", `"a" + String.fromCharCode(0xD83D, 0xDE00)`, "a\U0001F600"},
		{"concat literal + fromCharCode", `"h" + String.fromCharCode(105)`, "hi"},
		{"lone surrogate", "String.fromCharCode(0xD800)", "�"},
		{"surrounded lone surrogate", `"a" + String.fromCharCode(0xDC00) + "b"`, "a�b"},
		{"empty fromCharCode", "String.fromCharCode()", ""},
	}
	type sink struct {
		name  string
		store string // script storing S
		read  string // script reading the slot back ("" = none)
		goval func(c *u16State) interface{}
	}
	sinks := []sink{
		{"[]interface{} element", "si[0] = S", "si[0]", func(c *u16State) interface{} { return c.si[0] }},
		{"map[string]interface{} value", "mi.k = S", "mi.k", func(c *u16State) interface{} { return c.mi["k"] }},
		{"[]string element", "ss[0] = S", "ss[0]", func(c *u16State) interface{} { return c.ss[0] }},
		{"map[string]string value", "ms.k = S", "ms.k", func(c *u16State) interface{} { return c.ms["k"] }},
		{"map[string]string key", "ms[S] = \"v\"", "", func(c *u16State) interface{} { return c.onlyNewKey() }},
		{"struct string field", "box.Name = S", "box.Name", func(c *u16State) interface{} { return c.box.Name }},
		{"struct interface{} field", "box.Any = S", "box.Any", func(c *u16State) interface{} { return c.box.Any }},
		{"struct []string field element", "box.Tags[0] = S", "box.Tags[0]", func(c *u16State) interface{} { return c.box.Tags[0] }},
		{"push into []interface{}", "si.push(S)", "si[si.length-1]", func(c *u16State) interface{} { return nil }},
		{"func(string)", "fs(S)", "", func(c *u16State) interface{} { return c.recv }},
		{"func(interface{})", "fa(S)", "", func(c *u16State) interface{} { return c.recv }},
		{"func(...string)", "fv(S, S)", "", func(c *u16State) interface{} { return c.recv }},
		{"func(map[string]string)", "fm({k: S})", "", func(c *u16State) interface{} { return c.recv }},
		{"func([]interface{})", "fl([S])", "", func(c *u16State) interface{} { return c.recv }},
		{"global + Get/Export", "g = S", "g", func(c *u16State) interface{} { return c.export("g") }},
	}
	r.Bound("strings", fmt.Sprint(len(vals)))
	r.Bound("sinks", fmt.Sprint(len(sinks)))
	for _, sk := range sinks {
		for _, v := range vals {
			key := sk.name + "/" + v.name
			if !r.MineKey(key) {
				continue
			}
			r.Begin(key)
			c := newU16State()
			res := ox.Run(c.g.VM, "var S = "+v.src+"; "+sk.store+"; 0")
			exp, got := brig.NewObs(), brig.NewObs()
			outcome := "ok"
			switch {
			case res.Panicked:
				outcome = "PANIC: " + brig.OneLine(fmt.Sprint(res.PanicVal))
			case res.Err != nil:
				outcome = "error: " + res.Err.Error()
			}
			exp.Put("outcome", "ok")
			got.Put("outcome", outcome)
			if outcome == "ok" {
				var want interface{} = v.want
				switch sk.name {
				case "func(...string)":
					want = []string{v.want, v.want}
				case "func(map[string]string)":
					want = map[string]string{"k": v.want}
				case "func([]interface{})":
					want = []interface{}{v.want}
				}
				if sk.name != "push into []interface{}" {
					exp.Put("Go value", bridge.Render(want))
					got.Put("Go value", brig.Safe(func() string { return bridge.Render(sk.goval(c)) }))
				} else {
					exp.Put("Go value", "absent (a push on a by-value slice grows the script's header only)")
					got.Put("Go value", "absent (a push on a by-value slice grows the script's header only)")
				}
				if sk.read != "" {
					exp.Put("script read-back", "s:string/"+ox.Str16(ox.Units(v.want))[2:])
					got.Put("script read-back", c.g.EvalCanon("typeof ("+sk.read+") + \"/\" + "+sk.read))
				}
				// the containers as Go sees them serialise like the Go values
				for _, name := range []string{"si", "mi", "ss", "ms", "box"} {
					x, err := c.g.VM.Get(name)
					if err != nil {
						continue
					}
					gv := c.byName(name)
					if name == "si" && sk.name == "push into []interface{}" {
						gv = append(append([]interface{}{}, c.si...), v.want) // the script-held header grew
					}
					wj, _ := json.Marshal(gv)
					exp.Put("MarshalJSON "+name, jsonCanon(string(wj)))
					got.Put("MarshalJSON "+name, brig.Safe(func() string {
						b, err := x.MarshalJSON()
						if err != nil {
							return "err " + err.Error()
						}
						return jsonCanon(string(b))
					}))
					js := c.g.EvalCanon("JSON.stringify(" + name + ")")
					if strings.HasPrefix(js, "s:") {
						js = jsonCanon(unStr16(js[2:]))
					}
					got.Put("JSON.stringify "+name, js)
					exp.Put("JSON.stringify "+name, scriptJSON(gv))
				}
			}
			r.End()
			r.Eval(outcome == "ok")
			r.Tree(1, 1)
			r.Outcome(got.String())
			if r.WantSample() {
				r.Sample(sk.store + " with S = " + v.src + " => " + got.M["Go value"])
			}
			brig.Compare(r, key, "var S = "+v.src+"; "+sk.store, exp, got, map[string]string{"sink": sk.name, "string": v.name})
		}
	}
}

// scriptJSON is what JSON.stringify shows for a bridged Go value: the natural
// counterpart (field names, nil -> omitted).
func scriptJSON(v interface{}) string {
	n := bridge.Counterpart(v)
	if j, ok := n.JSONView(); ok {
		return nodeJSONCanon(j)
	}
	return "u"
}

type u16State struct {
	g    *brig.Rig
	si   []interface{}
	mi   map[string]interface{}
	ss   []string
	ms   map[string]string
	box  *U16Box
	recv interface{}
}

func newU16State() *u16State {
	c := &u16State{g: brig.NewRig(), si: []interface{}{1, 2}, mi: map[string]interface{}{"k": 1}, ss: []string{"x", "y"},
		ms: map[string]string{"k": "x"}, box: &U16Box{Name: "n", Any: 1, Tags: []string{"t"}}}
	vm := c.g.VM
	vm.Set("si", c.si)
	vm.Set("mi", c.mi)
	vm.Set("ss", c.ss)
	vm.Set("ms", c.ms)
	vm.Set("box", c.box)
	vm.Set("fs", func(s string) int { c.recv = s; return len(s) })
	vm.Set("fa", func(a interface{}) int { c.recv = a; return 0 })
	vm.Set("fv", func(a ...string) int { c.recv = a; return len(a) })
	vm.Set("fm", func(m map[string]string) int { c.recv = m; return len(m) })
	vm.Set("fl", func(l []interface{}) int { c.recv = l; return len(l) })
	return c
}

func (c *u16State) byName(n string) interface{} {
	switch n {
	case "si":
		return c.si
	case "mi":
		return c.mi
	case "ss":
		return c.ss
	case "ms":
		return c.ms
	}
	return c.box
}

func (c *u16State) onlyNewKey() interface{} {
	for k := range c.ms {
		if k != "k" {
			return k
		}
	}
	if len(c.ms) == 1 {
		return "k" // S was "k"? (never) - or the store replaced nothing
	}
	return nil
}

func (c *u16State) export(name string) interface{} {
	x, err := c.g.VM.Get(name)
	if err != nil {
		return err
	}
	e, _ := x.Export()
	return e
}

var _ = reflect.TypeOf
