package c15

import (
	"fmt"
	"reflect"
	"strings"

	"verif/mc/checks/brig"
	"verif/mc/engine"
	"verif/mc/ox"
	"verif/mc/ref/bridge"
)

// typeset: SEQUENCES of bridged values, within one process and one or two
// runtimes, whose Go types look alike (same kind, same or no name, same field
// names at other positions or with other types) but differ. Each value is fully
// observed - Export, MarshalJSON, traversal, JSON.stringify, every field read
// by Go name and by json-tag name, every scalar field of pointer-bridged structs
// written and read back on the Go side - after the other values were observed,
// in both orders. Nothing the bridge learnt about one type may leak into another.

type Base struct {
	ID   int
	Name string
}

type TZInner struct{ X int }
type TZMid struct{ TZInner }
type TZOther struct{ X int }
type TZTop struct {
	TZMid
	TZOther
}

type TSInner struct{ Count int }
type TSShadow struct {
	TSInner
	Count int `json:"count"`
	Extra int `json:",omitempty"`
}

type Base2 struct {
	Name string
	ID   int
}

func localT1() interface{} {
	type T struct {
		X int
		Y string
	}
	return &T{X: 1, Y: "t1"}
}

func localT2() interface{} {
	type T struct {
		Y string
		X int
		Z bool
	}
	return &T{Y: "t2", X: 2, Z: true}
}

func structOf(fields ...reflect.StructField) reflect.Value {
	return reflect.New(reflect.StructOf(fields)).Elem()
}

type tsVal struct {
	name string
	mk   func() interface{}
}

func typesetCatalog() []tsVal {
	tString, tInt, tBool := reflect.TypeOf(""), reflect.TypeOf(0), reflect.TypeOf(false)
	return []tsVal{
		{"anon{Name,Size}", func() interface{} {
			return &struct {
				Name string
				Size int
			}{"first", 1}
		}},
		{"anon{Size,Extra,Name}", func() interface{} {
			return &struct {
				Size  int
				Extra bool
				Name  string
			}{42, true, "second"}
		}},
		{"anon{Size string,Name int}", func() interface{} {
			return &struct {
				Size string
				Name int
			}{"sz", 9}
		}},
		{"anon-by-value{Name,Size}", func() interface{} {
			return struct {
				Name string
				Size float64
			}{"byval", 2.5}
		}},
		{"local T (f1)", localT1},
		{"local T (f2)", localT2},
		{"StructOf{A int,B string}", func() interface{} {
			v := structOf(reflect.StructField{Name: "A", Type: tInt}, reflect.StructField{Name: "B", Type: tString})
			v.Field(0).SetInt(7)
			v.Field(1).SetString("so1")
			return v.Addr().Interface()
		}},
		{"StructOf{B string,C bool,A int}", func() interface{} {
			v := structOf(reflect.StructField{Name: "B", Type: tString}, reflect.StructField{Name: "C", Type: tBool}, reflect.StructField{Name: "A", Type: tInt})
			v.Field(0).SetString("so2")
			v.Field(1).SetBool(true)
			v.Field(2).SetInt(8)
			return v.Addr().Interface()
		}},
		{"named Plain", func() interface{} { return &Plain{A: 3, B: "plain", F: 0.5, Ok: true} }},
		{"unnamed like Plain, permuted", func() interface{} {
			return &struct {
				Ok bool
				F  float64
				B  string
				A  int
			}{false, 1.5, "unnamed", 4}
		}},
		{"embedded Base", func() interface{} {
			return &struct {
				Base
				Tag string
			}{Base{ID: 5, Name: "emb1"}, "t"}
		}},
		{"embedded Base2", func() interface{} {
			return &struct {
				Tag string
				Base2
			}{"u", Base2{Name: "emb2", ID: 6}}
		}},
		{"tagged own shadows promoted", func() interface{} { return &TSShadow{TSInner{1}, 2, 3} }},
		{"non-ASCII capitals", func() interface{} {
			return &struct {
				Éclair int
				Ωmega  string
			}{3, "w"}
		}},
		{"depth rule", func() interface{} { return &TZTop{TZMid{TZInner{1}}, TZOther{2}} }},
		{"tags crossed", func() interface{} {
			return &struct {
				X    int    `json:"name"`
				Name string `json:"x"`
			}{11, "crossed"}
		}},
		{"tags plain", func() interface{} {
			return &struct {
				Name string `json:"name"`
				X    int    `json:"x"`
			}{"straight", 12}
		}},
		{"map[string]int", func() interface{} { return map[string]int{"Name": 1, "Size": 2} }},
		{"map[string]string", func() interface{} { return map[string]string{"Name": "n", "Size": "s"} }},
		{"[]int", func() interface{} { return []int{1, 2} }},
		{"[]int8", func() interface{} { return []int8{-1, -2} }},
		{"[]struct{A int}", func() interface{} { return []struct{ A int }{{1}, {2}} }},
		{"[]struct{B int;A string}", func() interface{} {
			return []struct {
				B int
				A string
			}{{3, "x"}}
		}},
	}
}

// lookupField is the documented member lookup of a bridged struct: fields in
// order; an embedded struct is searched first; then the json tag, then the Go name.
func lookupField(v reflect.Value, name string) (reflect.Value, bool) {
	declares := func(f reflect.StructField) bool {
		if !bridge.ExportedName(f.Name) {
			return false
		}
		if tag := strings.Split(f.Tag.Get("json"), ",")[0]; tag != "" && tag != "-" && tag == name {
			return true
		}
		return f.Name == name
	}
	// Go's selector rule: breadth first - the shallowest struct that declares the name wins
	level := []reflect.Value{v}
	for len(level) > 0 {
		var next []reflect.Value
		for _, sv := range level {
			t := sv.Type()
			for i := 0; i < t.NumField(); i++ {
				if declares(t.Field(i)) {
					return sv.Field(i), true
				}
			}
			for i := 0; i < t.NumField(); i++ {
				if f := t.Field(i); bridge.ExportedName(f.Name) && f.Anonymous && f.Type.Kind() == reflect.Struct {
					next = append(next, sv.Field(i))
				}
			}
		}
		level = next
	}
	return reflect.Value{}, false
}

func memberNames(t reflect.Type, into map[string]bool) {
	for i := 0; i < t.NumField(); i++ {
		f := t.Field(i)
		if !bridge.ExportedName(f.Name) {
			continue
		}
		into[f.Name] = true
		if tag := strings.Split(f.Tag.Get("json"), ",")[0]; tag != "" && tag != "-" {
			into[tag] = true
		}
		if f.Anonymous && f.Type.Kind() == reflect.Struct {
			memberNames(f.Type, into)
		}
	}
}

func leafCanon(v reflect.Value) string {
	n := bridge.Counterpart(v.Interface())
	switch n.K {
	case bridge.Num:
		return "d:" + ox.Num(n.N)
	case bridge.Str:
		return ox.Str16(n.S)
	case bridge.Bool:
		return "b:" + brig.B01(n.B)
	case bridge.Undef:
		return "u"
	}
	return "object"
}

// structExtras reads every member by every name it has, and (for structs
// bridged by pointer) writes every scalar member by every name and reads the Go
// value back. The global x holds the value.
func structExtras(g *brig.Rig, v interface{}, exp, got *brig.Obs) {
	rv := reflect.ValueOf(v)
	sv := reflect.Indirect(rv)
	if sv.Kind() != reflect.Struct {
		return
	}
	names := map[string]bool{"Name": true, "Size": true, "A": true, "X": true, "nosuch": true}
	memberNames(sv.Type(), names)
	for _, n := range brig.SortedKeys(boolKeys(names)) {
		want := "u"
		if fv, ok := lookupField(sv, n); ok {
			want = leafCanon(fv)
		}
		obs := g.EvalCanon("x[" + fmt.Sprintf("%q", n) + "]")
		if strings.HasPrefix(obs, "o:") {
			obs = "object"
		}
		exp.Put("read "+n, want)
		got.Put("read "+n, obs)
	}
	if rv.Kind() != reflect.Ptr {
		return
	}
	i := 0
	for _, n := range brig.SortedKeys(boolKeys(names)) {
		fv, ok := lookupField(sv, n)
		if !ok {
			continue
		}
		i++
		var src string
		var marker reflect.Value
		switch fv.Kind() {
		case reflect.Int:
			src, marker = fmt.Sprint(1000+i), reflect.ValueOf(1000+i)
		case reflect.String:
			src, marker = fmt.Sprintf("%q", fmt.Sprint("w", i)), reflect.ValueOf(fmt.Sprint("w", i))
		case reflect.Bool:
			src, marker = fmt.Sprint(!fv.Bool()), reflect.ValueOf(!fv.Bool())
		case reflect.Float64:
			src, marker = fmt.Sprint(float64(i)+0.25), reflect.ValueOf(float64(i)+0.25)
		default:
			continue
		}
		before := bridge.Render(sv.Interface())
		// the expected Go value: a copy with exactly that member replaced
		cp := reflect.New(sv.Type()).Elem()
		cp.Set(sv)
		tgt, _ := lookupField(cp, n)
		tgt.Set(marker)
		want := bridge.Render(cp.Interface())
		res := g.EvalCanon("x[" + fmt.Sprintf("%q", n) + "] = " + src + "; 0")
		after := bridge.Render(sv.Interface())
		exp.Put("write "+n, "d:0 -> "+want)
		got.Put("write "+n, res+" -> "+after)
		_ = before
	}
}

func boolKeys(m map[string]bool) map[string]string {
	out := map[string]string{}
	for k := range m {
		out[k] = ""
	}
	return out
}

// fullObserve Sets v as x in g and compares every observation with the model.
func fullObserve(r *engine.Run, g *brig.Rig, key, what string, v interface{}) bool {
	got, clean := observeContainer(g, v)
	exp := containerExpect(v)
	fixTypedExpect(exp, v)
	if got.M["Set"] == "ok" {
		structExtras(g, v, exp, got)
	}
	r.Outcome(what + "|" + got.String())
	brig.Compare(r, key, what+": vm.Set(\"x\", "+bridge.Render(v)+")", exp, got, map[string]string{"value": what})
	for _, n := range got.Names {
		if strings.HasPrefix(got.M[n], "PANIC") {
			clean = false
		}
	}
	return clean
}

func runTypeset(r *engine.Run) {
	cat := typesetCatalog()
	r.Bound("values", fmt.Sprint(len(cat)))
	r.Bound("sequences", "every ordered pair (same runtime, two runtimes); triples over the struct values in the thorough tier")
	type seq struct {
		idx []int
		two bool
	}
	var seqs []seq
	for i := range cat {
		for j := range cat {
			if i != j {
				seqs = append(seqs, seq{[]int{i, j}, false}, seq{[]int{i, j}, true})
			}
		}
	}
	if r.Thorough() {
		for i := 0; i < 17; i++ {
			for j := 0; j < 17; j++ {
				for k := 0; k < 17; k++ {
					if i != j && j != k && i != k {
						seqs = append(seqs, seq{[]int{i, j, k}, false})
					}
				}
			}
		}
	}
	var g1, g2 *brig.Rig
	for _, s := range seqs {
		names := make([]string, len(s.idx))
		for i, x := range s.idx {
			names[i] = cat[x].name
		}
		key := strings.Join(names, " ; ")
		if s.two {
			key = "two runtimes: " + key
		}
		if !r.MineKey(key) {
			continue
		}
		if g1 == nil {
			g1 = brig.NewRig()
		}
		if g2 == nil {
			g2 = brig.NewRig()
		}
		r.Begin(key)
		clean := true
		vals := make([]interface{}, len(s.idx))
		for i, x := range s.idx {
			vals[i] = cat[x].mk()
		}
		// observe each in turn, then the earlier ones again
		order := make([]int, 0, 2*len(vals))
		for i := range vals {
			order = append(order, i)
		}
		for i := 0; i < len(vals)-1; i++ {
			order = append(order, i)
		}
		for step, i := range order {
			g := g1
			if s.two && i%2 == 1 {
				g = g2
			}
			v := vals[i]
			if step >= len(vals) {
				v = cat[s.idx[i]].mk() // a fresh value of the first type, after the others were used
			}
			if !fullObserve(r, g, key, fmt.Sprintf("step %d %s", step+1, names[i]), v) {
				clean = false
			}
		}
		r.End()
		r.Eval(true)
		r.Tree(1, 1)
		if r.WantSample() {
			r.Sample(key)
		}
		if !clean {
			g1, g2 = nil, nil
		}
	}
}
