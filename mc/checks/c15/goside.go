package c15

import (
	"encoding/json"
	"fmt"
	"math"
	"reflect"
	"sort"
	"strconv"
	"strings"
	"time"
	"unicode/utf8"

	"github.com/robertkrimen/otto"

	"verif/mc/checks/brig"
	"verif/mc/engine"
	"verif/mc/ox"
	"verif/mc/ref/bridge"
)

// ---------------------------------------------------------------------------
// the Go value alphabet

type gval struct {
	name string
	v    interface{}
}

type (
	MyInt  int
	MyU8   uint8
	MyStr  string
	MyBool bool
	MyF32  float32
	MyF64  float64
)

const two53 = 1 << 53

func goScalars() []gval {
	var l []gval
	add := func(name string, v interface{}) { l = append(l, gval{name, v}) }
	add("bool/false", false)
	add("bool/true", true)
	names7 := []string{"min", "min+1", "-1", "0", "1", "max-1", "max"}
	for i, v := range []int8{math.MinInt8, math.MinInt8 + 1, -1, 0, 1, math.MaxInt8 - 1, math.MaxInt8} {
		add("int8/"+names7[i], v)
	}
	for i, v := range []int16{math.MinInt16, math.MinInt16 + 1, -1, 0, 1, math.MaxInt16 - 1, math.MaxInt16} {
		add("int16/"+names7[i], v)
	}
	for i, v := range []int32{math.MinInt32, math.MinInt32 + 1, -1, 0, 1, math.MaxInt32 - 1, math.MaxInt32} {
		add("int32/"+names7[i], v)
	}
	for i, v := range []int64{math.MinInt64, math.MinInt64 + 1, -1, 0, 1, math.MaxInt64 - 1, math.MaxInt64} {
		add("int64/"+names7[i], v)
	}
	for i, v := range []int{math.MinInt, math.MinInt + 1, -1, 0, 1, math.MaxInt - 1, math.MaxInt} {
		add("int/"+names7[i], v)
	}
	add("int64/2^53", int64(two53))
	add("int64/2^53+1", int64(two53+1))
	add("int64/-2^53-1", int64(-two53-1))
	add("int/2^53+1", int(two53+1))
	add("int/-2^53-1", int(-two53-1))
	names4 := []string{"0", "1", "max-1", "max"}
	for i, v := range []uint8{0, 1, math.MaxUint8 - 1, math.MaxUint8} {
		add("uint8/"+names4[i], v)
	}
	for i, v := range []uint16{0, 1, math.MaxUint16 - 1, math.MaxUint16} {
		add("uint16/"+names4[i], v)
	}
	for i, v := range []uint32{0, 1, math.MaxUint32 - 1, math.MaxUint32} {
		add("uint32/"+names4[i], v)
	}
	for i, v := range []uint64{0, 1, math.MaxUint64 - 1, math.MaxUint64} {
		add("uint64/"+names4[i], v)
	}
	for i, v := range []uint{0, 1, math.MaxUint - 1, math.MaxUint} {
		add("uint/"+names4[i], v)
	}
	add("uint64/2^53", uint64(two53))
	add("uint64/2^53+1", uint64(two53+1))
	add("uint64/2^63-1", uint64(math.MaxInt64))
	add("uint64/2^63", uint64(1<<63))
	add("uint/2^53+1", uint(two53+1))
	add("uint/2^63", uint(1<<63))
	f32 := []float32{0, float32(math.Copysign(0, -1)), math.SmallestNonzeroFloat32, -math.SmallestNonzeroFloat32,
		math.MaxFloat32, -math.MaxFloat32, float32(math.Inf(1)), float32(math.Inf(-1)), float32(math.NaN()),
		0.1, 16777216, 16777215, 1.5, -2.5, 1e10}
	for _, v := range f32 {
		add("float32/"+ox.Num(float64(v)), v)
	}
	for _, v := range floats64() {
		add("float64/"+ox.Num(v), v)
	}
	for _, s := range goStrings() {
		add("string/"+strconv.QuoteToASCII(s), s)
	}
	add("nil", nil)
	add("nil/*int", (*int)(nil))
	add("nil/**int", (**int)(nil))
	add("nil/*string", (*string)(nil))
	add("nil/*struct", (*Plain)(nil))
	i7 := 7
	pi := &i7
	add("ptr/*int", pi)
	add("ptr/**int", &pi)
	str := "p"
	add("ptr/*string", &str)
	bt := true
	add("ptr/*bool", &bt)
	f64 := 0.25
	add("ptr/*float64", &f64)
	f32v := float32(0.5)
	add("ptr/*float32", &f32v)
	u8 := uint8(200)
	add("ptr/*uint8", &u8)
	i64 := int64(two53 + 1)
	add("ptr/*int64", &i64)
	add("named/MyInt", MyInt(-4))
	add("named/MyU8", MyU8(255))
	add("named/MyStr", MyStr("s"))
	add("named/MyBool", MyBool(true))
	add("named/MyF32", MyF32(0.5))
	add("named/MyF64", MyF64(0.25))
	add("named/Duration", 1500*time.Millisecond)
	return l
}

func floats64() []float64 {
	return []float64{0, math.Copysign(0, -1), 5e-324, -5e-324, math.MaxFloat64, -math.MaxFloat64,
		math.Inf(1), math.Inf(-1), math.NaN(), 0.1, 0.5, -0.5, 1, -1, 1.5, 2147483647, 2147483648, 4294967295, 4294967296,
		two53 - 1, two53, two53 + 2, -two53, 9223372036854775808.0, -9223372036854775808.0, 18446744073709551616.0,
		1e21, 1e-7, 1.5e-6, 123456789, 1.2345678901234567e20, 1e300, 0.000001, 100}
}

func goStrings() []string {
	return []string{"", "a", "hello world", "é", "€", "\U0001F600", "a\x00b", "x\U0001F600éy",
		"5", " 12 ", "0x10", "1e3", "-0", "Infinity", "-Infinity", ".5", "5.", "12px", "+7", "true", "null", "\n",
		"\xff\xfe", "a\xc3", "\xed\xa0\x80"}
}

// canonScalar is what Export promises for a scalar original: pointers are
// drilled through (nil at any level gives nil), named types come back as their
// underlying basic kind, float32 is widened to float64.
func canonScalar(x interface{}) interface{} {
	if x == nil {
		return nil
	}
	v := reflect.ValueOf(x)
	for v.Kind() == reflect.Ptr {
		if v.IsNil() {
			return nil
		}
		v = v.Elem()
	}
	switch v.Kind() {
	case reflect.Bool:
		return v.Bool()
	case reflect.Int:
		return int(v.Int())
	case reflect.Int8:
		return int8(v.Int())
	case reflect.Int16:
		return int16(v.Int())
	case reflect.Int32:
		return int32(v.Int())
	case reflect.Int64:
		return v.Int()
	case reflect.Uint:
		return uint(v.Uint())
	case reflect.Uint8:
		return uint8(v.Uint())
	case reflect.Uint16:
		return uint16(v.Uint())
	case reflect.Uint32:
		return uint32(v.Uint())
	case reflect.Uint64:
		return v.Uint()
	case reflect.Float32, reflect.Float64:
		return v.Float()
	case reflect.String:
		return v.String()
	}
	return x
}

// scalarExpect is the model of every observation of a scalar Go value.
func scalarExpect(orig interface{}) (*brig.Obs, map[string]string) {
	c := canonScalar(orig)
	node := bridge.Counterpart(orig)
	aux := map[string]string{"gokind": fmt.Sprintf("%T", c), "origtype": fmt.Sprintf("%T", orig)}
	if rv := reflect.ValueOf(orig); rv.IsValid() {
		for rv.Kind() == reflect.Ptr && !rv.IsNil() {
			rv = rv.Elem()
		}
		if rv.Kind() == reflect.Float32 && fmt.Sprintf("%T", orig) != "float32" {
			aux["f32reflect"] = "1"
		}
	}
	e := brig.NewObs()
	e.Put("Set", "ok")
	e.Put("Get", "ok")
	rc := bridge.Render(c)
	e.Put("Export", rc)
	e.Put("ToValue.Export", rc)
	e.Put("ToValue.same", "b:1")
	e.Put("pkgToValue.Export", rc)
	e.Put("Object.Set/Get.Export", rc)

	var toInt int64
	var toFloat float64
	var toStr string
	typeof := ""
	validStr := true
	switch node.K {
	case bridge.Undef:
		typeof, toInt, toFloat, toStr = "undefined", 0, math.NaN(), "undefined"
	case bridge.Bool:
		typeof, toStr = "boolean", "false"
		if node.B {
			toInt, toFloat, toStr = 1, 1, "true"
		}
	case bridge.Num:
		typeof = "number"
		toFloat = node.N
		toStr = bridge.NumberToString(node.N)
		rv := reflect.ValueOf(c)
		switch rv.Kind() {
		case reflect.Int, reflect.Int8, reflect.Int16, reflect.Int32, reflect.Int64:
			toInt = rv.Int()
			aux["godec"] = strconv.FormatInt(rv.Int(), 10)
		case reflect.Uint, reflect.Uint8, reflect.Uint16, reflect.Uint32, reflect.Uint64:
			if rv.Uint() > math.MaxInt64 {
				toInt = math.MaxInt64
			} else {
				toInt = int64(rv.Uint())
			}
			aux["godec"] = strconv.FormatUint(rv.Uint(), 10)
		default:
			toInt = bridge.ToIntegerSat(node.N)
		}
	case bridge.Str:
		typeof = "string"
		s := c.(string)
		validStr = utf8.ValidString(s)
		toStr = s
		toFloat = bridge.StringToNumber(s)
		toInt = bridge.ToIntegerSat(toFloat)
	}
	e.Put("ToInteger", fmt.Sprint(toInt))
	e.Put("ToFloat", "d:"+ox.Num(toFloat))
	e.Put("ToString", strObs(toStr))
	e.Put("ToBoolean", fmt.Sprint(node.ToBoolean()))
	if b, err := json.Marshal(c); err == nil {
		e.Put("MarshalJSON", string(b))
	} else {
		e.Put("MarshalJSON", "err")
	}
	e.Put("Is", brig.PredicatesFor(typeof, false, "", brig.B01(math.IsNaN(toFloat))))
	if !validStr {
		// Not UTF-8: outside the property's quantifier on the script side; only
		// the Go-side identity and crash freedom are demanded.
		aux["invalid_utf8"] = "1"
		return e, aux
	}
	e.Put("js.typeof", "s:"+typeof)
	e.Put("js.Number", "d:"+ox.Num(toFloat))
	e.Put("js.String", ox.Str16(ox.Units(toStr)))
	e.Put("js.Boolean", "b:"+brig.B01(node.ToBoolean()))
	e.Put("js.isNaN", "b:"+brig.B01(math.IsNaN(toFloat)))
	e.Put("js.class", "s:")
	e.Put("js.same", "b:1")
	switch node.K {
	case bridge.Undef:
		e.Put("js.JSON", "u")
	case bridge.Num:
		if math.IsNaN(node.N) || math.IsInf(node.N, 0) {
			e.Put("js.JSON", "s:null")
		} else {
			e.Put("js.JSON", "s:"+toStr)
		}
	case bridge.Bool:
		e.Put("js.JSON", "s:"+toStr)
	case bridge.Str:
		e.Put("js.JSON", "jsonstr:"+bridge.StrCanon(node.S))
	}
	return e, aux
}

// strObs renders a Go-side string: its UTF-16 units, plus the raw bytes when
// the string is not UTF-8 (the Go side must hand back the identical bytes).
func strObs(s string) string {
	out := ox.Str16(ox.Units(s))
	if !utf8.ValidString(s) {
		out += fmt.Sprintf(" raw=%x", s)
	}
	return out
}

func goSideStr(o *brig.Obs, v otto.Value) {
	o.Put("ToString", brig.Safe(func() string {
		s, err := v.ToString()
		if err != nil {
			return brig.ErrStr(err)
		}
		return strObs(s)
	}))
}

// jsonObs post-processes the recorded JSON.stringify result of a string value:
// the text is compared after parsing (escape choices belong to C11).
func jsonObs(canon string, isString bool) string {
	if !isString || !strings.HasPrefix(canon, "s:") {
		return canon
	}
	// undo ox.Str16 escaping
	text := unStr16(canon[2:])
	var s string
	if err := json.Unmarshal([]byte(text), &s); err != nil {
		return "unparseable:" + canon
	}
	return "jsonstr:" + bridge.StrCanon(ox.Units(s))
}

func unStr16(s string) string {
	var u []uint16
	for i := 0; i < len(s); {
		if s[i] == '\\' && i+5 < len(s)+0 && s[i+1] == 'u' {
			v, err := strconv.ParseUint(s[i+2:i+6], 16, 16)
			if err == nil {
				u = append(u, uint16(v))
				i += 6
				continue
			}
		}
		u = append(u, uint16(s[i]))
		i++
	}
	return string(utf16Decode(u))
}

func runGoScalars(r *engine.Run) {
	vals := goScalars()
	r.Bound("values", fmt.Sprint(len(vals)))
	var g *brig.Rig
	for _, gv := range vals {
		key := gv.name
		if !r.MineKey(key) {
			continue
		}
		if g == nil {
			g = brig.NewRig()
		}
		r.Begin(key)
		got, clean := observeScalar(g, gv.v)
		r.End()
		exp, aux := scalarExpect(gv.v)
		r.Eval(got.M["Set"] == "ok")
		r.Tree(1, 1)
		r.Outcome(got.String())
		input := fmt.Sprintf("vm.Set(\"x\", %s)", bridge.Render(gv.v))
		if r.WantSample() {
			r.Sample(input + " => Export=" + got.M["Export"] + " String(x)=" + got.M["js.String"])
		}
		brig.Compare(r, key, input, exp, got, aux)
		if !clean {
			g = nil // a panic may have left the runtime inside a scope
		}
	}
}

func observeScalar(g *brig.Rig, v interface{}) (*brig.Obs, bool) {
	o := brig.NewObs()
	vm := g.VM
	o.Put("Set", brig.Safe(func() string { return brig.ErrStr(vm.Set("x", v)) }))
	var x otto.Value
	o.Put("Get", brig.Safe(func() string {
		var err error
		x, err = vm.Get("x")
		return brig.ErrStr(err)
	}))
	brig.GoSide(o, "", x, true)
	goSideStr(o, x)
	o.Put("ToValue.Export", brig.Safe(func() string {
		tv, err := vm.ToValue(v)
		if err != nil {
			return brig.ErrStr(err)
		}
		if err := vm.Set("y", tv); err != nil {
			return "set:" + brig.ErrStr(err)
		}
		e, _ := tv.Export()
		return bridge.Render(e)
	}))
	o.Put("ToValue.same", g.EvalCanon("__same(x, y)"))
	o.Put("pkgToValue.Export", brig.Safe(func() string {
		tv, err := otto.ToValue(v)
		if err != nil {
			return brig.ErrStr(err)
		}
		e, _ := tv.Export()
		return bridge.Render(e)
	}))
	o.Put("Object.Set/Get.Export", brig.Safe(func() string {
		h, err := vm.Object("__h = {}")
		if err != nil {
			return "holder:" + brig.ErrStr(err)
		}
		if err := h.Set("p", v); err != nil {
			return "set:" + brig.ErrStr(err)
		}
		pv, err := h.Get("p")
		if err != nil {
			return "get:" + brig.ErrStr(err)
		}
		if c := g.EvalCanon("__same(x, __h.p)"); c != "b:1" {
			return "Object.Set stored a different value: " + c
		}
		e, _ := pv.Export()
		return bridge.Render(e)
	}))
	rec := g.Probe("x")
	_, isStr := canonScalar(v).(string)
	for _, n := range rec.Names {
		val := rec.M[n]
		if n == "JSON" {
			val = jsonObs(val, isStr)
		}
		o.Put("js."+n, val)
	}
	lit := bridge.Counterpart(v).Source()
	o.Put("js.same", g.EvalCanon("__same(x, "+lit+")"))
	clean := true
	for _, n := range o.Names {
		if strings.HasPrefix(o.M[n], "PANIC") {
			clean = false
		}
	}
	return o, clean
}

// ---------------------------------------------------------------------------
// nested []interface{} / map[string]interface{}

func goLeaves() []interface{} {
	return []interface{}{nil, true, int(1), float64(1.5), "a", int64(-2)}
}

// containersOver returns every slice of length <= 2 and every map over the keys
// {a, b} (each absent or present) whose members come from items.
func containersOver(items []interface{}) []interface{} {
	var out []interface{}
	out = append(out, []interface{}{})
	for _, a := range items {
		out = append(out, []interface{}{a})
	}
	for _, a := range items {
		for _, b := range items {
			out = append(out, []interface{}{a, b})
		}
	}
	for ia := -1; ia < len(items); ia++ {
		for ib := -1; ib < len(items); ib++ {
			m := map[string]interface{}{}
			if ia >= 0 {
				m["a"] = items[ia]
			}
			if ib >= 0 {
				m["b"] = items[ib]
			}
			out = append(out, m)
		}
	}
	return out
}

func goContainers(depth int) []interface{} {
	items := goLeaves()
	var level []interface{}
	for d := 1; d <= depth; d++ {
		level = containersOver(items)
		if d < depth {
			items = append(append([]interface{}{}, goLeaves()...), level...)
		}
	}
	return level
}

func runGoContainers(r *engine.Run) {
	depth := 1
	if r.Thorough() {
		depth = 2
	}
	var all []interface{}
	all = append(all, goContainers(1)...)
	if depth == 2 {
		all = append(all, goContainers(2)...)
	} else {
		// quick: a slice of depth 2 (members: the leaves plus 8 depth-1 containers)
		d1 := goContainers(1)
		pick := []interface{}{d1[0], d1[3], d1[9], d1[20], d1[43], d1[44], d1[58], d1[91]}
		all = append(all, containersOver(append(append([]interface{}{}, goLeaves()...), pick...))...)
	}
	r.Bound("depth", fmt.Sprint(depth))
	r.Bound("shapes", fmt.Sprint(len(all)))
	seen := map[string]bool{}
	var g *brig.Rig
	for _, v := range all {
		key := bridge.Render(v)
		if seen[key] {
			continue
		}
		seen[key] = true
		if !r.MineKey(key) {
			continue
		}
		if g == nil {
			g = brig.NewRig()
		}
		if r.Expired() {
			r.Cap("time budget")
			return
		}
		r.Begin(key)
		got, clean := observeContainer(g, v)
		r.End()
		exp := containerExpect(v)
		r.Eval(got.M["Set"] == "ok")
		r.Tree(1, 1)
		r.Outcome(got.String())
		input := "vm.Set(\"x\", " + key + ")"
		if r.WantSample() {
			r.Sample(input + " => view=" + got.M["js.view"])
		}
		brig.Compare(r, key, input, exp, got, map[string]string{"gotype": fmt.Sprintf("%T", v)})
		if !clean {
			g = nil
		}
	}
}

// containerExpect is the model of a bridged container: Export hands back the
// original (same dynamic type, DeepEqual), MarshalJSON is encoding/json of the
// original, the script sees the natural counterpart element by element, and
// the Go-side conversions agree with the in-language ones (filled in by
// observeContainer as agree.* components, expected "=").
func containerExpect(v interface{}) *brig.Obs {
	e := brig.NewObs()
	e.Put("Set", "ok")
	e.Put("Get", "ok")
	e.Put("Export", bridge.Render(v))
	if b, err := json.Marshal(v); err == nil {
		e.Put("MarshalJSON", jsonCanon(string(b)))
	} else {
		e.Put("MarshalJSON", "err")
	}
	node := bridge.Counterpart(v)
	e.Put("js.typeof", "s:object")
	e.Put("js.view", node.Canon())
	if j, ok := node.JSONView(); ok {
		e.Put("js.JSON", nodeJSONCanon(j))
	} else {
		e.Put("js.JSON", "u")
	}
	e.Put("js.Boolean", "b:1")
	for _, n := range []string{"agree.ToString", "agree.ToFloat", "agree.ToInteger", "agree.ToBoolean", "agree.Is"} {
		e.Put(n, "=")
	}
	return e
}

// jsonCanon parses a JSON text and renders it canonically (key order free).
// Integer literals are kept digit-exact (a MarshalJSON that rounded a uint64
// through a double would differ), other numbers are compared as doubles.
func jsonCanon(text string) string {
	dec := json.NewDecoder(strings.NewReader(text))
	dec.UseNumber()
	var x interface{}
	if err := dec.Decode(&x); err != nil {
		return "unparseable: " + brig.OneLine(text)
	}
	if dec.More() {
		return "trailing data: " + brig.OneLine(text)
	}
	var sb strings.Builder
	jsonCanonTo(&sb, x)
	return sb.String()
}

func jsonCanonTo(sb *strings.Builder, x interface{}) {
	switch x := x.(type) {
	case nil:
		sb.WriteString("null")
	case bool:
		fmt.Fprint(sb, x)
	case json.Number:
		s := string(x)
		if !strings.ContainsAny(s, ".eE") {
			if s == "-0" {
				s = "0"
			}
			sb.WriteString(s)
			return
		}
		f, _ := x.Float64()
		if f == math.Trunc(f) && math.Abs(f) < 1e15 {
			sb.WriteString(strconv.FormatFloat(f+0, 'f', -1, 64))
			return
		}
		sb.WriteString(bridge.NumStr(f))
	case string:
		sb.WriteString(bridge.StrCanon(ox.Units(x)))
	case []interface{}:
		sb.WriteByte('[')
		for i, e := range x {
			if i > 0 {
				sb.WriteByte(',')
			}
			jsonCanonTo(sb, e)
		}
		sb.WriteByte(']')
	case map[string]interface{}:
		keys := make([]string, 0, len(x))
		for k := range x {
			keys = append(keys, k)
		}
		sort.Strings(keys)
		sb.WriteByte('{')
		for i, k := range keys {
			if i > 0 {
				sb.WriteByte(',')
			}
			sb.WriteString(bridge.StrCanon(ox.Units(k)))
			sb.WriteByte(':')
			jsonCanonTo(sb, x[k])
		}
		sb.WriteByte('}')
	}
}

// nodeJSONCanon renders a node in the format of jsonCanon.
func nodeJSONCanon(n *bridge.Node) string {
	var sb strings.Builder
	nodeJSONCanonTo(&sb, n)
	return sb.String()
}

func nodeJSONCanonTo(sb *strings.Builder, n *bridge.Node) {
	switch n.K {
	case bridge.Num:
		f := n.N
		if f == math.Trunc(f) && math.Abs(f) < 1e21 {
			// what a script prints for an integral double: the 9.8.1 digits
			sb.WriteString(bridge.NumberToString(f + 0))
			return
		}
		sb.WriteString(bridge.NumStr(f))
	case bridge.Arr:
		sb.WriteByte('[')
		for i, e := range n.Elem {
			if i > 0 {
				sb.WriteByte(',')
			}
			nodeJSONCanonTo(sb, e)
		}
		sb.WriteByte(']')
	case bridge.Obj:
		keys := append([]string(nil), n.Keys...)
		sort.Strings(keys)
		sb.WriteByte('{')
		for i, k := range keys {
			if i > 0 {
				sb.WriteByte(',')
			}
			sb.WriteString(bridge.StrCanon(ox.Units(k)))
			sb.WriteByte(':')
			nodeJSONCanonTo(sb, n.Vals[k])
		}
		sb.WriteByte('}')
	default:
		sb.WriteString(n.Canon())
	}
}

func observeContainer(g *brig.Rig, v interface{}) (*brig.Obs, bool) {
	o := brig.NewObs()
	vm := g.VM
	o.Put("Set", brig.Safe(func() string { return brig.ErrStr(vm.Set("x", v)) }))
	var x otto.Value
	o.Put("Get", brig.Safe(func() string {
		var err error
		x, err = vm.Get("x")
		return brig.ErrStr(err)
	}))
	raw := brig.NewObs()
	brig.GoSide(raw, "", x, false)
	o.Put("Export", raw.M["Export"])
	mj := raw.M["MarshalJSON"]
	if mj != "err" && !strings.HasPrefix(mj, "PANIC") {
		mj = jsonCanon(mj)
	}
	o.Put("MarshalJSON", mj)
	rec := g.Probe("x")
	o.Put("js.typeof", rec.M["typeof"])
	o.Put("js.Boolean", rec.M["Boolean"])
	o.Put("js.view", g.View("x"))
	js := rec.M["JSON"]
	if strings.HasPrefix(js, "s:") {
		js = jsonCanon(unStr16(js[2:]))
	}
	o.Put("js.JSON", js)
	agree(o, raw, rec)
	clean := true
	for _, n := range o.Names {
		if strings.HasPrefix(o.M[n], "PANIC") {
			clean = false
		}
	}
	return o, clean
}

// agree compares the Go-side conversions with the recorded in-language ones.
func agree(o, goSide, rec *brig.Obs) {
	cmp := func(name, goVal, jsVal string) {
		if goVal == jsVal {
			o.Put("agree."+name, "=")
		} else {
			o.Put("agree."+name, "go "+goVal+" vs js "+jsVal)
		}
	}
	num := rec.M["Number"]
	str := rec.M["String"]
	if strings.HasPrefix(num, "s:!") {
		cmp("ToFloat", goSide.M["ToFloat"], "err:"+num[3:])
		cmp("ToInteger", goSide.M["ToInteger"], "err:"+num[3:])
	} else {
		cmp("ToFloat", goSide.M["ToFloat"], num)
		f := parseNumCanon(num)
		cmp("ToInteger", goSide.M["ToInteger"], fmt.Sprint(bridge.ToIntegerSat(f)))
	}
	if strings.HasPrefix(str, "s:!") {
		cmp("ToString", goSide.M["ToString"], "err:"+str[3:])
	} else {
		cmp("ToString", goSide.M["ToString"], lossy(str))
	}
	cmp("ToBoolean", goSide.M["ToBoolean"], fmt.Sprint(rec.M["Boolean"] == "b:1"))
	class := strings.TrimPrefix(rec.M["class"], "s:")
	cmp("Is", goSide.M["Is"], brig.PredicatesFor(strings.TrimPrefix(rec.M["typeof"], "s:"), rec.M["isnull"] == "b:1", class, ""))
}

// lossy maps a canonical UTF-16 string through UTF-8 and back: the Go string
// returned by ToString cannot hold lone surrogates (U+FFFD is the documented
// stand-in of utf16.Decode).
func lossy(canon string) string {
	if !strings.HasPrefix(canon, "s:") {
		return canon
	}
	return ox.Str16(ox.Units(unStr16(canon[2:])))
}

func parseNumCanon(c string) float64 {
	c = strings.TrimPrefix(c, "d:")
	switch c {
	case "NaN":
		return math.NaN()
	case "Infinity":
		return math.Inf(1)
	case "-Infinity":
		return math.Inf(-1)
	case "-0":
		return math.Copysign(0, -1)
	}
	f, _ := strconv.ParseFloat(c, 64)
	return f
}

func utf16Decode(u []uint16) []rune {
	out := make([]rune, 0, len(u))
	for i := 0; i < len(u); i++ {
		c := u[i]
		switch {
		case c >= 0xD800 && c < 0xDC00 && i+1 < len(u) && u[i+1] >= 0xDC00 && u[i+1] < 0xE000:
			out = append(out, (rune(c)-0xD800)<<10+(rune(u[i+1])-0xDC00)+0x10000)
			i++
		case c >= 0xD800 && c < 0xE000:
			out = append(out, 0xFFFD)
		default:
			out = append(out, rune(c))
		}
	}
	return out
}

// ---------------------------------------------------------------------------
// typed slices, maps, arrays, structs

type Plain struct {
	A  int
	B  string
	F  float64
	Ok bool
}

type Nested struct {
	P Plain
	Q *Plain
	L []int
	M map[string]int
}

type Tagged struct {
	X int    `json:"x"`
	Y string `json:"why,omitempty"`
	Z int8
}

type Unexp struct {
	A int
	b int
	c string
	D []string
}

type WithMethod struct {
	N int
}

func (w WithMethod) Get() int  { return w.N }
func (w *WithMethod) Inc() int { w.N++; return w.N }

func goTyped() []gval {
	var l []gval
	add := func(name string, v interface{}) { l = append(l, gval{name, v}) }
	add("[]int/nil", []int(nil))
	add("[]int/empty", []int{})
	add("[]int/1,2", []int{1, 2})
	add("[]int/bounds", []int{math.MinInt, 0, math.MaxInt})
	add("[]int8/bounds", []int8{-128, 127})
	add("[]uint64/max", []uint64{0, math.MaxUint64})
	add("[]string/nil", []string(nil))
	add("[]string/empty", []string{})
	add("[]string/a,,e", []string{"a", "", "é\U0001F600"})
	add("[]float64/nil", []float64(nil))
	add("[]float64/empty", []float64{})
	add("[]float64/vals", []float64{0.5, math.Copysign(0, -1), math.NaN(), math.Inf(1), 1e21})
	add("[]float32/vals", []float32{0.1, 1.5})
	add("[]bool", []bool{true, false})
	add("[]byte", []byte("hi\x00"))
	add("[][]int/nil", [][]int(nil))
	add("[][]int/empty", [][]int{})
	add("[][]int/mixed", [][]int{{1}, {}, nil, {2, 3}})
	add("[]interface{}/nil", []interface{}(nil))
	add("[]*int", []*int{nil, new(int)})
	add("[2]int", [2]int{1, 2})
	add("[0]int", [0]int{})
	add("*[3]int", &[3]int{1, 2, 3})
	add("[2]string", [2]string{"a", ""})
	add("[2][]int", [2][]int{{1}, nil})
	add("map[string]int/nil", map[string]int(nil))
	add("map[string]int/empty", map[string]int{})
	add("map[string]int/a,b", map[string]int{"a": 1, "b": -2})
	add("map[string]int/keys", map[string]int{"": 0, "é": 1, "length": 2, "0": 3})
	add("map[string][]string/nil", map[string][]string(nil))
	add("map[string][]string/empty", map[string][]string{})
	add("map[string][]string/vals", map[string][]string{"k": {"x", "y"}, "n": nil, "e": {}})
	add("map[string]interface{}/nil", map[string]interface{}(nil))
	add("map[int]string", map[int]string{1: "one", -2: "minus two"})
	add("map[string]float64", map[string]float64{"h": 0.5})
	add("map[string]bool", map[string]bool{"t": true, "f": false})
	add("map[string]Plain", map[string]Plain{"p": {A: 1, B: "b"}})
	add("Plain/zero", Plain{})
	add("Plain/vals", Plain{A: -7, B: "b€", F: 0.5, Ok: true})
	add("*Plain/vals", &Plain{A: math.MaxInt, B: "", F: math.Inf(-1), Ok: false})
	add("Nested/zero", Nested{})
	add("Nested/vals", Nested{P: Plain{A: 1}, Q: &Plain{B: "q"}, L: []int{1, 2}, M: map[string]int{"k": 1}})
	add("*Nested/vals", &Nested{P: Plain{A: 1}, Q: &Plain{B: "q"}, L: []int{}, M: nil})
	add("Tagged/vals", Tagged{X: 1, Y: "y", Z: -1})
	add("Tagged/omitempty", Tagged{X: 2})
	add("*Tagged/vals", &Tagged{X: 1, Y: "y", Z: 127})
	add("Unexp/vals", Unexp{A: 1, b: 2, c: "hidden", D: []string{"d"}})
	add("*Unexp/vals", &Unexp{A: 1, b: 2, c: "hidden"})
	add("WithMethod", WithMethod{N: 3})
	add("*WithMethod", &WithMethod{N: 3})
	add("[]Plain", []Plain{{A: 1}, {B: "x"}})
	add("[]*Plain", []*Plain{{A: 1}, nil})
	add("struct{}", struct{}{})
	return l
}

func runGoTyped(r *engine.Run) {
	vals := goTyped()
	r.Bound("values", fmt.Sprint(len(vals)))
	var g *brig.Rig
	for _, gv := range vals {
		key := gv.name
		if !r.MineKey(key) {
			continue
		}
		if g == nil {
			g = brig.NewRig()
		}
		r.Begin(key)
		got, clean := observeContainer(g, gv.v)
		r.End()
		exp := containerExpect(gv.v)
		fixTypedExpect(exp, gv.v)
		r.Eval(got.M["Set"] == "ok")
		r.Tree(1, 1)
		r.Outcome(got.String())
		input := "vm.Set(\"x\", " + bridge.Render(gv.v) + ")"
		if r.WantSample() {
			r.Sample(input + " => view=" + got.M["js.view"] + " MarshalJSON=" + got.M["MarshalJSON"])
		}
		brig.Compare(r, key, input, exp, got, map[string]string{"gotype": fmt.Sprintf("%T", gv.v)})
		if !clean {
			g = nil
		}
	}
}

// fixTypedExpect adapts the container model to typed values: encoding/json
// cannot marshal NaN/Inf (error on both sides), []byte marshals as base64 text.
func fixTypedExpect(e *brig.Obs, v interface{}) {
	if _, err := json.Marshal(v); err != nil {
		e.Put("MarshalJSON", "err")
	}
}
