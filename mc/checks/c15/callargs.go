package c15

import (
	"fmt"
	"strings"

	"github.com/robertkrimen/otto"

	"verif/mc/checks/brig"
	"verif/mc/engine"
	"verif/mc/ox"
)

// callargs: argument tuples of arity 0..3 over Go kinds - scalars, nil,
// otto.Value, *otto.Object AND containers, structs, pointers, funcs - in every
// position, handed to every API call path; the callee's description of what it
// received must equal the in-language twin's, which receives the very same Go
// values through Otto.Set (one value at a time) and is called in-language.

const callArgsPrelude = `
var __global = this;
var o = {name: "o"};
function __dd(v) {
  var t = typeof v;
  if (v === null) return "null";
  if (t === "undefined") return "undefined";
  if (t === "number") return "number " + (v === 0 && 1 / v < 0 ? "-0" : String(v));
  if (t === "function") { var r; try { r = v(1); } catch (e) { r = "throws " + e.name; } return "function(1)=" + __dd(r); }
  if (t === "object") {
    if (v === __global) return "global";
    if (v === o) return "o";
    var c = Object.prototype.toString.call(v).slice(8, -1), j;
    try { j = JSON.stringify(v); } catch (e) { j = "!" + e.name; }
    var ks = []; for (var k in v) { if (typeof v[k] !== "function") ks.push(k); } ks.sort();
    return c + ":" + j + ":keys=" + ks.join(",") + (typeof v.length === "number" ? ":len=" + v.length : "");
  }
  return t + " " + String(v);
}
function __dargs(a) { var s = []; for (var i = 0; i < a.length; i++) s.push(__dd(a[i])); return "(" + s.join("; ") + ")"; }
function jsf() { return "this=" + __dd(this) + " args=" + __dargs(arguments); }
function F() { this.tag = "F args=" + __dargs(arguments); }
o.m = jsf;
function __try(f) { try { var r = f(); return "ok:" + ((typeof r === "object" && r !== null && typeof r.tag === "string") ? r.tag : String(r)); }
  catch (e) { return "err:" + ((e instanceof Error) ? e.name : "thrown"); } }
`

type goArg struct {
	name string
	mk   func(vm *otto.Otto) interface{}
}

func goArgAlphabet() []goArg {
	fixed := func(v interface{}) func(*otto.Otto) interface{} { return func(*otto.Otto) interface{} { return v } }
	seven := 7
	return []goArg{
		{"int", fixed(1)},
		{"string", fixed("s")},
		{"[]int", fixed([]int{10, 20, 30})},
		{"map", fixed(map[string]int{"k": 1})},
		{"*struct", fixed(&Plain{A: 1, B: "b"})},
		{"func", fixed(func(x int) int { return x + 1 })},
		// the rest joins in the thorough tier for arity 3, in both tiers for arity <= 2
		{"nil", fixed(nil)},
		{"bool", fixed(true)},
		{"float", fixed(1.5)},
		{"struct", fixed(Plain{A: 2})},
		{"[2]string", fixed([2]string{"a", "b"})},
		{"[]interface{}", fixed([]interface{}{1, "x", nil})},
		{"*int", fixed(&seven)},
		{"null", fixed(otto.NullValue())},
		{"Value", func(vm *otto.Otto) interface{} { v, _ := vm.ToValue(uint8(200)); return v }},
		{"*Object", func(vm *otto.Otto) interface{} { ob, _ := vm.Object("o"); return ob }},
		{"Value(obj)", func(vm *otto.Otto) interface{} { v, _ := vm.Run("o"); return v }},
	}
}

func runCallArgs(r *engine.Run) {
	alpha := goArgAlphabet()
	small := 6
	r.Bound("arity", "0..3")
	r.Bound("go_argument_kinds", fmt.Sprint(len(alpha)))
	if r.Thorough() {
		r.Bound("arity3_alphabet", fmt.Sprint(len(alpha)))
	} else {
		r.Bound("arity3_alphabet", fmt.Sprint(small))
	}
	var tuples [][]int
	tuples = append(tuples, []int{})
	for i := range alpha {
		tuples = append(tuples, []int{i})
	}
	for i := range alpha {
		for j := range alpha {
			tuples = append(tuples, []int{i, j})
		}
	}
	n3 := small
	if r.Thorough() {
		n3 = len(alpha)
	}
	for i := 0; i < n3; i++ {
		for j := 0; j < n3; j++ {
			for k := 0; k < n3; k++ {
				tuples = append(tuples, []int{i, j, k})
			}
		}
	}
	var vm *otto.Otto
	var gofn otto.Value
	setup := func() {
		vm = otto.New()
		if res := ox.Run(vm, callArgsPrelude); res.Err != nil || res.Panicked {
			panic(fmt.Sprint("c15 callargs prelude: ", res.Err, res.PanicVal))
		}
		dargs, _ := vm.Get("__dd")
		vm.Set("gof", func(call otto.FunctionCall) otto.Value {
			parts := make([]string, len(call.ArgumentList))
			for i, a := range call.ArgumentList {
				d, err := dargs.Call(otto.UndefinedValue(), a)
				if err != nil {
					panic(err)
				}
				parts[i], _ = d.ToString()
			}
			v, _ := otto.ToValue("host args=(" + strings.Join(parts, "; ") + ")")
			return v
		})
		gofn, _ = vm.Get("gof")
	}
	for _, tup := range tuples {
		names := make([]string, len(tup))
		for i, t := range tup {
			names[i] = alpha[t].name
		}
		key := "(" + strings.Join(names, ",") + ")"
		if !r.MineKey(key) {
			continue
		}
		if vm == nil {
			setup()
		}
		r.Begin(key)
		args := make([]interface{}, len(tup))
		vars := make([]string, len(tup))
		setFail := ""
		for i, t := range tup {
			args[i] = alpha[t].mk(vm)
			vars[i] = fmt.Sprintf("__a%d", i)
			if err := vm.Set(vars[i], args[i]); err != nil {
				setFail = err.Error()
			}
		}
		if setFail != "" {
			r.End()
			r.HarnessError("Set of a single argument failed: " + setFail)
			continue
		}
		list := strings.Join(vars, ", ")
		sep := ""
		if list != "" {
			sep = ", "
		}
		twin := func(expr string) string {
			res := ox.Run(vm, "__try(function(){ return "+expr+"; })")
			if res.Panicked {
				return "PANIC: " + brig.OneLine(fmt.Sprint(res.PanicVal))
			}
			if res.Err != nil {
				return "error: " + res.Err.Error()
			}
			s, _ := res.Value.ToString()
			return s
		}
		api := func(f func() (otto.Value, error)) string {
			v, err, pan := guardCall(f)
			switch {
			case pan != "":
				return pan
			case err != nil:
				return "err:" + ox.ErrClass(err)
			}
			if v.IsObject() {
				if t, gerr := v.Object().Get("tag"); gerr == nil && t.IsString() {
					v = t
				}
			}
			s, _ := v.ToString()
			return "ok:" + s
		}
		jsfV, _ := vm.Get("jsf")
		oV, _ := vm.Get("o")
		exp, got := brig.NewObs(), brig.NewObs()
		put := func(name, twinExpr string, f func() (otto.Value, error)) {
			exp.Put(name, twin(twinExpr))
			got.Put(name, api(f))
		}
		put("Value.Call(jsf)", "jsf("+list+")", func() (otto.Value, error) { return jsfV.Call(otto.UndefinedValue(), args...) })
		put("Value.Call(jsf,this=o)", "jsf.call(o"+sep+list+")", func() (otto.Value, error) { return jsfV.Call(oV, args...) })
		put("Value.Call(gof)", "gof("+list+")", func() (otto.Value, error) { return gofn.Call(otto.UndefinedValue(), args...) })
		put("Object.Call(m)", "o.m("+list+")", func() (otto.Value, error) { return oV.Object().Call("m", args...) })
		put("Otto.Call(jsf,nil)", "jsf("+list+")", func() (otto.Value, error) { return vm.Call("jsf", nil, args...) })
		put("Otto.Call(jsf,o)", "jsf.call(o"+sep+list+")", func() (otto.Value, error) { return vm.Call("jsf", oV, args...) })
		put("Otto.Call(o.m,nil)", "o.m("+list+")", func() (otto.Value, error) { return vm.Call("o.m", nil, args...) })
		put("Otto.Call(gof,nil)", "gof("+list+")", func() (otto.Value, error) { return vm.Call("gof", nil, args...) })
		put("Otto.Call(new F)", "new F("+list+")", func() (otto.Value, error) { return vm.Call("new F", nil, args...) })
		put("Otto.Call(new F,this)", "new F("+list+")", func() (otto.Value, error) { return vm.Call("new F", oV, args...) })
		r.End()
		r.Eval(strings.HasPrefix(exp.M["Value.Call(jsf)"], "ok:"))
		r.Tree(1, 1)
		r.Outcome(exp.M["Value.Call(jsf)"])
		if r.WantSample() && len(tup) >= 2 {
			r.Sample("jsf" + key + " => " + got.M["Value.Call(jsf)"])
		}
		dirty := false
		for _, n := range got.Names {
			if strings.HasPrefix(got.M[n], "PANIC") {
				dirty = true
			}
		}
		brig.Compare(r, key, "f"+key+" with the Go values handed to the API / Set as "+list, exp, got, map[string]string{"tuple": key})
		if dirty {
			vm = nil
		}
	}
}
