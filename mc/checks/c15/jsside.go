package c15

import (
	"encoding/json"
	"fmt"
	"strings"

	"github.com/robertkrimen/otto"

	"verif/mc/checks/brig"
	"verif/mc/engine"
	"verif/mc/ox"
	"verif/mc/ref/bridge"
)

// ---------------------------------------------------------------------------
// js-prims: boundary JavaScript values through the Go predicates/conversions

type jsval struct {
	src  string
	data *bridge.Node // non-nil for JSON-like primitives (and undefined): Export by value
}

func jsPrims() []jsval {
	var l []jsval
	add := func(src string, data *bridge.Node) { l = append(l, jsval{src, data}) }
	add("undefined", bridge.NullN()) // Export's table: undefined -> nil
	add("null", bridge.NullN())
	add("true", bridge.B(true))
	add("false", bridge.B(false))
	nums := map[string]float64{
		"0": 0, "1": 1, "-1": -1, "0.5": 0.5, "-0.5": -0.5, "1.5": 1.5, "2147483647": 2147483647, "2147483648": 2147483648,
		"-2147483648": -2147483648, "4294967295": 4294967295, "4294967296": 4294967296, "9007199254740991": 9007199254740991,
		"9007199254740992": 9007199254740992, "1e21": 1e21, "1e-7": 1e-7, "5e-324": 5e-324, "1.7976931348623157e308": 1.7976931348623157e308,
		"0.1": 0.1, "255": 255, "65536": 65536, "123456789": 123456789,
	}
	for _, s := range []string{"0", "1", "-1", "0.5", "-0.5", "1.5", "2147483647", "2147483648", "-2147483648", "4294967295", "4294967296",
		"9007199254740991", "9007199254740992", "1e21", "1e-7", "5e-324", "1.7976931348623157e308", "0.1", "255", "65536", "123456789"} {
		add(s, bridge.N(nums[s]))
	}
	// values without a JSON counterpart, or whose literal is outside the exact range
	for _, s := range []string{"-0", "NaN", "Infinity", "-Infinity", "0/0", "1/3", "9007199254740993", "9223372036854775807",
		"-9223372036854775808", "Math.pow(2,53)+2", "Math.pow(2,63)", "-Math.pow(2,63)", "Math.pow(2,64)", "(1<<30)", "(-1>>>0)", "~~5.5",
		"(1<<31)", "5%3", "Number.MAX_VALUE", "Number.MIN_VALUE"} {
		add(s, nil)
	}
	strs := []string{"", "a", "abc", "5", " 12 ", "0x10", "1e3", "-0", "é", "€", "\U0001F600", "\x00", "12px", "Infinity", ".5", "+7", "\n", "true", "a\"b\\c"}
	for _, s := range strs {
		add(bridge.JSStrSrc(ox.Units(s)), bridge.S(s))
	}
	add(`"\uD800"`, nil)
	add(`"a\uDC00b"`, nil)
	add(`"x".concat("\uD83D", "\uDE00")`, nil)
	for _, s := range []string{
		`({})`, `[]`, `[1]`, `[1,2]`, `["a"]`, `[[]]`, `[null]`, `[undefined]`, `new Number(5)`, `new Number(-0)`, `new String("s")`, `new String("")`,
		`new Boolean(false)`, `(function(){})`, `(function f(a,b){ return a })`, `new Date(0)`, `new Date(NaN)`, `/re/g`, `Math`, `JSON`,
		`({valueOf:function(){return 3}})`, `({toString:function(){return "7"}})`, `({valueOf:function(){return "0x10"}})`,
		`({valueOf:function(){throw new RangeError("v")}})`,
		`({toString:function(){throw new TypeError("t")}, valueOf:function(){return {}}})`,
		`({valueOf:function(){return {}}, toString:function(){return {}}})`,
		`new Error("e")`, `(function(){return arguments})(1,2)`, `Object.create(null)`, `Object`, `parseInt`, `new Number(NaN)`,
		`({valueOf:function(){return true}})`, `({valueOf:function(){return null}})`, `({valueOf:function(){return undefined}})`,
	} {
		add(s, nil)
	}
	return l
}

func runJSPrims(r *engine.Run) {
	vals := jsPrims()
	r.Bound("values", fmt.Sprint(len(vals)))
	var g *brig.Rig
	for _, jv := range vals {
		key := jv.src
		if !r.MineKey(key) {
			continue
		}
		if g == nil {
			g = brig.NewRig()
		}
		r.Begin(key)
		got, clean := observeJS(g, jv.src, true)
		r.End()
		exp := brig.NewObs()
		exp.Put("Run", "ok")
		for _, n := range []string{"agree.ToString", "agree.ToFloat", "agree.ToInteger", "agree.ToBoolean", "agree.Is", "agree.IsNaN", "agree.Get"} {
			exp.Put(n, "=")
		}
		if jv.data != nil {
			exp.Put("Export.byvalue", jv.data.Canon())
		}
		exp.Put("MarshalJSON.valid", "JSON text or an error")
		r.Eval(got.M["Run"] == "ok")
		r.Tree(1, 1)
		r.Outcome(got.String())
		if r.WantSample() {
			r.Sample("x = " + jv.src + " => Go " + got.M["go.ToString"] + " / " + got.M["go.ToFloat"] + " / " + got.M["go.Is"])
		}
		brig.Compare(r, key, "x = "+jv.src, exp, got, map[string]string{"src": jv.src})
		if !clean {
			g = nil
		}
	}
}

// observeJS evaluates src, reads the value through the Go API and through the
// in-language probe and records both plus their agreement.
func observeJS(g *brig.Rig, src string, wantAgree bool) (*brig.Obs, bool) {
	o := brig.NewObs()
	var v otto.Value
	res := ox.Run(g.VM, "x = ("+src+")")
	switch {
	case res.Panicked:
		o.Put("Run", "PANIC: "+brig.OneLine(fmt.Sprint(res.PanicVal)))
		return o, false
	case res.Err != nil:
		o.Put("Run", "error: "+ox.ErrClass(res.Err))
		return o, true
	}
	o.Put("Run", "ok")
	v = res.Value
	rec := g.Probe("x")
	raw := brig.NewObs()
	brig.GoSide(raw, "", v, false)
	for _, n := range raw.Names {
		o.Put("go."+n, raw.M[n])
	}
	for _, n := range rec.Names {
		o.Put("js."+n, rec.M[n])
	}
	if wantAgree {
		agree(o, raw, rec)
		// IsNaN has no error result: it is compared only where the in-language
		// isNaN(x) completes.
		if in := rec.M["isNaN"]; in == "b:0" || in == "b:1" {
			gn := brig.Safe(func() string { return "b:" + brig.B01(v.IsNaN()) })
			if gn == in {
				o.Put("agree.IsNaN", "=")
			} else {
				o.Put("agree.IsNaN", "go "+gn+" vs js "+in)
			}
		} else {
			o.Put("agree.IsNaN", "=")
		}
		// Otto.Get of the binding returns the same value as Run did.
		o.Put("agree.Get", brig.Safe(func() string {
			gv, err := g.VM.Get("x")
			if err != nil {
				return brig.ErrStr(err)
			}
			if err := g.VM.Set("y", gv); err != nil {
				return brig.ErrStr(err)
			}
			if c := g.EvalCanon("__same(x, y)"); c != "b:1" {
				return "Get(x) is not x: " + c
			}
			return "="
		}))
	}
	o.Put("Export.byvalue", brig.Safe(func() string {
		e, err := v.Export()
		if err != nil {
			return brig.ErrStr(err)
		}
		return bridge.FromExport(e).Canon()
	}))
	mj := raw.M["MarshalJSON"]
	// a json.Marshaler returns JSON text or an error, never other bytes
	if mj == "err" || strings.HasPrefix(mj, "PANIC") || json.Valid([]byte(mj)) {
		o.Put("MarshalJSON.valid", "JSON text or an error")
	} else {
		o.Put("MarshalJSON.valid", "neither: "+brig.OneLine(mj))
	}
	if mj != "err" && !strings.HasPrefix(mj, "PANIC") {
		mj = jsonCanon(mj)
	}
	o.Put("MarshalJSON.byvalue", mj)
	clean := true
	for _, n := range o.Names {
		if strings.HasPrefix(o.M[n], "PANIC") {
			clean = false
		}
	}
	return o, clean
}

// ---------------------------------------------------------------------------
// js-json: JSON-like containers

func jsonLeaves() []*bridge.Node {
	return []*bridge.Node{bridge.NullN(), bridge.B(true), bridge.N(1), bridge.N(2), bridge.N(1.5), bridge.S("a")}
}

func nodesOver(items []*bridge.Node, keys [2]string) []*bridge.Node {
	var out []*bridge.Node
	out = append(out, bridge.A())
	for _, a := range items {
		out = append(out, bridge.A(a))
	}
	for _, a := range items {
		for _, b := range items {
			out = append(out, bridge.A(a, b))
		}
	}
	for ia := -1; ia < len(items); ia++ {
		for ib := -1; ib < len(items); ib++ {
			m := bridge.O()
			if ia >= 0 {
				m.Set(keys[0], items[ia])
			}
			if ib >= 0 {
				m.Set(keys[1], items[ib])
			}
			out = append(out, m)
		}
	}
	return out
}

func runJSJSON(r *engine.Run) {
	keys := [2]string{"a", "b"}
	d1 := nodesOver(jsonLeaves(), keys)
	all := append([]*bridge.Node{}, d1...)
	// odd leaves and odd keys, one at a time
	odd := []*bridge.Node{bridge.N(-1), bridge.N(0), bridge.N(0.1), bridge.N(1e21), bridge.N(9007199254740992), bridge.N(-2147483648),
		bridge.N(4294967295), bridge.N(5e-324), bridge.B(false), bridge.S(""), bridge.S("é"), bridge.S("\U0001F600"), bridge.S("\x00"), bridge.S("a\"b")}
	for _, l := range odd {
		all = append(all, bridge.A(l), bridge.O("k", l), bridge.A(l, l))
	}
	for _, k := range []string{"", "é", "0", "length", "a b", "\U0001F600", "constructor", "valueOf"} {
		all = append(all, bridge.O(k, bridge.N(1)))
	}
	if r.Thorough() {
		items := append(append([]*bridge.Node{}, jsonLeaves()...), d1...)
		all = append(all, nodesOver(items, keys)...)
		r.Bound("depth", "2 (full)")
	} else {
		pick := []*bridge.Node{d1[0], d1[3], d1[9], d1[20], d1[43], d1[44], d1[58], d1[91]}
		items := append(append([]*bridge.Node{}, jsonLeaves()...), pick...)
		all = append(all, nodesOver(items, keys)...)
		r.Bound("depth", "1 (full) + 2 over 6 leaves and 8 depth-1 containers")
	}
	r.Bound("shapes", fmt.Sprint(len(all)))
	runJSData(r, all)
}

// runJSData runs every node as source text; JSON-like nodes must Export to
// structurally equal data (numeric kinds by value) and MarshalJSON must parse
// back to the data; the others must only not crash. undefined members count
// as JSON-like with the documented mapping undefined -> nil.
func runJSData(r *engine.Run, all []*bridge.Node) {
	seen := map[string]bool{}
	var g *brig.Rig
	for _, n := range all {
		src := n.Source()
		if seen[src] {
			continue
		}
		seen[src] = true
		if !r.MineKey(src) {
			continue
		}
		if g == nil {
			g = brig.NewRig()
		}
		if r.Expired() {
			r.Cap("time budget")
			return
		}
		r.Begin(src)
		got, clean := observeJS(g, src, false)
		r.End()
		exp := brig.NewObs()
		exp.Put("Run", "ok")
		if n.JSONLike() {
			exp.Put("Export.byvalue", n.Canon())
			exp.Put("MarshalJSON.byvalue", nodeJSONCanon(n))
		} else if d, ok := undefAsNull(n); ok {
			exp.Put("Export.byvalue", d.Canon())
		}
		exp.Put("crash", "none")
		crash := "none"
		for _, name := range got.Names {
			if strings.HasPrefix(got.M[name], "PANIC") {
				crash = name + ": " + got.M[name]
				break
			}
		}
		got.Put("crash", crash)
		r.Eval(got.M["Run"] == "ok")
		r.Tree(1, 1)
		r.Outcome(got.M["go.Export"])
		if r.WantSample() {
			r.Sample(src + " => Export " + got.M["go.Export"])
		}
		aux := map[string]string{"src": src}
		if crash != "none" && n.K == bridge.Arr {
			if !clean {
				g = brig.NewRig()
			}
			aux["elemTypes"] = elemExportTypes(g, src, len(n.Elem))
		}
		brig.Compare(r, src, src, exp, got, aux)
		if !clean {
			g = nil
		}
	}
}

// elemExportTypes exports every element of the array on its own and returns
// the Go types, so that a known-finding signature can pin which element types
// the failing Export mixed up.
func elemExportTypes(g *brig.Rig, src string, n int) string {
	types := make([]string, 0, n)
	for i := 0; i < n; i++ {
		types = append(types, brig.Safe(func() string {
			v, err := g.VM.Run(fmt.Sprintf("(%s)[%d]", src, i))
			if err != nil {
				return "error"
			}
			e, _ := v.Export()
			return fmt.Sprintf("%T", e)
		}))
	}
	return strings.Join(types, ";")
}

// undefAsNull maps undefined array members to null and drops undefined object
// members (Export's documented table: undefined -> nil; objects skip undefined).
// It fails for holes, whose treatment Export does not document.
func undefAsNull(n *bridge.Node) (*bridge.Node, bool) {
	switch n.K {
	case bridge.Hole, bridge.Func:
		return nil, false
	case bridge.Undef:
		return bridge.NullN(), true
	case bridge.Num:
		return n, true
	case bridge.Arr:
		out := &bridge.Node{K: bridge.Arr}
		for _, e := range n.Elem {
			d, ok := undefAsNull(e)
			if !ok {
				return nil, false
			}
			out.Elem = append(out.Elem, d)
		}
		return out, true
	case bridge.Obj:
		out := bridge.O()
		for _, k := range n.Keys {
			if n.Vals[k].K == bridge.Undef {
				continue
			}
			d, ok := undefAsNull(n.Vals[k])
			if !ok {
				return nil, false
			}
			out.Set(k, d)
		}
		return out, true
	}
	return n, true
}

// ---------------------------------------------------------------------------
// js-arrays: arrays mixing kinds

func arrayElems() []*bridge.Node {
	return []*bridge.Node{bridge.N(1), bridge.N(1.5), bridge.S("a"), bridge.B(true), bridge.NullN(), bridge.U(), bridge.HoleN(),
		bridge.A(bridge.N(1)), bridge.A(bridge.S("a")), bridge.O("a", bridge.N(1)), bridge.A()}
}

func runJSArrays(r *engine.Run) {
	el := arrayElems()
	var all []*bridge.Node
	all = append(all, bridge.A())
	for _, a := range el {
		all = append(all, bridge.A(a))
		for _, b := range el {
			all = append(all, bridge.A(a, b))
			for _, c := range el {
				all = append(all, bridge.A(a, b, c))
			}
		}
	}
	r.Bound("length", "3")
	r.Bound("element_kinds", fmt.Sprint(len(el)))
	r.Bound("arrays", fmt.Sprint(len(all)))
	runJSData(r, all)
}

// ---------------------------------------------------------------------------
// js-nested: homogeneous nestings (the typed-slice path of Export)

func wrapArr(n *bridge.Node, d int) *bridge.Node {
	for i := 0; i < d; i++ {
		n = bridge.A(n)
	}
	return n
}

func runJSNested(r *engine.Run) {
	leaves := []*bridge.Node{bridge.N(1), bridge.N(1.5), bridge.S("a"), bridge.B(true), bridge.NullN(), bridge.O(), bridge.O("a", bridge.N(1))}
	maxd := 3
	if r.Thorough() {
		maxd = 4
	}
	var all []*bridge.Node
	for d := 0; d <= maxd; d++ {
		for _, a := range leaves {
			for _, b := range leaves {
				all = append(all, bridge.A(wrapArr(a, d), wrapArr(b, d)))
				if d > 0 {
					all = append(all, bridge.A(bridge.O("k", wrapArr(a, d)), bridge.O("k", wrapArr(b, d))))
					all = append(all, bridge.A(wrapArr(a, d), wrapArr(b, d-1)))
					all = append(all, bridge.A(wrapArr(a, d), bridge.A()))
					all = append(all, bridge.A(bridge.A(), wrapArr(a, d), wrapArr(b, d)))
				}
			}
		}
	}
	r.Bound("nesting_depth", fmt.Sprint(maxd+1))
	r.Bound("leaf_kinds", fmt.Sprint(len(leaves)))
	runJSData(r, all)
	runGoInJS(r)
}

// runGoInJS puts bridged Go values into JS arrays: Export of the array must be
// the element-wise Export (by value) and must not crash.
func runGoInJS(r *engine.Run) {
	type gv struct {
		name string
		v    interface{}
	}
	vals := []gv{
		{"gi", int(5)}, {"gi8", int8(5)}, {"gu64", uint64(1 << 63)}, {"gf32", float32(0.5)}, {"gstr", "s"},
		{"gs", []int{1, 2}}, {"gs8", []int8{1}}, {"gss", []string{"x"}}, {"gsn", []int(nil)},
		{"ga2", [2]int{1, 2}}, {"ga3", [3]int{1, 2, 3}}, {"gpa", &[2]int{7, 8}},
		{"gm", map[string]int{"k": 1}}, {"gmi", map[int]string{1: "one"}},
		{"gst", Plain{A: 1}}, {"gpst", &Plain{A: 2}}, {"gnil", nil}, {"gsi", []interface{}{1, "a"}},
	}
	var g *brig.Rig
	for _, a := range vals {
		for _, b := range vals {
			key := "go/" + a.name + "," + b.name
			if !r.MineKey(key) {
				continue
			}
			if g == nil {
				g = brig.NewRig()
				for _, x := range vals {
					g.VM.Set(x.name, x.v)
				}
			}
			src := "[" + a.name + ", " + b.name + "]"
			r.Begin(key)
			got, clean := observeJS(g, src, false)
			r.End()
			exp := brig.NewObs()
			exp.Put("Run", "ok")
			exp.Put("Export.byvalue", bridge.A(exportNode(a.v), exportNode(b.v)).Canon())
			r.Eval(got.M["Run"] == "ok")
			r.Tree(1, 1)
			r.Outcome(got.M["go.Export"])
			brig.Compare(r, key, src+" with "+a.name+"="+bridge.Render(a.v)+", "+b.name+"="+bridge.Render(b.v), exp, got,
				map[string]string{"src": src, "elemTypes": fmt.Sprintf("%T;%T", a.v, b.v)})
			if !clean {
				g = nil
			}
		}
	}
}

// exportNode is the by-value rendering of the Go value an element exports to
// (Export hands bridged containers back as they are; scalars by value).
func exportNode(v interface{}) *bridge.Node {
	return bridge.FromExport(v)
}
