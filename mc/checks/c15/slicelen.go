package c15

import (
	"encoding/json"
	"fmt"
	"reflect"
	"strings"

	"verif/mc/checks/brig"
	"verif/mc/engine"
	"verif/mc/ox"
	"verif/mc/ref/bridge"
)

// slicelen: `length` writes on bridged slices - directly (grow beyond the
// capacity, grow within it, shrink, same, 0) and through the Array.prototype
// methods that set length (push, pop, shift, unshift, splice) - for every
// element type of the lattice and for a full (cap == len) and a roomy
// (cap > len) slice. After the operation the slice must read back equal to the
// reference through every channel: script traversal, s.length, Get+Export,
// MarshalJSON; and the Go caller's ORIGINAL slice variable must show exactly
// what Go's aliasing rules give (operations within the capacity work on the
// shared backing array; growth beyond the capacity reallocates and leaves the
// caller's slice untouched).
//
// Reference: the ES5 15.4.4 algorithms executed over a small memory model of Go
// slices (backing arrays, header = array/len/cap): [[Put]] of index < len writes
// the cell, index == len appends (in place when len < cap, else on a fresh array),
// [[Delete]] zeroes the cell, length = n reslices when n < cap and copies into a
// fresh zero-extended array otherwise.

type memHeader struct{ arr, n, c int }

type memModel struct {
	arrays [][]interface{}
	js, gs memHeader
	zero   interface{}
}

func (m *memModel) get(i int) interface{} { return m.arrays[m.js.arr][i] }

func (m *memModel) put(i int, v interface{}) {
	switch {
	case i < m.js.n:
		m.arrays[m.js.arr][i] = v
	case i == m.js.n:
		if m.js.n < m.js.c {
			m.arrays[m.js.arr][i] = v
			m.js.n++
			return
		}
		na := make([]interface{}, m.js.n+1, 2*m.js.n+2)
		copy(na, m.arrays[m.js.arr][:m.js.n])
		na[m.js.n] = v
		for len(na) < cap(na) {
			na = append(na, m.zero)
		}
		m.arrays = append(m.arrays, na)
		m.js = memHeader{len(m.arrays) - 1, m.js.n + 1, len(na)}
	}
}

func (m *memModel) del(i int) {
	if i < m.js.n {
		m.arrays[m.js.arr][i] = m.zero
	}
}

func (m *memModel) setLength(n int) {
	switch {
	case n == m.js.n:
	case n < m.js.c:
		m.js.n = n
	default:
		na := make([]interface{}, n)
		for i := range na {
			na[i] = m.zero
		}
		copy(na, m.arrays[m.js.arr][:m.js.n])
		m.arrays = append(m.arrays, na)
		m.js = memHeader{len(m.arrays) - 1, n, n}
	}
}

func (m *memModel) push(v interface{}) { m.put(m.js.n, v); m.setLength(m.js.n) }

func (m *memModel) pop() {
	if m.js.n == 0 {
		return
	}
	m.del(m.js.n - 1)
	m.setLength(m.js.n - 1)
}

func (m *memModel) shift() {
	n := m.js.n
	if n == 0 {
		return
	}
	for k := 1; k < n; k++ {
		m.put(k-1, m.get(k))
	}
	m.del(n - 1)
	m.setLength(n - 1)
}

func (m *memModel) unshift(v interface{}) {
	for k := m.js.n; k > 0; k-- {
		m.put(k, m.get(k-1))
	}
	m.put(0, v)
}

func (m *memModel) splice(start, delCount int, items ...interface{}) {
	n := m.js.n
	ic := len(items)
	if ic < delCount {
		for k := start; k < n-delCount; k++ {
			m.put(k+ic, m.get(k+delCount))
		}
		for k := n; k > n-delCount+ic; k-- {
			m.del(k - 1)
		}
	} else if ic > delCount {
		for k := n - delCount; k > start; k-- {
			m.put(k+ic-1, m.get(k+delCount-1))
		}
	}
	for i, it := range items {
		m.put(start+i, it)
	}
	m.setLength(n - delCount + ic)
}

type slOp struct {
	name string
	src  string
	do   func(m *memModel, e interface{})
}

func slOps() []slOp {
	return []slOp{
		{"length=5", "s.length = 5", func(m *memModel, e interface{}) { m.setLength(5) }},
		{"length=8", "s.length = 8", func(m *memModel, e interface{}) { m.setLength(8) }},
		{"length=2", "s.length = 2", func(m *memModel, e interface{}) { m.setLength(2) }},
		{"length=3", "s.length = 3", func(m *memModel, e interface{}) { m.setLength(3) }},
		{"length=0", "s.length = 0", func(m *memModel, e interface{}) { m.setLength(0) }},
		{"length=4", "s.length = 4", func(m *memModel, e interface{}) { m.setLength(4) }},
		{"length=2;length=3", "s.length = 2; s.length = 3", func(m *memModel, e interface{}) { m.setLength(2); m.setLength(3) }},
		{"push", "s.push(e)", func(m *memModel, e interface{}) { m.push(e) }},
		{"push x4", "s.push(e); s.push(e); s.push(e); s.push(e)", func(m *memModel, e interface{}) { m.push(e); m.push(e); m.push(e); m.push(e) }},
		{"s[3]=e", "s[3] = e", func(m *memModel, e interface{}) { m.put(3, e) }},
		{"pop", "s.pop()", func(m *memModel, e interface{}) { m.pop() }},
		{"pop;push", "s.pop(); s.push(e)", func(m *memModel, e interface{}) { m.pop(); m.push(e) }},
		{"shift", "s.shift()", func(m *memModel, e interface{}) { m.shift() }},
		{"unshift", "s.unshift(e)", func(m *memModel, e interface{}) { m.unshift(e) }},
		{"splice(1,1)", "s.splice(1, 1)", func(m *memModel, e interface{}) { m.splice(1, 1) }},
		{"splice(1,0,e)", "s.splice(1, 0, e)", func(m *memModel, e interface{}) { m.splice(1, 0, e) }},
		{"splice(0,2,e)", "s.splice(0, 2, e)", func(m *memModel, e interface{}) { m.splice(0, 2, e) }},
		{"length=5;s[4]=e", "s.length = 5; s[4] = e", func(m *memModel, e interface{}) { m.setLength(5); m.put(4, e) }},
		{"length=8;s[7]=e", "s.length = 8; s[7] = e", func(m *memModel, e interface{}) { m.setLength(8); m.put(7, e) }},
		{"length=1;push", "s.length = 1; s.push(e)", func(m *memModel, e interface{}) { m.setLength(1); m.push(e) }},
		{"length=0;push", "s.length = 0; s.push(e)", func(m *memModel, e interface{}) { m.setLength(0); m.push(e) }},
	}
}

type slType struct {
	name  string
	elems []interface{} // three initial elements
	e     interface{}   // the element the operations insert
}

func slTypes() []slType {
	return []slType{
		{"[]int", []interface{}{1, 2, 3}, 9},
		{"[]string", []interface{}{"a", "b", "c"}, "z"},
		{"[]float64", []interface{}{0.5, 1.5, 2.5}, 9.25},
		{"[]int8", []interface{}{int8(-1), int8(2), int8(3)}, int8(9)},
		{"[]interface{}", []interface{}{1, "b", true}, "i"},
		{"[][]int", []interface{}{[]int{1}, []int{2, 2}, []int{3}}, []int{7, 8}},
		{"[]Plain", []interface{}{Plain{A: 1}, Plain{A: 2}, Plain{A: 3}}, Plain{A: 9, B: "e"}},
		{"[]map[string]int", []interface{}{map[string]int{"a": 1}, map[string]int{"b": 2}, map[string]int{"c": 3}}, map[string]int{"e": 9}},
	}
}

func typedSlice(et reflect.Type, cells []interface{}) reflect.Value {
	s := reflect.MakeSlice(reflect.SliceOf(et), len(cells), len(cells))
	for i, c := range cells {
		if c == nil {
			continue
		}
		s.Index(i).Set(reflect.ValueOf(c))
	}
	return s
}

func runSliceLen(r *engine.Run) {
	ops := slOps()
	types := slTypes()
	caps := []int{3, 6}
	r.Bound("element_types", fmt.Sprint(len(types)))
	r.Bound("operations", fmt.Sprint(len(ops)))
	r.Bound("initial_slices", "len 3 cap 3 (full), len 3 cap 6 (roomy)")
	var g *brig.Rig
	for _, ty := range types {
		var et reflect.Type
		if ty.name == "[]interface{}" {
			et = reflect.TypeOf((*interface{})(nil)).Elem()
		} else {
			et = reflect.TypeOf(ty.e)
		}
		zero := reflect.Zero(et)
		var zeroV interface{}
		if et.Kind() != reflect.Interface {
			zeroV = zero.Interface()
		}
		for _, c := range caps {
			for _, op := range ops {
				key := fmt.Sprintf("%s/cap%d/%s", ty.name, c, op.name)
				if !r.MineKey(key) {
					continue
				}
				if g == nil {
					g = brig.NewRig()
				}
				r.Begin(key)
				// the live slice and the caller's own header
				backing := reflect.MakeSlice(reflect.SliceOf(et), 3, c)
				for i, e := range ty.elems {
					backing.Index(i).Set(reflect.ValueOf(e))
				}
				orig := backing // the caller keeps this header
				g.VM.Set("s", backing.Interface())
				g.VM.Set("e", ty.e)
				// the reference
				cells := make([]interface{}, c)
				for i := range cells {
					cells[i] = zeroV
				}
				copy(cells, ty.elems)
				m := &memModel{arrays: [][]interface{}{cells}, js: memHeader{0, 3, c}, gs: memHeader{0, 3, c}, zero: zeroV}
				op.do(m, ty.e)
				wantJS := typedSlice(et, m.arrays[m.js.arr][:m.js.n])
				wantGo := typedSlice(et, m.arrays[0][:3])
				// the implementation
				res := ox.Run(g.VM, op.src+"; 0")
				got, exp := brig.NewObs(), brig.NewObs()
				outcome := "ok"
				switch {
				case res.Panicked:
					outcome = "PANIC: " + brig.OneLine(fmt.Sprint(res.PanicVal))
				case res.Err != nil:
					outcome = "error: " + res.Err.Error()
				}
				exp.Put("outcome", "ok")
				got.Put("outcome", outcome)
				if !strings.HasPrefix(outcome, "PANIC") {
					x, _ := g.VM.Get("s")
					exp.Put("Get+Export", bridge.Render(wantJS.Interface()))
					got.Put("Get+Export", brig.Safe(func() string { e, _ := x.Export(); return bridge.Render(e) }))
					exp.Put("s.length", fmt.Sprintf("d:%d", m.js.n))
					got.Put("s.length", g.EvalCanon("s.length"))
					exp.Put("script view", bridge.Counterpart(wantJS.Interface()).Canon())
					got.Put("script view", g.View("s"))
					wj, _ := json.Marshal(wantJS.Interface())
					exp.Put("MarshalJSON", jsonCanon(string(wj)))
					got.Put("MarshalJSON", brig.Safe(func() string {
						b, err := x.MarshalJSON()
						if err != nil {
							return "err"
						}
						return jsonCanon(string(b))
					}))
					exp.Put("caller's slice", bridge.Render(wantGo.Interface()))
					got.Put("caller's slice", bridge.Render(orig.Interface()))
				}
				r.End()
				r.Eval(outcome == "ok")
				r.Tree(1, 1)
				r.Outcome(got.String())
				if r.WantSample() {
					r.Sample(key + ": " + op.src + " => " + got.M["Get+Export"] + "; caller sees " + got.M["caller's slice"])
				}
				brig.Compare(r, key, fmt.Sprintf("s = make(%s, 3, %d) filled; e = %s; %s", ty.name, c, bridge.Render(ty.e), op.src), exp, got,
					map[string]string{"type": ty.name, "cap": fmt.Sprint(c), "op": op.name})
				if strings.HasPrefix(outcome, "PANIC") {
					g = nil
				}
			}
		}
	}
}
