package c10

import (
	"fmt"
	"math"
	"strconv"
	"strings"

	"github.com/robertkrimen/otto"

	"verif/mc/engine"
	"verif/mc/ox"
	"verif/mc/ref/regex"
)

// ---- operations ---------------------------------------------------------------

type opKind int

const (
	opExec opKind = iota
	opTest
	opMatch
	opReplaceT
	opReplaceF
	opSearch
	opSplit
	opSet
	opFreeze
	opDerive
)

type protoOp struct {
	kind  opKind
	subj  []uint16  // subject string
	limit regex.Val // split limit (undefined or number)
	set   regex.Val // value assigned to lastIndex
	setJS string    // JS source of that value
	// derive: how a second RegExp object d is obtained from re before both are
	// exercised: "new" = new RegExp(re), "call" = RegExp(re) (returns re itself,
	// 15.10.3.1), "src" = new RegExp(re.source, flags of re), "newflags" /
	// "callflags" = new RegExp(re, "g") / RegExp(re, "g") (TypeError, 15.10.4.1).
	derive string
}

const replaceTemplate = "[$&|$1|$`|$'|$$|$0|$01|$10]"

func (o protoOp) name() string {
	s := regex.RenderUnits(o.subj)
	switch o.kind {
	case opExec:
		return "exec(" + s + ")"
	case opTest:
		return "test(" + s + ")"
	case opMatch:
		return s + ".match(re)"
	case opReplaceT:
		return s + ".replace(re,T)"
	case opReplaceF:
		return s + ".replace(re,fn)"
	case opSearch:
		return s + ".search(re)"
	case opSplit:
		return s + ".split(re," + o.limit.Render() + ")"
	case opSet:
		return "lastIndex=" + o.setJS
	case opFreeze:
		return "freeze"
	case opDerive:
		return "derive-" + o.derive + "(" + s + ")"
	}
	return "?"
}

// js renders the operation as a call of a prelude helper.
func (o protoOp) js() string {
	s := ox.JSString(o.subj)
	switch o.kind {
	case opExec:
		return "__p_exec(re," + s + ")"
	case opTest:
		return "__p_test(re," + s + ")"
	case opMatch:
		return "__p_match(re," + s + ")"
	case opReplaceT:
		return "__p_replT(re," + s + "," + jsStringLiteral(replaceTemplate) + ")"
	case opReplaceF:
		return "__p_replF(re," + s + ")"
	case opSearch:
		return "__p_search(re," + s + ")"
	case opSplit:
		if o.limit.K == 'u' {
			return "__p_split(re," + s + ",undefined)"
		}
		return "__p_split(re," + s + "," + ox.JSNum(o.limit.N) + ")"
	case opSet:
		return "__p_set(re," + o.setJS + ")"
	case opFreeze:
		return "__p_freeze(re)"
	case opDerive:
		return "__p_derive(re," + jsStringLiteral(o.derive) + "," + s + ")"
	}
	return ""
}

const protoPrelude = `
function __st(re) {
  var d = Object.getOwnPropertyDescriptor(re, "lastIndex");
  return __S(re.lastIndex) + "|" + (d && d.writable ? "W" : "F");
}
function __p(re, f) {
  var r;
  try { r = f(); } catch (e) { r = __E(e); }
  return r + "|" + __st(re);
}
function __p_exec(re, s) { return __p(re, function () { return __A(re.exec(s)); }); }
function __p_test(re, s) { return __p(re, function () { return __S(re.test(s)); }); }
function __p_match(re, s) { return __p(re, function () { var m = s.match(re); return re.global ? __L(m) : __A(m); }); }
function __p_replT(re, s, t) { return __p(re, function () { return __S(s.replace(re, t)); }); }
function __p_replF(re, s) {
  return __p(re, function () {
    var calls = [];
    var r = s.replace(re, function () {
      var a = [];
      for (var i = 0; i < arguments.length; i++) a.push(__S(arguments[i]));
      calls.push("(" + a.join(",") + ")");
      return "#";
    });
    return __S(r) + "~" + calls.join("");
  });
}
function __p_search(re, s) { return __p(re, function () { return __S(s.search(re)); }); }
function __p_split(re, s, lim) { return __p(re, function () { return __L(s.split(re, lim)); }); }
function __p_set(re, v) { return __p(re, function () { re.lastIndex = v; return "set"; }); }
function __p_derive(re, kind, s) {
  return __p(re, function () {
    var d;
    var fl = (re.global ? "g" : "") + (re.ignoreCase ? "i" : "") + (re.multiline ? "m" : "");
    if (kind === "new") d = new RegExp(re);
    else if (kind === "call") d = RegExp(re);
    else if (kind === "src") d = new RegExp(re.source, fl);
    else if (kind === "newflags") d = new RegExp(re, "g");
    else d = RegExp(re, "g");
    var o = "same=" + (d === re) + ",src=" + __S(d.source) + ",f=" + d.global + d.ignoreCase + d.multiline + ",st=" + __st(d);
    var x, y;
    try { x = __A(d.exec(s)); } catch (e) { x = __E(e); }
    o += ";d.exec=" + x + "@" + __S(d.lastIndex);
    try { y = __A(re.exec(s)); } catch (e) { y = __E(e); }
    o += ";re.exec=" + y + "@" + __S(re.lastIndex) + ";d.li=" + __S(d.lastIndex);
    return o;
  });
}
function __p_freeze(re) { return __p(re, function () { Object.defineProperty(re, "lastIndex", {writable: false}); return "frozen"; }); }
`

// ---- model side ---------------------------------------------------------------

// protoState is the observable state of the RegExp object.
type protoState struct {
	li       string // rendered lastIndex value
	writable bool
}

func (s protoState) String() string {
	if s.writable {
		return s.li + "|W"
	}
	return s.li + "|F"
}

func parseVal(r string) (regex.Val, error) {
	switch {
	case r == "u":
		return regex.Undefined(), nil
	case r == "n":
		return regex.Null(), nil
	case strings.HasPrefix(r, "d:"):
		t := r[2:]
		switch t {
		case "NaN":
			return regex.Num(math.NaN()), nil
		case "-0":
			return regex.Num(math.Copysign(0, -1)), nil
		case "Infinity":
			return regex.Num(math.Inf(1)), nil
		case "-Infinity":
			return regex.Num(math.Inf(-1)), nil
		}
		f, err := strconv.ParseFloat(t, 64)
		if err != nil {
			return regex.Val{}, err
		}
		return regex.Num(f), nil
	case strings.HasPrefix(r, "s:"):
		var u []uint16
		if r != "s:" {
			for _, h := range strings.Split(r[2:], ".") {
				v, err := strconv.ParseUint(h, 16, 16)
				if err != nil {
					return regex.Val{}, err
				}
				u = append(u, uint16(v))
			}
		}
		return regex.Str(u), nil
	case strings.HasPrefix(r, "b:"):
		return regex.Bool(r == "b:true"), nil
	}
	return regex.Val{}, fmt.Errorf("unparseable value %q", r)
}

// modelApply applies op to a model object in state st and returns the set of
// acceptable rendered results (result|lastIndex|W or F).
func modelApply(pat *regex.Pattern, flags string, st protoState, op protoOp, dev *Dev) ([]string, error) {
	re := regex.NewRegExp(pat, flags)
	li, err := parseVal(st.li)
	if err != nil {
		return nil, err
	}
	re.LastIndex, re.Writable = li, st.writable
	results, err := applyOp(re, op, dev)
	if err != nil {
		return nil, err
	}
	out := make([]string, len(results))
	for i, r := range results {
		out[i] = r + "|" + protoState{re.LastIndex.Render(), re.Writable}.String()
	}
	return out, nil
}

func thrown(err error) (string, bool) {
	if t, ok := err.(*regex.Thrown); ok {
		return "throw:" + t.Class, true
	}
	return "", false
}

func applyOp(re *regex.RegExp, op protoOp, dev *Dev) ([]string, error) {
	if dev != nil {
		return dev.apply(re, op)
	}
	one := func(s string, err error) ([]string, error) {
		if err != nil {
			if t, ok := thrown(err); ok {
				return []string{t}, nil
			}
			return nil, err
		}
		return []string{s}, nil
	}
	many := func(ss []string, err error) ([]string, error) {
		if err != nil {
			return one("", err)
		}
		return ss, nil
	}
	switch op.kind {
	case opExec:
		return one(re.Exec(op.subj))
	case opTest:
		return one(re.Test(op.subj))
	case opMatch:
		return many(re.StringMatch(op.subj))
	case opSearch:
		return one(re.StringSearch(op.subj))
	case opSplit:
		return one(re.StringSplit(op.subj, op.limit))
	case opReplaceT:
		return many(re.StringReplace(op.subj, regex.Replacement{Template: regex.Units(replaceTemplate)}))
	case opReplaceF:
		return many(re.StringReplace(op.subj, regex.Replacement{IsFunc: true, Ret: regex.Units("#")}))
	case opSet:
		if re.Writable {
			re.LastIndex = op.set
		}
		return []string{"set"}, nil
	case opFreeze:
		re.Writable = false
		return []string{"frozen"}, nil
	case opDerive:
		return one(deriveProbe(re, op, func(r *regex.RegExp, s []uint16) (string, error) { return r.Exec(s) }))
	}
	return nil, fmt.Errorf("unknown op")
}

// deriveProbe is the model of __p_derive: 15.10.3.1 / 15.10.4.1 for a RegExp
// object as the pattern argument, then exec on the derived object and on the
// original. exec is the exec implementation (the oracle's, or an alternative
// model's for known-finding signatures).
func deriveProbe(re *regex.RegExp, op protoOp, exec func(*regex.RegExp, []uint16) (string, error)) (string, error) {
	var d *regex.RegExp
	switch op.derive {
	case "call":
		d = re // 15.10.3.1: pattern is a RegExp and flags is undefined: return it unchanged
	case "new", "src":
		// 15.10.4.1: same pattern and flags; lastIndex is 0 (15.10.7.5), a fresh writable property
		d = &regex.RegExp{Prog: re.Prog, Global: re.Global, LastIndex: regex.Num(0), Writable: true}
	default:
		// 15.10.4.1: pattern is a RegExp and flags is not undefined: TypeError
		return "", &regex.Thrown{Class: "TypeError"}
	}
	b := func(v bool) string {
		if v {
			return "true"
		}
		return "false"
	}
	o := "same=" + b(d == re) + ",src=" + regex.RenderUnits(re.Prog.Pat.Source) + ",f=" + b(d.Global) + b(d.Prog.IgnoreCase) + b(d.Prog.Multiline) +
		",st=" + protoState{d.LastIndex.Render(), d.Writable}.String()
	run := func(r *regex.RegExp) (string, error) {
		x, err := exec(r, op.subj)
		if err != nil {
			t, ok := thrown(err)
			if !ok {
				return "", err
			}
			x = t
		}
		return x + "@" + r.LastIndex.Render(), nil
	}
	x, err := run(d)
	if err != nil {
		return "", err
	}
	y, err := run(re)
	if err != nil {
		return "", err
	}
	return o + ";d.exec=" + x + ";re.exec=" + y + ";d.li=" + d.LastIndex.Render(), nil
}

// ---- exploration --------------------------------------------------------------

type protoConfig struct {
	pattern string
	flags   string
}

func (c protoConfig) key() string { return c.flags + "/" + c.pattern }

var protoPatterns = []string{"a", "a*", "(a)|b", "é", "😀", "^", "$", "(?:)", "."}

func protoSubjects(thorough bool) [][]uint16 {
	ss := []string{"", "a", "aa", "ba", "ab", "é", "éa", "aé", "😀a", "a😀"}
	if thorough {
		ss = append(ss, "b", "aab", "a\na", "éé", "éaé", "😀", "😀😀", "a😀a", "é😀")
	}
	out := make([][]uint16, len(ss))
	for i, s := range ss {
		out[i] = regex.Units(s)
	}
	return out
}

func protoOps(thorough bool) []protoOp {
	var ops []protoOp
	for _, s := range protoSubjects(thorough) {
		ops = append(ops,
			protoOp{kind: opExec, subj: s}, protoOp{kind: opTest, subj: s}, protoOp{kind: opMatch, subj: s},
			protoOp{kind: opReplaceT, subj: s}, protoOp{kind: opReplaceF, subj: s}, protoOp{kind: opSearch, subj: s},
			protoOp{kind: opSplit, subj: s, limit: regex.Undefined()},
			protoOp{kind: opSplit, subj: s, limit: regex.Num(0)},
			protoOp{kind: opSplit, subj: s, limit: regex.Num(1)},
			protoOp{kind: opSplit, subj: s, limit: regex.Num(2)})
	}
	sets := []struct {
		js string
		v  regex.Val
	}{{"-1", regex.Num(-1)}, {"0", regex.Num(0)}, {"1", regex.Num(1)}, {"2", regex.Num(2)}, {"5", regex.Num(5)},
		{`"1"`, regex.StrS("1")}, {"1.5", regex.Num(1.5)}, {"NaN", regex.Num(math.NaN())}}
	for _, s := range sets {
		ops = append(ops, protoOp{kind: opSet, set: s.v, setJS: s.js})
	}
	ops = append(ops, protoOp{kind: opFreeze})
	// appended last so that the indices of the operations above stay stable
	for _, s := range protoSubjects(thorough) {
		for _, k := range []string{"new", "call", "src"} {
			ops = append(ops, protoOp{kind: opDerive, subj: s, derive: k})
		}
	}
	ops = append(ops, protoOp{kind: opDerive, derive: "newflags"}, protoOp{kind: opDerive, derive: "callflags"})
	return ops
}

// runPath builds a fresh RegExp in vm, applies the operations and returns one
// observation line per operation.
func runPath(vm *otto.Otto, cfg protoConfig, path []protoOp) ([]string, string) {
	var sb strings.Builder
	fmt.Fprintf(&sb, "(function(){ var re = new RegExp(%s, %s); var log = [];\n", ox.JSString(regex.Units(cfg.pattern)), jsStringLiteral(cfg.flags))
	for _, op := range path {
		fmt.Fprintf(&sb, "log.push(%s);\n", op.js())
	}
	sb.WriteString("return log.join(\"\\n\"); })()")
	obs, ok := observe(vm, sb.String())
	if !ok {
		return nil, obs
	}
	return strings.Split(obs, "\n"), ""
}

func splitObs(line string) (result string, st protoState, ok bool) {
	// result|lastIndex|W
	i := strings.LastIndexByte(line, '|')
	if i < 0 {
		return "", protoState{}, false
	}
	j := strings.LastIndexByte(line[:i], '|')
	if j < 0 {
		return "", protoState{}, false
	}
	return line[:j], protoState{li: line[j+1 : i], writable: line[i+1:] == "W"}, true
}

func runProtocol(r *engine.Run) {
	thorough := r.Thorough()
	flagList := []string{"", "g"}
	if thorough {
		flagList = []string{"", "g", "gi", "gm", "m"}
	}
	ops := protoOps(thorough)
	var vm *otto.Otto
	for _, p := range protoPatterns {
		for _, f := range flagList {
			cfg := protoConfig{p, f}
			own := false
			if r.ReplayKey != "" {
				own = strings.HasPrefix(r.ReplayKey, cfg.key()+"#")
			} else {
				own = r.Mine()
			}
			if !own {
				continue
			}
			if vm == nil {
				vm = otto.New()
				if res := ox.Run(vm, prelude+protoPrelude); res.Err != nil || res.Panicked {
					r.HarnessError(fmt.Sprintf("prelude failed: %v %v", res.Err, res.PanicVal))
					return
				}
			}
			exploreConfig(r, vm, cfg, ops)
		}
	}
	r.Bound("configs", fmt.Sprintf("%d patterns x flags %q", len(protoPatterns), flagList))
	r.Bound("operations", fmt.Sprintf("%d per state (%d subjects x 10 string operations, 8 lastIndex assignments, freeze); depth: fixpoint", len(ops), len(protoSubjects(thorough))))
}

// maxProtoStates bounds the states of one configuration: the unchanged
// implementation closes at a few dozen; a defect that makes lastIndex grow
// without bound must not make the search diverge.
const maxProtoStates = 200

func exploreConfig(r *engine.Run, vm *otto.Otto, cfg protoConfig, ops []protoOp) {
	pat := regex.ClassifyString(cfg.pattern)
	if pat.Class != regex.Portable {
		r.HarnessError("protocol pattern not portable: " + cfg.pattern)
		return
	}
	init := protoState{"d:0", true}
	type node struct {
		st   protoState
		path []protoOp
	}
	seen := map[string]bool{init.String(): true}
	queue := []node{{init, nil}}
	r.Tree(1, 0)
	for len(queue) > 0 {
		n := queue[0]
		queue = queue[1:]
		for _, op := range ops {
			path := append(append([]protoOp(nil), n.path...), op)
			names := make([]string, len(path))
			for i, o := range path {
				names[i] = o.name()
			}
			key := cfg.key() + "#" + strings.Join(names, ";")
			r.Begin(key)
			lines, fail := runPath(vm, cfg, path)
			r.End()
			r.Tree(0, 1)
			if fail != "" {
				r.Eval(true)
				if r.ReplayKey == "" || r.ReplayKey == key {
					r.Mismatch(engine.Mismatch{Key: key, Input: fmt.Sprintf("new RegExp(%q,%q); %s", cfg.pattern, cfg.flags, strings.Join(names, "; ")),
						Expected: "a result or a thrown TypeError", Observed: fail})
				}
				continue
			}
			// replay determinism: the state before the last operation must be n.st
			if len(path) > 1 {
				_, prev, ok := splitObs(lines[len(lines)-2])
				if !ok || prev != n.st {
					r.HarnessError(fmt.Sprintf("replay of %s did not reproduce state %s (got %s)", key, n.st, prev))
					continue
				}
			}
			last := lines[len(lines)-1]
			_, newSt, ok := splitObs(last)
			if !ok {
				r.HarnessError("unparseable observation " + last)
				continue
			}
			want, err := modelApply(pat, cfg.flags, n.st, op, nil)
			if err != nil {
				r.Skip()
				continue
			}
			// oracle self-check: the alternative model with no deviation is the oracle
			if alt0, err := modelApply(pat, cfg.flags, n.st, op, &Dev{on: map[string]bool{}}); err != nil || strings.Join(alt0, "\x00") != strings.Join(want, "\x00") {
				r.HarnessError(fmt.Sprintf("alternative model without deviations differs from the oracle on %s: %v vs %v (%v)", key, alt0, want, err))
			}
			res, _, _ := splitObs(last)
			r.Eval(!(strings.HasPrefix(res, "n") || res == "d:-1") || newSt != n.st)
			r.Outcome(last)
			if r.WantSample() && len(path) >= 2 {
				r.Sample(fmt.Sprintf("new RegExp(%q,%q); %s => %s", cfg.pattern, cfg.flags, strings.Join(names, "; "), last))
			}
			agree := false
			for _, w := range want {
				if w == last {
					agree = true
				}
			}
			if !agree && (r.ReplayKey == "" || r.ReplayKey == key) {
				m := engine.Mismatch{Key: key,
					Input:    fmt.Sprintf("new RegExp(%q,%q); %s", cfg.pattern, cfg.flags, strings.Join(names, "; ")),
					Expected: strings.Join(want, "  OR  "), Observed: last,
					Note: "state before: " + n.st.String(),
					Aux: map[string]string{"proto": "1", "pattern": cfg.pattern, "flags": cfg.flags, "state": n.st.String(),
						"op": strconv.Itoa(opIndex(ops, op)), "tier": r.Tier, "observed": last}}
				trace(r.Family(), &m)
				r.Mismatch(m)
			}
			if !seen[newSt.String()] {
				if len(seen) >= maxProtoStates {
					r.Cap(fmt.Sprintf("%s: more than %d distinct (lastIndex, writable) states; exploration of this configuration truncated", cfg.key(), maxProtoStates))
					continue
				}
				seen[newSt.String()] = true
				r.Tree(1, 0)
				queue = append(queue, node{newSt, path})
			}
		}
	}
}

func opIndex(ops []protoOp, op protoOp) int {
	for i, o := range ops {
		if o.name() == op.name() {
			return i
		}
	}
	return -1
}

// Dev is the set of deviation toggles of the alternative protocol model (see protoalt.go).
type Dev struct{ on map[string]bool }
