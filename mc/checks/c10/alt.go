package c10

// Alternative models used ONLY by known-finding signatures (never by the
// oracle): they pin the exact failure mode of otto's architectural defects.
//
//   R  "RE2 semantics": the match is what Go's regexp package (RE2,
//      leftmost-first, no per-iteration capture reset, one empty iteration
//      allowed) returns for an independent translation of the pattern AST.
//   S  "sliced subject": exec with lastIndex > 0 runs the matcher on the
//      suffix s[lastIndex:] — the assertions ^ \b \B lose their left context.

import (
	"fmt"
	"regexp"
	"strings"

	"verif/mc/ref/regex"
)

// toRE2 renders the AST in RE2 syntax (independent of parser.TransformRegExp).
func toRE2(n *regex.Node, sb *strings.Builder, multiline, plainDot bool) {
	switch n.Kind {
	case regex.KEmpty:
		sb.WriteString("(?:)")
	case regex.KChar:
		fmt.Fprintf(sb, `\x{%X}`, n.Ch)
	case regex.KDot:
		if plainDot {
			sb.WriteString(`(?-s:.)`)
		} else {
			sb.WriteString(`[^\n\r\x{2028}\x{2029}]`)
		}
	case regex.KClass:
		sb.WriteByte('[')
		if n.Set.Invert {
			sb.WriteByte('^')
		}
		for _, r := range n.Set.Ranges {
			fmt.Fprintf(sb, `\x{%X}-\x{%X}`, r[0], r[1])
		}
		sb.WriteByte(']')
	case regex.KBol:
		if multiline {
			sb.WriteString("(?m:^)")
		} else {
			sb.WriteString(`\A`)
		}
	case regex.KEol:
		if multiline {
			sb.WriteString("(?m:$)")
		} else {
			sb.WriteString(`\z`)
		}
	case regex.KWordB:
		sb.WriteString(`\b`)
	case regex.KNotWordB:
		sb.WriteString(`\B`)
	case regex.KSeq:
		for _, k := range n.Kids {
			toRE2(k, sb, multiline, plainDot)
		}
	case regex.KAlt:
		for i, k := range n.Kids {
			if i > 0 {
				sb.WriteByte('|')
			}
			toRE2(k, sb, multiline, plainDot)
		}
	case regex.KGroup:
		sb.WriteByte('(')
		toRE2(n.Kids[0], sb, multiline, plainDot)
		sb.WriteByte(')')
	case regex.KNCGroup:
		sb.WriteString("(?:")
		toRE2(n.Kids[0], sb, multiline, plainDot)
		sb.WriteByte(')')
	case regex.KQuant:
		k := n.Kids[0]
		wrap := k.Kind == regex.KSeq || k.Kind == regex.KAlt || k.Kind == regex.KQuant || k.Kind == regex.KEmpty
		if wrap {
			sb.WriteString("(?:")
		}
		toRE2(k, sb, multiline, plainDot)
		if wrap {
			sb.WriteByte(')')
		}
		switch {
		case n.Min == 0 && n.Max == -1:
			sb.WriteByte('*')
		case n.Min == 1 && n.Max == -1:
			sb.WriteByte('+')
		case n.Min == 0 && n.Max == 1:
			sb.WriteByte('?')
		case n.Max == -1:
			fmt.Fprintf(sb, "{%d,}", n.Min)
		case n.Max == n.Min:
			fmt.Fprintf(sb, "{%d}", n.Min)
		default:
			fmt.Fprintf(sb, "{%d,%d}", n.Min, n.Max)
		}
		if !n.Greedy {
			sb.WriteByte('?')
		}
	default:
		sb.WriteString(`\Q<unsupported>\E\b\B`) // look-ahead / back-reference: never matches anything sensible
	}
}

// hasEmptyClass reports whether the AST contains [] or [^] (not expressible in RE2 as a class).
func hasEmptyClass(n *regex.Node) bool {
	if n.Kind == regex.KClass && len(n.Set.Ranges) == 0 {
		return true
	}
	for _, k := range n.Kids {
		if hasEmptyClass(k) {
			return true
		}
	}
	return false
}

// re2Engine is the R alternative model for one (pattern, flags).
type re2Engine struct {
	src     string
	plain   *regexp.Regexp
	offsets map[int]*regexp.Regexp
	ncap    int
}

func newRE2Engine(p *regex.Pattern, ignoreCase, multiline, plainDot bool) (*re2Engine, error) {
	if p.Root == nil || p.HasLook || p.HasBack || hasEmptyClass(p.Root) {
		return nil, fmt.Errorf("not translatable")
	}
	var sb strings.Builder
	toRE2(p.Root, &sb, multiline, plainDot)
	src := sb.String()
	if ignoreCase {
		src = "(?i:" + src + ")"
	} else {
		src = "(?:" + src + ")"
	}
	re, err := regexp.Compile(src)
	if err != nil {
		return nil, err
	}
	return &re2Engine{src: src, plain: re, offsets: map[int]*regexp.Regexp{}, ncap: p.NCap}, nil
}

func isASCII(s []uint16) bool {
	for _, c := range s {
		if c >= 0x80 {
			return false
		}
	}
	return true
}

// find returns the RE2 leftmost-first match starting at >= from with the full
// subject as context. from > 0 is supported on ASCII subjects only (bytes ==
// code units); from == 0 on any BMP subject (byte offsets are mapped back).
func (e *re2Engine) find(s []uint16, from int) (*regex.MatchResult, error) {
	str := regex.String16(s)
	if from == 0 {
		loc := e.plain.FindStringSubmatchIndex(str)
		if loc == nil {
			return nil, nil
		}
		if !isASCII(s) {
			for i, o := range loc {
				if o >= 0 {
					loc[i] = len(regex.Units(str[:o]))
				}
			}
		}
		return &regex.MatchResult{Caps: loc}, nil
	}
	if !isASCII(s) {
		return nil, fmt.Errorf("re2 alternative model with a start offset is defined on ASCII subjects only")
	}
	if from > len(s) {
		return nil, nil
	}
	re := e.offsets[from]
	if re == nil {
		var err error
		re, err = regexp.Compile(fmt.Sprintf(`\A(?s:.{%d}.*?)(%s)`, from, e.src))
		if err != nil {
			return nil, err
		}
		e.offsets[from] = re
	}
	loc := re.FindStringSubmatchIndex(str)
	if loc == nil {
		return nil, nil
	}
	return &regex.MatchResult{Caps: loc[2:]}, nil
}

// sliced wraps a finder so that it sees only s[from:] (offsets shifted back).
func sliced(f func(s []uint16, from int) (*regex.MatchResult, error)) func(s []uint16, from int) (*regex.MatchResult, error) {
	return func(s []uint16, from int) (*regex.MatchResult, error) {
		if from > len(s) {
			return nil, nil
		}
		m, err := f(s[from:], 0)
		if err != nil || m == nil {
			return m, err
		}
		caps := append([]int(nil), m.Caps...)
		for i := range caps {
			if caps[i] >= 0 {
				caps[i] += from
			}
		}
		return &regex.MatchResult{Caps: caps}, nil
	}
}

// specFinder is the spec search loop as a finder.
func specFinder(re *regex.RegExp) func(s []uint16, from int) (*regex.MatchResult, error) {
	prog := re.Prog
	return func(s []uint16, from int) (*regex.MatchResult, error) {
		for i := from; i <= len(s); i++ {
			caps, ok, err := prog.Match(s, i)
			if err != nil {
				return nil, err
			}
			if ok {
				return &regex.MatchResult{Caps: caps}, nil
			}
		}
		return nil, nil
	}
}

// ---- structural input classes -------------------------------------------------

// nullable: the node can match the empty string.
func nullable(n *regex.Node) bool {
	switch n.Kind {
	case regex.KEmpty, regex.KBol, regex.KEol, regex.KWordB, regex.KNotWordB, regex.KLook:
		return true
	case regex.KChar, regex.KDot, regex.KClass:
		return false
	case regex.KBackRef:
		return true
	case regex.KSeq:
		for _, k := range n.Kids {
			if !nullable(k) {
				return false
			}
		}
		return true
	case regex.KAlt:
		for _, k := range n.Kids {
			if nullable(k) {
				return true
			}
		}
		return false
	case regex.KGroup, regex.KNCGroup:
		return nullable(n.Kids[0])
	case regex.KQuant:
		return n.Min == 0 || nullable(n.Kids[0])
	}
	return false
}

func containsCapture(n *regex.Node) bool {
	if n.Kind == regex.KGroup {
		return true
	}
	for _, k := range n.Kids {
		if containsCapture(k) {
			return true
		}
	}
	return false
}

// re2Sensitive is the input class of the RE2-semantics finding: the pattern has
// a quantifier whose body can match the empty string (RE2 lets one empty
// iteration through where 15.10.2.5 step 2.1 rejects it) or whose body contains
// a capturing group and may iterate more than once (15.10.2.5 step 4 resets
// those captures on every iteration, RE2 keeps the previous iteration's value).
func re2Sensitive(n *regex.Node) bool {
	if n.Kind == regex.KQuant {
		body := n.Kids[0]
		if nullable(body) {
			return true
		}
		if (n.Max == -1 || n.Max > 1) && containsCapture(body) {
			return true
		}
	}
	for _, k := range n.Kids {
		if re2Sensitive(k) {
			return true
		}
	}
	return false
}

// contextSensitive is the input class of the sliced-subject finding: the
// pattern contains an assertion that looks to the left of the current position.
func contextSensitive(n *regex.Node) bool {
	switch n.Kind {
	case regex.KBol, regex.KWordB, regex.KNotWordB:
		return true
	}
	for _, k := range n.Kids {
		if contextSensitive(k) {
			return true
		}
	}
	return false
}

func hasQuantifiedAssertion(n *regex.Node) bool {
	if n.Kind == regex.KQuant {
		switch n.Kids[0].Kind {
		case regex.KBol, regex.KEol, regex.KWordB, regex.KNotWordB:
			return true
		}
	}
	for _, k := range n.Kids {
		if hasQuantifiedAssertion(k) {
			return true
		}
	}
	return false
}
