package c10

// Mutation symbols of DESIGN.md C10: inserted at every character boundary.
var mutationSymbols = []string{"(?=a)", "(?!a)", `\1`, `\2`, "(", ")", "[", "]", "{", "}", "*", "+", "?", `\`, `\8`, `\c`, `\u12`, `\x1`, "|", "/",
	// round 6: RE2-only class syntax, multi-digit octal escapes, RE2 repeat limit
	"[:alpha:]", "[[:digit:]]", `\12`, `\101`, `\1011`, "{1001}",
	// round 7: two-digit decimal escapes (back-references when the pattern has that many groups), identity escape of a non-ASCII character
	`\10`, `\11`, "\\\u2014"}

// manyGroupBases are extra mutation bases with 9, 10 and 11 capturing groups, so
// that \10 and \11 are back-references (15.10.2.9) in some of the mutants.
var manyGroupBases = []string{"(a)(b)(a)(b)(a)(b)(a)(b)(a)", "(a)(b)(a)(b)(a)(b)(a)(b)(a)(b)", "(a)(b)(a)(b)(a)(b)(a)(b)(a)(b)(a)"}

// MutatedPatterns returns every single-symbol insertion into every base
// pattern, in generation order, without duplicates and without results that
// are themselves base patterns.
func MutatedPatterns(base []string) []string {
	seen := map[string]bool{}
	for _, b := range base {
		seen[b] = true
	}
	var out []string
	for _, b := range base {
		for pos := 0; pos <= len(b); pos++ {
			for _, sym := range mutationSymbols {
				m := b[:pos] + sym + b[pos:]
				if seen[m] {
					continue
				}
				seen[m] = true
				out = append(out, m)
			}
		}
	}
	return out
}
