package c10

// Family "literals": histories over TWO (and a third, fresh) RegExp objects that
// come from the same source text. ES5 7.8.5: a regular expression literal is
// converted to a NEW RegExp object each time it is evaluated (ES3 shared one
// object per literal); 15.10.4.1: new RegExp(R) is a new object too. The objects
// must be fully independent: lastIndex, its writability and expando properties
// of one are never visible through the other.
//
// Sites: the same literal evaluated twice through a function, a literal in a
// loop body (the third object is created BEFORE the operations), two textually
// identical literals, and literal + new RegExp(A). Histories: every sequence of
// at most two operations from {exec, test} x {A, B} x subjects, lastIndex
// assignment, expando assignment and freezing lastIndex on A or B.

import (
	"fmt"
	"strings"

	"github.com/robertkrimen/otto"

	"verif/mc/engine"
	"verif/mc/ox"
	"verif/mc/ref/regex"
)

type litOp struct {
	kind string // exec test set expando freeze
	obj  int    // 0 = A, 1 = B
	subj string
}

func (o litOp) name() string {
	return fmt.Sprintf("%s%c(%s)", o.kind, "AB"[o.obj], o.subj)
}

func (o litOp) js() string {
	x := string("AB"[o.obj])
	switch o.kind {
	case "exec":
		return fmt.Sprintf(`log.push(T(function(){ return __A(%s.exec(%s)); }));`, x, jsStringLiteral(o.subj))
	case "test":
		return fmt.Sprintf(`log.push(T(function(){ return __S(%s.test(%s)); }));`, x, jsStringLiteral(o.subj))
	case "set":
		return x + `.lastIndex = 1; log.push("set");`
	case "expando":
		return x + `.foo = 7; log.push("exp");`
	case "freeze":
		return `Object.defineProperty(` + x + `, "lastIndex", {writable: false}); log.push("frz");`
	}
	return ""
}

func litOps() []litOp {
	var ops []litOp
	for obj := 0; obj < 2; obj++ {
		for _, s := range []string{"aa", "b"} {
			ops = append(ops, litOp{"exec", obj, s}, litOp{"test", obj, s})
		}
		ops = append(ops, litOp{"set", obj, ""}, litOp{"expando", obj, ""}, litOp{"freeze", obj, ""})
	}
	return ops
}

var litSites = []string{"fn", "loop", "twosites", "mixed"}

func litSiteJS(site, lit string) string {
	switch site {
	case "fn":
		return "function mk(){ return " + lit + "; } var A = mk(), B = mk(); var third = mk;"
	case "loop":
		return "var rs = []; for (var i = 0; i < 3; i++) rs.push(" + lit + "); var A = rs[0], B = rs[1]; var third = function(){ return rs[2]; };"
	case "twosites":
		return "var A = " + lit + ", B = " + lit + "; var third = function(){ return " + lit + "; };"
	case "mixed":
		return "function mk(){ return " + lit + "; } var A = mk(), B = new RegExp(A); var third = mk;"
	}
	return ""
}

type litObj struct {
	re  *regex.RegExp
	foo bool
}

func (o *litObj) st(src string) string {
	w := "F"
	if o.re.Writable {
		w = "W"
	}
	foo := "u"
	if o.foo {
		foo = "d:7"
	}
	return fmt.Sprintf("%s%s:%s:%v:%s", o.re.LastIndex.Render(), w, foo, o.re.Global, regex.RenderUnits(regex.Units(src)))
}

func litExpected(pattern, flags string, seq []litOp) (string, error) {
	pat := regex.ClassifyString(pattern)
	objs := []*litObj{{re: regex.NewRegExp(pat, flags)}, {re: regex.NewRegExp(pat, flags)}, {re: regex.NewRegExp(pat, flags)}}
	var log []string
	for _, op := range seq {
		o := objs[op.obj]
		switch op.kind {
		case "exec", "test":
			var r string
			var err error
			if op.kind == "exec" {
				r, err = o.re.Exec(regex.Units(op.subj))
			} else {
				r, err = o.re.Test(regex.Units(op.subj))
			}
			if err != nil {
				t, ok := thrown(err)
				if !ok {
					return "", err
				}
				r = t
			}
			log = append(log, r)
		case "set":
			if o.re.Writable {
				o.re.LastIndex = regex.Num(1)
			}
			log = append(log, "set")
		case "expando":
			o.foo = true
			log = append(log, "exp")
		case "freeze":
			o.re.Writable = false
			log = append(log, "frz")
		}
	}
	return strings.Join(log, ",") + "|false|" + objs[0].st(pattern) + "|" + objs[1].st(pattern) + "|" + objs[2].st(pattern), nil
}

func runLiterals(r *engine.Run) {
	vm := otto.New()
	if res := ox.Run(vm, prelude+`
function T(f) { try { return f(); } catch (e) { return __E(e); } }
function __lst(x) { var d = Object.getOwnPropertyDescriptor(x, "lastIndex"); return __S(x.lastIndex) + (d && d.writable ? "W" : "F") + ":" + __S(x.foo) + ":" + x.global + ":" + __S(x.source); }
`); res.Err != nil || res.Panicked {
		r.HarnessError("prelude failed")
		return
	}
	ops := litOps()
	var seqs [][]litOp
	seqs = append(seqs, nil)
	for _, a := range ops {
		seqs = append(seqs, []litOp{a})
	}
	for _, a := range ops {
		for _, b := range ops {
			seqs = append(seqs, []litOp{a, b})
		}
	}
	n := 0
	for _, flags := range []string{"", "g"} {
		lit := "/a/" + flags
		for _, site := range litSites {
			for _, seq := range seqs {
				names := make([]string, len(seq))
				var body strings.Builder
				for i, op := range seq {
					names[i] = op.name()
					body.WriteString(op.js())
					body.WriteByte('\n')
				}
				key := flags + "/" + site + "/" + strings.Join(names, ";")
				n++
				if !r.MineKey(key) {
					continue
				}
				src := "(function(){ var log = [];\n" + litSiteJS(site, lit) + "\n" + body.String() +
					"var C = third(); return log.join(\",\") + \"|\" + (A === B || A === C || B === C) + \"|\" + __lst(A) + \"|\" + __lst(B) + \"|\" + __lst(C); })()"
				r.Begin(key)
				obs, _ := observe(vm, src)
				r.End()
				want, err := litExpected("a", flags, seq)
				if err != nil {
					r.Skip()
					continue
				}
				r.Eval(len(seq) > 0)
				r.Outcome(obs)
				if r.WantSample() && len(seq) == 2 && flags == "g" {
					r.Sample(key + " => " + obs)
				}
				if obs != want {
					m := engine.Mismatch{Key: key, Input: src, Expected: want, Observed: obs}
					trace(r.Family(), &m)
					r.Mismatch(m)
				}
			}
		}
	}
	r.Bound("histories", fmt.Sprintf("%d cases: flags {\"\",g} x %d sites x all sequences of <= 2 of %d operations on two objects from the same literal text; a third object is checked for freshness", n, len(litSites), len(ops)))
}
