package c10

// Alternative protocol model for known-finding signatures (never the oracle).
// It is the ES5 protocol of ref/regex with individually switchable deviations,
// each of which is one defect of otto's exec / String.prototype code:
//
//	MU  match(global) returns undefined instead of null when nothing matches
//	ML  match(global) leaves lastIndex at the end of the last match instead of 0
//	RL  replace(global) leaves lastIndex at the end of the last match; when
//	    nothing matches lastIndex is not touched at all (no reset, no TypeError)
//	SE  split on an empty subject returns [""] even when the separator matches
//	US  search returns the offset counted in UTF-8 bytes
//	UF  function replacers receive the offset counted in code points
//	AB  Go's FindAll iteration: an empty match directly after the previous match is skipped
//	S   exec on a global expression matches against the suffix s[lastIndex:]
//	U   lastIndex is read and written in UTF-8 bytes, and iteration advances by
//	    code points (never between the halves of a surrogate pair)
//
// A mismatch is attributed to the highest-priority toggle of the smallest
// toggle set that reproduces the observation exactly.

import (
	"fmt"
	"strings"
	"unicode/utf8"

	"verif/mc/ref/regex"
)

var protoToggles = []string{"MU", "ML", "RL", "SE", "US", "UF", "AB", "S", "U"}

func (d *Dev) has(t string) bool { return d != nil && d.on[t] }

// ---- code-point view of a subject ---------------------------------------------

// Astral code points are represented by one private-use unit so that the
// UTF-16 matcher of ref/regex can run "by code point".
var placeholders = map[rune]uint16{}
var placeholderRunes = map[uint16]rune{}

func placeholder(r rune) uint16 {
	if u, ok := placeholders[r]; ok {
		return u
	}
	u := uint16(0xF000 + len(placeholders))
	placeholders[r] = u
	placeholderRunes[u] = r
	return u
}

// cpView is a subject (or pattern) decoded by code point from UTF-8 bytes the
// way Go does: invalid bytes become U+FFFD of width 1.
type cpView struct {
	units []uint16 // one per code point (astral -> placeholder)
	boff  []int    // byte offset of each unit, plus the total length
	uoff  []int    // UTF-16 offset of each unit, plus the total length
}

func decodeBytes(b []byte) *cpView {
	v := &cpView{}
	bo, uo := 0, 0
	for bo < len(b) {
		r, w := utf8.DecodeRune(b[bo:])
		v.boff = append(v.boff, bo)
		v.uoff = append(v.uoff, uo)
		if r >= 0x10000 {
			v.units = append(v.units, placeholder(r))
			uo += 2
		} else {
			v.units = append(v.units, uint16(r))
			uo++
		}
		bo += w
	}
	v.boff = append(v.boff, bo)
	v.uoff = append(v.uoff, uo)
	return v
}

// expand turns placeholder units back into surrogate pairs.
func expand(u []uint16) []uint16 {
	var out []uint16
	for _, c := range u {
		if r, ok := placeholderRunes[c]; ok {
			r -= 0x10000
			out = append(out, uint16(0xD800+(r>>10)), uint16(0xDC00+(r&0x3FF)))
		} else {
			out = append(out, c)
		}
	}
	return out
}

func utf8Of(u []uint16) []byte { return []byte(regex.String16(u)) }

func utf16LenOfBytes(b []byte) int {
	v := decodeBytes(b)
	return v.uoff[len(v.units)]
}

// ---- the alternative object ---------------------------------------------------

type altRegExp struct {
	re   *regex.RegExp  // state (lastIndex, writable, global) + UTF-16 program
	cp   *regex.Program // program over code-point units (pattern with placeholders)
	dev  *Dev
	spec *regex.Program
}

func newAlt(re *regex.RegExp, dev *Dev) *altRegExp {
	a := &altRegExp{re: re, dev: dev, spec: re.Prog}
	src := decodeBytes(utf8Of(re.Prog.Pat.Source)).units
	pat := regex.Classify(src)
	a.cp = regex.Compile(pat, re.Prog.IgnoreCase, re.Prog.Multiline)
	return a
}

// find: leftmost match at >= from over units with full context.
func find(prog *regex.Program, units []uint16, from int) ([]int, error) {
	for i := from; i <= len(units); i++ {
		caps, ok, err := prog.Match(units, i)
		if err != nil {
			return nil, err
		}
		if ok {
			return caps, nil
		}
	}
	return nil, nil
}

// altMatch is one match expressed both ways.
type altMatch struct {
	caps   []int    // offsets in the unit array that was searched
	units  []uint16 // that array
	view   *cpView  // nil in UTF-16 mode
	bshift int      // byte offset of view within the whole subject (U + sliced)
}

func (m *altMatch) capUnits(i int) ([]uint16, bool) {
	if m.caps[2*i] < 0 {
		return nil, false
	}
	return expand(m.units[m.caps[2*i]:m.caps[2*i+1]]), true
}

// exec is execRegExp under the deviations S and U. It returns the match (nil =
// null) and performs the lastIndex updates.
func (a *altRegExp) exec(s []uint16) (*altMatch, int, error) {
	re := a.re
	li := regex.ToInteger(re.LastIndex)
	if !re.Global {
		li = 0
	}
	if !a.dev.has("U") {
		if li < 0 || li > float64(len(s)) {
			return nil, 0, re.PutLastIndex(regex.Num(0))
		}
		from := int(li)
		var caps []int
		var err error
		if a.dev.has("S") {
			caps, err = find(a.spec, s[from:], 0)
			for i := range caps {
				if caps[i] >= 0 {
					caps[i] += from
				}
			}
		} else {
			caps, err = find(a.spec, s, from)
		}
		if err != nil {
			return nil, 0, err
		}
		if caps == nil {
			return nil, 0, re.PutLastIndex(regex.Num(0))
		}
		if re.Global {
			if err := re.PutLastIndex(regex.Num(float64(caps[1]))); err != nil {
				return nil, 0, err
			}
		}
		return &altMatch{caps: caps, units: s}, caps[0], nil
	}
	// byte mode
	b := utf8Of(s)
	if li < 0 || li > float64(len(b)) {
		return nil, 0, re.PutLastIndex(regex.Num(0))
	}
	from := int(li)
	whole := decodeBytes(b)
	k := -1
	for i, o := range whole.boff {
		if o == from {
			k = i
		}
	}
	var m *altMatch
	if !a.dev.has("S") && k >= 0 {
		caps, err := find(a.cp, whole.units, k)
		if err != nil {
			return nil, 0, err
		}
		if caps != nil {
			m = &altMatch{caps: caps, units: whole.units, view: whole}
		}
	} else {
		v := decodeBytes(b[from:])
		caps, err := find(a.cp, v.units, 0)
		if err != nil {
			return nil, 0, err
		}
		if caps != nil {
			m = &altMatch{caps: caps, units: v.units, view: v, bshift: from}
		}
	}
	if m == nil {
		return nil, 0, re.PutLastIndex(regex.Num(0))
	}
	bstart := m.bshift + m.view.boff[m.caps[0]]
	bend := m.bshift + m.view.boff[m.caps[1]]
	if re.Global {
		if err := re.PutLastIndex(regex.Num(float64(bend))); err != nil {
			return nil, 0, err
		}
	}
	return m, utf16LenOfBytes(b[:bstart]), nil
}

func renderAltExec(s []uint16, m *altMatch, index int) string {
	if m == nil {
		return "n"
	}
	var sb strings.Builder
	fmt.Fprintf(&sb, "[index=%d,input=%s,length=%d", index, regex.RenderUnits(s), len(m.caps)/2)
	for i := 0; i < len(m.caps)/2; i++ {
		sb.WriteByte(',')
		if u, ok := m.capUnits(i); ok {
			sb.WriteString(regex.RenderUnits(u))
		} else {
			sb.WriteString("u")
		}
	}
	sb.WriteByte(']')
	return sb.String()
}

// subjectUnits returns the unit array iteration runs on and the view (nil for UTF-16).
func (a *altRegExp) subjectUnits(s []uint16) ([]uint16, *cpView, *regex.Program) {
	if a.dev.has("U") {
		v := decodeBytes(utf8Of(s))
		return v.units, v, a.cp
	}
	return s, nil, a.spec
}

// allMatches iterates like String.prototype.match with a global expression.
// es6 selects the ES2015 reading (advance when the match is empty) instead of
// the literal ES5.1 one (advance when lastIndex did not move); AB adds Go's
// "no empty match directly after a match" rule.
func (a *altRegExp) allMatches(units []uint16, prog *regex.Program, es6 bool) ([][]int, error) {
	var out [][]int
	pos, prev, prevEnd := 0, 0, -1
	for pos <= len(units) {
		caps, err := find(prog, units, pos)
		if err != nil {
			return nil, err
		}
		if caps == nil {
			break
		}
		end := caps[1]
		empty := caps[0] == caps[1]
		accept := !(a.dev.has("AB") && empty && caps[0] == prevEnd)
		switch {
		case a.dev.has("AB"):
			// Go's allMatches: an empty match AT the search position moves on by one
			if end == pos {
				pos++
			} else {
				pos = end
			}
		case es6:
			if empty {
				pos = end + 1
			} else {
				pos = end
			}
		default:
			// ES5.1 15.5.4.10 step 8.f.iii literally
			if end == prev {
				pos, prev = end+1, end+1
			} else {
				pos, prev = end, end
			}
		}
		prevEnd = end
		if accept {
			out = append(out, caps)
		}
	}
	return out, nil
}

func (a *altRegExp) unitEnd(view *cpView, idx int) (byteOff, u16Off, cpOff int) {
	if view == nil {
		return idx, idx, idx
	}
	return view.boff[idx], view.uoff[idx], idx
}

func one(s string) []string { return []string{s} }

func (d *Dev) apply(re *regex.RegExp, op protoOp) ([]string, error) {
	a := newAlt(re, d)
	res, err := a.applyOp(op)
	if err != nil {
		if t, ok := thrown(err); ok {
			return one(t), nil
		}
		return nil, err
	}
	return res, nil
}

func (a *altRegExp) applyOp(op protoOp) ([]string, error) {
	re := a.re
	s := op.subj
	switch op.kind {
	case opSet:
		if re.Writable {
			re.LastIndex = op.set
		}
		return one("set"), nil
	case opFreeze:
		re.Writable = false
		return one("frozen"), nil
	case opDerive:
		r, err := deriveProbe(re, op, func(r *regex.RegExp, s []uint16) (string, error) {
			m, idx, err := newAlt(r, a.dev).exec(s)
			if err != nil {
				return "", err
			}
			return renderAltExec(s, m, idx), nil
		})
		if err != nil {
			return nil, err
		}
		return one(r), nil
	case opExec:
		m, idx, err := a.exec(s)
		if err != nil {
			return nil, err
		}
		return one(renderAltExec(s, m, idx)), nil
	case opTest:
		m, _, err := a.exec(s)
		if err != nil {
			return nil, err
		}
		return one(regex.Bool(m != nil).Render()), nil
	case opSearch:
		units, view, prog := a.subjectUnits(s)
		caps, err := find(prog, units, 0)
		if err != nil {
			return nil, err
		}
		if caps == nil {
			return one(regex.Num(-1).Render()), nil
		}
		b, u, _ := a.unitEnd(view, caps[0])
		if view == nil && a.dev.has("US") {
			b = len(utf8Of(s[:caps[0]]))
		}
		if a.dev.has("US") {
			return one(regex.Num(float64(b)).Render()), nil
		}
		return one(regex.Num(float64(u)).Render()), nil
	case opMatch:
		if !re.Global {
			m, idx, err := a.exec(s)
			if err != nil {
				return nil, err
			}
			return one(renderAltExec(s, m, idx)), nil
		}
		return a.variants(func(es6 bool) ([]string, error) {
			r, err := a.matchGlobal(s, es6)
			return []string{r}, err
		})
	case opReplaceT, opReplaceF:
		return a.variants(func(es6 bool) ([]string, error) { return a.replace(s, op.kind == opReplaceF, es6) })
	case opSplit:
		return a.split(s, op.limit)
	}
	return nil, fmt.Errorf("unknown op")
}

// variants evaluates an operation under both readings of the global iteration
// (ES5.1 literal / ES2015) from the same initial state and merges the results;
// the state after the operation must be the same in both.
func (a *altRegExp) variants(f func(es6 bool) ([]string, error)) ([]string, error) {
	var out []string
	saveLI, saveW := a.re.LastIndex, a.re.Writable
	var endLI regex.Val
	for i, es6 := range []bool{false, true} {
		a.re.LastIndex, a.re.Writable = saveLI, saveW
		rs, err := f(es6)
		if err != nil {
			if t, ok := thrown(err); ok {
				rs = []string{t}
			} else {
				return nil, err
			}
		}
		if i == 0 {
			endLI = a.re.LastIndex
		} else if endLI.Render() != a.re.LastIndex.Render() {
			return nil, fmt.Errorf("iteration readings disagree on lastIndex")
		}
		for _, r := range rs {
			dup := false
			for _, o := range out {
				if o == r {
					dup = true
				}
			}
			if !dup {
				out = append(out, r)
			}
		}
	}
	return out, nil
}

func (a *altRegExp) matchGlobal(s []uint16, es6 bool) (string, error) {
	re := a.re
	units, view, prog := a.subjectUnits(s)
	ms, err := a.allMatches(units, prog, es6)
	if err != nil {
		return "", err
	}
	// ES5: every path ends with an exec that fails and resets lastIndex with
	// [[Put]](.., true); a frozen lastIndex therefore always throws.
	if len(ms) == 0 {
		if err := re.PutLastIndex(regex.Num(0)); err != nil {
			return "", err
		}
		if a.dev.has("MU") {
			return "!u", nil
		}
		return "n", nil
	}
	end := 0.0
	if a.dev.has("ML") {
		b, u, _ := a.unitEnd(view, ms[len(ms)-1][1])
		end = float64(u)
		if a.dev.has("U") {
			end = float64(b)
		}
	}
	if err := re.PutLastIndex(regex.Num(end)); err != nil {
		return "", err
	}
	items := make([]regex.Val, len(ms))
	for i, m := range ms {
		items[i] = regex.Str(expand(units[m[0]:m[1]]))
	}
	return regex.RenderArray(items), nil
}

func (a *altRegExp) replace(s []uint16, isFunc, es6 bool) ([]string, error) {
	re := a.re
	units, view, prog := a.subjectUnits(s)
	var ms [][]int
	if re.Global {
		var err error
		ms, err = a.allMatches(units, prog, es6)
		if err != nil {
			return nil, err
		}
		if a.dev.has("RL") {
			if len(ms) > 0 {
				b, u, _ := a.unitEnd(view, ms[len(ms)-1][1])
				end := float64(u)
				if a.dev.has("U") {
					end = float64(b)
				}
				if err := re.PutLastIndex(regex.Num(end)); err != nil {
					return nil, err
				}
			}
		} else if err := re.PutLastIndex(regex.Num(0)); err != nil {
			return nil, err
		}
	} else {
		caps, err := find(prog, units, 0)
		if err != nil {
			return nil, err
		}
		if caps != nil {
			ms = [][]int{caps}
		}
	}
	pols := [][3]int{{0, 0, 0}}
	if !isFunc {
		pols = nil
		for n := 0; n < 2; n++ {
			for z := 0; z < 2; z++ {
				for nn := 0; nn < 3; nn++ {
					pols = append(pols, [3]int{n, z, nn})
				}
			}
		}
	}
	var outs []string
	tmpl := regex.Units(replaceTemplate)
	for _, pol := range pols {
		var out []uint16
		var calls strings.Builder
		last := 0
		for _, m := range ms {
			out = append(out, units[last:m[0]]...)
			mr := &regex.MatchResult{Caps: m}
			if isFunc {
				calls.WriteByte('(')
				for i := 0; i < len(m); i += 2 {
					if m[i] < 0 {
						calls.WriteString("u,")
					} else {
						calls.WriteString(regex.RenderUnits(expand(units[m[i]:m[i+1]])) + ",")
					}
				}
				_, u, cp := a.unitEnd(view, m[0])
				off := u
				if a.dev.has("UF") {
					off = cp
					if view == nil {
						off = utf8.RuneCountInString(regex.String16(s[:m[0]]))
					}
				}
				calls.WriteString(regex.Num(float64(off)).Render() + "," + regex.RenderUnits(s) + ")")
				out = append(out, '#')
			} else {
				out = append(out, regex.ExpandPolicy(tmpl, units, mr, pol[0], pol[1], pol[2])...)
			}
			last = m[1]
		}
		out = append(out, units[last:]...)
		o := regex.RenderUnits(expand(out))
		if isFunc {
			o += "~" + calls.String()
		}
		dup := false
		for _, x := range outs {
			if x == o {
				dup = true
			}
		}
		if !dup {
			outs = append(outs, o)
		}
	}
	return outs, nil
}

func (a *altRegExp) split(s []uint16, limit regex.Val) ([]string, error) {
	units, _, prog := a.subjectUnits(s)
	if a.dev.has("SE") && len(s) == 0 {
		lim := uint32(0xFFFFFFFF)
		if limit.K != 'u' {
			lim = regex.ToUint32(regex.ToNumber(limit))
		}
		if lim == 0 {
			return one(regex.RenderArray(nil)), nil
		}
		return one(regex.RenderArray([]regex.Val{regex.Str(nil)})), nil
	}
	items, err := regex.SplitUnits(prog, units, limit)
	if err != nil {
		return nil, err
	}
	for i := range items {
		if items[i].K == 's' {
			items[i] = regex.Str(expand(items[i].S))
		}
	}
	return one(regex.RenderArray(items)), nil
}

// ---- attribution ----------------------------------------------------------------

// minimalDev returns the smallest toggle set (ties broken by protoToggles
// order) under which the alternative model reproduces observed exactly.
func minimalDev(pat *regex.Pattern, flags string, st protoState, op protoOp, observed string) ([]string, bool) {
	n := len(protoToggles)
	for size := 1; size <= n; size++ {
		idx := make([]int, size)
		for i := range idx {
			idx[i] = i
		}
		for {
			d := &Dev{on: map[string]bool{}}
			for _, i := range idx {
				d.on[protoToggles[i]] = true
			}
			outs, err := modelApply(pat, flags, st, op, d)
			if err == nil {
				for _, o := range outs {
					if o == observed {
						names := make([]string, size)
						for j, i := range idx {
							names[j] = protoToggles[i]
						}
						return names, true
					}
				}
			}
			// next combination
			i := size - 1
			for i >= 0 && idx[i] == n-size+i {
				i--
			}
			if i < 0 {
				break
			}
			idx[i]++
			for j := i + 1; j < size; j++ {
				idx[j] = idx[j-1] + 1
			}
		}
	}
	return nil, false
}
