package c10

// Family "argkinds": the argument KINDS of the String-side entry points against
// the coercion rules of ES5:
//
//	match(regexp), search(regexp)   15.5.4.10 / 15.5.4.12: a RegExp object is used as is, anything else
//	                                goes through new RegExp(regexp) — 15.10.4.1: pattern undefined -> "",
//	                                otherwise ToString(pattern), which must then be a valid pattern.
//	replace(searchValue, rv)        15.5.4.11: not a RegExp -> searchString = ToString(searchValue) searched
//	                                LITERALLY (first occurrence); undefined -> "undefined".
//	split(separator, limit)         15.5.4.14: undefined -> [S]; RegExp -> regexp split; otherwise
//	                                R = ToString(separator) as a literal string.
//
// Kinds: absent, undefined, null, number, boolean, strings with metacharacters,
// RegExp (with and without g), object with toString, arrays. Subjects contain
// "undefined", "null", "1", "true" as text, so that a wrong coercion is visible.

import (
	"fmt"
	"strings"

	"github.com/robertkrimen/otto"

	"verif/mc/engine"
	"verif/mc/ox"
	"verif/mc/ref/regex"
)

type argKind struct {
	name  string
	js    string // JS source of the argument ("" = argument absent)
	str   string // ToString(argument) when it is not a RegExp and not undefined
	undef bool   // absent or undefined
	re    string // RegExp pattern when the argument is a RegExp object
	flags string
}

var argKinds = []argKind{
	{name: "absent", js: "", undef: true},
	{name: "undefined", js: "undefined", undef: true},
	{name: "null", js: "null", str: "null"},
	{name: "number", js: "1", str: "1"},
	{name: "boolean", js: "true", str: "true"},
	{name: "str-plain", js: `"b"`, str: "b"},
	{name: "str-dot", js: `"a.c"`, str: "a.c"},
	{name: "str-star", js: `"b*"`, str: "b*"},
	{name: "str-paren", js: `"("`, str: "("},
	{name: "str-undefined", js: `"undefined"`, str: "undefined"},
	{name: "regexp", js: "/b/", re: "b"},
	{name: "regexp-g", js: "/b/g", re: "b", flags: "g"},
	{name: "regexp-dot", js: "/a.c/", re: "a.c"},
	{name: "object", js: `({toString: function(){ return "b"; }})`, str: "b"},
	{name: "array1", js: `["b"]`, str: "b"},
	{name: "array2", js: `["a", "b"]`, str: "a,b"},
}

var argSubjects = []string{"abc", "xundefinedy", "xnully", "a1b", "atrueb", "a.c", "abcb*", "a,b", "(", ""}

// stringSplit is 15.5.4.14 with a string separator R (SplitMatcher compares literally).
func stringSplit(s, r []uint16, limit regex.Val) []regex.Val {
	lim := uint32(0xFFFFFFFF)
	if limit.K != 'u' {
		lim = regex.ToUint32(regex.ToNumber(limit))
	}
	var a []regex.Val
	if lim == 0 {
		return a
	}
	matchAt := func(q int) (int, bool) {
		if q+len(r) > len(s) {
			return 0, false
		}
		for i := range r {
			if s[q+i] != r[i] {
				return 0, false
			}
		}
		return q + len(r), true
	}
	if len(s) == 0 {
		if _, ok := matchAt(0); ok {
			return a
		}
		return []regex.Val{regex.Str(s)}
	}
	p, q := 0, 0
	for q < len(s) {
		e, ok := matchAt(q)
		if !ok || e == p {
			q++
			continue
		}
		a = append(a, regex.Str(s[p:q]))
		if uint32(len(a)) == lim {
			return a
		}
		p = e
		q = p
	}
	return append(a, regex.Str(s[p:]))
}

const argTemplate = "[$&|$`|$']"

// argExpected returns the acceptable observations of op(subject, kind).
func argExpected(op string, k argKind, subject string) ([]string, error) {
	s := regex.Units(subject)
	one := func(x string, err error) ([]string, error) {
		if err != nil {
			if t, ok := thrown(err); ok {
				return []string{t}, nil
			}
			return nil, err
		}
		return []string{x}, nil
	}
	mkRe := func() (*regex.RegExp, bool) {
		pattern, flags := k.str, ""
		if k.re != "" {
			pattern, flags = k.re, k.flags
		} else if k.undef {
			pattern = "" // 15.10.4.1: pattern undefined -> the empty String
		}
		pat := regex.ClassifyString(pattern)
		if pat.Class != regex.Portable {
			return nil, false
		}
		return regex.NewRegExp(pat, flags), true
	}
	switch op {
	case "match", "search":
		re, ok := mkRe()
		if !ok {
			return []string{"reject"}, nil
		}
		if op == "search" {
			return one(re.StringSearch(s))
		}
		return re.StringMatch(s)
	case "replace":
		if k.re != "" {
			re, _ := mkRe()
			return re.StringReplace(s, regex.Replacement{Template: regex.Units(argTemplate)})
		}
		needle := regex.Units(k.str)
		if k.undef {
			needle = regex.Units("undefined")
		}
		idx := -1
		for i := 0; i+len(needle) <= len(s) && idx < 0; i++ {
			if regex.RenderUnits(s[i:i+len(needle)]) == regex.RenderUnits(needle) {
				idx = i
			}
		}
		if idx < 0 {
			return []string{regex.RenderUnits(s)}, nil
		}
		m := &regex.MatchResult{Caps: []int{idx, idx + len(needle)}}
		out := append(append([]uint16(nil), s[:idx]...), regex.ExpandPolicy(regex.Units(argTemplate), s, m, 0, 0, 0)...)
		return []string{regex.RenderUnits(append(out, s[idx+len(needle):]...))}, nil
	case "split", "split2":
		limit := regex.Undefined()
		if op == "split2" {
			limit = regex.Num(2)
		}
		if k.re != "" {
			re, _ := mkRe()
			return one(re.StringSplit(s, limit))
		}
		if k.undef {
			return []string{regex.RenderArray([]regex.Val{regex.Str(s)})}, nil
		}
		return []string{regex.RenderArray(stringSplit(s, regex.Units(k.str), limit))}, nil
	}
	return nil, fmt.Errorf("unknown op")
}

func argJS(op string, k argKind, subject string) string {
	recv := jsStringLiteral(subject)
	arg := k.js
	switch op {
	case "match":
		return fmt.Sprintf(`(function(){ var a = %s; var m = %s.match(%s); return (a instanceof RegExp && a.global) ? __L(m) : __A(m); })()`, orUndef(arg), recv, arg)
	case "search":
		return fmt.Sprintf(`__S(%s.search(%s))`, recv, arg)
	case "replace":
		if arg == "" {
			return fmt.Sprintf(`__S(%s.replace())`, recv) // replaceValue absent as well: "undefined" as text
		}
		return fmt.Sprintf(`__S(%s.replace(%s, %s))`, recv, arg, jsStringLiteral(argTemplate))
	case "split":
		return fmt.Sprintf(`__L(%s.split(%s))`, recv, arg)
	case "split2":
		if arg == "" {
			arg = "undefined"
		}
		return fmt.Sprintf(`__L(%s.split(%s, 2))`, recv, arg)
	}
	return ""
}

func orUndef(s string) string {
	if s == "" {
		return "undefined"
	}
	return s
}

func runArgKinds(r *engine.Run) {
	vm := otto.New()
	if res := ox.Run(vm, prelude); res.Err != nil || res.Panicked {
		r.HarnessError("prelude failed")
		return
	}
	n := 0
	for _, op := range []string{"match", "search", "replace", "split", "split2"} {
		for _, k := range argKinds {
			for _, subj := range argSubjects {
				key := op + "/" + k.name + "/" + subj
				n++
				if !r.MineKey(key) {
					continue
				}
				if op == "replace" && k.js == "" {
					// "x".replace(): searchValue "undefined", replaceValue "undefined"
					continue
				}
				src := "(function(){ try { return " + argJS(op, k, subj) + "; } catch (e) { return __E(e); } })()"
				r.Begin(key)
				obs, ok := observe(vm, src)
				r.End()
				if ok && (obs == "throw:SyntaxError" || obs == "throw:TypeError") {
					obs = "reject"
				}
				want, err := argExpected(op, k, subj)
				if err != nil {
					r.Skip()
					continue
				}
				r.Eval(!(obs == "n" || obs == "d:-1" || obs == regex.RenderUnits(regex.Units(subj))))
				r.Outcome(obs)
				if r.WantSample() && k.undef {
					r.Sample(src + " => " + obs)
				}
				hit := false
				for _, w := range want {
					if w == obs {
						hit = true
					}
				}
				if !hit {
					m := engine.Mismatch{Key: key, Input: src, Expected: strings.Join(want, "  OR  "), Observed: obs}
					trace(r.Family(), &m)
					r.Mismatch(m)
				}
			}
		}
	}
	r.Bound("table", fmt.Sprintf("%d cases: {match, search, replace, split, split with limit 2} x %d argument kinds x %d subjects", n, len(argKinds), len(argSubjects)))
}
