package c10

import (
	"fmt"
	"sort"
	"strconv"
	"strings"

	"verif/mc/engine"
	"verif/mc/ref/regex"
)

// chainLine renders the exec chain of one subject for a RegExp model whose
// search loop may have been replaced by an alternative finder.
func chainLine(re *regex.RegExp, s []uint16) (string, error) {
	re.LastIndex = regex.Num(0)
	var sb strings.Builder
	for n := 0; ; n++ {
		m, err := re.ExecRaw(s)
		if err != nil {
			return "", err
		}
		if n > 0 {
			sb.WriteByte(';')
		}
		sb.WriteString(regex.RenderExec(s, m))
		sb.WriteByte('@')
		sb.WriteString(re.LastIndex.Render())
		if !(re.Global && m != nil && n+1 < 8) {
			break
		}
	}
	return sb.String(), nil
}

// subjSpec identifies a subject list: the first n entries of SubjectsExt(maxLen).
type subjSpec struct{ maxLen, n int }

func parseSubjSpec(s string) subjSpec {
	var sp subjSpec
	fmt.Sscanf(s, "%d:%d", &sp.maxLen, &sp.n)
	return sp
}

var subjectCache = map[int][][]uint16{}

func subjectPrefix(sp subjSpec) [][]uint16 {
	l := subjectCache[sp.maxLen]
	if l == nil {
		if sp.maxLen == litscanSubjectsID {
			l = litscanSubjects()
		} else {
			l = SubjectsExt(sp.maxLen)
		}
		subjectCache[sp.maxLen] = l
	}
	n := sp.n
	if n > len(l) {
		n = len(l)
	}
	return l[:n]
}

// explainMatchDiff decides, for a "match-differs" case, which deviations explain
// EVERY differing subject line exactly. It returns nil when some line is not
// reproduced by any alternative model. Deviations of the matcher itself:
//
//	LD  '.' excludes only \n              LA  multiline ^ $ look only for \n
//	CF  ignoreCase by Unicode simple case folding (long s, Kelvin sign reach s, k)
//	S   subject sliced at lastIndex       R   RE2 leftmost-first semantics
//
// Alternatives are tried smallest first; the spec matcher with toggles before
// the RE2 engine (which has LA and CF built in).
func explainMatchDiff(pattern, flags string, nsubs subjSpec, observed string) []string {
	pat := regex.ClassifyString(pattern)
	if pat.Class != regex.Portable && pat.Class != regex.Lenient {
		return nil
	}
	subs := subjectPrefix(nsubs)
	obsLines := strings.Split(observed, "\n")
	if len(obsLines) != len(subs) {
		return nil
	}
	ic, ml, global := strings.Contains(flags, "i"), strings.Contains(flags, "m"), strings.Contains(flags, "g")
	spec := regex.NewRegExp(pat, flags)
	type alt struct {
		name string
		re   *regex.RegExp
	}
	var alts []alt
	// relevant toggles of the spec matcher
	var toggles []string
	if hasKind(pat.Root, regex.KDot) {
		toggles = append(toggles, "LD")
	}
	if ml && (hasKind(pat.Root, regex.KBol) || hasKind(pat.Root, regex.KEol)) {
		toggles = append(toggles, "LA")
	}
	if ic {
		toggles = append(toggles, "CF")
	}
	if contextSensitive(pat.Root) && global {
		toggles = append(toggles, "S")
	}
	for size := 1; size <= len(toggles); size++ {
		for mask := 1; mask < 1<<len(toggles); mask++ {
			var names []string
			on := map[string]bool{}
			for i, t := range toggles {
				if mask&(1<<i) != 0 {
					names = append(names, t)
					on[t] = true
				}
			}
			if len(names) != size {
				continue
			}
			r := regex.NewRegExp(pat, flags)
			r.Prog = regex.CompileAlt(pat, ic, ml, regex.AltOptions{DotNewlineOnly: on["LD"], AnchorNewlineOnly: on["LA"], UnicodeFold: on["CF"]})
			f := specFinder(r)
			if on["S"] {
				f = sliced(f)
			}
			r.Find = f
			alts = append(alts, alt{strings.Join(names, "+"), r})
		}
	}
	if re2Sensitive(pat.Root) {
		mk := func(name string, find func(s []uint16, from int) (*regex.MatchResult, error)) {
			r := regex.NewRegExp(pat, flags)
			r.Find = find
			alts = append(alts, alt{name, r})
		}
		ctx := contextSensitive(pat.Root) && global
		if eng, err := newRE2Engine(pat, ic, ml, false); err == nil {
			mk("R", eng.find)
			if ctx {
				mk("R+S", sliced(eng.find))
			}
		}
		if hasKind(pat.Root, regex.KDot) {
			if eng, err := newRE2Engine(pat, ic, ml, true); err == nil {
				mk("R+LD", eng.find)
				if ctx {
					mk("R+LD+S", sliced(eng.find))
				}
			}
		}
	}
	used := map[string]bool{}
	ndiff := 0
	for i, s := range subs {
		if global && !isASCII(s) {
			if obsLines[i] != skippedLine {
				return nil
			}
			continue
		}
		want, err := chainLine(spec, s)
		if err != nil {
			return nil
		}
		if want == obsLines[i] {
			continue
		}
		ndiff++
		found := false
		for _, a := range alts {
			l, err := chainLine(a.re, s)
			if err == nil && l == obsLines[i] {
				for _, d := range strings.Split(a.name, "+") {
					used[d] = true
				}
				found = true
				break
			}
		}
		if !found {
			return nil
		}
	}
	if ndiff == 0 {
		return nil
	}
	var out []string
	for d := range used {
		out = append(out, d)
	}
	sort.Strings(out)
	return out
}

func hasKind(n *regex.Node, k regex.Kind) bool {
	if n.Kind == k {
		return true
	}
	for _, c := range n.Kids {
		if hasKind(c, k) {
			return true
		}
	}
	return false
}

// bareControlRewrite models defect B: TransformRegExp turns "\c" that is not
// followed by a control letter into a plain "c" (the backslash is dropped). It
// returns the pattern as otto effectively reads it, and whether it changed.
func bareControlRewrite(pattern string) (string, bool) {
	var sb strings.Builder
	changed := false
	for i := 0; i < len(pattern); i++ {
		c := pattern[i]
		if c != '\\' || i+1 >= len(pattern) {
			sb.WriteByte(c)
			continue
		}
		n := pattern[i+1]
		if n == 'c' && !(i+2 < len(pattern) && (pattern[i+2] >= 'a' && pattern[i+2] <= 'z' || pattern[i+2] >= 'A' && pattern[i+2] <= 'Z')) {
			sb.WriteByte('c')
			changed = true
			i++
			continue
		}
		sb.WriteByte(c)
		sb.WriteByte(n)
		i++
	}
	return sb.String(), changed
}

// emptyClassRewrite models defect A: "[]" and "[^]" are passed to RE2 verbatim,
// where a "]" directly after "[" or "[^" is the first member of the class.
func emptyClassRewrite(pattern string) (string, bool) {
	var sb strings.Builder
	changed := false
	inClass := false
	for i := 0; i < len(pattern); i++ {
		c := pattern[i]
		switch {
		case c == '\\' && i+1 < len(pattern):
			sb.WriteByte(c)
			sb.WriteByte(pattern[i+1])
			i++
		case inClass:
			if c == ']' {
				inClass = false
			}
			sb.WriteByte(c)
		case c == '[':
			sb.WriteByte(c)
			inClass = true
			j := i + 1
			if j < len(pattern) && pattern[j] == '^' {
				sb.WriteByte('^')
				j++
			}
			if j < len(pattern) && pattern[j] == ']' {
				sb.WriteString("\\]")
				changed = true
				j++
			}
			i = j - 1
		default:
			sb.WriteByte(c)
		}
	}
	return sb.String(), changed
}

// emptyFlagGroupRewrite models defect C: "(?)" reaches RE2, where it is an empty
// flag group: it is not an operand, so the pattern reads as if "(?)" were not there
// (a following quantifier applies to whatever precedes it).
func emptyFlagGroupRewrite(pattern string) (string, bool) {
	var sb strings.Builder
	changed := false
	inClass := false
	for i := 0; i < len(pattern); i++ {
		c := pattern[i]
		switch {
		case c == '\\' && i+1 < len(pattern):
			sb.WriteByte(c)
			sb.WriteByte(pattern[i+1])
			i++
		case inClass:
			if c == ']' {
				inClass = false
			}
			sb.WriteByte(c)
		case c == '[':
			inClass = true
			sb.WriteByte(c)
		case c == '(' && strings.HasPrefix(pattern[i:], "(?)"):
			changed = true
			i += 2
		default:
			sb.WriteByte(c)
		}
	}
	return sb.String(), changed
}

// posixClassRewrite models defect PX: inside a character class RE2 reads
// "[:alpha:]" / "[:digit:]" as POSIX classes (JavaScript: the characters [ : a l p h ...).
func posixClassRewrite(pattern string) (string, bool) {
	var sb strings.Builder
	changed := false
	inClass := false
	for i := 0; i < len(pattern); i++ {
		c := pattern[i]
		switch {
		case c == '\\' && i+1 < len(pattern):
			sb.WriteByte(c)
			sb.WriteByte(pattern[i+1])
			i++
		case inClass && strings.HasPrefix(pattern[i:], "[:alpha:]"):
			sb.WriteString("a-zA-Z")
			changed = true
			i += len("[:alpha:]") - 1
		case inClass && strings.HasPrefix(pattern[i:], "[:digit:]"):
			sb.WriteString("0-9")
			changed = true
			i += len("[:digit:]") - 1
		case inClass:
			if c == ']' {
				inClass = false
			}
			sb.WriteByte(c)
		case c == '[':
			inClass = true
			sb.WriteByte(c)
			if i+1 < len(pattern) && pattern[i+1] == '^' {
				sb.WriteByte('^')
				i++
			}
		default:
			sb.WriteByte(c)
		}
	}
	return sb.String(), changed
}

// longOctalRewrite models defect OC: TransformRegExp reads EVERY following octal
// digit into one number and emits \x + hex of it; RE2 then takes two hex digits
// and the rest literally. (B.1.4: at most three digits and at most 0377.)
func longOctalRewrite(pattern string) (string, bool) {
	var sb strings.Builder
	changed := false
	for i := 0; i < len(pattern); i++ {
		c := pattern[i]
		if c != '\\' || i+1 >= len(pattern) {
			sb.WriteByte(c)
			continue
		}
		j := i + 1
		v := 0
		for j < len(pattern) && pattern[j] >= '0' && pattern[j] <= '7' {
			v = v*8 + int(pattern[j]-'0')
			j++
		}
		n := j - (i + 1)
		if n >= 2 && (n > 3 || v > 0377) {
			h := fmt.Sprintf("%02x", v)
			sb.WriteString("\\x" + h[:2] + h[2:])
			changed = true
			i = j - 1
			continue
		}
		sb.WriteByte(c)
		sb.WriteByte(pattern[i+1])
		i++
	}
	return sb.String(), changed
}

// backrefOctalRewrite models defect BR: a decimal escape of two or more digits
// whose value is a legal back-reference (<= number of capturing groups) is read
// as an octal escape (\10 -> \x08) instead of being rejected as unsupported.
func backrefOctalRewrite(pattern string) (string, bool) {
	ncap := 0
	inClass := false
	for i := 0; i < len(pattern); i++ {
		switch c := pattern[i]; {
		case c == '\\':
			i++
		case inClass:
			inClass = c != ']'
		case c == '[':
			inClass = true
		case c == '(' && !(i+1 < len(pattern) && pattern[i+1] == '?'):
			ncap++
		}
	}
	var sb strings.Builder
	changed := false
	for i := 0; i < len(pattern); i++ {
		c := pattern[i]
		if c != '\\' || i+1 >= len(pattern) {
			sb.WriteByte(c)
			continue
		}
		j := i + 1
		dec := 0
		for j < len(pattern) && pattern[j] >= '0' && pattern[j] <= '9' {
			dec = dec*10 + int(pattern[j]-'0')
			j++
		}
		if j-(i+1) >= 2 && pattern[i+1] >= '1' && pattern[i+1] <= '7' && pattern[i+2] <= '7' && dec <= ncap {
			// otto: up to three octal digits, value <= 0377
			k, v := i+1, 0
			for k < j && k < i+4 && pattern[k] <= '7' && v*8+int(pattern[k]-'0') <= 0377 {
				v = v*8 + int(pattern[k]-'0')
				k++
			}
			fmt.Fprintf(&sb, "\\x%02x", v)
			sb.WriteString(pattern[k:j])
			changed = true
			i = j - 1
			continue
		}
		sb.WriteByte(c)
		sb.WriteByte(pattern[i+1])
		i++
	}
	return sb.String(), changed
}

// hasNonASCIIIdentityEscape: a backslash followed by a non-ASCII character (defect IE).
func hasNonASCIIIdentityEscape(pattern string) bool {
	for i := 0; i+1 < len(pattern); i++ {
		if pattern[i] == '\\' {
			if pattern[i+1] >= 0x80 {
				return true
			}
			i++
		}
	}
	return false
}

func hasHugeRepeat(n *regex.Node) bool {
	if n.Kind == regex.KQuant && (n.Min > 1000 || n.Max > 1000) {
		return true
	}
	for _, k := range n.Kids {
		if hasHugeRepeat(k) {
			return true
		}
	}
	return false
}

var rewrites = []struct {
	name string
	f    func(string) (string, bool)
}{{"A", emptyClassRewrite}, {"C", emptyFlagGroupRewrite}, {"PX", posixClassRewrite}, {"OC", longOctalRewrite}, {"BR", backrefOctalRewrite}, {"B", bareControlRewrite}}

// Deviation names, in attribution priority (repairable defects first, so that a
// regression of a repaired defect is never hidden behind an architectural one).
var devPriority = []string{"Q", "A", "C", "PX", "OC", "BR", "IE", "B", "RC", "LD", "LA", "CF", "S", "R"}

// explainCase returns the set of deviations that together reproduce the
// observation exactly, or ok=false when no combination does. An empty set with
// ok=true means the observation agrees with the model.
func explainCase(pattern, flags string, nsubs subjSpec, rejected bool, observed string, depth int) (devs []string, ok bool) {
	pat := regex.ClassifyString(pattern)
	subs := subjectPrefix(nsubs)
	var lines []string
	if !rejected {
		lines = strings.Split(observed, "\n")
		if len(lines) != len(subs) {
			return nil, false
		}
	}
	verdict, _, _ := judgeCase(pat, flags, rejected, lines, subs, nil)
	switch verdict {
	case "":
		return nil, true
	case "match-differs":
		if d := explainMatchDiff(pattern, flags, nsubs, observed); d != nil {
			return d, true
		}
	case "rejected-valid":
		// RE2 refuses repeat counts above 1000
		if pat.Root != nil && hasHugeRepeat(pat.Root) {
			return []string{"RC"}, true
		}
		// re2 refuses a backslash before a non-ASCII character
		if hasNonASCIIIdentityEscape(pattern) {
			return []string{"IE"}, true
		}
	case "accepted-invalid":
		if pat.Class == regex.Malformed {
			if p, err := regex.ParseQuantifiedAssertions(regex.Units(pattern)); err == nil && !p.HasLook && !p.HasBack && hasQuantifiedAssertion(p.Root) {
				return []string{"Q"}, true
			}
		}
	}
	if depth == 0 {
		all, names := pattern, []string(nil)
		for _, rw := range rewrites {
			if p2, changed := rw.f(pattern); changed {
				if d, ok := explainCase(p2, flags, nsubs, rejected, observed, 1); ok {
					return append([]string{rw.name}, d...), true
				}
			}
			if p3, changed := rw.f(all); changed {
				all, names = p3, append(names, rw.name)
			}
		}
		if len(names) > 1 {
			if d, ok := explainCase(all, flags, nsubs, rejected, observed, 1); ok {
				return append(names, d...), true
			}
		}
	}
	return nil, false
}

var explainCache struct {
	key  string
	devs []string
	ok   bool
}

// firstDev returns the highest-priority deviation explaining the mismatch ("" = unexplained).
func firstDev(m *engine.Mismatch) string {
	if m.Aux == nil || m.Aux["verdict"] == "" {
		return ""
	}
	key := m.Aux["form"] + "\x00" + m.Aux["flags"] + "\x00" + m.Aux["pattern"] + "\x00" + m.Aux["nsubs"] + "\x00" + m.Aux["rejected"] + "\x00" + m.Aux["observed"]
	if explainCache.key != key {
		d, ok := explainCase(m.Aux["pattern"], m.Aux["flags"], parseSubjSpec(m.Aux["nsubs"]), m.Aux["rejected"] == "true", m.Aux["observed"], 0)
		explainCache.key, explainCache.devs, explainCache.ok = key, d, ok
	}
	if !explainCache.ok || len(explainCache.devs) == 0 {
		return ""
	}
	for _, p := range devPriority {
		for _, d := range explainCache.devs {
			if d == p {
				return p
			}
		}
	}
	return ""
}

var sigs = map[string]engine.Signature{}
var sigOrder []string

func register(name string, f engine.Signature) {
	sigs[name] = f
	sigOrder = append(sigOrder, name)
	engine.RegisterSignature(name, f)
}

func init() {
	// ^ $ \b \B followed by a quantifier is accepted (malformed in ES5 and in the
	// web grammar); nothing else is wrong with the pattern.
	register("c10-quantified-assertion", func(m *engine.Mismatch) bool { return firstDev(m) == "Q" })
	// "[]" / "[^]": observation equals the model's verdict for the pattern with
	// the "]" after "[" / "[^" read as a class member.
	register("c10-empty-class", func(m *engine.Mismatch) bool { return firstDev(m) == "A" })
	// "(?)": observation equals the model's verdict for the pattern with "(?)" removed (RE2 flag group, not an operand).
	register("c10-empty-flag-group", func(m *engine.Mismatch) bool { return firstDev(m) == "C" })
	// "\c" not followed by a control letter is read as a plain "c": the
	// observation equals the model's verdict for the pattern with that backslash
	// removed (possibly combined with a lower-priority deviation).
	register("c10-bare-control-escape", func(m *engine.Mismatch) bool { return firstDev(m) == "B" })
	// exec on a global expression with lastIndex > 0 matches against the suffix
	// s[lastIndex:]; every differing subject line equals the spec chain run on
	// the sliced subject (possibly combined with RE2 semantics when the pattern
	// is also in that class).
	register("c10-posix-class", func(m *engine.Mismatch) bool { return firstDev(m) == "PX" })
	register("c10-long-octal-escape", func(m *engine.Mismatch) bool { return firstDev(m) == "OC" })
	register("c10-backreference-as-octal", func(m *engine.Mismatch) bool { return firstDev(m) == "BR" })
	register("c10-non-ascii-identity-escape", func(m *engine.Mismatch) bool { return firstDev(m) == "IE" })
	register("c10-repeat-count-limit", func(m *engine.Mismatch) bool { return firstDev(m) == "RC" })
	register("c10-dot-line-terminators", func(m *engine.Mismatch) bool { return firstDev(m) == "LD" })
	register("c10-multiline-line-terminators", func(m *engine.Mismatch) bool { return firstDev(m) == "LA" })
	register("c10-unicode-case-folding", func(m *engine.Mismatch) bool { return firstDev(m) == "CF" })
	register("c10-sliced-subject", func(m *engine.Mismatch) bool { return firstDev(m) == "S" })
	// RE2 leftmost-first semantics on patterns with a quantified nullable body or
	// a capture inside a repeatable quantified body; every differing line equals
	// Go's regexp result on an independent translation of the pattern.
	register("c10-re2-semantics", func(m *engine.Mismatch) bool { return firstDev(m) == "R" })
}

// ---- protocol family ------------------------------------------------------------

var protoCache struct {
	key  string
	devs []string
	ok   bool
}

// protoDevs recomputes, from the data carried by the mismatch, the minimal
// toggle set of the alternative protocol model that reproduces the observation.
func protoDevs(m *engine.Mismatch) ([]string, bool) {
	if m.Aux == nil || m.Aux["proto"] != "1" {
		return nil, false
	}
	key := m.Aux["pattern"] + "\x00" + m.Aux["flags"] + "\x00" + m.Aux["state"] + "\x00" + m.Aux["op"] + "\x00" + m.Aux["tier"] + "\x00" + m.Aux["observed"]
	if protoCache.key == key {
		return protoCache.devs, protoCache.ok
	}
	protoCache.key, protoCache.devs, protoCache.ok = key, nil, false
	ops := protoOps(m.Aux["tier"] == "thorough")
	i, err := strconv.Atoi(m.Aux["op"])
	if err != nil || i < 0 || i >= len(ops) {
		return nil, false
	}
	st := m.Aux["state"]
	j := strings.LastIndexByte(st, '|')
	if j < 0 {
		return nil, false
	}
	pat := regex.ClassifyString(m.Aux["pattern"])
	if pat.Class != regex.Portable {
		return nil, false
	}
	devs, ok := minimalDev(pat, m.Aux["flags"], protoState{li: st[:j], writable: st[j+1:] == "W"}, ops[i], m.Aux["observed"])
	protoCache.devs, protoCache.ok = devs, ok
	return devs, ok
}

func protoFirst(m *engine.Mismatch) string {
	devs, ok := protoDevs(m)
	if !ok || len(devs) == 0 {
		return ""
	}
	return devs[0] // minimalDev lists toggles in protoToggles (priority) order
}

func init() {
	for _, t := range []struct{ sig, toggle string }{
		{"c10-match-global-undefined", "MU"},
		{"c10-match-global-lastindex", "ML"},
		{"c10-replace-global-lastindex", "RL"},
		{"c10-split-empty-subject", "SE"},
		{"c10-search-byte-offset", "US"},
		{"c10-replacer-codepoint-offset", "UF"},
		{"c10-findall-abutting-empty", "AB"},
		{"c10-proto-sliced-subject", "S"},
		{"c10-byte-lastindex", "U"},
	} {
		toggle := t.toggle
		register(t.sig, func(m *engine.Mismatch) bool { return protoFirst(m) == toggle })
	}
}
