package c10

import (
	"sort"
	"strconv"
	"strings"

	"verif/mc/engine"
	"verif/mc/ref/regex"
)

// chainLine renders the exec chain of one subject for a RegExp model whose
// search loop may have been replaced by an alternative finder.
func chainLine(re *regex.RegExp, s []uint16) (string, error) {
	re.LastIndex = regex.Num(0)
	var sb strings.Builder
	for n := 0; ; n++ {
		m, err := re.ExecRaw(s)
		if err != nil {
			return "", err
		}
		if n > 0 {
			sb.WriteByte(';')
		}
		sb.WriteString(regex.RenderExec(s, m))
		sb.WriteByte('@')
		sb.WriteString(re.LastIndex.Render())
		if !(re.Global && m != nil && n+1 < 8) {
			break
		}
	}
	return sb.String(), nil
}

var allSubjects [][]uint16

func subjectPrefix(n int) [][]uint16 {
	if allSubjects == nil {
		allSubjects = Subjects(4)
	}
	if n > len(allSubjects) {
		n = len(allSubjects)
	}
	return allSubjects[:n]
}

// explainMatchDiff decides, for a "match-differs" case, which deviations
// (subset of {"R","S"}) explain EVERY differing subject line exactly. It
// returns nil when some line is not reproduced by any alternative model.
func explainMatchDiff(pattern, flags string, nsubs int, observed string) []string {
	pat := regex.ClassifyString(pattern)
	if pat.Class != regex.Portable && pat.Class != regex.Lenient {
		return nil
	}
	subs := subjectPrefix(nsubs)
	obsLines := strings.Split(observed, "\n")
	if len(obsLines) != len(subs) {
		return nil
	}
	ic, ml, global := strings.Contains(flags, "i"), strings.Contains(flags, "m"), strings.Contains(flags, "g")
	spec := regex.NewRegExp(pat, flags)
	var eng *re2Engine
	if re2Sensitive(pat.Root) {
		eng, _ = newRE2Engine(pat, ic, ml)
	}
	ctx := contextSensitive(pat.Root) && global
	type alt struct {
		name string
		re   *regex.RegExp
	}
	var alts []alt
	mk := func(find func(s []uint16, from int) (*regex.MatchResult, error)) *regex.RegExp {
		r := regex.NewRegExp(pat, flags)
		r.Find = find
		return r
	}
	if ctx {
		alts = append(alts, alt{"S", mk(sliced(specFinder(spec)))})
	}
	if eng != nil {
		alts = append(alts, alt{"R", mk(eng.find)})
		if ctx {
			alts = append(alts, alt{"R+S", mk(sliced(eng.find))})
		}
	}
	used := map[string]bool{}
	ndiff := 0
	for i, s := range subs {
		want, err := chainLine(spec, s)
		if err != nil {
			return nil
		}
		if want == obsLines[i] {
			continue
		}
		ndiff++
		found := false
		for _, a := range alts {
			l, err := chainLine(a.re, s)
			if err == nil && l == obsLines[i] {
				for _, d := range strings.Split(a.name, "+") {
					used[d] = true
				}
				found = true
				break
			}
		}
		if !found {
			return nil
		}
	}
	if ndiff == 0 {
		return nil
	}
	var out []string
	for d := range used {
		out = append(out, d)
	}
	sort.Strings(out)
	return out
}

// bareControlRewrite models defect B: TransformRegExp turns "\c" that is not
// followed by a control letter into a plain "c" (the backslash is dropped). It
// returns the pattern as otto effectively reads it, and whether it changed.
func bareControlRewrite(pattern string) (string, bool) {
	var sb strings.Builder
	changed := false
	for i := 0; i < len(pattern); i++ {
		c := pattern[i]
		if c != '\\' || i+1 >= len(pattern) {
			sb.WriteByte(c)
			continue
		}
		n := pattern[i+1]
		if n == 'c' && !(i+2 < len(pattern) && (pattern[i+2] >= 'a' && pattern[i+2] <= 'z' || pattern[i+2] >= 'A' && pattern[i+2] <= 'Z')) {
			sb.WriteByte('c')
			changed = true
			i++
			continue
		}
		sb.WriteByte(c)
		sb.WriteByte(n)
		i++
	}
	return sb.String(), changed
}

// emptyClassRewrite models defect A: "[]" and "[^]" are passed to RE2 verbatim,
// where a "]" directly after "[" or "[^" is the first member of the class.
func emptyClassRewrite(pattern string) (string, bool) {
	var sb strings.Builder
	changed := false
	inClass := false
	for i := 0; i < len(pattern); i++ {
		c := pattern[i]
		switch {
		case c == '\\' && i+1 < len(pattern):
			sb.WriteByte(c)
			sb.WriteByte(pattern[i+1])
			i++
		case inClass:
			if c == ']' {
				inClass = false
			}
			sb.WriteByte(c)
		case c == '[':
			sb.WriteByte(c)
			inClass = true
			j := i + 1
			if j < len(pattern) && pattern[j] == '^' {
				sb.WriteByte('^')
				j++
			}
			if j < len(pattern) && pattern[j] == ']' {
				sb.WriteString("\\]")
				changed = true
				j++
			}
			i = j - 1
		default:
			sb.WriteByte(c)
		}
	}
	return sb.String(), changed
}

// emptyFlagGroupRewrite models defect C: "(?)" reaches RE2, where it is an empty
// flag group: it is not an operand, so the pattern reads as if "(?)" were not there
// (a following quantifier applies to whatever precedes it).
func emptyFlagGroupRewrite(pattern string) (string, bool) {
	var sb strings.Builder
	changed := false
	inClass := false
	for i := 0; i < len(pattern); i++ {
		c := pattern[i]
		switch {
		case c == '\\' && i+1 < len(pattern):
			sb.WriteByte(c)
			sb.WriteByte(pattern[i+1])
			i++
		case inClass:
			if c == ']' {
				inClass = false
			}
			sb.WriteByte(c)
		case c == '[':
			inClass = true
			sb.WriteByte(c)
		case c == '(' && strings.HasPrefix(pattern[i:], "(?)"):
			changed = true
			i += 2
		default:
			sb.WriteByte(c)
		}
	}
	return sb.String(), changed
}

var rewrites = []struct {
	name string
	f    func(string) (string, bool)
}{{"A", emptyClassRewrite}, {"C", emptyFlagGroupRewrite}, {"B", bareControlRewrite}}

// Deviation names, in attribution priority (repairable defects first, so that a
// regression of a repaired defect is never hidden behind an architectural one).
var devPriority = []string{"Q", "A", "C", "B", "S", "R"}

// explainCase returns the set of deviations that together reproduce the
// observation exactly, or ok=false when no combination does. An empty set with
// ok=true means the observation agrees with the model.
func explainCase(pattern, flags string, nsubs int, rejected bool, observed string, depth int) (devs []string, ok bool) {
	pat := regex.ClassifyString(pattern)
	subs := subjectPrefix(nsubs)
	var lines []string
	if !rejected {
		lines = strings.Split(observed, "\n")
		if len(lines) != len(subs) {
			return nil, false
		}
	}
	verdict, _, _ := judgeCase(pat, flags, rejected, lines, subs, nil)
	switch verdict {
	case "":
		return nil, true
	case "match-differs":
		if d := explainMatchDiff(pattern, flags, nsubs, observed); d != nil {
			return d, true
		}
	case "accepted-invalid":
		if pat.Class == regex.Malformed {
			if p, err := regex.ParseQuantifiedAssertions(regex.Units(pattern)); err == nil && !p.HasLook && !p.HasBack && hasQuantifiedAssertion(p.Root) {
				return []string{"Q"}, true
			}
		}
	}
	if depth == 0 {
		all, names := pattern, []string(nil)
		for _, rw := range rewrites {
			if p2, changed := rw.f(pattern); changed {
				if d, ok := explainCase(p2, flags, nsubs, rejected, observed, 1); ok {
					return append([]string{rw.name}, d...), true
				}
			}
			if p3, changed := rw.f(all); changed {
				all, names = p3, append(names, rw.name)
			}
		}
		if len(names) > 1 {
			if d, ok := explainCase(all, flags, nsubs, rejected, observed, 1); ok {
				return append(names, d...), true
			}
		}
	}
	return nil, false
}

var explainCache struct {
	key  string
	devs []string
	ok   bool
}

// firstDev returns the highest-priority deviation explaining the mismatch ("" = unexplained).
func firstDev(m *engine.Mismatch) string {
	if m.Aux == nil || m.Aux["verdict"] == "" {
		return ""
	}
	key := m.Aux["form"] + "\x00" + m.Aux["flags"] + "\x00" + m.Aux["pattern"] + "\x00" + m.Aux["nsubs"] + "\x00" + m.Aux["rejected"] + "\x00" + m.Aux["observed"]
	if explainCache.key != key {
		n, _ := strconv.Atoi(m.Aux["nsubs"])
		d, ok := explainCase(m.Aux["pattern"], m.Aux["flags"], n, m.Aux["rejected"] == "true", m.Aux["observed"], 0)
		explainCache.key, explainCache.devs, explainCache.ok = key, d, ok
	}
	if !explainCache.ok || len(explainCache.devs) == 0 {
		return ""
	}
	for _, p := range devPriority {
		for _, d := range explainCache.devs {
			if d == p {
				return p
			}
		}
	}
	return ""
}

var sigs = map[string]engine.Signature{}
var sigOrder []string

func register(name string, f engine.Signature) {
	sigs[name] = f
	sigOrder = append(sigOrder, name)
	engine.RegisterSignature(name, f)
}

func init() {
	// ^ $ \b \B followed by a quantifier is accepted (malformed in ES5 and in the
	// web grammar); nothing else is wrong with the pattern.
	register("c10-quantified-assertion", func(m *engine.Mismatch) bool { return firstDev(m) == "Q" })
	// "[]" / "[^]": observation equals the model's verdict for the pattern with
	// the "]" after "[" / "[^" read as a class member.
	register("c10-empty-class", func(m *engine.Mismatch) bool { return firstDev(m) == "A" })
	// "(?)": observation equals the model's verdict for the pattern with "(?)" removed (RE2 flag group, not an operand).
	register("c10-empty-flag-group", func(m *engine.Mismatch) bool { return firstDev(m) == "C" })
	// "\c" not followed by a control letter is read as a plain "c": the
	// observation equals the model's verdict for the pattern with that backslash
	// removed (possibly combined with a lower-priority deviation).
	register("c10-bare-control-escape", func(m *engine.Mismatch) bool { return firstDev(m) == "B" })
	// exec on a global expression with lastIndex > 0 matches against the suffix
	// s[lastIndex:]; every differing subject line equals the spec chain run on
	// the sliced subject (possibly combined with RE2 semantics when the pattern
	// is also in that class).
	register("c10-sliced-subject", func(m *engine.Mismatch) bool { return firstDev(m) == "S" })
	// RE2 leftmost-first semantics on patterns with a quantified nullable body or
	// a capture inside a repeatable quantified body; every differing line equals
	// Go's regexp result on an independent translation of the pattern.
	register("c10-re2-semantics", func(m *engine.Mismatch) bool { return firstDev(m) == "R" })
}

// ---- protocol family ------------------------------------------------------------

var protoCache struct {
	key  string
	devs []string
	ok   bool
}

// protoDevs recomputes, from the data carried by the mismatch, the minimal
// toggle set of the alternative protocol model that reproduces the observation.
func protoDevs(m *engine.Mismatch) ([]string, bool) {
	if m.Aux == nil || m.Aux["proto"] != "1" {
		return nil, false
	}
	key := m.Aux["pattern"] + "\x00" + m.Aux["flags"] + "\x00" + m.Aux["state"] + "\x00" + m.Aux["op"] + "\x00" + m.Aux["tier"] + "\x00" + m.Aux["observed"]
	if protoCache.key == key {
		return protoCache.devs, protoCache.ok
	}
	protoCache.key, protoCache.devs, protoCache.ok = key, nil, false
	ops := protoOps(m.Aux["tier"] == "thorough")
	i, err := strconv.Atoi(m.Aux["op"])
	if err != nil || i < 0 || i >= len(ops) {
		return nil, false
	}
	st := m.Aux["state"]
	j := strings.LastIndexByte(st, '|')
	if j < 0 {
		return nil, false
	}
	pat := regex.ClassifyString(m.Aux["pattern"])
	if pat.Class != regex.Portable {
		return nil, false
	}
	devs, ok := minimalDev(pat, m.Aux["flags"], protoState{li: st[:j], writable: st[j+1:] == "W"}, ops[i], m.Aux["observed"])
	protoCache.devs, protoCache.ok = devs, ok
	return devs, ok
}

func protoFirst(m *engine.Mismatch) string {
	devs, ok := protoDevs(m)
	if !ok || len(devs) == 0 {
		return ""
	}
	return devs[0] // minimalDev lists toggles in protoToggles (priority) order
}

func init() {
	for _, t := range []struct{ sig, toggle string }{
		{"c10-match-global-undefined", "MU"},
		{"c10-match-global-lastindex", "ML"},
		{"c10-replace-global-lastindex", "RL"},
		{"c10-split-empty-subject", "SE"},
		{"c10-search-byte-offset", "US"},
		{"c10-replacer-codepoint-offset", "UF"},
		{"c10-findall-abutting-empty", "AB"},
		{"c10-proto-sliced-subject", "S"},
		{"c10-byte-lastindex", "U"},
	} {
		toggle := t.toggle
		register(t.sig, func(m *engine.Mismatch) bool { return protoFirst(m) == toggle })
	}
}
