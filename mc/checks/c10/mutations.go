package c10

import (
	"fmt"

	"verif/mc/engine"
)

// runMutations: every single-symbol insertion (mutationSymbols) at every
// character boundary of every base pattern. The model classifies the result:
// portable -> must be accepted and match the model; unsupported / malformed ->
// construction must throw and the literal must be a parse error; lenient
// (web-grammar only) -> rejected, or accepted with exactly the web meaning.
func runMutations(r *engine.Run) {
	baseSize, baseExotic := 2, 2
	flags := []string{""}
	if r.Thorough() {
		baseSize, baseExotic = 3, 1
	}
	e := newEnv(r, "mutations", 2, 1)
	if e == nil {
		return
	}
	base := Patterns(baseSize, baseExotic)
	if r.Thorough() {
		// thorough is a superset of quick
		seen := map[string]bool{}
		for _, b := range base {
			seen[b] = true
		}
		for _, b := range Patterns(2, 2) {
			if !seen[b] {
				base = append(base, b)
			}
		}
	}
	base = append(base, manyGroupBases...)
	muts := MutatedPatterns(base)
	for i, p := range muts {
		e.checkPattern(r, p, flags)
		if i%256 == 0 && r.Expired() {
			r.Cap("time budget hit")
			return
		}
	}
	r.Bound("base", fmt.Sprintf("size<=%d exotic<=%d: %d base patterns", baseSize, baseExotic, len(base)))
	r.Bound("mutated", fmt.Sprintf("%d distinct mutated patterns x %d symbols x flags %q x %d subjects (len<=2; literal form len<=1)", len(muts), len(mutationSymbols), flags, len(e.subs)))
}

// resetPatterns is the capture-reset / alternation-in-quantifier skeleton of
// defect #27, which needs 6 symbols (outside the size bound of "patterns"):
//
//	G( L | R )Q   and   G( L R )Q
//
// G in {"(", "(?:"}, L and R terms of size <= 2 over the core alphabet, Q a
// quantifier.
func resetPatterns(thorough bool) []string {
	g := &generator{maxExotic: 0, memoTerm: map[[2]int][]genPat{}, memoAlt: map[[3]int][]genPat{}, memoDisj: map[[2]int][]genPat{}}
	if thorough {
		g.maxExotic = 1
	}
	var terms []string
	for size := 1; size <= 2; size++ {
		for _, t := range g.term(size, 1) {
			if t.exotic == 0 || (thorough && isQuantExotic(t.s)) {
				terms = append(terms, t.s)
			}
		}
	}
	qs := []string{"*", "+", "?", "*?", "{2}"}
	if thorough {
		qs = append(append([]string(nil), coreQuants...), exoticQuants...)
	}
	seen := map[string]bool{}
	var out []string
	for _, open := range []string{"(", "(?:"} {
		for _, l := range terms {
			for _, rt := range terms {
				for _, mid := range []string{"|", ""} {
					for _, q := range qs {
						p := open + l + mid + rt + ")" + q
						if !seen[p] {
							seen[p] = true
							out = append(out, p)
						}
					}
				}
			}
		}
	}
	return out
}

// isQuantExotic: the only exotic symbol of a size<=2 term generated with
// maxExotic=1 that we keep in "reset" is an exotic quantifier (atoms stay a/b).
func isQuantExotic(s string) bool {
	for _, a := range exoticAtoms {
		if len(s) >= len(a) && contains(s, a) {
			return false
		}
	}
	return true
}

func contains(s, sub string) bool {
	for i := 0; i+len(sub) <= len(s); i++ {
		if s[i:i+len(sub)] == sub {
			return true
		}
	}
	return false
}

func runReset(r *engine.Run) {
	e := newEnv(r, "reset", 3, 1)
	if e == nil {
		return
	}
	pats := resetPatterns(r.Thorough())
	flags := []string{"", "g"}
	for i, p := range pats {
		e.checkPattern(r, p, flags)
		if i%256 == 0 && r.Expired() {
			r.Cap("time budget hit")
			return
		}
	}
	r.Bound("skeleton", fmt.Sprintf("G(L|R)Q and G(LR)Q: %d patterns x flags %q x %d subjects (len<=3)", len(pats), flags, len(e.subs)))
}
