package c10

// Pattern generator: the portable-subset grammar of DESIGN.md C10.
//
//	Disjunction := Alternative | Alternative '|' Alternative        (alternation <= 2 branches, a branch may be empty)
//	Alternative := Term{0..3}                                       (concatenation <= 3)
//	Term        := Atom | Atom Quant | Group | Group Quant
//	Group       := '(' Disjunction ')' | '(?:' Disjunction ')'      (nesting <= 2)
//	Quant       := * + ? {1,2} {2} {0,}  each greedy or lazy
//
// size = number of symbols: every atom, quantifier, group and '|' counts 1.
// Atoms are split into the core letters {a, b} and the 19 "exotic" atoms; a
// pattern is generated when its size and its number of exotic atoms are within
// the tier's bounds (exhaustive inside those bounds).

type genPat struct {
	s      string
	size   int
	exotic int
}

var coreAtoms = []string{"a", "b"}
var exoticAtoms = []string{".", `\d`, `\w`, `\b`, `\B`, "[ab]", "[^a]", "[a-c]", `[\d]`, `\x61`, `\x0A`, "\\" + "u0061", `\cJ`, `\n`, `\/`, `\.`, "s", "^", "$"}
var coreQuants = []string{"*", "+", "?", "*?"}
var exoticQuants = []string{"{1,2}", "{2}", "{0,}", "+?", "??", "{1,2}?", "{2}?", "{0,}?"}

type generator struct {
	maxExotic int
	memoTerm  map[[2]int][]genPat
	memoAlt   map[[3]int][]genPat
	memoDisj  map[[2]int][]genPat
}

func (g *generator) atoms() []genPat {
	var out []genPat
	for _, a := range coreAtoms {
		out = append(out, genPat{a, 1, 0})
	}
	if g.maxExotic > 0 {
		for _, a := range exoticAtoms {
			out = append(out, genPat{a, 1, 1})
		}
	}
	return out
}

// quantifiable things of exactly the given size at group depth d
func (g *generator) base(size, d int) []genPat {
	var out []genPat
	if size == 1 {
		out = append(out, g.atoms()...)
	}
	if d < 2 && size >= 1 {
		for _, open := range []string{"(", "(?:"} {
			for _, in := range g.disj(size-1, d+1) {
				out = append(out, genPat{open + in.s + ")", size, in.exotic})
			}
		}
	}
	return out
}

func (g *generator) term(size, d int) []genPat {
	key := [2]int{size, d}
	if v, ok := g.memoTerm[key]; ok {
		return v
	}
	out := append([]genPat(nil), g.base(size, d)...)
	if size >= 2 {
		for _, b := range g.base(size-1, d) {
			for _, q := range coreQuants {
				out = append(out, genPat{b.s + q, size, b.exotic})
			}
			if b.exotic < g.maxExotic {
				for _, q := range exoticQuants {
					out = append(out, genPat{b.s + q, size, b.exotic + 1})
				}
			}
		}
	}
	g.memoTerm[key] = out
	return out
}

// alt: concatenation of exactly n terms with total size
func (g *generator) altN(size, d, n int) []genPat {
	key := [3]int{size, d, n}
	if v, ok := g.memoAlt[key]; ok {
		return v
	}
	var out []genPat
	switch {
	case n == 0:
		if size == 0 {
			out = []genPat{{"", 0, 0}}
		}
	case n == 1:
		out = g.term(size, d)
	default:
		for s1 := 1; s1 <= size-(n-1); s1++ {
			for _, t := range g.term(s1, d) {
				for _, rest := range g.altN(size-s1, d, n-1) {
					if t.exotic+rest.exotic > g.maxExotic {
						continue
					}
					out = append(out, genPat{t.s + rest.s, size, t.exotic + rest.exotic})
				}
			}
		}
	}
	g.memoAlt[key] = out
	return out
}

func (g *generator) alt(size, d int) []genPat {
	var out []genPat
	for n := 0; n <= 3; n++ {
		out = append(out, g.altN(size, d, n)...)
	}
	return out
}

func (g *generator) disj(size, d int) []genPat {
	key := [2]int{size, d}
	if v, ok := g.memoDisj[key]; ok {
		return v
	}
	out := append([]genPat(nil), g.alt(size, d)...)
	for s1 := 0; s1 <= size-1; s1++ {
		for _, l := range g.alt(s1, d) {
			for _, r := range g.alt(size-1-s1, d) {
				if l.exotic+r.exotic > g.maxExotic {
					continue
				}
				out = append(out, genPat{l.s + "|" + r.s, size, l.exotic + r.exotic})
			}
		}
	}
	g.memoDisj[key] = out
	return out
}

// Patterns returns every pattern of size 1..maxSize with at most maxExotic
// exotic atoms, shortest first, without duplicates.
func Patterns(maxSize, maxExotic int) []string {
	g := &generator{maxExotic: maxExotic, memoTerm: map[[2]int][]genPat{}, memoAlt: map[[3]int][]genPat{}, memoDisj: map[[2]int][]genPat{}}
	seen := map[string]bool{}
	var out []string
	for size := 1; size <= maxSize; size++ {
		for _, p := range g.disj(size, 0) {
			if p.exotic > maxExotic || seen[p.s] {
				continue
			}
			seen[p.s] = true
			out = append(out, p.s)
		}
	}
	return out
}

// Subjects returns all strings of length <= maxLen over the subject alphabet,
// shortest first.
var subjectAlphabet = []uint16{'a', 'b', 'A', '\n', '1'}

func Subjects(maxLen int) [][]uint16 {
	out := [][]uint16{{}}
	prev := [][]uint16{{}}
	for l := 1; l <= maxLen; l++ {
		var cur [][]uint16
		for _, p := range prev {
			for _, c := range subjectAlphabet {
				s := append(append([]uint16(nil), p...), c)
				cur = append(cur, s)
			}
		}
		out = append(out, cur...)
		prev = cur
	}
	return out
}

// Extended subjects (appended after the exhaustive strings over the base
// alphabet, so every prefix of the base list stays a prefix): the symbols that
// distinguish ES5 from other regexp dialects — the line terminators \r and
// U+2028 (15.10.2.6 / 15.10.2.8: '.', multiline ^ $), the two non-ASCII
// characters whose case folding reaches ASCII, U+017F (long s) and U+212A
// (Kelvin sign) (15.10.2.8 Canonicalize never maps them to s / k), the letter s
// itself, and U+2014 (a non-ASCII character that is not an IdentifierPart: \\u2014 is an IdentityEscape). Every string x, xp, px with x an extended symbol and p in
// {a, b, \n}, plus the \r\n combinations.
var extSymbols = []uint16{'\r', 0x2028, 0x017F, 0x212A, 's', 0x2014}

func extSubjects() [][]uint16 {
	var out [][]uint16
	partners := []uint16{'a', 'b', '\n'}
	for _, x := range extSymbols {
		out = append(out, []uint16{x})
	}
	for _, x := range extSymbols {
		for _, p := range partners {
			out = append(out, []uint16{x, p})
		}
	}
	for _, p := range partners {
		for _, x := range extSymbols {
			out = append(out, []uint16{p, x})
		}
	}
	out = append(out, []uint16{'\r', '\r'}, []uint16{'\n', '\r'}, []uint16{'s', 0x017F}, []uint16{0x212A, 's'})
	return out
}

// SubjectsExt is Subjects(maxLen) followed by the extended subjects.
func SubjectsExt(maxLen int) [][]uint16 { return append(Subjects(maxLen), extSubjects()...) }
