package c10

// Family "reentrant": user code that runs INSIDE exec / test / match / replace /
// search / split observes and touches the RegExp object. The specification
// fixes when lastIndex is read and written relative to those points:
//
//	exec/test   15.10.6.2: ToString(argument) (step 2) precedes Get/ToInteger(lastIndex) (4-5);
//	            ToInteger(lastIndex) happens even when global is false (step 5 before 7).
//	match       15.5.4.10: ToString(this) (step 2) precedes the lastIndex reset / exec calls.
//	replace     15.5.4.11: ToString(this) first; ALL matches are collected (for a global
//	            expression this includes the lastIndex updates, ending at 0) before the first
//	            replacer call; nothing writes lastIndex after the replacer calls. The moment
//	            ToString(replaceValue) runs relative to the search is not fixed: both accepted.
//	search      15.5.4.12: lastIndex neither read nor written.
//	split       15.5.4.14: ToString(this) (2) precedes ToUint32(limit) (5); lastIndex untouched.
//
// Every callback logs (lastIndex, global) on entry and then performs an action:
// nothing, assign lastIndex, or call exec / test / match re-entrantly.

import (
	"fmt"
	"strings"

	"github.com/robertkrimen/otto"

	"verif/mc/engine"
	"verif/mc/ox"
	"verif/mc/ref/regex"
)

type reAction int

const (
	actNone reAction = iota
	actSet1
	actSet2
	actSet1Once
	actExec  // log re.exec("ba")
	actTest  // log re.test("aa")
	actMatch // log "aa".match(re)
	// nested operations whose result is RETURNED as the replacement value
	actNestReplStr   // "xy".replace("x", "Q")
	actNestReplStrNo // "xy".replace("z", "Q")
	actNestReplRe    // "xay".replace(/a/g, "Q")
	actNestReplReNo  // "xy".replace(/a/, "Q")
	actNestReplSame  // "aa".replace(re, "Q")
	actNestReplFn    // "ab".replace(/b/, function(m, off){ return "<" + off + ">" })
	actNestSplit     // "a,b".split(/,/).join("|")
	actNestMatch     // "xay".match(/a/)[0]
	actNestCtor      // new RegExp(re).source + RegExp("b", "i").ignoreCase
)

var nestActs = []reAction{actNestReplStr, actNestReplStrNo, actNestReplRe, actNestReplReNo, actNestReplSame, actNestReplFn, actNestSplit, actNestMatch, actNestCtor}

var actNames = map[reAction]string{actNestReplStr: "nreplstr", actNestReplStrNo: "nreplstrno", actNestReplRe: "nreplre", actNestReplReNo: "nreplreno",
	actNestReplSame: "nreplsame", actNestReplFn: "nreplfn", actNestSplit: "nsplit", actNestMatch: "nmatch", actNestCtor: "nctor", actNone: "none", actSet1: "set1", actSet2: "set2", actSet1Once: "set1once", actExec: "exec", actTest: "test", actMatch: "match"}

func (a reAction) js() string {
	switch a {
	case actSet1:
		return "re.lastIndex = 1;"
	case actSet2:
		return "re.lastIndex = 2;"
	case actSet1Once:
		return "if (!once) { once = 1; re.lastIndex = 1; }"
	case actExec:
		return `log.push("x:" + __A(re.exec("ba")) + ":" + __S(re.lastIndex));`
	case actTest:
		return `log.push("t:" + __S(re.test("aa")) + ":" + __S(re.lastIndex));`
	case actMatch:
		return `var mm = "aa".match(re); log.push("m:" + (re.global ? __L(mm) : __A(mm)) + ":" + __S(re.lastIndex));`
	case actNestReplStr:
		return `return "xy".replace("x", "Q");`
	case actNestReplStrNo:
		return `return "xy".replace("z", "Q");`
	case actNestReplRe:
		return `return "xay".replace(/a/g, "Q");`
	case actNestReplReNo:
		return `return "xy".replace(/a/, "Q");`
	case actNestReplSame:
		return `return "aa".replace(re, "Q");`
	case actNestReplFn:
		return `return "ab".replace(/b/, function(m, off){ return "<" + off + ">"; });`
	case actNestSplit:
		return `return "a,b".split(/,/).join("|");`
	case actNestMatch:
		return `return "xay".match(/a/)[0];`
	case actNestCtor:
		return `return new RegExp(re).source + RegExp("b", "i").ignoreCase;`
	}
	return ""
}

type reScenario struct {
	op      string // replaceF replaceT match search split exec test
	thisAct reAction
	cbAct   reAction // replacer / replaceValue.toString / limit.valueOf
}

func (s reScenario) name() string {
	return s.op + "/" + actNames[s.thisAct] + "/" + actNames[s.cbAct]
}

func reScenarios() []reScenario {
	var out []reScenario
	for _, t := range []reAction{actNone, actSet2} {
		for _, f := range append([]reAction{actNone, actSet1, actSet1Once, actExec, actTest, actMatch}, nestActs...) {
			out = append(out, reScenario{"replaceF", t, f})
		}
		for _, f := range []reAction{actNone, actSet1} {
			out = append(out, reScenario{"replaceT", t, f})
		}
		for _, f := range []reAction{actNone, actSet1, actExec} {
			out = append(out, reScenario{"split", t, f})
		}
	}
	for _, t := range []reAction{actNone, actSet2, actExec} {
		out = append(out, reScenario{"match", t, actNone}, reScenario{"search", t, actNone})
	}
	for _, t := range []reAction{actNone, actSet1, actSet2, actExec} {
		out = append(out, reScenario{"exec", t, actNone}, reScenario{"test", t, actNone})
	}
	return out
}

type reCase struct {
	pattern, flags string
	init           string // "0" "1" "2" "5" or "obj" (object whose valueOf logs and returns 1)
	subj           string
	sc             reScenario
}

func (c reCase) key() string {
	return c.flags + "/" + c.pattern + "/" + c.init + "/" + c.subj + "/" + c.sc.name()
}

func (c reCase) js() string {
	var sb strings.Builder
	// warm-up: one completed replace before the case (any state a previous call leaves behind is in place)
	fmt.Fprintf(&sb, "(function(){ \"warm-up-warm-up\".replace(/-/g, function(){ return \"++\"; }); var log = [], once = 0; var re = new RegExp(%s, %s);\n", jsStringLiteral(c.pattern), jsStringLiteral(c.flags))
	if c.init == "obj" {
		sb.WriteString("re.lastIndex = { valueOf: function(){ log.push(\"vo\"); return 1; } };\n")
	} else {
		fmt.Fprintf(&sb, "re.lastIndex = %s;\n", c.init)
	}
	sb.WriteString("var obs = function(tag){ log.push(tag + \":\" + __S(re.lastIndex) + \":\" + re.global); };\n")
	fmt.Fprintf(&sb, "var thisObj = { toString: function(){ obs(\"this\"); %s return %s; } };\n", c.sc.thisAct.js(), jsStringLiteral(c.subj))
	call := ""
	switch c.sc.op {
	case "replaceF":
		call = fmt.Sprintf(`__S(String.prototype.replace.call(thisObj, re, function(){ obs("fn"); %s return "#"; }))`, c.sc.cbAct.js())
	case "replaceT":
		call = fmt.Sprintf(`__S(String.prototype.replace.call(thisObj, re, { toString: function(){ obs("rv"); %s return "[$&]"; } }))`, c.sc.cbAct.js())
	case "split":
		call = fmt.Sprintf(`__L(String.prototype.split.call(thisObj, re, { valueOf: function(){ obs("lim"); %s return 2; } }))`, c.sc.cbAct.js())
	case "match":
		call = `(function(m){ return re.global ? __L(m) : __A(m); })(String.prototype.match.call(thisObj, re))`
	case "search":
		call = `__S(String.prototype.search.call(thisObj, re))`
	case "exec":
		call = `__A(re.exec(thisObj))`
	case "test":
		call = `__S(re.test(thisObj))`
	}
	fmt.Fprintf(&sb, "var r; try { r = %s; } catch (e) { r = __E(e); }\n", call)
	sb.WriteString("return log.join(\",\") + \"|\" + r + \"|\" + __S(re.lastIndex); })()")
	return sb.String()
}

// reModel evaluates a case on the reference model. ml selects the alternative
// model of finding F-C10-008 (global match leaves lastIndex at the end of the
// last match); rvLate evaluates ToString(replaceValue) after the search.
type reModel struct {
	re   *regex.RegExp
	log  []string
	once bool
	ml   bool
}

func (m *reModel) obs(tag string) {
	m.log = append(m.log, fmt.Sprintf("%s:%s:%v", tag, m.re.LastIndex.Render(), m.re.Global))
}

func (m *reModel) matchOp(s []uint16) (string, error) {
	re := m.re
	if !re.Global {
		return re.Exec(s)
	}
	ms, err := re.CollectMatches(s, true)
	if err != nil {
		return "", err
	}
	if len(ms) == 0 {
		return "n", nil
	}
	if m.ml {
		re.LastIndex = regex.Num(float64(ms[len(ms)-1].End()))
	}
	items := make([]regex.Val, len(ms))
	for i, x := range ms {
		items[i] = regex.Str(s[x.Start():x.End()])
	}
	return regex.RenderArray(items), nil
}

// simpleReplace is String.prototype.replace with a constant pattern and template, on the reference model.
func simpleReplace(pattern, flags, subj, tmpl string) ([]uint16, error) {
	re := regex.NewRegExp(regex.ClassifyString(pattern), flags)
	outs, err := re.StringReplace(regex.Units(subj), regex.Replacement{Template: regex.Units(tmpl)})
	if err != nil {
		return nil, err
	}
	v, err := parseVal(outs[0])
	return v.S, err
}

// nested evaluates an action that returns a value (the replacement).
func (m *reModel) nested(a reAction) ([]uint16, bool, error) {
	re := m.re
	switch a {
	case actNestReplStr:
		return regex.Units("Qy"), true, nil // 15.5.4.11 with a string searchValue: first occurrence
	case actNestReplStrNo:
		return regex.Units("xy"), true, nil
	case actNestReplRe:
		r, err := simpleReplace("a", "g", "xay", "Q")
		return r, true, err
	case actNestReplReNo:
		r, err := simpleReplace("a", "", "xy", "Q")
		return r, true, err
	case actNestReplSame:
		s := regex.Units("aa")
		ms, err := re.CollectMatches(s, true)
		if err != nil {
			return nil, true, err
		}
		var out []uint16
		last := 0
		for _, x := range ms {
			out = append(append(out, s[last:x.Start()]...), 'Q')
			last = x.End()
		}
		return append(out, s[last:]...), true, nil
	case actNestReplFn:
		return regex.Units("a<1>"), true, nil
	case actNestSplit:
		sp := regex.NewRegExp(regex.ClassifyString(","), "")
		items, err := regex.SplitUnits(sp.Prog, regex.Units("a,b"), regex.Undefined())
		if err != nil {
			return nil, true, err
		}
		var out []uint16
		for i, it := range items {
			if i > 0 {
				out = append(out, '|')
			}
			out = append(out, it.S...)
		}
		return out, true, nil
	case actNestMatch:
		mr := regex.NewRegExp(regex.ClassifyString("a"), "")
		x, err := mr.ExecRaw(regex.Units("xay"))
		if err != nil || x == nil {
			return nil, true, fmt.Errorf("model: nested match failed: %v", err)
		}
		return regex.Units("xay")[x.Start():x.End()], true, nil
	case actNestCtor:
		return append(append([]uint16(nil), re.Prog.Pat.Source...), regex.Units("true")...), true, nil
	}
	return nil, false, m.act(a)
}

func (m *reModel) act(a reAction) error {
	re := m.re
	switch a {
	case actSet1:
		re.LastIndex = regex.Num(1)
	case actSet2:
		re.LastIndex = regex.Num(2)
	case actSet1Once:
		if !m.once {
			m.once = true
			re.LastIndex = regex.Num(1)
		}
	case actExec:
		r, err := re.Exec(regex.Units("ba"))
		if err != nil {
			return err
		}
		m.log = append(m.log, "x:"+r+":"+re.LastIndex.Render())
	case actTest:
		r, err := re.Test(regex.Units("aa"))
		if err != nil {
			return err
		}
		m.log = append(m.log, "t:"+r+":"+re.LastIndex.Render())
	case actMatch:
		r, err := m.matchOp(regex.Units("aa"))
		if err != nil {
			return err
		}
		m.log = append(m.log, "m:"+r+":"+re.LastIndex.Render())
	}
	return nil
}

// rv modes: when ToString(replaceValue) runs.
const (
	rvEarly       = iota // before the search
	rvLate               // after the search
	rvSkipNoMatch        // after the search, and not at all when nothing matched (finding F-C10-019)
)

func reExpected(c reCase, ml bool, rvMode int) (string, error) {
	rvLate := rvMode != rvEarly
	pat := regex.ClassifyString(c.pattern)
	m := &reModel{re: regex.NewRegExp(pat, c.flags), ml: ml}
	re := m.re
	switch c.init {
	case "obj":
		re.LastIndex = regex.Obj(func() float64 { m.log = append(m.log, "vo"); return 1 })
	default:
		var k float64
		fmt.Sscan(c.init, &k)
		re.LastIndex = regex.Num(k)
	}
	s := regex.Units(c.subj)
	thisHook := func() error { m.obs("this"); return m.act(c.sc.thisAct) }
	var cbRet []uint16
	cb := func(tag string) error {
		m.obs(tag)
		ret, has, err := m.nested(c.sc.cbAct)
		cbRet = []uint16{'#'}
		if has {
			cbRet = ret
		}
		return err
	}
	var r string
	err := func() error {
		if err := thisHook(); err != nil {
			return err
		}
		switch c.sc.op {
		case "exec":
			x, err := re.Exec(s)
			r = x
			return err
		case "test":
			x, err := re.Test(s)
			r = x
			return err
		case "match":
			x, err := m.matchOp(s)
			r = x
			return err
		case "search":
			x, err := re.StringSearch(s)
			r = x
			return err
		case "split":
			if err := cb("lim"); err != nil {
				return err
			}
			x, err := re.StringSplit(s, regex.Num(2))
			r = x
			return err
		case "replaceF", "replaceT":
			if c.sc.op == "replaceT" && !rvLate {
				if err := cb("rv"); err != nil {
					return err
				}
			}
			ms, err := re.CollectMatches(s, true)
			if err != nil {
				return err
			}
			if c.sc.op == "replaceT" && rvLate && !(rvMode == rvSkipNoMatch && len(ms) == 0) {
				if err := cb("rv"); err != nil {
					return err
				}
			}
			var out []uint16
			last := 0
			for _, x := range ms {
				out = append(out, s[last:x.Start()]...)
				if c.sc.op == "replaceF" {
					if err := cb("fn"); err != nil {
						return err
					}
					out = append(out, cbRet...)
				} else {
					out = append(out, '[')
					out = append(out, s[x.Start():x.End()]...)
					out = append(out, ']')
				}
				last = x.End()
			}
			out = append(out, s[last:]...)
			r = regex.RenderUnits(out)
		}
		return nil
	}()
	if err != nil {
		t, ok := thrown(err)
		if !ok {
			return "", err
		}
		r = t
	}
	return strings.Join(m.log, ",") + "|" + r + "|" + re.LastIndex.Render(), nil
}

func reCases() []reCase {
	var out []reCase
	for _, p := range []string{"a", "(a)|b"} {
		for _, f := range []string{"", "g"} {
			for _, init := range []string{"0", "1", "2", "5", "obj"} {
				for _, subj := range []string{"aXa", "aa", "ba", ""} {
					for _, sc := range reScenarios() {
						out = append(out, reCase{p, f, init, subj, sc})
					}
				}
			}
		}
	}
	return out
}

func reAccepts(c reCase, ml bool, obs string, modes ...int) (bool, []string) {
	var want []string
	if len(modes) == 0 {
		modes = []int{rvEarly, rvLate}
	}
	for _, mode := range modes {
		w, err := reExpected(c, ml, mode)
		if err != nil {
			continue
		}
		dup := false
		for _, x := range want {
			if x == w {
				dup = true
			}
		}
		if !dup {
			want = append(want, w)
		}
	}
	for _, w := range want {
		if w == obs {
			return true, want
		}
	}
	return false, want
}

func reCaseByKey(key string) (reCase, bool) {
	for _, c := range reCases() {
		if c.key() == key {
			return c, true
		}
	}
	return reCase{}, false
}

func init() {
	// F-C10-008 seen from inside callbacks: the observation equals the model in
	// which a global match leaves lastIndex at the end of its last match.
	register("c10-reentrant-match-global-lastindex", func(m *engine.Mismatch) bool {
		if m.Aux == nil || m.Aux["reent"] != "1" {
			return false
		}
		c, ok := reCaseByKey(m.Key)
		if !ok {
			return false
		}
		spec, _ := reAccepts(c, false, m.Observed)
		alt, _ := reAccepts(c, true, m.Observed)
		return !spec && alt
	})
}

func init() {
	// replace with a non-function replaceValue never converts it when nothing matched.
	register("c10-replace-value-not-converted", func(m *engine.Mismatch) bool {
		if m.Aux == nil || m.Aux["reent"] != "1" {
			return false
		}
		c, ok := reCaseByKey(m.Key)
		if !ok || c.sc.op != "replaceT" {
			return false
		}
		spec, _ := reAccepts(c, false, m.Observed)
		alt, _ := reAccepts(c, false, m.Observed, rvSkipNoMatch)
		return !spec && alt
	})
}

func runReentrant(r *engine.Run) {
	vm := otto.New()
	if res := ox.Run(vm, prelude); res.Err != nil || res.Panicked {
		r.HarnessError("prelude failed")
		return
	}
	cases := reCases()
	for _, c := range cases {
		key := c.key()
		if !r.MineKey(key) {
			continue
		}
		src := c.js()
		r.Begin(key)
		obs, _ := observe(vm, src)
		r.End()
		ok, want := reAccepts(c, false, obs)
		if len(want) == 0 {
			r.Skip()
			continue
		}
		r.Eval(strings.Contains(obs, "fn:") || strings.Contains(obs, "x:") || !strings.HasSuffix(obs, "|d:"+c.init))
		r.Outcome(obs)
		if r.WantSample() && c.init == "1" && c.flags == "g" && c.sc.op == "replaceF" {
			r.Sample(key + " => " + obs)
		}
		if !ok {
			m := engine.Mismatch{Key: key, Input: src, Expected: strings.Join(want, "  OR  "), Observed: obs,
				Aux: map[string]string{"reent": "1"}}
			trace(r.Family(), &m)
			r.Mismatch(m)
		}
	}
	r.Bound("scenarios", fmt.Sprintf("%d cases: 2 patterns x flags {\"\",g} x initial lastIndex {0,1,2,5,object with valueOf} x 4 subjects x %d callback scenarios", len(cases), len(reScenarios())))
}
