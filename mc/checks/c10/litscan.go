package c10

// Family "litscan": literal-versus-constructor differential on the characters
// that decide where a RegularExpressionLiteral ENDS (7.8.5): inside a class a
// '/' does not end the literal, '\' escapes the next character (also ']'), and
// the class ends at the first unescaped ']'. The literal route has its own
// scanner in the lexer; new RegExp(body) does not go through it.
//
// Patterns: every class of 1..3 items over {a, /, \/, \], \\, [, ^, -}, alone,
// followed by \/, followed by the class [/], and preceded by a. Each is
// evaluated as the source text /P/ and as new RegExp("P"): same acceptance as
// the model (literalLex models 7.8.5), same exec results on every subject of
// length <= 2 over {a, /, \, ], [, ^, -}, and equal source properties.

import (
	"fmt"

	"verif/mc/engine"
	"verif/mc/ref/regex"
)

const litscanSubjectsID = -9

var litscanItems = []string{"a", "/", `\/`, `\]`, `\\`, "[", "^", "-"}

func litscanSubjects() [][]uint16 {
	alpha := []uint16{'a', '/', '\\', ']', '[', '^', '-'}
	out := [][]uint16{{}}
	for _, x := range alpha {
		out = append(out, []uint16{x})
	}
	for _, x := range alpha {
		for _, y := range alpha {
			out = append(out, []uint16{x, y})
		}
	}
	return out
}

func litscanPatterns() []string {
	var classes []string
	var rec func(prefix string, n int)
	rec = func(prefix string, n int) {
		if n > 0 {
			classes = append(classes, "["+prefix+"]")
		}
		if n == 3 {
			return
		}
		for _, it := range litscanItems {
			rec(prefix+it, n+1)
		}
	}
	rec("", 0)
	seen := map[string]bool{}
	var out []string
	for _, c := range classes {
		for _, p := range []string{c, c + `\/`, c + "[/]", "a" + c} {
			if !seen[p] {
				seen[p] = true
				out = append(out, p)
			}
		}
	}
	return out
}

func runLitScan(r *engine.Run) {
	subs := litscanSubjects()
	e := newEnvSubjects(r, "litscan", litscanSubjectsID, subs, len(subs))
	if e == nil {
		return
	}
	pats := litscanPatterns()
	for _, p := range pats {
		e.checkPattern(r, p, []string{""})
		// source of the two routes (only when both construct)
		key := "source/" + p
		if !r.MineKey(key) {
			continue
		}
		if literalLex(p) != "ok" || regex.ClassifyString(p).Class == regex.Malformed {
			continue
		}
		src := fmt.Sprintf(`(function(){ var l, c; try { c = new RegExp(%s); } catch (e) { return "ctor-rejects"; } l = /%s/; return (l.source === c.source) + ""; })()`, jsStringLiteral(p), p)
		obs, _ := observe(e.vm, src)
		r.Eval(true)
		if obs != "true" && obs != "ctor-rejects" {
			r.Mismatch(engine.Mismatch{Key: key, Input: src, Expected: "true (literal and constructor give the same source)", Observed: obs})
		}
	}
	r.Bound("classes", fmt.Sprintf("%d patterns (classes of <= 3 items over %d symbols x 4 contexts) x {literal, constructor} x %d subjects", len(pats), len(litscanItems), len(subs)))
}
