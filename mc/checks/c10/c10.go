// Package c10 checks property C10: regular expressions — sound translation of
// the portable pattern subset and the ES5 matching protocol (exec/test,
// String.prototype.match/replace/search/split, lastIndex histories).
package c10

import (
	"fmt"
	"os"
	"strings"
	"time"

	"github.com/robertkrimen/otto"

	"verif/mc/engine"
	"verif/mc/ox"
)

func init() {
	engine.Register(&engine.Check{
		ID:    "C10",
		Title: "Regular expressions: sound translation and the ES5 matching protocol",
		Rule: "patterns: every pattern of the portable-subset grammar within (size, exotic) bounds x flag sets x {constructor, literal}; a case runs exec (chained while global) on every subject string " +
			"of the stated length over {a,b,A,\\n,1} and is non-trivial when at least one subject matches and one does not. " +
			"mutations: every single-symbol insertion at every character boundary of every base pattern (deduplicated); non-trivial when the model does not classify the result as portable. " +
			"protocol: BFS to fixpoint over (lastIndex value, writable) states of one RegExp object per (pattern, flags); every transition replayed on a fresh object; non-trivial when the operation matches or changes state. " +
			"reentrant: finite product of callback scenarios (user code inside exec/test/match/replace/search/split that logs lastIndex/global, assigns lastIndex or calls exec/test/match re-entrantly) x initial lastIndex; non-trivial when a callback ran during matching or lastIndex changed. " +
			"literals: every history of <= 2 operations over two RegExp objects obtained from the same literal text (same site twice, loop body, two sites, literal + new RegExp(A)), plus a third object checked for freshness. " +
			"argkinds: finite table of String-side entry points x argument kinds (absent, undefined, null, number, boolean, pattern-like strings, RegExp, object, arrays) x subjects containing the kinds' text. " +
			"litscan: every character class of <= 3 items over {a, /, \\/, \\], \\\\, [, ^, -} in 4 contexts, as literal source text and through the constructor. " +
			"subst/flags: finite tables.",
		Families: []engine.Family{
			{Name: "patterns", Run: runPatterns},
			{Name: "reset", Run: runReset},
			{Name: "mutations", Run: runMutations},
			{Name: "protocol", Run: runProtocol},
			{Name: "reentrant", Run: runReentrant},
			{Name: "literals", Run: runLiterals},
			{Name: "argkinds", Run: runArgKinds},
			{Name: "litscan", Run: runLitScan},
			{Name: "subst", Run: runSubst},
			{Name: "flags", Run: runFlags, Solo: true},
		},
		Assumptions: []string{
			"ref/regex transcribes ES5.1 15.10.1 (grammar), 15.10.2 (matcher), 15.10.6.2-3 and 15.5.4.10/11/12/14; validated at development time against V8 on the enumerated spaces",
			"patterns that are malformed by the strict 15.10.1 grammar but valid in the web-compatibility grammar (ES2015 B.1.4) may be rejected or accepted with exactly the B.1.4 meaning",
			"thrown SyntaxError and TypeError are both accepted as rejection of a pattern (the property says 'rejected with an error')",
			"observations are rendered in-script with charCodeAt/typeof/String; those primitives are trusted here (C09/C05 check them)",
		},
		CrashIsViolation: true,
		QuickBudget:      6 * time.Minute,
		ThoroughBudget:   25 * time.Minute,
	})
}

// prelude renders observations canonically inside the runtime under test.
const prelude = `
function __S(v) {
  if (v === undefined) return "u";
  if (v === null) return "n";
  var t = typeof v;
  if (t === "number") return "d:" + ((v === 0 && 1 / v < 0) ? "-0" : String(v));
  if (t === "boolean") return "b:" + v;
  if (t === "string") {
    var o = "s:";
    for (var i = 0; i < v.length; i++) o += (i ? "." : "") + v.charCodeAt(i).toString(16);
    return o;
  }
  return "o:" + Object.prototype.toString.call(v);
}
function __A(m) {
  if (m === null) return "n";
  if (typeof m !== "object") return "!" + __S(m);
  var o = "[index=" + m.index + ",input=" + __S(m.input) + ",length=" + m.length;
  for (var i = 0; i < m.length; i++) o += "," + __S(m[i]);
  return o + "]";
}
function __L(a) {
  if (a === null) return "n";
  if (typeof a !== "object") return "!" + __S(a);
  var o = "[length=" + a.length;
  for (var i = 0; i < a.length; i++) o += "," + __S(a[i]);
  return o + "]";
}
function __E(e) {
  if (e instanceof SyntaxError) return "throw:SyntaxError";
  if (e instanceof TypeError) return "throw:TypeError";
  if (e instanceof Error) return "throw:" + e.name;
  return "throw:value";
}
function __mk(p, f) {
  try { return new RegExp(p, f); } catch (e) { return __E(e); }
}
// exec on every subject; chained while the expression is global
function __e1(re, subs) {
  if (typeof re === "string") return re;
  var out = [];
  for (var i = 0; i < subs.length; i++) {
    var s = subs[i], line = "", n = 0, m;
    re.lastIndex = 0;
    do {
      try { m = re.exec(s); } catch (e) { line += __E(e); break; }
      line += (n ? ";" : "") + __A(m) + "@" + __S(re.lastIndex);
      n++;
    } while (re.global && m !== null && n < 8);
    out.push(line);
  }
  return out.join("\n");
}
`

func jsArrayOfSubjects(subs [][]uint16) string {
	parts := make([]string, len(subs))
	for i, s := range subs {
		parts[i] = ox.JSString(s)
	}
	return "[" + strings.Join(parts, ",") + "]"
}

// newVM builds a runtime with the prelude and the subject arrays installed.
func newVM(r *engine.Run, maxLen int) *otto.Otto {
	vm := otto.New()
	src := prelude + "\nvar __subs = " + jsArrayOfSubjects(Subjects(maxLen)) + ";\n"
	if res := ox.Run(vm, src); res.Err != nil || res.Panicked {
		r.HarnessError(fmt.Sprintf("prelude failed: %v %v", res.Err, res.PanicVal))
		return nil
	}
	return vm
}

// observation of one program: value string, or a rendered failure.
func observe(vm *otto.Otto, src string) (string, bool) {
	res := ox.Run(vm, src)
	switch {
	case res.Panicked:
		return fmt.Sprintf("go-panic: %v", res.PanicVal), false
	case res.Err != nil:
		if _, ok := res.Err.(*otto.Error); ok {
			return "throw-escaped:" + ox.ErrClass(res.Err), false
		}
		return "parse-error", false
	}
	s, err := res.Value.ToString()
	if err != nil {
		return "tostring-error", false
	}
	return s, true
}

// jsStringLiteral renders Go text (pattern sources are BMP) as a JS literal.
func jsStringLiteral(s string) string { return ox.JSLit(s) }

// trace appends every mismatch to the file named by C10_TRACE (development aid
// for triage; never set by run.sh).
func trace(family string, m *engine.Mismatch) {
	path := os.Getenv("C10_TRACE")
	if path == "" {
		return
	}
	f, err := os.OpenFile(path, os.O_APPEND|os.O_CREATE|os.O_WRONLY, 0o644)
	if err != nil {
		return
	}
	defer f.Close()
	acc := ""
	for _, n := range sigOrder {
		if sigs[n](m) {
			acc += n + " "
		}
	}
	fmt.Fprintf(f, "%s\t%s\t%s\t%s\t%s\t%s\n", acc, family, m.Input, m.Note, m.Expected, m.Observed)
}
