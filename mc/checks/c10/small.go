package c10

import (
	"fmt"
	"strings"

	"github.com/robertkrimen/otto"

	"verif/mc/engine"
	"verif/mc/ox"
	"verif/mc/ref/regex"
)

// ---- subst: the replacement-text table of 15.5.4.11 --------------------------------

var substPatterns = []string{"a", "(a)", "(a)(b)?", "(a)(b)(c)(d)(e)(f)(g)(h)(i)(j)", "(a)(b)(c)(d)(e)(f)(g)(h)(i)(j)(k)?"}
var substSubjects = []string{"abcdefghijk", "xabcdefghijx", "a", "xay"}

func substTemplates() []string {
	first := []string{"", "$", "&", "`", "'", "0", "1", "2", "9", "x"}
	second := []string{"", "0", "1", "2", "9", "$", "x"}
	var out []string
	for _, a := range first {
		for _, b := range second {
			out = append(out, "<$"+a+b+">")
		}
	}
	return out
}

// ottoExpand is the alternative model of the "$nn" finding: otto tokenises the
// template with the ordered alternation [$&'`1-9] | 0[1-9] | [1-9][0-9], so a
// "$" followed by a non-zero digit is ALWAYS read as $n (the two-digit branch
// is dead); numbers beyond the captures give the empty string.
func ottoExpand(t, s []uint16, m *regex.MatchResult) []uint16 {
	mcount := len(m.Caps)/2 - 1
	capture := func(n int) []uint16 {
		if n > mcount || m.Caps[2*n] < 0 {
			return nil
		}
		return s[m.Caps[2*n]:m.Caps[2*n+1]]
	}
	var out []uint16
	for i := 0; i < len(t); i++ {
		c := t[i]
		if c != '$' || i+1 >= len(t) {
			out = append(out, c)
			continue
		}
		n := t[i+1]
		switch {
		case n == '$':
			out = append(out, '$')
			i++
		case n == '&':
			out = append(out, s[m.Start():m.End()]...)
			i++
		case n == '`':
			out = append(out, s[:m.Start()]...)
			i++
		case n == '\'':
			out = append(out, s[m.End():]...)
			i++
		case n >= '1' && n <= '9':
			out = append(out, capture(int(n-'0'))...)
			i++
		case n == '0' && i+2 < len(t) && t[i+2] >= '1' && t[i+2] <= '9':
			out = append(out, capture(int(t[i+2]-'0'))...)
			i += 2
		default:
			out = append(out, c)
		}
	}
	return out
}

func substAlt(pattern, flags string, subj, tmpl []uint16) (string, bool) {
	pat := regex.ClassifyString(pattern)
	if pat.Class != regex.Portable {
		return "", false
	}
	re := regex.NewRegExp(pat, flags)
	var out []uint16
	last := 0
	from := 0
	for from <= len(subj) {
		caps, err := find(re.Prog, subj, from)
		if err != nil || caps == nil {
			break
		}
		m := &regex.MatchResult{Caps: caps}
		out = append(out, subj[last:m.Start()]...)
		out = append(out, ottoExpand(tmpl, subj, m)...)
		last = m.End()
		if !re.Global {
			break
		}
		from = m.End()
		if m.Start() == m.End() {
			from++
		}
	}
	out = append(out, subj[last:]...)
	return regex.RenderUnits(out), true
}

func init() {
	// "$nn" with 10 <= nn <= m is read as $n followed by a literal digit.
	register("c10-two-digit-substitution", func(m *engine.Mismatch) bool {
		if m.Aux == nil || m.Aux["subst"] != "1" {
			return false
		}
		pat := regex.ClassifyString(m.Aux["pattern"])
		t := m.Aux["template"]
		// input class: the template contains $d1d2 with d1 >= 1 and d1d2 <= m
		in := false
		for i := 0; i+2 < len(t); i++ {
			if t[i] == '$' && t[i+1] >= '1' && t[i+1] <= '9' && t[i+2] >= '0' && t[i+2] <= '9' {
				if (i == 0 || t[i-1] != '$') && int(t[i+1]-'0')*10+int(t[i+2]-'0') <= pat.NCap {
					in = true
				}
			}
		}
		if !in {
			return false
		}
		alt, ok := substAlt(m.Aux["pattern"], m.Aux["flags"], regex.Units(m.Aux["subject"]), regex.Units(t))
		return ok && alt == m.Observed
	})
}

func runSubst(r *engine.Run) {
	vm := otto.New()
	if res := ox.Run(vm, prelude); res.Err != nil || res.Panicked {
		r.HarnessError("prelude failed")
		return
	}
	tmpls := substTemplates()
	for _, p := range substPatterns {
		pat := regex.ClassifyString(p)
		for _, flags := range []string{"", "g"} {
			for _, sj := range substSubjects {
				for _, t := range tmpls {
					key := flags + "/" + p + "/" + sj + "/" + t
					if !r.MineKey(key) {
						continue
					}
					src := fmt.Sprintf("__S(%s.replace(new RegExp(%s, %s), %s))", jsStringLiteral(sj), jsStringLiteral(p), jsStringLiteral(flags), jsStringLiteral(t))
					r.Begin(key)
					obs, _ := observe(vm, src)
					r.End()
					re := regex.NewRegExp(pat, flags)
					want, err := re.StringReplace(regex.Units(sj), regex.Replacement{Template: regex.Units(t)})
					if err != nil {
						r.Skip()
						continue
					}
					r.Eval(obs != regex.RenderUnits(regex.Units(sj)))
					r.Outcome(obs)
					if r.WantSample() && strings.Contains(t, "$1") {
						r.Sample(src + " => " + obs)
					}
					ok := false
					for _, w := range want {
						if w == obs {
							ok = true
						}
					}
					if !ok {
						m := engine.Mismatch{Key: key, Input: src, Expected: strings.Join(want, "  OR  "), Observed: obs,
							Aux: map[string]string{"subst": "1", "pattern": p, "flags": flags, "subject": sj, "template": t}}
						trace(r.Family(), &m)
						r.Mismatch(m)
					}
				}
			}
		}
	}
	r.Bound("table", fmt.Sprintf("%d patterns (0,1,2,10,11 captures) x flags {\"\",g} x %d subjects x %d templates ($ followed by every pair over {$,&,`,',0,1,2,9,x})", len(substPatterns), len(substSubjects), len(tmpls)))
}

// ---- flags: 15.10.4.1 -----------------------------------------------------------

func flagStrings() []string {
	alpha := []string{"g", "i", "m", "x"}
	out := []string{""}
	prev := []string{""}
	for l := 1; l <= 3; l++ {
		var cur []string
		for _, p := range prev {
			for _, a := range alpha {
				cur = append(cur, p+a)
			}
		}
		out = append(out, cur...)
		prev = cur
	}
	return out
}

func flagsExpected(f string, ignoreUnknown bool) string {
	seen := map[rune]bool{}
	for _, c := range f {
		if c != 'g' && c != 'i' && c != 'm' {
			if ignoreUnknown {
				continue
			}
			return "reject"
		}
		if seen[c] {
			return "reject"
		}
		seen[c] = true
	}
	return fmt.Sprintf("global=%v,ignoreCase=%v,multiline=%v,lastIndex=d:0,source=s:61", seen['g'], seen['i'], seen['m'])
}

func init() {
	// flag characters other than g, i, m are ignored instead of SyntaxError
	register("c10-unknown-flags-ignored", func(m *engine.Mismatch) bool {
		if m.Aux == nil || m.Aux["flagcase"] != "1" {
			return false
		}
		f := m.Aux["flags"]
		return strings.ContainsAny(f, "x") && flagsExpected(f, false) == "reject" && flagsExpected(f, true) == m.Observed
	})
}

func runFlags(r *engine.Run) {
	vm := otto.New()
	if res := ox.Run(vm, prelude+`
function __fl(re) { return "global=" + re.global + ",ignoreCase=" + re.ignoreCase + ",multiline=" + re.multiline + ",lastIndex=" + __S(re.lastIndex) + ",source=" + __S(re.source); }
`); res.Err != nil || res.Panicked {
		r.HarnessError("prelude failed")
		return
	}
	fl := flagStrings()
	for _, f := range fl {
		for _, form := range []string{"ctor", "lit"} {
			key := form + "/" + f
			if !r.MineKey(key) {
				continue
			}
			src := fmt.Sprintf(`(function(){ var re; try { re = new RegExp("a", %s); } catch (e) { return __E(e); } return __fl(re); })()`, jsStringLiteral(f))
			if form == "lit" {
				src = fmt.Sprintf(`(function(){ var re; try { re = /a/%s; } catch (e) { return __E(e); } return __fl(re); })()`, f)
			}
			r.Begin(key)
			obs, ok := observe(vm, src)
			r.End()
			if (ok && (obs == "throw:SyntaxError" || obs == "throw:TypeError")) || (!ok && form == "lit" && obs == "parse-error") {
				obs = "reject"
			}
			want := flagsExpected(f, false)
			r.Eval(want == "reject")
			r.Outcome(obs)
			if r.WantSample() {
				r.Sample(src + " => " + obs)
			}
			if obs != want {
				m := engine.Mismatch{Key: key, Input: src, Expected: want, Observed: obs, Aux: map[string]string{"flagcase": "1", "flags": f}}
				trace(r.Family(), &m)
				r.Mismatch(m)
			}
		}
	}
	r.Bound("flags", fmt.Sprintf("%d flag strings (length <= 3 over {g,i,m,x}) x {constructor, literal}", len(fl)))
}
