package c10

import (
	"fmt"
	"strings"

	"github.com/robertkrimen/otto"

	"verif/mc/engine"
	"verif/mc/ox"
	"verif/mc/ref/regex"
)

// skippedLine stands for a (global flag, non-ASCII subject) pair in the exec-chain
// families: lastIndex of otto is a byte offset there (finding F-C10-015, covered
// by the protocol family with its own alternative model), so the chain is not
// run; non-ASCII subjects are exercised with the non-global flag sets only.
const skippedLine = "-"

// modelLines is the expected output of __e1 for a pattern the model accepts:
// one line per subject, exec chained while global.
func modelLines(p *regex.Pattern, flags string, subs [][]uint16) ([]string, error) {
	re := regex.NewRegExp(p, flags)
	out := make([]string, len(subs))
	for i, s := range subs {
		if re.Global && !isASCII(s) {
			out[i] = skippedLine
			continue
		}
		re.LastIndex = regex.Num(0)
		var sb strings.Builder
		for n := 0; ; n++ {
			m, err := re.ExecRaw(s)
			if err != nil {
				return nil, err
			}
			if n > 0 {
				sb.WriteByte(';')
			}
			sb.WriteString(regex.RenderExec(s, m))
			sb.WriteByte('@')
			sb.WriteString(re.LastIndex.Render())
			if !(re.Global && m != nil && n+1 < 8) {
				break
			}
		}
		out[i] = sb.String()
	}
	return out, nil
}

// literalLex models 7.8.5: it reports whether /pattern/ lexes as one
// RegularExpressionLiteral whose body is exactly pattern ("ok"), is a lexical
// error ("error": unterminated class/escape, line terminator) or cannot be
// written as a literal at all ("inexpressible": empty body, leading '*', an
// unescaped '/' outside a class ends the body early, trailing backslash).
func literalLex(pattern string) string {
	if pattern == "" || pattern[0] == '*' {
		return "inexpressible"
	}
	inClass := false
	rs := []rune(pattern)
	for i := 0; i < len(rs); i++ {
		c := rs[i]
		switch {
		case c == '\n' || c == '\r' || c == 0x2028 || c == 0x2029:
			return "inexpressible"
		case c == '\\':
			if i+1 >= len(rs) {
				return "inexpressible"
			}
			i++
			if n := rs[i]; n == '\n' || n == '\r' || n == 0x2028 || n == 0x2029 {
				return "inexpressible"
			}
		case inClass:
			if c == ']' {
				inClass = false
			}
		case c == '[':
			inClass = true
		case c == '/':
			return "inexpressible"
		}
	}
	if inClass {
		return "error"
	}
	return "ok"
}

type caseResult struct {
	class    regex.Class
	expected []string // model lines (nil when the model rejects)
	observed string   // raw observation
	rejected bool     // implementation rejected the pattern
	obsLines []string
	diff     []int // indices of differing subject lines
	verdict  string
}

// goObserve drives the real RegExp object through the Go API (an order of
// magnitude cheaper than interpreting a rendering loop in otto itself): it
// builds the object (constructor call or literal program), then runs exec on
// every subject, chained while global, and renders exactly like modelLines.
func goObserve(vm *otto.Otto, pattern, flags, form string, subVals []otto.Value, subs [][]uint16) (obs string, rejected bool, lines []string) {
	res := ox.Guard(func() (otto.Value, error) {
		var rev otto.Value
		var err error
		if form == "ctor" {
			rev, err = vm.Call("new RegExp", nil, pattern, flags)
		} else {
			rev, err = vm.Run("/" + pattern + "/" + flags)
		}
		if err != nil {
			return otto.Value{}, err
		}
		if !rev.IsObject() || rev.Class() != "RegExp" {
			lines = nil
			return otto.Value{}, fmt.Errorf("not a RegExp: %s", ox.Canon(rev))
		}
		ro := rev.Object()
		global := strings.Contains(flags, "g")
		lines = make([]string, len(subVals))
		var sb strings.Builder
		for i, sv := range subVals {
			if global && !isASCII(subs[i]) {
				lines[i] = skippedLine
				continue
			}
			sb.Reset()
			if err := ro.Set("lastIndex", 0); err != nil {
				return otto.Value{}, err
			}
			for n := 0; ; n++ {
				m, err := ro.Call("exec", sv)
				if err != nil {
					sb.WriteString("throw:" + ox.ErrClass(err))
					break
				}
				if n > 0 {
					sb.WriteByte(';')
				}
				renderExecValue(&sb, m)
				sb.WriteByte('@')
				li, _ := ro.Get("lastIndex")
				sb.WriteString(renderValue(li))
				if !(global && !m.IsNull() && n+1 < 8) {
					break
				}
			}
			lines[i] = sb.String()
		}
		return otto.Value{}, nil
	})
	switch {
	case res.Panicked:
		return fmt.Sprintf("go-panic: %v", res.PanicVal), false, nil
	case res.Err != nil:
		if _, ok := res.Err.(*otto.Error); ok {
			cls := ox.ErrClass(res.Err)
			if form == "ctor" && lines == nil && (cls == "SyntaxError" || cls == "TypeError") {
				return "throw:" + cls, true, nil
			}
			return "throw-escaped:" + cls, false, nil
		}
		if form == "lit" && strings.HasPrefix(res.Err.Error(), "(anonymous): Line") {
			return "parse-error: " + res.Err.Error(), true, nil
		}
		return "error: " + res.Err.Error(), false, nil
	}
	return strings.Join(lines, "\n"), false, lines
}

var idxNames = func() []string {
	out := make([]string, 32)
	for i := range out {
		out[i] = fmt.Sprint(i)
	}
	return out
}()

func renderValue(v otto.Value) string {
	switch {
	case v.IsUndefined():
		return "u"
	case v.IsNull():
		return "n"
	case v.IsNumber():
		f, _ := v.ToFloat()
		return "d:" + regex.NumString(f)
	case v.IsBoolean():
		b, _ := v.ToBoolean()
		return regex.Bool(b).Render()
	case v.IsString():
		s, _ := v.ToString()
		return regex.RenderUnits(regex.Units(s))
	}
	return "o:" + v.Class()
}

func renderExecValue(sb *strings.Builder, m otto.Value) {
	if m.IsNull() {
		sb.WriteString("n")
		return
	}
	if !m.IsObject() {
		sb.WriteString("!" + renderValue(m))
		return
	}
	mo := m.Object()
	idx, _ := mo.Get("index")
	in, _ := mo.Get("input")
	l, _ := mo.Get("length")
	n, _ := l.ToInteger()
	sb.WriteString("[index=")
	if f, err := idx.ToFloat(); err == nil && idx.IsNumber() {
		sb.WriteString(regex.NumString(f))
	} else {
		sb.WriteString(renderValue(idx))
	}
	sb.WriteString(",input=")
	sb.WriteString(renderValue(in))
	fmt.Fprintf(sb, ",length=%d", n)
	for k := int64(0); k < n && k < 32; k++ {
		v, _ := mo.Get(idxNames[k])
		sb.WriteByte(',')
		sb.WriteString(renderValue(v))
	}
	sb.WriteByte(']')
}

// runCase executes one (pattern, flags, form) case and compares it with the
// model.
func runCase(vm *otto.Otto, pat *regex.Pattern, pattern, flags, form string, subVals []otto.Value, subs [][]uint16, modelCache *[]string) *caseResult {
	cr := &caseResult{class: pat.Class}
	obs, rejected, lines := goObserve(vm, pattern, flags, form, subVals, subs)
	cr.observed = obs
	cr.rejected = rejected
	if !rejected && lines == nil {
		// go panic, escaped throw (literal rejected only at run time), other error class
		cr.verdict = "bad-rejection"
		return cr
	}
	cr.obsLines = lines
	cr.verdict, cr.expected, cr.diff = judgeCase(pat, flags, rejected, lines, subs, modelCache)
	return cr
}

// judgeCase compares an observation (rejected, or one line per subject) with
// the model's classification and expected lines. verdict "" = agreement.
func judgeCase(pat *regex.Pattern, flags string, rejected bool, lines []string, subs [][]uint16, modelCache *[]string) (verdict string, expected []string, diff []int) {
	accepts := pat.Class == regex.Portable || pat.Class == regex.Lenient
	if rejected {
		if pat.Class == regex.Portable {
			return "rejected-valid", nil, nil
		}
		return "", nil, nil
	}
	if !accepts {
		return "accepted-invalid", nil, nil
	}
	if modelCache == nil || *modelCache == nil {
		ml, err := modelLines(pat, flags, subs)
		if err != nil {
			return "model-budget", nil, nil
		}
		if modelCache != nil {
			*modelCache = ml
		}
		expected = ml
	} else {
		expected = *modelCache
	}
	expected = expected[:len(subs)]
	if len(lines) != len(expected) {
		return "shape", expected, nil
	}
	for i := range lines {
		if expected[i] != lines[i] {
			diff = append(diff, i)
		}
	}
	if len(diff) > 0 {
		return "match-differs", expected, diff
	}
	return "", expected, nil
}

var flagSets = []string{"", "i", "m", "g", "im"}

func nontrivialLines(lines []string) bool {
	hit, miss := false, false
	for _, l := range lines {
		if strings.HasPrefix(l, "n@") {
			miss = true
		} else {
			hit = true
		}
	}
	return hit && miss
}

// env is the per-family execution environment: one runtime, the subject
// strings as otto values, and the number of (shortest) subjects the literal
// form is run on — the literal differs from the constructor only in how the
// pattern text reaches newRegExpObject, so it gets the shorter subject list.
type env struct {
	vm      *otto.Otto
	subs    [][]uint16
	subVals []otto.Value
	subLen  int
	litN    int
	family  string
}

func newEnv(r *engine.Run, family string, subLen, litLen int) *env {
	return newEnvSubjects(r, family, subLen, SubjectsExt(subLen), len(Subjects(litLen)))
}

// newEnvSubjects is newEnv with an explicit subject list (subLen then only names the list).
func newEnvSubjects(r *engine.Run, family string, subLen int, subs [][]uint16, litN int) *env {
	e := &env{vm: otto.New(), subs: subs, subLen: subLen, family: family}
	e.litN = litN
	for _, s := range e.subs {
		v, err := otto.ToValue(regex.String16(s))
		if err != nil {
			r.HarnessError("ToValue: " + err.Error())
			return nil
		}
		e.subVals = append(e.subVals, v)
	}
	return e
}

// checkPattern runs every (flags, form) case of one pattern.
func (e *env) checkPattern(r *engine.Run, pattern string, flagList []string) {
	var pat *regex.Pattern
	lex := ""
	for _, flags := range flagList {
		key := flags + "/" + pattern
		if !r.MineKey(key) {
			continue
		}
		if pat == nil {
			pat = regex.ClassifyString(pattern)
			lex = literalLex(pattern)
		}
		if pat.UsesSExt {
			// \s \S are outside the portable subset (README documents the RE2 deviation)
			r.Skip()
			continue
		}
		var cache []string
		for _, form := range []string{"ctor", "lit"} {
			if form == "lit" && lex == "inexpressible" {
				r.Skip()
				continue
			}
			n := len(e.subs)
			if form == "lit" {
				n = e.litN
			}
			r.Begin(key)
			cr := runCase(e.vm, pat, pattern, flags, form, e.subVals[:n], e.subs[:n], &cache)
			r.End()
			if cr.verdict == "model-budget" {
				r.Skip()
				continue
			}
			nt := false
			if e.family == "mutations" {
				nt = pat.Class != regex.Portable
			} else if cr.obsLines != nil {
				nt = nontrivialLines(cr.obsLines)
			}
			r.Eval(nt)
			if cr.rejected {
				r.Outcome("rejected")
			} else {
				r.Outcome(cr.observed)
			}
			if r.WantSample() && nt && len(cr.obsLines) > 7 {
				r.Sample(fmt.Sprintf("%s %q flags=%q class=%s: subject[7] => %s", form, pattern, flags, pat.Class, cr.obsLines[7]))
			}
			if cr.verdict == "" {
				continue
			}
			fileMismatch(r, key, pattern, flags, form, e.subLen, pat, cr, e.subs[:n])
		}
	}
}

func fileMismatch(r *engine.Run, key, pattern, flags, form string, subLen int, pat *regex.Pattern, cr *caseResult, subs [][]uint16) {
	exp, obs := "", ""
	switch cr.verdict {
	case "rejected-valid":
		exp, obs = "accepted (model: portable)", "rejected: "+cr.observed
	case "accepted-invalid":
		exp = fmt.Sprintf("rejected (model: %s: %v)", pat.Class, pat.Err)
		obs = "accepted"
		if len(cr.obsLines) > 1 {
			obs += "; subject \"a\" => " + cr.obsLines[1]
		}
	case "bad-rejection":
		exp, obs = "result or SyntaxError/TypeError (literal: parse error)", cr.observed
	case "match-differs":
		i := cr.diff[0]
		exp = fmt.Sprintf("subject %s => %s", regex.RenderUnits(subs[i]), cr.expected[i])
		obs = fmt.Sprintf("subject %s => %s", regex.RenderUnits(subs[i]), cr.obsLines[i])
	}
	m := engine.Mismatch{
		Key:      key,
		Input:    fmt.Sprintf("%s pattern=%q flags=%q", form, pattern, flags),
		Expected: exp,
		Observed: obs,
		Note:     fmt.Sprintf("%s; %d of %d subjects differ", cr.verdict, len(cr.diff), len(subs)),
		Aux: map[string]string{
			"pattern": pattern, "flags": flags, "form": form, "nsubs": fmt.Sprintf("%d:%d", subLen, len(subs)),
			"verdict": cr.verdict, "class": pat.Class.String(), "observed": cr.observed,
			"rejected": fmt.Sprint(cr.rejected),
		},
	}
	trace(r.Family(), &m)
	r.Mismatch(m)
}

// relevantFlags prunes flag sets that cannot change the meaning of a pattern:
// m only matters when the pattern contains ^ or $. Patterns of size <= 2 keep
// every flag set (so that the (?flags:...) wrapper itself is exercised on every
// atom and quantifier).
func relevantFlags(pattern string, flagList []string, keepAll bool) []string {
	if keepAll || strings.ContainsAny(pattern, "^$") {
		return flagList
	}
	var out []string
	for _, f := range flagList {
		if !strings.Contains(f, "m") {
			out = append(out, f)
		}
	}
	return out
}

func runPatterns(r *engine.Run) {
	type tierSpec struct {
		size, exotic int
		flags        []string
	}
	specs := []tierSpec{{2, 2, flagSets}, {3, 3, flagSets}, {4, 0, flagSets}}
	if r.Thorough() {
		specs = append(specs, tierSpec{4, 2, []string{"", "i", "g"}}, tierSpec{5, 0, []string{"", "im", "g"}})
	}
	e := newEnv(r, "patterns", 3, 2)
	if e == nil {
		return
	}
	done := map[string]bool{}
	for _, sp := range specs {
		pats := Patterns(sp.size, sp.exotic)
		n := 0
		for _, p := range pats {
			if done[p] {
				continue
			}
			done[p] = true
			n++
			e.checkPattern(r, p, relevantFlags(p, sp.flags, sp.size <= 2))
			if n%64 == 0 && r.Expired() {
				r.Cap(fmt.Sprintf("time budget hit in spec size<=%d exotic<=%d", sp.size, sp.exotic))
				return
			}
		}
		r.Bound(fmt.Sprintf("size<=%d,exotic<=%d,flags=%s", sp.size, sp.exotic, strings.Join(sp.flags, "|")),
			fmt.Sprintf("%d new patterns x %d subjects (len<=%d; literal form len<=2)", n, len(e.subs), e.subLen))
	}
}
