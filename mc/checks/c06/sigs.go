package c06

import (
	"bytes"
	"errors"
	"math"
	"math/big"
	"regexp"
	"strconv"
	"strings"

	"verif/mc/engine"
	"verif/mc/ref/num"
)

// Known-finding signatures. Each predicate is an alternative model: it accepts a
// mismatch only when the input is in the stated class AND the observed value is
// exactly what the named wrong algorithm produces. strconv appears here on
// purpose: "otto hands the job to strconv" is the failure mode being pinned; it
// never decides what is expected.

func init() {
	engine.RegisterSignature("c06-tostring-log10-layout", sigToStringLayout)
	engine.RegisterSignature("c06-tofixed-half-even", sigToFixedHalfEven)
	engine.RegisterSignature("c06-tofixed-negzero", sigToFixedNegZero)
	engine.RegisterSignature("c06-toexponential-exponent-padding", sigToExpPadding)
	engine.RegisterSignature("c06-toexponential-half-even", sigToExpHalfEven)
	engine.RegisterSignature("c06-toexponential-go-format-edge", sigToExpEdge)
	engine.RegisterSignature("c06-toprecision-go-g-format", sigToPrecisionG)
	engine.RegisterSignature("c06-toprecision-go-format-edge", sigToPrecisionEdge)
	engine.RegisterSignature("c06-radix-int64-truncation", sigRadixInt64)
	engine.RegisterSignature("c06-tonumber-go-syntax", sigToNumberGoSyntax)
	engine.RegisterSignature("c06-tonumber-bighex-nan", sigToNumberBigHex)
	engine.RegisterSignature("c06-parsefloat-strconv-shrink", sigParseFloatOld)
	engine.RegisterSignature("c06-parseint-int64-leak", sigParseIntLeak)
	engine.RegisterSignature("c06-parseint-negzero", sigParseIntNegZero)
	engine.RegisterSignature("c06-parseint-float-accumulation", sigParseIntAccum)
	engine.RegisterSignature("c06-literal-int64-leak", sigLiteralLeak)
	engine.RegisterSignature("c06-literal-bighex-accumulation", sigLiteralHexAccum)
	engine.RegisterSignature("c06-lexer-cr-peek", sigLexerCRPeek)
	engine.RegisterSignature("c06-number-this-tonumber", sigThisToNumber)
	engine.RegisterSignature("c06-literal-key-source-text", sigLiteralKeySource)
	engine.RegisterSignature("c06-json-int64-digits", sigJSONInt64Digits)
}

func auxFloat(m *engine.Mismatch, k string) (float64, bool) {
	s, ok := m.Aux[k]
	if !ok || len(s) != 16 {
		return 0, false
	}
	b, err := strconv.ParseUint(s, 16, 64)
	if err != nil {
		return 0, false
	}
	return math.Float64frombits(b), true
}

func finiteNonZero(x float64) bool { return !math.IsNaN(x) && !math.IsInf(x, 0) && x != 0 }
func isNegZero(x float64) bool     { return x == 0 && math.Signbit(x) }

// --- String(x): layout chosen from math.Log10 instead of the digit exponent n

func sigToStringLayout(m *engine.Mismatch) bool {
	op := m.Aux["op"]
	prefix := ""
	switch op {
	case "String", "roundtrip":
	case "toPrecision":
		// toPrecision(undefined) is ToString(x) (15.7.4.7 step 2)
		if m.Aux["undef"] != "true" {
			return false
		}
		prefix = "s:"
	case "toString":
		// toString(undefined) and toString(10) are ToString(x) (15.7.4.2)
		if a, ok := auxFloat(m, "argnum"); m.Aux["undef"] != "true" && !(ok && num.ToInteger(a) == 10) {
			return false
		}
		prefix = "s:"
	default:
		return false
	}
	x, ok := auxFloat(m, "x")
	if !ok || !finiteNonZero(x) {
		return false
	}
	sign := ""
	if x < 0 {
		sign = "-"
		x = -x
	}
	s, n := num.Shortest(x)
	s = bytes.TrimRight(s, "0")
	// the alternative model: otto's criterion is math.Log10(|x|) >= 21 || < -6
	// where ES5 asks n > 21 || n <= -6; it is accepted only where the two differ,
	// i.e. where the floating-point logarithm rounds onto the threshold.
	l := math.Log10(x)
	goExp := l >= 21 || l < -6
	specExp := n > 21 || n <= -6
	if goExp == specExp {
		return false
	}
	var alt string
	switch {
	case goExp && n == 21: // ES5: fixed notation; observed exponent notation
		alt = string(s[:1])
		if len(s) > 1 {
			alt += "." + string(s[1:])
		}
		alt += "e+20"
	case !goExp && n == -6: // ES5: exponent notation; observed fixed notation
		alt = "0.000000" + string(s)
	default:
		return false
	}
	alt = sign + alt
	if op != "roundtrip" {
		return m.Observed == prefix+alt
	}
	if sign == "-" {
		x = -x
	}
	return m.Observed == numStr(x, alt)
}

// --- toFixed

func fixedArg(m *engine.Mismatch) (x, f float64, ok bool) {
	if m.Aux["op"] != "toFixed" {
		return
	}
	x, ok1 := auxFloat(m, "x")
	a, ok2 := auxFloat(m, "argnum")
	if !ok1 || !ok2 {
		return
	}
	f = num.ToInteger(a)
	if f < 0 || f > 20 {
		return
	}
	return x, f, true
}

func sigToFixedHalfEven(m *engine.Mismatch) bool {
	x, f, ok := fixedArg(m)
	if !ok || !finiteNonZero(x) {
		return false
	}
	up, even := num.ToFixedMode(x, f, num.HalfUp), num.ToFixedMode(x, f, num.HalfEven)
	return up.S != even.S && m.Expected == up.String() && m.Observed == even.String()
}

func sigToFixedNegZero(m *engine.Mismatch) bool {
	x, _, ok := fixedArg(m)
	if !ok || !isNegZero(x) {
		return false
	}
	return strings.HasPrefix(m.Expected, "s:0") && m.Observed == "s:-"+m.Expected[2:]
}

// --- toExponential

func expArg(m *engine.Mismatch, op string) (x, a float64, undef, ok bool) {
	if m.Aux["op"] != op {
		return
	}
	x, ok1 := auxFloat(m, "x")
	a, ok2 := auxFloat(m, "argnum")
	if !ok1 || !ok2 {
		return
	}
	return x, a, m.Aux["undef"] == "true", true
}

func sigToExpPadding(m *engine.Mismatch) bool {
	x, a, undef, ok := expArg(m, "toExponential")
	if !ok || math.IsNaN(x) || math.IsInf(x, 0) {
		return false
	}
	spec := num.ToExponentialMode(x, a, undef, num.HalfUp, false)
	padded := num.ToExponentialMode(x, a, undef, num.HalfUp, true)
	return spec.Err == "" && m.Expected == spec.String() && m.Observed == padded.String() && spec.S != padded.S
}

func sigToExpHalfEven(m *engine.Mismatch) bool {
	x, a, undef, ok := expArg(m, "toExponential")
	if !ok || !finiteNonZero(x) || undef {
		return false
	}
	up := num.ToExponentialMode(x, a, undef, num.HalfUp, true)
	even := num.ToExponentialMode(x, a, undef, num.HalfEven, true)
	return up.Err == "" && up.S != even.S && m.Observed == even.String()
}

// goPrec is the precision otto hands to strconv: int(ToInteger(arg)); the
// conversion of +Inf yields a negative int on amd64, i.e. "shortest".
func goPrec(a float64, undef bool) int {
	if undef {
		return -1
	}
	f := num.ToInteger(a)
	if math.IsInf(f, 1) || f > 1e9 {
		return -1
	}
	return int(f)
}

// sigToExpEdge: receiver +-Infinity or -0, or fractionDigits > 20: otto only
// checks "fractionDigits < 0" and then calls strconv.FormatFloat(x, 'e', f, 64).
func sigToExpEdge(m *engine.Mismatch) bool {
	x, a, undef, ok := expArg(m, "toExponential")
	if !ok || math.IsNaN(x) {
		return false
	}
	f := num.ToInteger(a)
	if !(math.IsInf(x, 0) || isNegZero(x) || (!undef && f > 20)) {
		return false
	}
	if !undef && f < 0 {
		return m.Observed == "E:RangeError"
	}
	return m.Observed == "s:"+strconv.FormatFloat(x, 'e', goPrec(a, undef), 64)
}

// --- toPrecision

// sigToPrecisionG: finite receiver, precision 1..21: observed is Go's %g
// (trailing zeros dropped, exponent form for e < -4 instead of e < -6, two-digit
// exponent, ties to even).
func sigToPrecisionG(m *engine.Mismatch) bool {
	x, a, undef, ok := expArg(m, "toPrecision")
	if !ok || undef || math.IsNaN(x) || math.IsInf(x, 0) {
		return false
	}
	p := num.ToInteger(a)
	if p < 1 || p > 21 {
		return false
	}
	if x == 0 {
		x = 0 // -0 formatted as 0 (the sign of -0 itself is F-C06-008)
	}
	return m.Observed == "s:"+strconv.FormatFloat(x, 'g', int(p), 64)
}

// sigToPrecisionEdge: receiver +-Infinity or -0, or precision > 21.
func sigToPrecisionEdge(m *engine.Mismatch) bool {
	x, a, undef, ok := expArg(m, "toPrecision")
	if !ok || undef || math.IsNaN(x) {
		return false
	}
	p := num.ToInteger(a)
	if !(math.IsInf(x, 0) || isNegZero(x) || p > 21) {
		return false
	}
	if p < 1 {
		return m.Observed == "E:RangeError"
	}
	return m.Observed == "s:"+strconv.FormatFloat(x, 'g', goPrec(a, undef), 64)
}

// --- toString(radix) of integers beyond int64: strconv.FormatInt(int64(x), radix)
// with the out-of-range conversion yielding math.MinInt64 (amd64).

func sigRadixInt64(m *engine.Mismatch) bool {
	if m.Aux["op"] != "toString" {
		return false
	}
	x, ok1 := auxFloat(m, "x")
	a, ok2 := auxFloat(m, "argnum")
	if !ok1 || !ok2 || math.IsNaN(x) || math.IsInf(x, 0) || math.Abs(x) < 9223372036854775808 {
		return false
	}
	r := num.ToInteger(a)
	if r < 2 || r > 36 || r == 10 {
		return false
	}
	return m.Observed == "s:"+strconv.FormatInt(math.MinInt64, int(r))
}

// --- Number(s) / +s: the pre-fix algorithm (trim, then strconv with Go syntax)

const ottoTrimSet = "\u0009\u000A\u000B\u000C\u000D\u0020\u00A0\u1680\u180E\u2000\u2001\u2002\u2003\u2004\u2005\u2006\u2007\u2008\u2009\u200A\u2028\u2029\u202F\u205F\u3000\uFEFF"

func goParseNumber(s string) float64 {
	v := strings.Trim(s, ottoTrimSet)
	if v == "" {
		return 0
	}
	hexPrefix := len(v) >= 2 && v[0] == '0' && (v[1] == 'x' || v[1] == 'X')
	if strings.ContainsRune(v, '.') || !hexPrefix {
		n, err := strconv.ParseFloat(v, 64)
		if err != nil && !errors.Is(err, strconv.ErrRange) {
			return math.NaN()
		}
		return n
	}
	n, err := strconv.ParseInt(v, 0, 64)
	if err != nil {
		return math.NaN()
	}
	return float64(n)
}

func textOp(m *engine.Mismatch, ops ...string) (string, bool) {
	s, ok := m.Aux["s"]
	if !ok {
		return "", false
	}
	for _, o := range ops {
		if m.Aux["op"] == o {
			return s, true
		}
	}
	return "", false
}

// sigToNumberGoSyntax: the string is not a StringNumericLiteral (expected NaN) but
// Go's strconv syntax accepts it: underscores, inf/infinity/nan in any case,
// hexadecimal floats with a p exponent.
func sigToNumberGoSyntax(m *engine.Mismatch) bool {
	s, ok := textOp(m, "Number", "+", "-0", "*1")
	if !ok || !isNaNStr(m.Expected) {
		return false
	}
	v := goParseNumber(s)
	return !math.IsNaN(v) && m.Observed == expNum(v)
}

// sigToNumberBigHex: a HexIntegerLiteral of 2^63 or more is rejected (NaN)
// because strconv.ParseInt(s, 0, 64) reports a range error.
func sigToNumberBigHex(m *engine.Mismatch) bool {
	s, ok := textOp(m, "Number", "+", "-0", "*1")
	if !ok || !isNaNStr(m.Observed) {
		return false
	}
	v := strings.Trim(s, ottoTrimSet)
	if len(v) < 3 || v[0] != '0' || (v[1] != 'x' && v[1] != 'X') {
		return false
	}
	n, ok := new(big.Int).SetString(v[2:], 16)
	if !ok || v[2] == '+' || v[2] == '-' {
		return false
	}
	return n.BitLen() >= 64 && m.Expected == expNum(num.StringToNumber(s))
}

// --- parseFloat: the pre-fix algorithm (regexp filter, strconv.ParseFloat on the
// whole string, then on ever shorter prefixes)

var (
	oldBadSpecial = regexp.MustCompile(`[\+\-]?(?:[Ii]nf$|infinity)`)
	oldValid      = regexp.MustCompile(`[0-9eE\+\-\.]|Infinity`)
)

func goParseFloat(s string) float64 {
	input := strings.Trim(s, ottoTrimSet)
	if oldBadSpecial.MatchString(input) {
		return math.NaN()
	}
	value, err := strconv.ParseFloat(input, 64)
	if err != nil {
		for end := len(input); end > 0; end-- {
			val := input[0:end]
			if !oldValid.MatchString(val) {
				return math.NaN()
			}
			value, err = strconv.ParseFloat(val, 64)
			if err == nil {
				break
			}
		}
		if err != nil {
			return math.NaN()
		}
	}
	return value
}

func sigParseFloatOld(m *engine.Mismatch) bool {
	s, ok := textOp(m, "parseFloat")
	if !ok {
		return false
	}
	return m.Observed == expNum(goParseFloat(s))
}

// --- parseInt

func parseIntCase(m *engine.Mismatch) (neg bool, n *big.Int, R int, ok bool) {
	s, ok1 := textOp(m, "parseInt")
	rad, ok2 := auxFloat(m, "radixnum")
	if !ok1 || !ok2 {
		return
	}
	neg, ds, R := num.ParseIntDigits(s, rad)
	if len(ds) == 0 {
		return
	}
	n = new(big.Int)
	for _, d := range ds {
		n.Mul(n, big.NewInt(int64(R)))
		n.Add(n, big.NewInt(int64(d)))
	}
	return neg, n, R, true
}

var (
	two53 = new(big.Int).Lsh(big.NewInt(1), 53)
	two63 = new(big.Int).Lsh(big.NewInt(1), 63)
)

// sigParseIntLeak: 2^53 < |integer| < 2^63: the result is an int64 inside the
// Number: its double value is right, its string shows all the int64 digits.
func sigParseIntLeak(m *engine.Mismatch) bool {
	neg, n, _, ok := parseIntCase(m)
	if !ok || n.Cmp(two53) <= 0 || n.Cmp(two63) >= 0 {
		return false
	}
	v := num.RoundRatio(n, big.NewInt(1))
	text := n.String()
	if neg {
		v = -v
		text = "-" + text
	}
	return m.Observed == numStr(v, text)
}

func sigParseIntNegZero(m *engine.Mismatch) bool {
	neg, n, _, ok := parseIntCase(m)
	if !ok || !neg || n.Sign() != 0 {
		return false
	}
	return m.Expected == expNum(math.Copysign(0, -1)) && m.Observed == expNum(0)
}

// sigParseIntAccum: the integer does not fit an int64: otto sums value*R+digit in
// float64, rounding at every step.
func sigParseIntAccum(m *engine.Mismatch) bool {
	s, ok1 := textOp(m, "parseInt")
	rad, ok2 := auxFloat(m, "radixnum")
	if !ok1 || !ok2 {
		return false
	}
	neg, ds, R := num.ParseIntDigits(s, rad)
	_, n, _, ok := parseIntCase(m)
	if !ok || n.Cmp(two63) < 0 {
		return false
	}
	v := 0.0
	for _, d := range ds {
		v = v*float64(R) + float64(d)
	}
	if neg {
		v = -v
	}
	return m.Observed == expNum(v)
}

// --- numeric literals

// literalInteger recognises [ws][sign] (DecimalDigits | 0x HexDigits) [ws].
func literalInteger(src string) (neg bool, n *big.Int, hex bool, ok bool) {
	s := strings.TrimFunc(src, num.IsStrWhiteSpaceChar)
	if strings.HasPrefix(s, "-") {
		neg = true
		s = s[1:]
	} else if strings.HasPrefix(s, "+") {
		s = s[1:]
	}
	base := 10
	if len(s) > 2 && s[0] == '0' && (s[1] == 'x' || s[1] == 'X') {
		base, hex, s = 16, true, s[2:]
	}
	if s == "" || s[0] == '+' || s[0] == '-' || strings.Contains(s, "_") {
		return
	}
	n, ok = new(big.Int).SetString(s, base)
	return neg, n, hex, ok
}

func sigLiteralLeak(m *engine.Mismatch) bool {
	s, ok := textOp(m, "literal")
	if !ok {
		return false
	}
	neg, n, _, ok := literalInteger(s)
	if !ok || n.Cmp(two53) <= 0 || n.Cmp(two63) >= 0 {
		return false
	}
	v := num.RoundRatio(n, big.NewInt(1))
	if !neg {
		return m.Observed == numStr(v, n.String())
	}
	// unary minus converts to a double: no leak expected behind a sign
	return false
}

func sigLiteralHexAccum(m *engine.Mismatch) bool {
	s, ok := textOp(m, "literal")
	if !ok {
		return false
	}
	neg, n, hex, ok := literalInteger(s)
	if !ok || !hex || n.Cmp(two63) < 0 {
		return false
	}
	t := strings.TrimFunc(s, num.IsStrWhiteSpaceChar)
	t = strings.TrimLeft(t, "+-")[2:]
	v := 0.0
	for _, c := range t {
		v = v*16 + float64(num.DigitVal(c))
	}
	if neg {
		v = -v
	}
	return m.Observed == expNum(v)
}

// sigLexerCRPeek: the program is CR, one character, LF: the lexer's peek() looks
// two characters ahead, takes "\r?\n" for a CR LF pair and swallows the character
// in between: the literal disappears and the program evaluates to undefined.
func sigLexerCRPeek(m *engine.Mismatch) bool {
	s, ok := textOp(m, "literal")
	if !ok {
		return false
	}
	r := []rune(s)
	return len(r) == 3 && r[0] == '\r' && r[2] == '\n' && m.Observed == "T:u"
}

// sigThisToNumber: the receiver is a Number object with an own valueOf returning 7
// and an own toString returning "9": toFixed / toExponential / toPrecision read
// "this Number value" with ToNumber(this) (resp. ToString(this) for
// toPrecision(undefined)) instead of the [[PrimitiveValue]]. Observed equals what
// the same call gives on the receiver 7 (including the open Go-format deviations
// of toExponential / toPrecision).
func sigThisToNumber(m *engine.Mismatch) bool {
	if m.Aux["recv"] != "2" {
		return false
	}
	a, ok := auxFloat(m, "argnum")
	if !ok {
		return false
	}
	undef := m.Aux["undef"] == "true"
	f := num.ToInteger(a)
	switch m.Aux["op"] {
	case "toFixed":
		return m.Observed == num.ToFixed(7, a).String()
	case "toExponential":
		if !undef && (f < 0 || f > 20) {
			return m.Observed == "E:RangeError"
		}
		return m.Observed == "s:"+strconv.FormatFloat(7, 'e', goPrec(a, undef), 64)
	case "toPrecision":
		if undef {
			return m.Observed == "s:9"
		}
		if f < 1 || f > 21 {
			return m.Observed == "E:RangeError"
		}
		return m.Observed == "s:"+strconv.FormatFloat(7, 'g', int(f), 64)
	}
	return false
}

// sigLiteralKeySource: a NumericLiteral used as a property name in an object
// initialiser names the property by its source text instead of ToString of its
// value.
func sigLiteralKeySource(m *engine.Mismatch) bool {
	s, ok := textOp(m, "literalkey")
	return ok && m.Observed == "s:"+s
}

// sigJSONInt64Digits: JSON.stringify of a Number that is an integer with
// 2^53 < |n| < 2^63 goes through Value.number() -> int64 -> encoding/json and
// prints all the integer's digits instead of ToString of the double.
func sigJSONInt64Digits(m *engine.Mismatch) bool {
	if m.Aux["op"] != "JSON" {
		return false
	}
	x, ok := auxFloat(m, "x")
	exact, ok2 := new(big.Int).SetString(m.Aux["exact"], 10)
	if !ok || !ok2 {
		return false
	}
	abs := new(big.Int).Abs(exact)
	// 2^53 < |n| < 2^63, and -2^63 itself (math.MinInt64 is still an int64)
	if abs.Cmp(two53) <= 0 || abs.Cmp(two63) > 0 || (abs.Cmp(two63) == 0 && exact.Sign() > 0) {
		return false
	}
	want := num.ToString(x)
	return strings.Contains(m.Expected, want) && m.Observed == strings.Replace(m.Expected, want, exact.String(), 1) && m.Observed != m.Expected
}
