package c06

import (
	"math"
	"math/big"
	"strconv"
	"strings"

	"verif/mc/ref/num"
)

// The near-miss alphabet of the design: digits, point, exponent markers, signs,
// hex markers, underscore, the letters of Infinity/inf/NaN prefixes and a space.
var alphabet16 = []string{"0", "1", "9", ".", "e", "E", "+", "-", "x", "X", "_", "I", "n", "f", "a", " "}

// every ES5 WhiteSpace (7.2: TAB VT FF SP NBSP BOM + category Zs) and LineTerminator
// (7.3: LF CR LS PS) code point, then near misses that must NOT be trimmed
var wsChars = []string{"", " ", "\t", "\n", "\v", "\f", "\r", "\u00a0", "\ufeff", "\u2028", "\u2029", "\u180e", "\u1680",
	"\u2000", "\u2001", "\u2002", "\u2003", "\u2004", "\u2005", "\u2006", "\u2007", "\u2008", "\u2009", "\u200a", "\u202f", "\u205f", "\u3000",
	// not white space:
	"a", "\u200b", "\u0085", "\u2060", "\u200c", "\u200d", "\u001c", "\u001f", "\u00ad", "\ufffe", "\u2800", "\u303f", "0"}

var validLiterals = []string{"0", "1", "10", "1.5", "-1.5", "+1.5", ".5", "5.", "1e5", "1E5", "1e+5", "1e-5", "1.5e10", "-.5e-3", "0x1f", "0X1F", "0xff",
	"Infinity", "-Infinity", "+Infinity", "  12  ", "123456789", "0.000001", "1e21", "1e-7", "9007199254740993", "0x10000000000000000", "00", "1.0e0", "-0", "+0", "0.0",
	"1e308", "1e309", "5e-324", "\t1\n", "1.", "0.", "12e3", "0e0", "0x0", "-0x1", "1e0001", "0.5e+00", "19", "91", "0.1e-1", "1.e1", ".0", "-.0",
	"0xABCDEF", "0xabcdef", "1234.5678", "1e+308", "17976931348623157e292", "4.9e-324", "0.00000000000000000001", "100000000000000000000", "1e1", "9e9"}

var editAlphabet = append(append([]string(nil), alphabet16...), "p", "$", "\u0663", "\u00a0", "8", "F")

var specials = []string{"Infinity", "infinity", "INFINITY", "Inf", "inf", "INF", "+inf", "-inf", "+Infinity", "-Infinity", "Infinityx", "Infinit", "Infinity1", "-Infinityx", "InfinityInfinity", "+ Infinity",
	"1infinity", "1inf", "xinf", "NaN", "nan", "+NaN", "-nan", "NAN", "1_0", "1_000", "1__0", "_1", "1_", "0x_1", "0x1_0", "0_1", "1e1_0", "1._5", "1_.5",
	"0b1", "0o7", "0B1", "0O7", "0b", "0o", "0b2", "0o8", "\u0661", "\uff11", "1,5", "1,000", "1 2", "1e 5", "1 e5", "- 1", "+ 1", "--1", "+-1", "-+1", "++1", "0x-1", "0x+1",
	"1f", "1d", "1L", "1n", "0x1n", "1u", ".", "+.", "-.", "e", "e5", ".e5", "+", "-", "++", "0x", "0X", "x1", "1x", "0x1x", "1e5e5", "1.2.3", "1..2", "0.0.0", "1e5.5", "0x1g", "0xg",
	"0x1p3", "0x1.8p1", "0X1P3", "0x1p-2", "0x.8p1", "0x1.p1", "0x1p", "0x1.8", "0x.1", "1p3", "0x1e3", "0x1E3", "-0x10", "+0x10", "-0X1f", "0x00", "00x1", "0x0x1",
	"1e", "1e+", "1e-", "1E", "1.e", "1.e+", ".5e", "1e1e", "1ee1", "1e++1", "1e+-1", "1.5.", "1.5e1.5", ".5.5", "5..", "..5", "5.e5", "5.e", "5.5e+",
	"010", "08", "09", "0777", "00", "000", "-00", "0.", "00.5", "0e", "1e010", "1e+010", "-0", "+0", "-0.0", "-0e0", "-.0", "-0x0", "0e-400", "-1e-400", "-0e400",
	"true", "null", "undefined", "[]", "{}", "1;", "1/1", "1+1", "(1)", "'1'", "\"1\"", "1\x00", "\x001", "1\\", "\\u0031", "\u0967", "\U0001d7cf", "1\u0300", "\u2167", "\u00bd", "\u00b2"}

// forStrings enumerates the text alphabet of the tier. key is unique per string
// within the enumeration (generator tag + quoted string).
func forStrings(thorough bool, maxLen int, f func(key, s string)) {
	emit := func(tag string) func(s string) {
		seen := map[string]struct{}{}
		return func(s string) {
			if _, ok := seen[s]; ok {
				return
			}
			seen[s] = struct{}{}
			f(tag+":"+strconv.QuoteToASCII(s), s)
		}
	}
	// S: near-miss words
	es := emit("S")
	for _, s := range specials {
		es(s)
	}
	// V/E: valid literals and every single-character edit of them
	ee := emit("E")
	for _, v := range validLiterals {
		ee(v)
		rs := []rune(v)
		for i := range rs {
			ee(string(rs[:i]) + string(rs[i+1:])) // deletion
			for _, a := range editAlphabet {
				ee(string(rs[:i]) + a + string(rs[i+1:])) // substitution
			}
			if i+1 < len(rs) {
				t := append([]rune(nil), rs...)
				t[i], t[i+1] = t[i+1], t[i]
				ee(string(t)) // transposition
			}
		}
		for i := 0; i <= len(rs); i++ {
			for _, a := range editAlphabet {
				ee(string(rs[:i]) + a + string(rs[i:])) // insertion
			}
		}
	}
	// W: white-space wrappings and interior white space
	ew := emit("W")
	for _, core := range []string{"1", "-1.5e3", "0x1f", "Infinity", ".5", ""} {
		for _, l := range wsChars {
			for _, t := range wsChars {
				ew(l + core + t)
			}
		}
	}
	for _, w := range wsChars {
		ew("1" + w + "2")
		ew("-" + w + "1")
		ew("1" + w + "e5")
		ew("0" + w + "x1")
		ew(w + w + "7" + w + w)
	}
	// A: characters that alias digits or letters under bit tricks (|0x20, &^0x20,
	// -0x40, |0x80, +0x100), the +-1 neighbours of every digit/letter range, and
	// the Unicode digits / case-folding specials, placed after, before and between
	// valid digits of every radix class
	ea := emit("A")
	for _, core := range aliasCores {
		rs := []rune(core)
		for _, a := range aliasChars() {
			ea(core + string(a))
			ea(string(a) + core)
			if len(rs) > 1 {
				ea(string(rs[:len(rs)-1]) + string(a) + string(rs[len(rs)-1:]))
				ea(string(rs[:1]) + string(a) + string(rs[1:]))
			}
		}
	}
	// T: rounding ties and range boundaries written out as decimal strings
	et := emit("T")
	for _, s := range tieStrings() {
		et(s)
		et("-" + s)
	}
	// H: long integers (parseInt, hex) around 2^53, 2^63, 2^64 with tie patterns
	eh := emit("H")
	for _, s := range bigIntStrings() {
		eh(s)
	}
	// G: the grammar product  sign x mantissa form x exponent part
	eg := emit("G")
	ints := []string{"0", "1", "9", "00", "10", "01", "17976931348623157", "9007199254740993", "123456789012345678901234567890"}
	fracs := []string{"0", "1", "5", "9", "00", "05", "10", "000001", "17976931348623157", "99999999999999999999999"}
	exps := []string{"", "e0", "e1", "E1", "e+1", "e-1", "e01", "e21", "e-7", "e292", "e293", "e308", "e309", "e-323", "e-324", "e-325", "e-340", "e400", "e-400",
		"e99999999999999999999", "e-99999999999999999999", "e", "e+", "e-", "E", "e1.5", "e+-1", "ee1", "e1e1", "e1x"}
	if !thorough {
		ints = ints[:7]
		fracs = []string{"0", "5", "00", "05", "000001", "17976931348623157"}
	}
	var mants []string
	for _, i := range ints {
		mants = append(mants, i, i+".")
		for _, fr := range fracs {
			mants = append(mants, i+"."+fr)
		}
	}
	for _, fr := range fracs {
		mants = append(mants, "."+fr)
	}
	mants = append(mants, ".", "")
	for _, sg := range []string{"", "+", "-"} {
		for _, m := range mants {
			for _, x := range exps {
				eg(sg + m + x)
			}
		}
	}
	// L: every string up to length L over the 16-character alphabet
	buf := make([]int, 0, maxLen)
	var rec func()
	rec = func() {
		var sb strings.Builder
		for _, i := range buf {
			sb.WriteString(alphabet16[i])
		}
		s := sb.String()
		f("L:"+s, s)
		if len(buf) == maxLen {
			return
		}
		for i := range alphabet16 {
			buf = append(buf, i)
			rec()
			buf = buf[:len(buf)-1]
		}
	}
	rec()
}

func decString(d num.Dec) []string {
	ds := string(d.Digits)
	out := []string{"0." + ds + "e" + strconv.Itoa(d.Exp), "." + ds + "E+" + strconv.Itoa(d.Exp)}
	if d.Exp < 0 {
		out = []string{"0." + ds + "e" + strconv.Itoa(d.Exp)}
	}
	if d.Exp > 0 && d.Exp < len(ds) {
		out = append(out, ds[:d.Exp]+"."+ds[d.Exp:])
	}
	if d.Exp >= len(ds) && d.Exp < 400 {
		out = append(out, ds+strings.Repeat("0", d.Exp-len(ds)))
	}
	out = append(out, ds+"e"+strconv.Itoa(d.Exp-len(ds)))
	return out
}

// midpoint returns the exact decimal expansion of the midpoint between x and
// the next double above it (x > 0 finite).
func midpoint(x float64) num.Dec {
	m, e := num.Split(x)
	return num.DecOf(new(big.Int).SetUint64(2*m+1), e-1)
}

func tieStrings() []string {
	out := []string{"1.7976931348623157e308", "1.7976931348623158e308", "1.7976931348623159e308", "1.797693134862315807e308", "1.797693134862315808e308", "1.8e308", "2e308",
		"4.9e-324", "5e-324", "4e-324", "3e-324", "2.5e-324", "2.4e-324", "2.4703282292062327e-324", "2.4703282292062328e-324", "2.47032822920623272e-324", "2.47032822920623273e-324",
		"2.2250738585072011e-308", "2.2250738585072012e-308", "2.2250738585072014e-308", "2.225073858507201e-308", "1e23", "9.999999999999999e22", "8.41e21", "0.1", "0.3", "0.30000000000000004",
		"1e21", "1e-7", "123456789012345680000", "9007199254740993", "9007199254740993.0", "9007199254740993.000000000000000000000001", "9007199254740992.999999999999999999999999",
		"9007199254740995", "9007199254740994.99999", "9007199254740995.00001", "0.500000000000000166533453693773481063544750213623046875", "1.00000000000000011102230246251565404236316680908203125",
		"1.00000000000000011102230246251565404236316680908203124", "1.00000000000000011102230246251565404236316680908203126", "100000000000000000000000000000000000000000000000000000000000000000000000000000000000000000e-90",
		"0." + strings.Repeat("0", 400) + "1e401", "1" + strings.Repeat("0", 400) + "e-400", "0." + strings.Repeat("0", 330) + "1", "1" + strings.Repeat("0", 310),
		"179769313486231570814527423731704356798070567525844996598917476803157260780028538760589558632766878171540458953514382464234321326889464182768467546703537516986049910576551282076245490090389328944075868508455133942304583236903222948165808559332123348274797826204144723168738177180919299881250404026184124858368"}
	for _, x := range []float64{1, 0.5, 9007199254740992, math.Ldexp(1, 80), 1e22, 0.1, 5e-324, 2.2250738585072014e-308, math.Nextafter(2.2250738585072014e-308, 0), math.MaxFloat64, math.Nextafter(math.MaxFloat64, 0), 1e-7, 123.456, 1e300, 3e-310} {
		mid := midpoint(x)
		below := num.Dec{Digits: append([]byte(nil), mid.Digits...), Exp: mid.Exp}
		below.Digits[len(below.Digits)-1]-- // last digit of a midpoint is 5: becomes 4
		above := num.Dec{Digits: append(append([]byte(nil), mid.Digits...), '1'), Exp: mid.Exp}
		for _, d := range []num.Dec{mid, below, above} {
			out = append(out, decString(d)...)
		}
	}
	// half of the smallest subnormal: ties to even -> 0
	half := num.DecOf(big.NewInt(1), -1075)
	out = append(out, decString(half)...)
	out = append(out, decString(num.Dec{Digits: append(append([]byte(nil), half.Digits...), '1'), Exp: half.Exp})...)
	return out
}

func bigIntStrings() []string {
	out := []string{"9007199254740991", "9007199254740992", "9007199254740993", "9007199254740994", "9007199254740995", "9007199254740997",
		"9223372036854775807", "9223372036854775808", "9223372036854775809", "-9223372036854775808", "-9223372036854775809", "9223372036854776832", "9223372036854776833",
		"18446744073709551615", "18446744073709551616", "18446744073709550592", "18446744073709550591", "18446744073709550593", "18446744073709549568",
		"99999999999999999999", "100000000000000000000", "100000000000000000001", "123456789012345678901", "1234567890123456789012345678901234567890",
		"100000000000000000000000000000000000000000000000000000000000000000000000000000000000000000000000000000000000000000000000000000000000000000000000000000000000000000000000000000000000000000000000000000000000000000000000000000000000000000000000000000000000000000000000000000000000000000000000000000000000000000000000000000",
		"0x8000000000000000", "0x7fffffffffffffff", "0xffffffffffffffff", "0x10000000000000000", "0x20000000000001", "0x20000000000002", "0x20000000000003", "0x1fffffffffffff",
		"1" + strings.Repeat("0", 52) + "1", "1" + strings.Repeat("0", 51) + "11", "1" + strings.Repeat("0", 52) + "11", "1" + strings.Repeat("1", 63), "1" + strings.Repeat("1", 52) + "0",
		strings.Repeat("7", 30), strings.Repeat("z", 13), strings.Repeat("z", 20), "1" + strings.Repeat("0", 30)}
	for _, base := range []string{"8000000000000", "fffffffffffff", "8000000000001", "a5a5a5a5a5a5a", "FFFFFFFFFFFFE"} {
		for _, tail := range []string{"000", "3ff", "400", "401", "7ff", "800", "801", "bff", "c00", "C01", "fff"} {
			for _, ext := range []string{"", "0", "1", "00", "f"} {
				out = append(out, base+tail+ext, "0x"+base+tail+ext, "-0x"+base+tail+ext)
			}
		}
	}
	return out
}

// strings for the all-radix sweep of parseInt
var radixSweep = []string{"0", "1", "10", "11", "z", "Z", "zz", "9", "a", "A", "1z", "-10", "+10", "0x10", "0X1f", "  10", "10.5", "1e3", "123456789abcdefghijklmnopqrstuvwxyz",
	"ZYXWVUTSRQPONMLKJIHGFEDCBA9876543210", "100000000000000000000", "9007199254740993", "18446744073709551616", "ffffffffffffffff", "-0", "", "-", "0x", "0x0", "-0x", "g", "G", "2", "7", "8", "f", "v", "w",
	"1" + strings.Repeat("0", 52) + "1", "10000000000000000000000000000000000000000000000000000", "20000000000000", "-zz", "1_0", "1 0", "00", "007", "\uff10", "1\uff10"}

var aliasCores = []string{"7", "10", "1f", "0x1f", "z", "zz", "9", "0", "-5", "1.5", "1e5", "Infinity", "0xfffffffffffffffffff", "101", "77", "0X1F", "+12"}

func aliasChars() []rune {
	var l []rune
	add := func(lo, hi rune) {
		for c := lo; c <= hi; c++ {
			l = append(l, c)
		}
	}
	add(0x00, 0x1F)                                                                                               // '0'..'9' &^ 0x20 = U+0010..19; 'A'..'Z' - 0x40 = U+0001..1A
	l = append(l, '/', ':', '@', '[', '`', '{', 'G', 'g', 'Z', 'z', '_', '$', 0x7F)                               // +-1 neighbours of the digit and letter ranges
	add(0xB0, 0xB9)                                                                                               // digits | 0x80
	l = append(l, 0xC1, 0xC6, 0xDA, 0xE1, 0xE6, 0xFA)                                                             // letters | 0x80
	add(0x130, 0x139)                                                                                             // digits + 0x100 (U+0130 is also the dotted capital I, U+0131 the dotless i)
	l = append(l, 0x141, 0x146, 0x161, 0x166, 0x17F, 0x212A, 0x212B)                                              // letters + 0x100, long s, Kelvin, Angstrom
	add(0x660, 0x669)                                                                                             // Arabic-Indic digits
	add(0x6F0, 0x6F9)                                                                                             // extended Arabic-Indic digits
	add(0x966, 0x96F)                                                                                             // Devanagari digits
	add(0xFF10, 0xFF19)                                                                                           // full-width digits
	l = append(l, 0xFF21, 0xFF26, 0xFF3A, 0xFF41, 0xFF46, 0xFF5A, 0xFF38, 0xFF58, 0xFF0B, 0xFF0D, 0xFF0E, 0xFF45) // full-width letters, x, signs, point, e
	l = append(l, 0x2070, 0x00B2, 0x2080, 0x2460, 0x1D7CE, 0x1D7D8)                                               // superscript/subscript/circled/mathematical digits
	return l
}
