package c06

import (
	"math"

	"verif/mc/ref/num"
)

// mantissa patterns of the lattice (52-bit fraction fields)
const allOnes = uint64(1)<<52 - 1

func splitmix(n int) []uint64 {
	// fixed constants generated once by SplitMix64 from a fixed seed: a
	// deterministic stand-in for "arbitrary bit patterns" (not sampling: the list
	// is part of the stated alphabet and identical on every run)
	s := uint64(0x9E3779B97F4A7C15)
	out := make([]uint64, n)
	for i := range out {
		s += 0x9E3779B97F4A7C15
		z := s
		z = (z ^ (z >> 30)) * 0xBF58476D1CE4E5B9
		z = (z ^ (z >> 27)) * 0x94D049BB133111EB
		z ^= z >> 31
		out[i] = z & allOnes
	}
	return out
}

func mantissas(thorough bool) []uint64 {
	if !thorough {
		sm := splitmix(2)
		return []uint64{0, 1, 2, allOnes, allOnes - 1, 1 << 51, 1<<51 + 1, 1 << 25, 0xAAAAAAAAAAAAA, 0x5555555555555, 0x921FB54442D18, 0x999999999999A,
			math.Float64bits(1e21) & allOnes, math.Float64bits(1e22) & allOnes, sm[0], sm[1]}
	}
	l := []uint64{
		0, 1, 2, 3, 4, 5, 7, 8,
		allOnes, allOnes - 1, allOnes - 2, 1 << 51, 1<<51 + 1, 1<<51 - 1, 1 << 50, 3 << 50,
		1 << 25, 1 << 26, 1<<26 - 1, 1<<26 + 1,
		0xAAAAAAAAAAAAA, 0x5555555555555, 0x3333333333333, 0xCCCCCCCCCCCCC, 0x0F0F0F0F0F0F0, 0xF0F0F0F0F0F0F,
		0x00000FFFFFFFF, 0xFFFFF00000000, 0x0000100000000, 0x00000FFFFFFFE,
		0x921FB54442D18, 0x5BF0A8B145769, 0x6A09E667F3BCD, 0x62E42FEFA39EF, 0x9E3779B97F4A8,
		0x999999999999A, 0x6666666666666, 0x4000000000000, 0x2000000000000, 0xE000000000000,
		math.Float64bits(1e15) & allOnes, math.Float64bits(1e21) & allOnes, math.Float64bits(1e22) & allOnes, math.Float64bits(1e23) & allOnes, // mantissas of powers of ten
		0x7FFFFFFFFFFFF, 0x8000000000001, 0x0000000000010, 0xFFFFFFFFFFFF0,
	}
	l = append(l, splitmix(64-len(l))...)
	return l
}

type doubleSet struct {
	seen map[uint64]struct{}
	f    func(x float64)
}

func (d *doubleSet) add(x float64) {
	b := math.Float64bits(x)
	if math.IsNaN(x) {
		b = 0x7ff8000000000000
		x = math.NaN()
	}
	if _, ok := d.seen[b]; ok {
		return
	}
	d.seen[b] = struct{}{}
	d.f(x)
}

func (d *doubleSet) addPM(x float64) { d.add(x); d.add(-x) }

func ulps(x float64, k int) float64 {
	// x > 0 finite; step k ulps (stays positive and finite for the uses below)
	b := int64(math.Float64bits(x)) + int64(k)
	if b < 0 {
		b = 0
	}
	if b >= 0x7ff0000000000000 {
		b = 0x7fefffffffffffff
	}
	return math.Float64frombits(uint64(b))
}

func decimalDigits(i int) []byte {
	if i == 0 {
		return []byte("0")
	}
	var b []byte
	for i > 0 {
		b = append([]byte{byte('0' + i%10)}, b...)
		i /= 10
	}
	return b
}

// forDoubles enumerates the double alphabet of the tier, simplest first, each
// bit pattern once.
func forDoubles(thorough bool, f func(x float64)) {
	d := &doubleSet{seen: map[uint64]struct{}{}, f: f}
	// specials
	d.add(0)
	d.add(math.Copysign(0, -1))
	d.add(math.NaN())
	d.addPM(math.Inf(1))
	// small integers (ties of toPrecision / toExponential live here: 15, 25, 250, 1005, ...)
	nInt := 2000
	if thorough {
		nInt = 20000
	}
	for i := 1; i <= nInt; i++ {
		d.add(float64(i))
	}
	for i := 1; i <= 200; i++ {
		d.add(-float64(i))
	}
	// half-integers and quarter steps: exact ties of toFixed(0), toFixed(1)
	for i := 0; i <= nInt/2; i++ {
		d.add(float64(i) + 0.5)
		d.add(float64(i) + 0.25)
		d.add(float64(i) + 0.75)
	}
	// exact decimal ties a + k/2^j (k odd): tie of toFixed(j-1), toPrecision, toExponential
	bases := []float64{0, 1, 2, 5, 9, 10, 99, 100, 999, 1000, 123456, 1e6}
	jAll := 5
	if thorough {
		jAll = 10
	}
	for _, a := range bases {
		for j := 1; j <= 21; j++ {
			den := math.Ldexp(1, j)
			if j <= jAll {
				for k := 1; k < 1<<j; k += 2 {
					d.add(a + float64(k)/den)
				}
			} else {
				half := 1 << (j - 1)
				for _, k := range []int{1, 3, 5, half - 1, half + 1, 1<<j - 3, 1<<j - 1} {
					d.add(a + float64(k)/den)
				}
			}
		}
	}
	for j := 1; j <= 21; j++ {
		d.add(-math.Ldexp(1, -j))
		d.add(-(1 + math.Ldexp(1, -j)))
	}
	// near ties: the double nearest to the decimal  i.5 / 10^d  (1.005, 1.45, 8.345 ...)
	for i := 0; i <= nInt; i++ {
		ds := append(decimalDigits(i), '5')
		for dd := 1; dd <= 4; dd++ {
			d.add(num.DecToFloat(ds, -dd))
		}
	}
	// powers of ten and their neighbours
	for k := -324; k <= 308; k++ {
		x := num.DecToFloat([]byte("1"), k)
		if x == 0 {
			x = math.Float64frombits(1)
		}
		for s := -2; s <= 2; s++ {
			y := ulps(x, s)
			if y > 0 {
				d.add(y)
				if thorough || s == 0 {
					d.add(-y)
				}
			}
		}
	}
	// powers of two and their neighbours
	for k := -1074; k <= 1023; k++ {
		x := math.Ldexp(1, k)
		for s := -1; s <= 1; s++ {
			y := ulps(x, s)
			if y > 0 {
				d.add(y)
				if thorough {
					d.add(-y)
				}
			}
		}
	}
	// integer and layout boundaries
	for _, x := range []float64{9007199254740992, 9223372036854775808, 18446744073709551616, 1e21, 999999999999999900000,
		2147483648, 4294967296, 1e-6, 1e-7, 123456789012345680000, math.MaxFloat64, 2.2250738585072014e-308, 4503599627370496, 1e15, 1e16, 1e17, 1e20, 1e22} {
		for s := -4; s <= 4; s++ {
			d.addPM(ulps(x, s))
		}
	}
	for _, x := range []float64{4294967295, 4294967297, 2147483647, 2147483649, 65535, 65536, 1e21 - 65536, 1e21 + 131072, 0.1, 0.2, 0.3, 0.7, 1.1, 1.005, 1.45, 8.345, 1.255, 10.235,
		0.000001, 0.0000001, 0.00000123, 123.456, 1e23, 5e-324, 1.7976931348623157e308, 0.5e-6, 9.5e-7, 9.999999e-7, 0.1 + 0.2} {
		d.addPM(x)
	}
	// the lattice: sign x exponent field x mantissa pattern
	ms := mantissas(thorough)
	for be := uint64(0); be <= 2046; be++ {
		for _, m := range ms {
			if be == 0 && m == 0 {
				continue
			}
			b := be<<52 | m
			d.add(math.Float64frombits(b))
			d.add(math.Float64frombits(b | 1<<63))
		}
	}
}
