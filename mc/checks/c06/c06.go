// Package c06 checks property C06: numbers and their text forms convert exactly
// in both directions. A structured lattice of doubles (all exponents x fixed
// mantissa patterns, power-of-ten / power-of-two neighbourhoods, exact decimal
// ties, integer boundaries) is pushed through String / toString(radix) / toFixed
// / toExponential / toPrecision of the real interpreter, and grammar-derived and
// near-miss strings through Number / unary plus / parseFloat / parseInt / numeric
// literals; every result is compared with the exact reference model ref/num.
package c06

import (
	"encoding/json"
	"fmt"
	"math"
	"os"
	"strings"
	"time"

	"github.com/robertkrimen/otto"

	"verif/mc/engine"
	"verif/mc/ox"
)

func init() {
	engine.Register(&engine.Check{
		ID:    "C06",
		Title: "Numbers and their text forms convert exactly in both directions",
		Rule: "number->text: every double of the lattice {sign} x {all 2047 finite exponent fields} x {mantissa patterns} plus every 10^k and 2^k with its +-1/+-2 ulp neighbours, " +
			"exact decimal ties k/2^j, small integers and the 2^53 / 2^63 / 2^64 / 1e21 boundaries is one case per (double, method): all digit-count arguments of the tier are applied to it; " +
			"a case is non-trivial when the receiver is finite and non-zero and the model result is a digit string (not NaN/Infinity/RangeError). " +
			"text->number: every string of length <= L over the 16-character near-miss alphabet, every string of the StrNumericLiteral grammar product over the stated digit strings, " +
			"every single-character edit of the valid literals, white-space wrappings; every string is handed over in both internal representations (Go string, and UTF-16 backed as String.fromCharCode returns it, which also carries lone surrogates), white space = every ES5 WhiteSpace/LineTerminator code point plus near misses that must not be trimmed; one case per (string, representation, entry point, radix); non-trivial when the model result is not NaN / not SyntaxError.",
		Families: []engine.Family{
			{Name: "tostring", Run: runToString},
			{Name: "radix", Run: runRadix},
			{Name: "tofixed", Run: runToFixed},
			{Name: "toexponential", Run: runToExponential},
			{Name: "toprecision", Run: runToPrecision},
			{Name: "tonumber", Run: runToNumber},
			{Name: "parsefloat", Run: runParseFloat},
			{Name: "parseint", Run: runParseInt},
			{Name: "literal", Run: runLiteral},
			{Name: "literalkey", Run: runLiteralKey},
			{Name: "argkinds", Run: runArgKinds},
			{Name: "recvkinds", Run: runRecvKinds},
			{Name: "gokinds", Run: runGoKinds},
		},
		Assumptions: []string{
			"ref/num is a faithful transcription of ES5.1 9.3.1, 9.8.1, 15.1.2.2-3, 15.7.4.2/5/6/7 and 7.8.3 in exact arithmetic (math/big, exact decimal expansions); it is cross-checked against strconv and big.Rat by its unit tests and, at run time, by the round-trip law and a strconv shortest-digits comparison (a disagreement is a harness error, never a violation)",
			"9.8.1 step 5 is taken with NOTE 2 (closest s, even on a tie) - the reading under which the result is unique, as the property statement says",
			"text->number is asserted as the correctly rounded value (property statement); the '20 significant digits' latitude of 9.3.1/7.8.3/15.1.2.2 is only used for parseInt radix 10, and parseInt with a radix other than 2,4,8,10,16,32 is asserted only below 2^53 (15.1.2.2 step 13 allows an approximation above)",
			"toString(radix != 10) is asserted for integral values only (exact positional digits), as the property statement says; 15.7.4.2 leaves the algorithm implementation-dependent",
			"U+180E counts as white space (category Zs in Unicode 3.0-6.2, the versions ES5 refers to); legacy octal literals (Annex B) are outside the model",
			"values enter the interpreter as float64 arguments of precompiled functions on a reused runtime (no global state is involved); numeric literals are run as whole programs",
		},
		CrashIsViolation: true,
		QuickBudget:      10 * time.Minute,
		ThoroughBudget:   45 * time.Minute,
	})
}

// ---------------------------------------------------------------------------
// driving the interpreter

type caller struct {
	vm  *otto.Otto
	src string
	fns map[string]otto.Value
}

func newCaller(prelude string) (*caller, error) {
	c := &caller{src: prelude}
	if err := c.reset(); err != nil {
		return nil, err
	}
	return c, nil
}

func (c *caller) reset() error {
	c.vm = otto.New()
	c.fns = map[string]otto.Value{}
	res := ox.Run(c.vm, c.src)
	if res.Panicked {
		return fmt.Errorf("prelude panicked: %v", res.PanicVal)
	}
	if res.Err != nil {
		return fmt.Errorf("prelude failed: %v", res.Err)
	}
	return nil
}

func (c *caller) fn(name string) otto.Value {
	if f, ok := c.fns[name]; ok {
		return f
	}
	f, err := c.vm.Get(name)
	if err != nil || !f.IsFunction() {
		panic("c06: prelude function missing: " + name)
	}
	c.fns[name] = f
	return f
}

// call invokes a prelude function. A Go panic or an error escaping the
// function (every prelude function catches script errors itself) is rendered as
// an observation and the runtime is replaced.
func (c *caller) call(name string, args ...interface{}) (otto.Value, string) {
	f := c.fn(name)
	res := ox.Guard(func() (otto.Value, error) { return f.Call(otto.UndefinedValue(), args...) })
	switch {
	case res.Panicked:
		c.reset()
		return otto.Value{}, "gopanic:" + oneLine(fmt.Sprint(res.PanicVal))
	case res.Err != nil:
		c.reset()
		return otto.Value{}, "E:" + ox.ErrClass(res.Err)
	}
	return res.Value, ""
}

func oneLine(s string) string {
	s = strings.ReplaceAll(s, "\n", " ")
	if len(s) > 160 {
		s = s[:160]
	}
	return s
}

// canonical rendering of a double: bit pattern (one NaN) plus a readable form.
func bitsOf(f float64) uint64 {
	if math.IsNaN(f) {
		return 0x7ff8000000000000
	}
	return math.Float64bits(f)
}

func numStr(f float64, text string) string {
	return fmt.Sprintf("d:%016x(%s) String=%s", bitsOf(f), ox.Num(f), text)
}

// numObs renders a numeric result of the interpreter: the double read with
// ToFloat and the in-language string of the very same value (so that a
// representation leak - an int64 behind the Number - stays visible).
func numObs(v otto.Value, errs string) string {
	if errs != "" {
		return errs
	}
	if !v.IsNumber() {
		return "T:" + ox.Canon(v)
	}
	f, err := v.ToFloat()
	if err != nil {
		return "E:ToFloat:" + err.Error()
	}
	s, err := v.ToString()
	if err != nil {
		return "E:ToString:" + err.Error()
	}
	return numStr(f, s)
}

// mine implements sharding and replay for batched cases: base identifies the
// batch (one double, one string); a replay key is base or base + "#" + sub.
func mine(r *engine.Run, base string) bool {
	if r.ReplayKey != "" {
		return r.ReplayKey == base || strings.HasPrefix(r.ReplayKey, base+"#")
	}
	return r.Mine()
}

// wanted reports whether a sub-case is to be reported (always, except in replay
// mode when another sub-case of the batch was asked for).
func wanted(r *engine.Run, key string) bool {
	return r.ReplayKey == "" || r.ReplayKey == key || !strings.Contains(r.ReplayKey, "#")
}

func hexKey(x float64) string { return fmt.Sprintf("%016x", math.Float64bits(x)) }

// report files a mismatch. With C06_DUMP=<file> set (development only) every
// mismatch is also appended to that file as a JSON line for triage.
func report(r *engine.Run, m engine.Mismatch) {
	if p := os.Getenv("C06_DUMP"); p != "" {
		if f, err := os.OpenFile(p, os.O_APPEND|os.O_CREATE|os.O_WRONLY, 0o644); err == nil {
			m.Family = r.Family()
			b, _ := json.Marshal(m)
			f.Write(append(b, '\n'))
			f.Close()
		}
	}
	r.Mismatch(m)
}
