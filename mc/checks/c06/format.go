package c06

import (
	"fmt"
	"math"
	"strconv"
	"strings"

	"verif/mc/engine"
	"verif/mc/ref/num"
)

// arg is one argument alternative of a formatting method.
type arg struct {
	js    string  // JavaScript source of the argument; "" = call without argument
	num   float64 // ToNumber(argument)
	undef bool    // the argument is undefined or absent
}

func nArg(v float64) arg { return arg{js: jsNum(v), num: v} }

func jsNum(f float64) string {
	switch {
	case math.IsNaN(f):
		return "NaN"
	case math.IsInf(f, 1):
		return "Infinity"
	case math.IsInf(f, -1):
		return "-Infinity"
	case f == 0 && math.Signbit(f):
		return "-0"
	}
	return strconv.FormatFloat(f, 'g', -1, 64) // rendering of small literal arguments only
}

var (
	undefArg = arg{js: "undefined", num: math.NaN(), undef: true}
	noArg    = arg{js: "", num: math.NaN(), undef: true}
)

func rangeArgs(lo, hi int) []arg {
	var l []arg
	for i := lo; i <= hi; i++ {
		l = append(l, nArg(float64(i)))
	}
	return l
}

type method struct {
	name  string // JavaScript method name
	args  func(thorough bool) []arg
	model func(x float64, a arg) num.Result
}

var toFixedM = method{
	name: "toFixed",
	args: func(th bool) []arg {
		if !th {
			return []arg{nArg(0), nArg(1), nArg(2), nArg(7), nArg(20), nArg(-1), nArg(21), undefArg, noArg, nArg(math.NaN()), nArg(math.Inf(1))}
		}
		l := rangeArgs(0, 20)
		return append(l, nArg(-1), nArg(21), nArg(100), undefArg, noArg, nArg(math.NaN()), nArg(math.Inf(1)), nArg(math.Inf(-1)),
			nArg(0.9), nArg(-0.9), nArg(20.9), nArg(1.5), arg{js: `"2"`, num: 2}, arg{js: "null", num: 0})
	},
	model: func(x float64, a arg) num.Result { return num.ToFixed(x, a.num) },
}

var toExponentialM = method{
	name: "toExponential",
	args: func(th bool) []arg {
		if !th {
			return []arg{undefArg, noArg, nArg(0), nArg(1), nArg(2), nArg(7), nArg(16), nArg(20), nArg(-1), nArg(21), nArg(math.Inf(1))}
		}
		l := append([]arg{undefArg, noArg}, rangeArgs(0, 20)...)
		return append(l, nArg(-1), nArg(21), nArg(100), nArg(math.NaN()), nArg(math.Inf(1)), nArg(math.Inf(-1)), nArg(0.9), nArg(-0.9), nArg(20.9), arg{js: `"2"`, num: 2})
	},
	model: func(x float64, a arg) num.Result { return num.ToExponential(x, a.num, a.undef) },
}

var toPrecisionM = method{
	name: "toPrecision",
	args: func(th bool) []arg {
		if !th {
			return []arg{undefArg, noArg, nArg(1), nArg(2), nArg(3), nArg(7), nArg(17), nArg(21), nArg(0), nArg(22), nArg(math.Inf(1))}
		}
		l := append([]arg{undefArg, noArg}, rangeArgs(1, 21)...)
		return append(l, nArg(0), nArg(22), nArg(-1), nArg(101), nArg(math.NaN()), nArg(math.Inf(1)), nArg(math.Inf(-1)), nArg(0.9), nArg(1.9), nArg(21.9), arg{js: `"2"`, num: 2})
	},
	model: func(x float64, a arg) num.Result { return num.ToPrecision(x, a.num, a.undef) },
}

func methodPrelude(name string, args []arg) string {
	var list []string
	tail := ""
	for _, a := range args {
		if a.js == "" {
			tail = "try { r = x." + name + "(); o.push((typeof r === 'string' ? 's:' : 'T:' + typeof r + ':') + r); } catch (e) { o.push('E:' + (e && e.name)); }\n"
			continue
		}
		list = append(list, a.js)
	}
	return "var __A = [" + strings.Join(list, ",") + "];\n" +
		"function __m(x) {\n var o = [], r;\n for (var i = 0; i < __A.length; i++) {\n" +
		"  try { r = x." + name + "(__A[i]); o.push((typeof r === 'string' ? 's:' : 'T:' + typeof r + ':') + r); } catch (e) { o.push('E:' + (e && e.name)); }\n }\n" +
		tail + " return o.join('\\n');\n}\n"
}

// stopper turns the internal deadline into a cap (checked every few hundred cases).
type stopper struct {
	r    *engine.Run
	n    int
	done bool
}

func (s *stopper) stop() bool {
	if s.done {
		return true
	}
	s.n++
	if s.n&255 == 0 && s.r.Expired() {
		s.done = true
		s.r.Cap("time budget reached; remaining cases not executed")
	}
	return s.done
}

func runMethod(r *engine.Run, m method) {
	args := m.args(r.Thorough())
	// the no-argument call is observed last
	var ordered []arg
	for _, a := range args {
		if a.js != "" {
			ordered = append(ordered, a)
		}
	}
	for _, a := range args {
		if a.js == "" {
			ordered = append(ordered, a)
		}
	}
	c, err := newCaller(methodPrelude(m.name, args))
	if err != nil {
		r.HarnessError(err.Error())
		return
	}
	st := &stopper{r: r}
	nd := 0
	forDoubles(r.Thorough(), func(x float64) {
		nd++
		key := hexKey(x)
		if !mine(r, key) || st.stop() {
			return
		}
		r.Begin(key)
		v, errs := c.call("__m", x)
		r.End()
		var lines []string
		if errs == "" {
			s, _ := v.ToString()
			lines = strings.Split(s, "\n")
			if len(lines) != len(ordered) {
				errs = fmt.Sprintf("harness: %d results for %d arguments", len(lines), len(ordered))
			}
		}
		finite := !math.IsNaN(x) && !math.IsInf(x, 0) && x != 0
		for i, a := range ordered {
			exp := m.model(x, a).String()
			obs := errs
			if errs == "" {
				obs = lines[i]
			}
			r.Eval(finite && strings.HasPrefix(exp, "s:"))
			r.Outcome(obs)
			if obs == exp {
				continue
			}
			sub := key + "#" + m.name + "(" + a.js + ")"
			if !wanted(r, sub) {
				continue
			}
			report(r, engine.Mismatch{Key: sub, Input: fmt.Sprintf("(%s).%s(%s)", jsNum(x), m.name, a.js), Expected: exp, Observed: obs,
				Aux: map[string]string{"op": m.name, "x": key, "arg": a.js, "argnum": hexKey(a.num), "undef": fmt.Sprint(a.undef)}})
		}
		if r.WantSample() && finite && nd%37 == 0 && errs == "" {
			r.Sample(fmt.Sprintf("(%s).%s(%s) => %s", jsNum(x), m.name, ordered[0].js, lines[0]))
		}
	})
	r.Bound("doubles", fmt.Sprint(nd))
	var al []string
	for _, a := range ordered {
		if a.js == "" {
			al = append(al, "<none>")
		} else {
			al = append(al, a.js)
		}
	}
	r.Bound("arguments", strings.Join(al, " "))
}

func runToFixed(r *engine.Run)       { runMethod(r, toFixedM) }
func runToExponential(r *engine.Run) { runMethod(r, toExponentialM) }
func runToPrecision(r *engine.Run)   { runMethod(r, toPrecisionM) }

// ---------------------------------------------------------------------------
// String(x), "" + x, x.toString(), x.toString(10), x.toString(undefined) and the
// round trip Number(String(x))

const strPrelude = `
function __str(x) { return [String(x), "" + x, x.toString(), x.toString(10), x.toString(undefined), JSON.stringify(x), [x].join()].join("\n"); }
function __rt(x) { return Number(String(x)); }
`

var strForms = []string{"String(x)", `""+x`, "x.toString()", "x.toString(10)", "x.toString(undefined)", "JSON.stringify(x)", "[x].join()"}

func runToString(r *engine.Run) {
	c, err := newCaller(strPrelude)
	if err != nil {
		r.HarnessError(err.Error())
		return
	}
	st := &stopper{r: r}
	nd := 0
	forDoubles(r.Thorough(), func(x float64) {
		nd++
		key := hexKey(x)
		if !mine(r, key) || st.stop() {
			return
		}
		exp := num.ToString(x)
		finite := !math.IsNaN(x) && !math.IsInf(x, 0) && x != 0
		// model self-checks: round-trip law and strconv second opinion
		back := num.StringToNumber(exp)
		if finite && math.Float64bits(back) != math.Float64bits(x) {
			r.HarnessError(fmt.Sprintf("model round trip broken: %s -> %q -> %s", key, exp, hexKey(back)))
		}
		if finite {
			if g := goShortest(x); g != exp {
				r.HarnessError(fmt.Sprintf("model and strconv disagree on the shortest digits of %s: %q vs %q", key, exp, g))
			}
		}
		r.Begin(key)
		v, errs := c.call("__str", x)
		v2, errs2 := c.call("__rt", x)
		r.End()
		var lines []string
		if errs == "" {
			s, _ := v.ToString()
			lines = strings.Split(s, "\n")
			if len(lines) != len(strForms) {
				errs = "harness: result count"
			}
		}
		for i, form := range strForms {
			obs := errs
			if errs == "" {
				obs = lines[i]
			}
			exp := exp
			op := "String"
			if form == "JSON.stringify(x)" {
				// 15.12.3 Str: a finite number serialises as ToString(value), anything else as null
				op = "JSON"
				if !finite && x != 0 {
					exp = "null"
				}
			}
			r.Eval(finite)
			r.Outcome(obs)
			if obs == exp {
				continue
			}
			sub := key + "#" + form
			if !wanted(r, sub) {
				continue
			}
			aux := map[string]string{"op": op, "x": key}
			if num.IsIntegral(x) {
				aux["exact"] = num.BigOf(x).String()
			}
			report(r, engine.Mismatch{Key: sub, Input: strings.ReplaceAll(form, "x", "("+jsNum(x)+")"), Expected: exp, Observed: obs, Aux: aux})
		}
		// round trip: Number(String(x)) has x's bits (NaN -> NaN, -0 -> "0" -> +0)
		expRT := numStr(back, num.ToString(back))
		obsRT := numObs(v2, errs2)
		r.Eval(finite)
		if obsRT != expRT {
			sub := key + "#roundtrip"
			if wanted(r, sub) {
				report(r, engine.Mismatch{Key: sub, Input: "Number(String(" + jsNum(x) + "))", Expected: expRT, Observed: obsRT,
					Aux: map[string]string{"op": "roundtrip", "x": key, "str": exp}})
			}
		}
		if r.WantSample() && finite && nd%41 == 0 && errs == "" {
			r.Sample(fmt.Sprintf("String(%s) => %s", key, lines[0]))
		}
	})
	r.Bound("doubles", fmt.Sprint(nd))
}

// goShortest lays out strconv's shortest digits with the model's layout function
// (second opinion on the digit generation only).
func goShortest(x float64) string {
	neg := x < 0
	if neg {
		x = -x
	}
	g := strconv.FormatFloat(x, 'e', -1, 64)
	i := strings.IndexByte(g, 'e')
	ds := strings.Replace(g[:i], ".", "", 1)
	e, _ := strconv.Atoi(g[i+1:])
	s := num.Layout([]byte(ds), e+1)
	if neg {
		return "-" + s
	}
	return s
}

// ---------------------------------------------------------------------------
// toString(radix) of integral values

var radixArgsBad = []arg{nArg(1), nArg(37), nArg(0), nArg(-1), nArg(math.NaN()), nArg(math.Inf(1)), nArg(1.9), nArg(2.9), nArg(36.9), nArg(-0.5),
	{js: `"16"`, num: 16}, {js: "null", num: 0}, undefArg, nArg(4294967298)}

func radixModel(x float64, a arg) num.Result {
	r := 10.0
	if !a.undef {
		r = num.ToInteger(a.num)
		if r < 2 || r > 36 {
			return num.Result{Err: "RangeError"}
		}
	}
	if r == 10 {
		return num.Result{S: num.ToString(x)}
	}
	switch {
	case math.IsNaN(x):
		return num.Result{S: "NaN"}
	case math.IsInf(x, 1):
		return num.Result{S: "Infinity"}
	case math.IsInf(x, -1):
		return num.Result{S: "-Infinity"}
	}
	return num.Result{S: num.RadixString(x, int(r))}
}

func forIntegrals(thorough bool, f func(x float64)) {
	d := &doubleSet{seen: map[uint64]struct{}{}, f: func(x float64) {
		if math.IsNaN(x) || math.IsInf(x, 0) || num.IsIntegral(x) {
			f(x)
		}
	}}
	d.add(0)
	d.add(math.Copysign(0, -1))
	d.add(math.NaN())
	d.addPM(math.Inf(1))
	for i := 1; i <= 1300; i++ {
		d.add(float64(i))
	}
	for i := 1; i <= 40; i++ {
		d.add(-float64(i))
	}
	for r := 2; r <= 36; r++ {
		p := float64(r)
		for p < 9007199254740992 {
			d.add(p)
			d.add(p - 1)
			d.add(p + 1)
			d.add(-p)
			p *= float64(r)
		}
	}
	for k := 0; k <= 1023; k++ {
		x := math.Ldexp(1, k)
		d.addPM(x)
		d.add(ulps(x, 1))
		d.add(ulps(x, -1))
		d.add(x + 1)
		d.add(x - 1)
	}
	for k := 0; k <= 308; k++ {
		x := num.DecToFloat([]byte("1"), k)
		for s := -1; s <= 1; s++ {
			d.add(ulps(x, s))
		}
	}
	for _, x := range []float64{9007199254740992, 9223372036854775808, 18446744073709551616, 1e21, 4294967296, 2147483648} {
		for s := -4; s <= 4; s++ {
			d.addPM(ulps(x, s))
		}
	}
	ms := mantissas(thorough)
	few := mantissas(false)
	for be := uint64(1023); be <= 2046; be++ {
		l := ms
		if be > 1023+70 {
			l = few
			if !thorough && be%8 != 0 {
				continue
			}
		}
		for _, m := range l {
			b := be<<52 | m
			d.add(math.Float64frombits(b))
			d.add(math.Float64frombits(b | 1<<63))
		}
	}
}

func runRadix(r *engine.Run) {
	args := append(rangeArgs(2, 36), radixArgsBad...)
	c, err := newCaller(methodPrelude("toString", args))
	if err != nil {
		r.HarnessError(err.Error())
		return
	}
	st := &stopper{r: r}
	nd := 0
	forIntegrals(r.Thorough(), func(x float64) {
		nd++
		key := hexKey(x)
		if !mine(r, key) || st.stop() {
			return
		}
		r.Begin(key)
		v, errs := c.call("__m", x)
		r.End()
		var lines []string
		if errs == "" {
			s, _ := v.ToString()
			lines = strings.Split(s, "\n")
			if len(lines) != len(args) {
				errs = "harness: result count"
			}
		}
		finite := !math.IsNaN(x) && !math.IsInf(x, 0) && x != 0
		for i, a := range args {
			exp := radixModel(x, a).String()
			obs := errs
			if errs == "" {
				obs = lines[i]
			}
			r.Eval(finite && strings.HasPrefix(exp, "s:"))
			r.Outcome(obs)
			if obs == exp {
				continue
			}
			sub := key + "#toString(" + a.js + ")"
			if !wanted(r, sub) {
				continue
			}
			report(r, engine.Mismatch{Key: sub, Input: fmt.Sprintf("(%s).toString(%s)", jsNum(x), a.js), Expected: exp, Observed: obs,
				Aux: map[string]string{"op": "toString", "x": key, "arg": a.js, "argnum": hexKey(a.num), "undef": fmt.Sprint(a.undef)}})
		}
		if r.WantSample() && finite && nd%29 == 0 && errs == "" {
			r.Sample(fmt.Sprintf("(%s).toString(%s) => %s", jsNum(x), args[14].js, lines[14]))
		}
	})
	r.Bound("integral_doubles", fmt.Sprint(nd))
	r.Bound("radixes", "2..36 plus 1 37 0 -1 NaN Infinity 1.9 2.9 36.9 -0.5 \"16\" null undefined 2^32+2")
}
