package c06

import (
	"bufio"
	"encoding/json"
	"math"
	"os"
	"testing"

	"verif/mc/ref/num"
)

// TestDumpTextForNode writes the text->number model results of the quick string
// alphabet as JSON lines for a development-time comparison with /usr/bin/node
// (second opinion only; set NODE_DUMP=<file>).
func TestDumpTextForNode(t *testing.T) {
	path := os.Getenv("NODE_DUMP")
	if path == "" {
		t.Skip("NODE_DUMP not set")
	}
	f, err := os.Create(path)
	if err != nil {
		t.Fatal(err)
	}
	defer f.Close()
	w := bufio.NewWriter(f)
	defer w.Flush()
	enc := json.NewEncoder(w)
	bits := func(v float64) string { return hexKey(math.Float64frombits(bitsOf(v))) }
	forStrings(false, 4, func(key, s string) {
		rec := map[string]interface{}{"s": s, "N": bits(num.StringToNumber(s)), "F": bits(num.ParseFloat(s))}
		for _, r := range []float64{math.NaN(), 0, 2, 8, 10, 16, 36, 37} {
			res := num.ParseInt(s, r)
			if res.Loose || bitsOf(res.Alt) != bitsOf(res.Value) {
				continue
			}
			k := "I" + jsNum(r)
			rec[k] = bits(res.Value)
		}
		kind, v := num.NumericLiteral(s)
		switch kind {
		case num.LitValue:
			rec["L"] = bits(v)
		case num.LitSyntax:
			rec["L"] = "SyntaxError"
		}
		enc.Encode(rec)
	})
}
