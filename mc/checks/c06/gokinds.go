package c06

import (
	"fmt"
	"math"
	"math/big"
	"strings"

	"verif/mc/engine"
	"verif/mc/ref/num"
)

// The Go carrier kinds of a JavaScript Number: an embedder (vm.Set, function
// arguments and results, struct fields) hands in int8..int64, uint8..uint64, int,
// uint, float32 and float64 values, and otto keeps them in that Go kind inside the
// Value. Every number->text entry point must treat them as the Number they stand
// for: expected = the model applied to the double nearest to the Go value.

type goVal struct {
	kind string
	val  interface{}
	f    float64 // the Number value: nearest double (exact for float32)
	// exact decimal digits of an integer carrier ("" for floats)
	exact string
}

func nearestInt(n *big.Int) float64 {
	if n.Sign() < 0 {
		return -num.RoundRatio(new(big.Int).Neg(n), big.NewInt(1))
	}
	return num.RoundRatio(n, big.NewInt(1))
}

func goValues() []goVal {
	var l []goVal
	addI := func(kind string, v int64, mk func(int64) interface{}) {
		l = append(l, goVal{kind, mk(v), nearestInt(big.NewInt(v)), big.NewInt(v).String()})
	}
	addU := func(kind string, v uint64, mk func(uint64) interface{}) {
		l = append(l, goVal{kind, mk(v), nearestInt(new(big.Int).SetUint64(v)), new(big.Int).SetUint64(v).String()})
	}
	for _, v := range []int64{0, 1, -1, math.MaxInt8, math.MaxInt8 - 1, math.MinInt8, math.MinInt8 + 1} {
		addI("int8", v, func(v int64) interface{} { return int8(v) })
	}
	for _, v := range []int64{0, 1, -1, math.MaxInt16, math.MaxInt16 - 1, math.MinInt16, math.MinInt16 + 1} {
		addI("int16", v, func(v int64) interface{} { return int16(v) })
	}
	for _, v := range []int64{0, 1, -1, math.MaxInt32, math.MaxInt32 - 1, math.MinInt32, math.MinInt32 + 1} {
		addI("int32", v, func(v int64) interface{} { return int32(v) })
	}
	wide := []int64{0, 1, -1, 15, 255, 1 << 31, -(1 << 31), 1 << 32, 1<<53 - 1, 1 << 53, 1<<53 + 1, 1<<53 + 2, 1<<53 + 3, -(1 << 53), -(1<<53 + 1), -(1<<53 + 3),
		1 << 60, 1<<60 + 1, 1<<62 + 1, 999999999999999999, 1000000000000000001, 1<<63 - 2048, 1<<63 - 1025, 1<<63 - 1024, 1<<63 - 513, 1<<63 - 512, 1<<63 - 511,
		math.MaxInt64, math.MaxInt64 - 1, math.MinInt64, math.MinInt64 + 1, math.MinInt64 + 1024, math.MinInt64 + 1025}
	for _, v := range wide {
		addI("int64", v, func(v int64) interface{} { return v })
		addI("int", v, func(v int64) interface{} { return int(v) })
	}
	for _, v := range []uint64{0, 1, math.MaxUint8, math.MaxUint8 - 1} {
		addU("uint8", v, func(v uint64) interface{} { return uint8(v) })
	}
	for _, v := range []uint64{0, 1, math.MaxUint16, math.MaxUint16 - 1} {
		addU("uint16", v, func(v uint64) interface{} { return uint16(v) })
	}
	for _, v := range []uint64{0, 1, math.MaxUint32, math.MaxUint32 - 1, 1 << 31} {
		addU("uint32", v, func(v uint64) interface{} { return uint32(v) })
	}
	uwide := []uint64{0, 1, 255, 1 << 32, 1<<53 - 1, 1 << 53, 1<<53 + 1, 1<<53 + 3, 1 << 60, 1<<60 + 1, 1<<63 - 1, 1 << 63, 1<<63 + 1, 1<<63 + 1024, 1<<63 + 1025, 1<<63 + 2048, 1<<63 + 3072, 1<<63 + 3073,
		1<<63 - 2048, 1<<63 - 512, 1 << 62, 3 << 62, 10000000000000000000, 12345678901234567890, math.MaxUint64, math.MaxUint64 - 1, math.MaxUint64 - 1023, math.MaxUint64 - 1024, math.MaxUint64 - 2048, math.MaxUint64 - 3071}
	for _, v := range uwide {
		addU("uint64", v, func(v uint64) interface{} { return v })
		addU("uint", v, func(v uint64) interface{} { return uint(v) })
	}
	for _, v := range []float32{0, float32(math.Copysign(0, -1)), 1, -1, 0.5, 0.1, 0.3, 1.1, 16777216, 16777217, 1e10, 1e21, 1e-7, 123456.789, math.MaxFloat32, math.SmallestNonzeroFloat32,
		float32(math.Inf(1)), float32(math.Inf(-1)), float32(math.NaN()), 3.4028233e38, 1.17549435e-38, 2.5, 0.25, 1e-6, 9.999999e20, 33554434} {
		l = append(l, goVal{kind: "float32", val: v, f: float64(v)})
	}
	for _, v := range []float64{0, 1, 0.1, 1e21, math.MaxFloat64, 9007199254740993} {
		l = append(l, goVal{kind: "float64", val: v, f: v})
	}
	return l
}

type goOp struct {
	name  string
	js    string // body of function(x)
	model func(f float64) string
	// for the open toExponential / toPrecision findings
	op    string
	arg   float64
	undef bool
}

func strRes(f func(float64) string) func(float64) string {
	return func(x float64) string { return "s:" + f(x) }
}

func jsonNum(x float64) string {
	if math.IsNaN(x) || math.IsInf(x, 0) {
		return "null"
	}
	return num.ToString(x)
}

var goOps = []goOp{
	{name: "String(x)", js: "return String(x)", model: strRes(num.ToString)},
	{name: `""+x`, js: `return "" + x`, model: strRes(num.ToString)},
	{name: `x+""`, js: `return x + ""`, model: strRes(num.ToString)},
	{name: "x.toString()", js: "return x.toString()", model: strRes(num.ToString)},
	{name: "x.toString(10)", js: "return x.toString(10)", model: strRes(num.ToString)},
	{name: "x.toString(2)", js: "return x.toString(2)", model: func(x float64) string { return radixModel(x, nArg(2)).String() }, op: "toString", arg: 2},
	{name: "x.toString(16)", js: "return x.toString(16)", model: func(x float64) string { return radixModel(x, nArg(16)).String() }, op: "toString", arg: 16},
	{name: "x.toString(36)", js: "return x.toString(36)", model: func(x float64) string { return radixModel(x, nArg(36)).String() }, op: "toString", arg: 36},
	{name: "x.toFixed()", js: "return x.toFixed()", model: func(x float64) string { return num.ToFixed(x, nan).String() }, op: "toFixed", arg: nan, undef: true},
	{name: "x.toFixed(2)", js: "return x.toFixed(2)", model: func(x float64) string { return num.ToFixed(x, 2).String() }, op: "toFixed", arg: 2},
	{name: "x.toFixed(20)", js: "return x.toFixed(20)", model: func(x float64) string { return num.ToFixed(x, 20).String() }, op: "toFixed", arg: 20},
	{name: "x.toExponential()", js: "return x.toExponential()", model: func(x float64) string { return num.ToExponential(x, nan, true).String() }, op: "toExponential", arg: nan, undef: true},
	{name: "x.toExponential(2)", js: "return x.toExponential(2)", model: func(x float64) string { return num.ToExponential(x, 2, false).String() }, op: "toExponential", arg: 2},
	{name: "x.toExponential(20)", js: "return x.toExponential(20)", model: func(x float64) string { return num.ToExponential(x, 20, false).String() }, op: "toExponential", arg: 20},
	{name: "x.toPrecision()", js: "return x.toPrecision()", model: func(x float64) string { return num.ToPrecision(x, nan, true).String() }, op: "toPrecision", arg: nan, undef: true},
	{name: "x.toPrecision(1)", js: "return x.toPrecision(1)", model: func(x float64) string { return num.ToPrecision(x, 1, false).String() }, op: "toPrecision", arg: 1},
	{name: "x.toPrecision(21)", js: "return x.toPrecision(21)", model: func(x float64) string { return num.ToPrecision(x, 21, false).String() }, op: "toPrecision", arg: 21},
	{name: "JSON.stringify(x)", js: "return JSON.stringify(x)", model: strRes(jsonNum)},
	{name: "JSON.stringify([x])", js: "return JSON.stringify([x])", model: func(x float64) string { return "s:[" + jsonNum(x) + "]" }},
	{name: "JSON.stringify({a:x})", js: "return JSON.stringify({a: x})", model: func(x float64) string { return `s:{"a":` + jsonNum(x) + "}" }},
	{name: "property key", js: "var o = {}; o[x] = 1; return Object.keys(o)[0]", model: strRes(num.ToString)},
	{name: "[x].join()", js: "return [x].join()", model: strRes(num.ToString)},
	{name: "String(new Number(x))", js: "return String(new Number(x))", model: strRes(num.ToString)},
	{name: "typeof x", js: "return typeof x", model: func(float64) string { return "s:number" }},
}

func goKindsPrelude() string {
	var sb strings.Builder
	sb.WriteString("var __G = [\n")
	for _, o := range goOps {
		sb.WriteString("function(x){ " + o.js + " },\n")
	}
	sb.WriteString("];\n")
	sb.WriteString(`function __gk(x) { var out = [], r;
 for (var i = 0; i < __G.length; i++) { try { r = __G[i](x); out.push((typeof r === 'string' ? 's:' : 'T:' + typeof r + ':') + r); } catch (e) { out.push('E:' + (e && e.name)); } }
 return out.join("\n"); }
function __gkrt(x) { return Number(String(x)); }
function __gkset() { return String(__gv) + "\n" + __gv.toString(16) + "\n" + [__gv].join(); }
`)
	return sb.String()
}

func runGoKinds(r *engine.Run) {
	c, err := newCaller(goKindsPrelude())
	if err != nil {
		r.HarnessError(err.Error())
		return
	}
	vals := goValues()
	for i, g := range vals {
		key := fmt.Sprintf("G:%s/%03d", g.kind, i)
		if !mine(r, key) {
			continue
		}
		in := fmt.Sprintf("%s(%v)", g.kind, g.val)
		r.Begin(key)
		v, errs := c.call("__gk", g.val)
		v2, errs2 := c.call("__gkrt", g.val)
		r.End()
		var lines []string
		if errs == "" {
			s, _ := v.ToString()
			lines = strings.Split(s, "\n")
			if len(lines) != len(goOps) {
				errs = "harness: result count"
			}
		}
		finite := !math.IsNaN(g.f) && !math.IsInf(g.f, 0)
		for j, o := range goOps {
			if o.op == "toString" && !num.IsIntegral(g.f) && finite {
				continue // fractional radix output: not asserted
			}
			exp := o.model(g.f)
			obs := errs
			if errs == "" {
				obs = lines[j]
			}
			r.Eval(finite)
			r.Outcome(obs)
			sub := fmt.Sprintf("%s#%d", key, j)
			if obs == exp || !wanted(r, sub) {
				continue
			}
			aux := map[string]string{"op": o.op, "x": hexKey(g.f), "argnum": hexKey(o.arg), "undef": fmt.Sprint(o.undef), "gokind": g.kind, "form": o.name}
			if o.op == "" {
				aux["op"] = "gokind-tostring"
			}
			if strings.HasPrefix(o.name, "JSON") {
				aux["op"] = "JSON"
				aux["exact"] = g.exact
			}
			report(r, engine.Mismatch{Key: sub, Input: strings.Replace(o.name, "x", in, 1), Expected: exp, Observed: obs, Aux: aux})
		}
		// round trip through text
		back := num.StringToNumber(num.ToString(g.f))
		expRT, obsRT := expNum(back), numObs(v2, errs2)
		r.Eval(finite)
		if obsRT != expRT && wanted(r, key+"#rt") {
			report(r, engine.Mismatch{Key: key + "#rt", Input: "Number(String(" + in + "))", Expected: expRT, Observed: obsRT, Aux: map[string]string{"op": "gokind-roundtrip", "x": hexKey(g.f), "gokind": g.kind}})
		}
		// the same value as a global set by the embedder
		if serr := c.vm.Set("__gv", g.val); serr == nil {
			v3, e3 := c.call("__gkset")
			obs := e3
			if e3 == "" {
				obs, _ = v3.ToString()
			}
			exp := num.ToString(g.f) + "\n"
			if num.IsIntegral(g.f) || !finite {
				exp += radixModel(g.f, nArg(16)).S
			} else {
				exp = ""
			}
			if exp != "" {
				exp += "\n" + num.ToString(g.f)
				r.Eval(finite)
				if obs != exp && wanted(r, key+"#set") {
					report(r, engine.Mismatch{Key: key + "#set", Input: "vm.Set(\"v\", " + in + "): String(v), v.toString(16), [v].join()", Expected: exp, Observed: obs, Aux: map[string]string{"op": "gokind-set", "x": hexKey(g.f), "gokind": g.kind}})
				}
			}
		}
		if r.WantSample() && i%17 == 0 && errs == "" {
			r.Sample(in + ": String(x) => " + lines[0])
		}
	}
	r.Bound("go_values", fmt.Sprint(len(vals)))
	r.Bound("go_kinds", "int8 int16 int32 int64 int uint8 uint16 uint32 uint64 uint float32 float64")
	r.Bound("entry_points", fmt.Sprint(len(goOps))+" forms + round trip + vm.Set global")
}
