package c06

import (
	"fmt"
	"math"
	"reflect"
	"strings"
	"unicode/utf16"

	"github.com/robertkrimen/otto"

	"verif/mc/engine"
	"verif/mc/ox"
	"verif/mc/ref/num"
)

const parsePrelude = `
function __number(s) { return Number(s); }
function __plus(s) { return +s; }
function __parseFloat(s) { return parseFloat(s); }
function __parseInt(s, r) { return parseInt(s, r); }
function __parseInt1(s) { return parseInt(s); }
function __minus0(s) { return s - 0; }
function __times1(s) { return s * 1; }
function __mk16() { return String.fromCharCode.apply(null, arguments); }
`

// strRep is one internal representation of an input string: otto holds a string
// either as a Go string (literals, concatenation results, JSON.parse results, Go
// strings handed in by the embedder) or as UTF-16 code units ([]uint16 - what
// String.fromCharCode returns); ToNumber has a separate branch for each.
type strRep struct {
	tag string      // "" (Go string) or "@16" (UTF-16 backed)
	val interface{} // argument handed to the prelude function
	err string      // construction failed: rendered as the observation
}

func unitArgs(units []uint16) []interface{} {
	args := make([]interface{}, len(units))
	for i, u := range units {
		args[i] = float64(u)
	}
	return args
}

// reps returns the representations a string is observed in. self-check: the
// "@16" value must really be UTF-16 backed, otherwise the second representation
// would silently test nothing.
func reps(r *engine.Run, c *caller, s string, want16 bool) []strRep {
	l := []strRep{{val: s}}
	if want16 {
		l = append(l, rep16(r, c, ox.Units(s)))
	}
	return l
}

func rep16(r *engine.Run, c *caller, units []uint16) strRep {
	v, e := c.call("__mk16", unitArgs(units)...)
	if e == "" && !isUTF16Backed(v) {
		r.Note("String.fromCharCode no longer returns a UTF-16 backed value: the @16 representation equals the Go-string one")
	}
	return strRep{tag: "@16", val: v, err: e}
}

func isUTF16Backed(v otto.Value) bool {
	rv := reflect.ValueOf(v).FieldByName("value")
	if !rv.IsValid() || rv.Kind() != reflect.Interface || rv.IsNil() {
		return false
	}
	e := rv.Elem()
	return e.Kind() == reflect.Slice && e.Type().Elem().Kind() == reflect.Uint16
}

func renderArg(s string, rep strRep) string {
	if rep.tag == "" {
		return ox.JSLit(s)
	}
	var parts []string
	for _, u := range ox.Units(s) {
		parts = append(parts, fmt.Sprintf("0x%X", u))
	}
	return "String.fromCharCode(" + strings.Join(parts, ",") + ")"
}

// want16 decides which strings are also observed UTF-16 backed: everything but
// the long tail of the exhaustive ASCII alphabet strings.
func want16(key, s string, lim int) bool {
	return !strings.HasPrefix(key, "L:") || len(s) <= lim
}

// lone surrogates exist only in the UTF-16 representation; the model sees them as
// U+FFFD (neither white space nor part of a literal).
var surrogateCases = [][]uint16{{0xD800}, {0xD800, '1'}, {'1', 0xDC00}, {0xA0, '1', 0xD800}, {0xDC00, 0xD800, '7'}, {'0', 'x', 0xD83D, 0xDE00}, {0xD83D, 0xDE00}, {' ', 0xDBFF, ' '}, {'1', 0xDFFF, '2'}}

func unitsKey(units []uint16) string {
	var sb strings.Builder
	sb.WriteString("U:")
	for i, u := range units {
		if i > 0 {
			sb.WriteByte('.')
		}
		fmt.Fprintf(&sb, "%04x", u)
	}
	return sb.String()
}

func expNum(v float64) string { return numStr(v, num.ToString(v)) }

func isNaNStr(exp string) bool { return strings.HasPrefix(exp, "d:7ff8000000000000") }

func textAux(op, s string) map[string]string {
	return map[string]string{"op": op, "s": s}
}

// lengths of the exhaustive alphabet strings per tier
func maxLen(r *engine.Run, quick, thorough int) int {
	if r.Thorough() {
		return thorough
	}
	return quick
}

var toNumberForms = []struct{ name, fn, render string }{
	{"Number", "__number", "Number(%s)"},
	{"+", "__plus", "+(%s)"},
	{"-0", "__minus0", "(%s) - 0"},
	{"*1", "__times1", "(%s) * 1"},
}

func runToNumber(r *engine.Run) {
	c, err := newCaller(parsePrelude)
	if err != nil {
		r.HarnessError(err.Error())
		return
	}
	st := &stopper{r: r}
	n := 0
	lim16 := maxLen(r, 4, 5)
	one := func(key, s string, rl []strRep, forms int, exp string, v float64) {
		for _, rep := range rl {
			for _, form := range toNumberForms[:forms] {
				obs := rep.err
				if obs == "" {
					r.Begin(key)
					v1, e1 := c.call(form.fn, rep.val)
					r.End()
					obs = numObs(v1, e1)
				}
				r.Eval(!math.IsNaN(v))
				r.Outcome(obs)
				if obs == exp {
					continue
				}
				if alt, ok := alt180E(s); ok && obs == expNum(num.StringToNumber(alt)) {
					continue
				}
				sub := key + "#" + form.name + rep.tag
				if !wanted(r, sub) {
					continue
				}
				aux := textAux(form.name, s)
				aux["rep"] = rep.tag
				report(r, engine.Mismatch{Key: sub, Input: fmt.Sprintf(form.render, renderArg(s, rep)), Expected: exp, Observed: obs, Aux: aux})
			}
		}
	}
	for _, units := range surrogateCases {
		key := unitsKey(units)
		n++
		if !mine(r, key) {
			continue
		}
		s := string(utf16.Decode(units))
		v := num.StringToNumber(s)
		one(key, s, []strRep{rep16(r, c, units)}, len(toNumberForms), expNum(v), v)
	}
	forStrings(r.Thorough(), maxLen(r, 5, 6), func(key, s string) {
		n++
		if !mine(r, key) || st.stop() {
			return
		}
		v := num.StringToNumber(s)
		exp := expNum(v)
		w16 := want16(key, s, lim16)
		forms := 2 // the long tail: Number(s) and +s on the Go-string representation
		if w16 {
			forms = len(toNumberForms)
		}
		one(key, s, reps(r, c, s, w16), forms, exp, v)
		if r.WantSample() && n%97 == 0 {
			v1, e1 := c.call("__number", s)
			r.Sample(fmt.Sprintf("Number(%s) => %s", ox.JSLit(s), numObs(v1, e1)))
		}
	})
	r.Bound("strings", fmt.Sprint(n))
	r.Bound("alphabet16_max_length", fmt.Sprint(maxLen(r, 5, 6)))
	r.Bound("representations", fmt.Sprintf("Go string; UTF-16 backed (String.fromCharCode) for every string except alphabet strings longer than %d; %d lone-surrogate unit sequences", lim16, len(surrogateCases)))
	r.Bound("entry_points", "Number(s) +s s-0 s*1")
}

func runParseFloat(r *engine.Run) {
	c, err := newCaller(parsePrelude)
	if err != nil {
		r.HarnessError(err.Error())
		return
	}
	st := &stopper{r: r}
	n := 0
	lim16 := maxLen(r, 4, 5)
	one := func(key, s string, rl []strRep) {
		v := num.ParseFloat(s)
		exp := expNum(v)
		for _, rep := range rl {
			obs := rep.err
			if obs == "" {
				r.Begin(key)
				v1, e1 := c.call("__parseFloat", rep.val)
				r.End()
				obs = numObs(v1, e1)
			}
			r.Eval(!math.IsNaN(v))
			r.Outcome(obs)
			if alt, ok := alt180E(s); ok && obs == expNum(num.ParseFloat(alt)) {
				obs = exp
			}
			sub := key
			if rep.tag != "" {
				sub = key + "#" + rep.tag
			}
			if obs != exp && wanted(r, sub) {
				aux := textAux("parseFloat", s)
				aux["rep"] = rep.tag
				report(r, engine.Mismatch{Key: sub, Input: "parseFloat(" + renderArg(s, rep) + ")", Expected: exp, Observed: obs, Aux: aux})
			}
			if r.WantSample() && n%89 == 0 {
				r.Sample(fmt.Sprintf("parseFloat(%s) => %s", renderArg(s, rep), obs))
			}
		}
	}
	for _, units := range surrogateCases {
		key := unitsKey(units)
		n++
		if mine(r, key) {
			one(key, string(utf16.Decode(units)), []strRep{rep16(r, c, units)})
		}
	}
	forStrings(r.Thorough(), maxLen(r, 5, 6), func(key, s string) {
		n++
		if !mine(r, key) || st.stop() {
			return
		}
		one(key, s, reps(r, c, s, want16(key, s, lim16)))
	})
	r.Bound("strings", fmt.Sprint(n))
	r.Bound("alphabet16_max_length", fmt.Sprint(maxLen(r, 5, 6)))
	r.Bound("representations", fmt.Sprintf("Go string; UTF-16 backed (String.fromCharCode) for every string except alphabet strings longer than %d; %d lone-surrogate unit sequences", lim16, len(surrogateCases)))
}

// radix arguments applied to every string
type radixArg struct {
	js    string
	val   interface{} // Go value handed to the function (nil = call with one argument)
	num   float64     // ToNumber of it
	undef bool
}

var radixArgs = []radixArg{
	{js: "", val: nil, num: math.NaN(), undef: true},
	{js: "undefined", val: otto.UndefinedValue(), num: math.NaN(), undef: true},
	{js: "0", val: float64(0), num: 0},
	{js: "2", val: float64(2), num: 2},
	{js: "8", val: float64(8), num: 8},
	{js: "10", val: float64(10), num: 10},
	{js: "16", val: float64(16), num: 16},
	{js: "36", val: float64(36), num: 36},
	{js: "1", val: float64(1), num: 1},
	{js: "37", val: float64(37), num: 37},
	{js: "-1", val: float64(-1), num: -1},
	{js: "4294967306", val: float64(4294967306), num: 4294967306}, // 2^32 + 10: ToInt32 = 10
	{js: `"16"`, val: "16", num: 16},
	{js: "16.9", val: 16.9, num: 16.9},
	{js: "NaN", val: math.NaN(), num: math.NaN()},
	{js: "Infinity", val: math.Inf(1), num: math.Inf(1)},
	{js: "-4294967280", val: float64(-4294967280), num: -4294967280}, // ToInt32 = 16
}

func checkParseInt(r *engine.Run, c *caller, key, s string, rep strRep, ra radixArg) {
	res := num.ParseInt(s, ra.num)
	exp := expNum(res.Value)
	obs := rep.err
	if obs == "" {
		r.Begin(key)
		var v otto.Value
		var e string
		if ra.val == nil {
			v, e = c.call("__parseInt1", rep.val)
		} else {
			v, e = c.call("__parseInt", rep.val, ra.val)
		}
		r.End()
		obs = numObs(v, e)
	}
	r.Outcome(obs)
	if res.Loose {
		// implementation-dependent approximation allowed (15.1.2.2 step 13): not asserted
		r.Eval(false)
		return
	}
	r.Eval(!math.IsNaN(res.Value))
	if obs == exp {
		return
	}
	if bitsOf(res.Alt) != bitsOf(res.Value) && obs == expNum(res.Alt) {
		return // radix 10, more than 20 significant digits: the allowed alternative
	}
	if alt, ok := alt180E(s); ok && obs == expNum(num.ParseInt(alt, ra.num).Value) {
		return
	}
	sub := key + "#" + ra.js + rep.tag
	if !wanted(r, sub) {
		return
	}
	aux := textAux("parseInt", s)
	aux["radix"] = ra.js
	aux["radixnum"] = hexKey(ra.num)
	aux["rep"] = rep.tag
	input := "parseInt(" + renderArg(s, rep) + ", " + ra.js + ")"
	if ra.js == "" {
		input = "parseInt(" + renderArg(s, rep) + ")"
	}
	report(r, engine.Mismatch{Key: sub, Input: input, Expected: exp, Observed: obs, Aux: aux})
}

func runParseInt(r *engine.Run) {
	c, err := newCaller(parsePrelude)
	if err != nil {
		r.HarnessError(err.Error())
		return
	}
	st := &stopper{r: r}
	n := 0
	// every radix 2..36 (and the out-of-range neighbours) on the sweep strings
	for _, s := range radixSweep {
		key := "R:" + quoteKey(s)
		n++
		if !mine(r, key) {
			continue
		}
		for _, rep := range reps(r, c, s, true) {
			for rd := 0; rd <= 38; rd++ {
				ra := radixArg{js: fmt.Sprint(rd), val: float64(rd), num: float64(rd)}
				checkParseInt(r, c, key, s, rep, ra)
			}
		}
	}
	for _, units := range surrogateCases {
		key := unitsKey(units)
		n++
		if !mine(r, key) {
			continue
		}
		rep := rep16(r, c, units)
		for _, ra := range radixArgs {
			checkParseInt(r, c, key, string(utf16.Decode(units)), rep, ra)
		}
	}
	for _, s := range bigIntStrings() {
		key := "RH:" + quoteKey(s)
		n++
		if !mine(r, key) {
			continue
		}
		for _, rd := range []int{2, 3, 4, 5, 7, 8, 9, 11, 12, 15, 17, 20, 31, 32, 33, 35} {
			ra := radixArg{js: fmt.Sprint(rd), val: float64(rd), num: float64(rd)}
			checkParseInt(r, c, key, s, strRep{val: s}, ra)
		}
	}
	lim16 := maxLen(r, 3, 4)
	forStrings(r.Thorough(), maxLen(r, 4, 5), func(key, s string) {
		n++
		if !mine(r, key) || st.stop() {
			return
		}
		for _, rep := range reps(r, c, s, want16(key, s, lim16)) {
			for _, ra := range radixArgs {
				checkParseInt(r, c, key, s, rep, ra)
			}
		}
		if r.WantSample() && n%83 == 0 {
			v, e := c.call("__parseInt", s, float64(16))
			r.Sample(fmt.Sprintf("parseInt(%s, 16) => %s", ox.JSLit(s), numObs(v, e)))
		}
	})
	r.Bound("strings", fmt.Sprint(n))
	var l []string
	for _, ra := range radixArgs {
		if ra.js == "" {
			l = append(l, "<none>")
		} else {
			l = append(l, ra.js)
		}
	}
	r.Bound("alphabet16_max_length", fmt.Sprint(maxLen(r, 4, 5)))
	r.Bound("representations", fmt.Sprintf("Go string; UTF-16 backed (String.fromCharCode) for every string except alphabet strings longer than %d; %d lone-surrogate unit sequences", lim16, len(surrogateCases)))
	r.Bound("radix_arguments", strings.Join(l, " ")+"; 0..38 on the sweep strings")
}

func quoteKey(s string) string { return ox.JSLit(s) }

// alt180E returns the second reading of a string that contains U+180E (MONGOLIAN
// VOWEL SEPARATOR): category Zs - hence white space - up to Unicode 6.2, Cf from
// 6.3 on. ES5 refers to "Unicode 3.0 or later", so both readings conform; the
// model takes the first, this helper substitutes a character that is certainly
// not white space to obtain the second.
func alt180E(s string) (string, bool) {
	if !strings.ContainsRune(s, 0x180E) {
		return "", false
	}
	return strings.ReplaceAll(s, "\u180e", "\u200b"), true
}

// numeric literals in source: the string is run as a whole program
func runLiteral(r *engine.Run) {
	vm := otto.New()
	st := &stopper{r: r}
	n, skipped := 0, 0
	forStrings(r.Thorough(), maxLen(r, 5, 6), func(key, s string) {
		kind, v := num.NumericLiteral(s)
		if _, ok := alt180E(s); ok {
			kind = num.LitSkip // white-space status of U+180E in source text: not asserted
		}
		if kind == num.LitSkip {
			skipped++
			return
		}
		n++
		if !mine(r, key) || st.stop() {
			return
		}
		exp := "E:SyntaxError"
		if kind == num.LitValue {
			exp = expNum(v)
		}
		r.Begin(key)
		res := ox.Run(vm, s)
		r.End()
		var obs string
		switch {
		case res.Panicked:
			obs = "gopanic:" + oneLine(fmt.Sprint(res.PanicVal))
			vm = otto.New()
		case res.Err != nil:
			obs = "E:" + ox.ErrClass(res.Err)
		default:
			obs = numObs(res.Value, "")
		}
		r.Eval(kind == num.LitValue)
		r.Outcome(obs)
		if obs != exp {
			report(r, engine.Mismatch{Key: key, Input: "program " + ox.JSLit(s), Expected: exp, Observed: obs, Aux: textAux("literal", s)})
		}
		if r.WantSample() && n%53 == 0 {
			r.Sample(fmt.Sprintf("program %s => %s", ox.JSLit(s), obs))
		}
	})
	r.Bound("literal_programs", fmt.Sprint(n))
	r.Bound("alphabet16_max_length", fmt.Sprint(maxLen(r, 5, 6)))
	r.Bound("strings_outside_literal_model", fmt.Sprint(skipped))
}
