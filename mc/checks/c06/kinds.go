package c06

import (
	"fmt"
	"math"
	"strings"

	"github.com/robertkrimen/otto"

	"verif/mc/engine"
	"verif/mc/ox"
	"verif/mc/ref/num"
)

// The argument-kind dimension: the conversion entry points are specified on
// arbitrary values (parseInt(ToString(x)), ToNumber(x), ToInteger(digits), "this
// Number value"), so every entry point is also driven with Number primitives of
// both Go kinds, wrapper objects, booleans, null/undefined and objects with
// valueOf/toString. The oracle is the composition the specification states:
// the parse model applied to the reference ToString of the argument, the format
// model applied to the reference ToNumber of the digit argument and to the
// [[PrimitiveValue]] of the receiver.

// kind is one non-number argument value.
type kind struct {
	js  string  // JavaScript expression that builds the value
	str string  // ToString(value) (9.8)
	num float64 // ToNumber(value) (9.3)
	err string  // "TypeError" when both conversions throw (8.12.8)
}

var nan = math.NaN()

var argKinds = []kind{
	{js: "undefined", str: "undefined", num: nan},
	{js: "null", str: "null", num: 0},
	{js: "true", str: "true", num: 1},
	{js: "false", str: "false", num: 0},
	{js: `"12px"`, str: "12px", num: nan},
	{js: `" 0x1F "`, str: " 0x1F ", num: 31},
	{js: `"1e21"`, str: "1e21", num: 1e21},
	{js: `""`, str: "", num: 0},
	{js: "new Number(1e21)", str: "1e+21", num: 1e21},
	{js: "new Number(-0)", str: "0", num: math.Copysign(0, -1)},
	{js: "new Number(255.5)", str: "255.5", num: 255.5},
	{js: "new Number(1e-7)", str: "1e-7", num: 1e-7},
	{js: "new Number(NaN)", str: "NaN", num: nan},
	{js: "new Number(-Infinity)", str: "-Infinity", num: math.Inf(-1)},
	{js: `new String(" 0x1F ")`, str: " 0x1F ", num: 31},
	{js: `new String("12px")`, str: "12px", num: nan},
	{js: `new String("-0")`, str: "-0", num: math.Copysign(0, -1)},
	{js: "new Boolean(true)", str: "true", num: 1},
	{js: "new Boolean(false)", str: "false", num: 0},
	{js: `({valueOf: function(){ return "0x10" }})`, str: "[object Object]", num: 16},
	{js: `({toString: function(){ return "12px" }})`, str: "12px", num: nan},
	{js: `({valueOf: function(){ return 7 }, toString: function(){ return "9" }})`, str: "9", num: 7},
	{js: `({valueOf: function(){ return {} }, toString: function(){ return "1e3" }})`, str: "1e3", num: 1000},
	{js: `({toString: function(){ return {} }, valueOf: function(){ return "0x11" }})`, str: "0x11", num: 17},
	{js: `({toString: function(){ return 1e21 }})`, str: "1e+21", num: 1e21},
	{js: `({valueOf: function(){ return {} }, toString: function(){ return {} }})`, err: "TypeError"},
	{js: "[]", str: "", num: 0},
	{js: "[5]", str: "5", num: 5},
	{js: "[1,2]", str: "1,2", num: nan},
	{js: `["0x10"]`, str: "0x10", num: 16},
	{js: "[1e21]", str: "1e+21", num: 1e21},
	{js: "[[[7]]]", str: "7", num: 7},
	{js: `(function(){ var n = new Number(5); n.valueOf = function(){ return 7 }; return n })()`, str: "5", num: 7},
	{js: `(function(){ var n = new Number(5); n.toString = function(){ return "9" }; return n })()`, str: "9", num: 5},
	{js: "(function(){})", str: "", num: nan, err: "skip"}, // function source text: implementation-defined
}

// radix / digit-count argument kinds (index -1 = argument absent)
var countKinds = []kind{
	{js: "undefined", num: nan, str: "undefined"},
	{js: "0", num: 0}, {js: "10", num: 10}, {js: "16", num: 16}, {js: "2", num: 2}, {js: "36", num: 36}, {js: "37", num: 37}, {js: "1", num: 1},
	{js: `"16"`, num: 16}, {js: "NaN", num: nan}, {js: "-0", num: math.Copysign(0, -1)}, {js: "16.9", num: 16.9},
	{js: "new Number(16)", num: 16}, {js: "new Number(2)", num: 2}, {js: "true", num: 1}, {js: "false", num: 0}, {js: "null", num: 0},
	{js: `({valueOf: function(){ return 16 }})`, num: 16}, {js: `({valueOf: function(){ return 2 }})`, num: 2}, {js: `({toString: function(){ return "3" }})`, num: 3},
	{js: "[16]", num: 16}, {js: "[2]", num: 2}, {js: "[]", num: 0}, {js: `"0x10"`, num: 16}, {js: `" 2 "`, num: 2}, {js: `"2.9"`, num: 2.9}, {js: `""`, num: 0}, {js: `"abc"`, num: nan},
	{js: `new String("3")`, num: 3}, {js: "3", num: 3}, {js: "20", num: 20}, {js: "21", num: 21}, {js: "22", num: 22}, {js: "-1", num: -1}, {js: "Infinity", num: math.Inf(1)}, {js: "4294967312", num: 4294967312},
}

func kindList(l []kind) string {
	var p []string
	for _, k := range l {
		p = append(p, k.js)
	}
	return "[" + strings.Join(p, ",\n") + "]"
}

func kindsPrelude() string {
	return "var __K = " + kindList(argKinds) + ";\nvar __C = " + kindList(countKinds) + ";\n" + `
function __piK(i, j) { return j < 0 ? parseInt(__K[i]) : parseInt(__K[i], __C[j]); }
function __piX(x, j) { return j < 0 ? parseInt(x) : parseInt(x, __C[j]); }
function __pfK(i) { return parseFloat(__K[i]); }
function __pfX(x) { return parseFloat(x); }
function __numK(i) { return Number(__K[i]); }
function __plusK(i) { return +__K[i]; }
function __minusK(i) { return __K[i] - 0; }
function __numX(x) { return Number(x); }
function __plusX(x) { return +x; }
function __recv(kind, x) {
  if (kind === 0) return x;
  var n = new Number(x);
  if (kind === 2) { n.valueOf = function(){ return 7 }; n.toString = function(){ return "9" }; }
  return n;
}
function __fmt(m, kind, x, j) {
  var o = __recv(kind, x), r;
  try { r = j < 0 ? Number.prototype[m].call(o) : Number.prototype[m].call(o, __C[j]); return (typeof r === 'string' ? 's:' : 'T:' + typeof r + ':') + r; } catch (e) { return 'E:' + (e && e.name); }
}
`
}

// number primitives used as arguments: the tier's double alphabet (it contains
// both ToString layout switches 1e21 and 1e-7 with their neighbourhoods, +-0,
// NaN, +-Infinity, 2^53.., MAX_VALUE, MIN_VALUE)
func runArgKinds(r *engine.Run) {
	c, err := newCaller(kindsPrelude() + parsePrelude)
	if err != nil {
		r.HarnessError(err.Error())
		return
	}
	st := &stopper{r: r}
	n := 0
	check := func(key, sub, input, exp string, nontrivial bool, v otto.Value, e string) {
		obs := numObs(v, e)
		r.Eval(nontrivial)
		r.Outcome(obs)
		if obs == exp || !wanted(r, key+"#"+sub) {
			return
		}
		report(r, engine.Mismatch{Key: key + "#" + sub, Input: input, Expected: exp, Observed: obs, Aux: map[string]string{"op": "argkind", "sub": sub}})
	}
	countJS := func(j int) string {
		if j < 0 {
			return ""
		}
		return ", " + countKinds[j].js
	}
	radixNum := func(j int) float64 {
		if j < 0 {
			return nan
		}
		return countKinds[j].num
	}
	// A. non-number kinds x every entry point x every radix kind
	for i, k := range argKinds {
		key := fmt.Sprintf("K:%02d", i)
		n++
		if k.err == "skip" || !mine(r, key) {
			continue
		}
		expErr := ""
		if k.err != "" {
			expErr = "E:" + k.err
		}
		for j := -1; j < len(countKinds); j++ {
			exp := expErr
			if exp == "" {
				exp = expNum(num.ParseInt(k.str, radixNum(j)).Value)
			}
			r.Begin(key)
			v, e := c.call("__piK", float64(i), float64(j))
			r.End()
			check(key, fmt.Sprintf("parseInt/%d", j), "parseInt("+k.js+countJS(j)+")", exp, expErr == "", v, e)
		}
		for _, f := range []struct {
			fn, render string
			val        func() float64
		}{
			{"__pfK", "parseFloat(%s)", func() float64 { return num.ParseFloat(k.str) }},
			{"__numK", "Number(%s)", func() float64 { return k.num }},
			{"__plusK", "+(%s)", func() float64 { return k.num }},
			{"__minusK", "(%s) - 0", func() float64 { return k.num }},
		} {
			exp := expErr
			if exp == "" {
				exp = expNum(f.val())
			}
			r.Begin(key)
			v, e := c.call(f.fn, float64(i))
			r.End()
			check(key, f.fn, fmt.Sprintf(f.render, k.js), exp, expErr == "", v, e)
		}
	}
	// B. Number primitives (float64 kind, and int kind where exact) x entry points x radix kinds
	radixIdx := []int{-1, 0, 1, 2, 3, 4, 5, 6, 7, 8, 9} // absent undefined 0 10 16 2 36 37 1 "16" NaN
	forDoubles(r.Thorough(), func(x float64) {
		n++
		key := "X:" + hexKey(x)
		if !mine(r, key) || st.stop() {
			return
		}
		str := num.ToString(x)
		type rep struct {
			tag string
			val interface{}
		}
		reps := []rep{{"", x}}
		if num.IsIntegral(x) && math.Abs(x) <= 9007199254740992 && !(x == 0 && math.Signbit(x)) {
			reps = append(reps, rep{"@int", int64(x)})
		}
		finite := !math.IsNaN(x) && !math.IsInf(x, 0)
		for _, rp := range reps {
			for _, j := range radixIdx {
				exp := expNum(num.ParseInt(str, radixNum(j)).Value)
				r.Begin(key)
				v, e := c.call("__piX", rp.val, float64(j))
				r.End()
				check(key, fmt.Sprintf("parseInt/%d%s", j, rp.tag), "parseInt("+jsNum(x)+countJS(j)+")", exp, finite, v, e)
			}
			r.Begin(key)
			v, e := c.call("__pfX", rp.val)
			v2, e2 := c.call("__numX", rp.val)
			v3, e3 := c.call("__plusX", rp.val)
			r.End()
			check(key, "parseFloat"+rp.tag, "parseFloat("+jsNum(x)+")", expNum(num.ParseFloat(str)), finite, v, e)
			check(key, "Number"+rp.tag, "Number("+jsNum(x)+")", expNum(x), finite, v2, e2)
			check(key, "+"+rp.tag, "+("+jsNum(x)+")", expNum(x), finite, v3, e3)
		}
		if r.WantSample() && n%101 == 0 {
			v, e := c.call("__piX", x, float64(-1))
			r.Sample(fmt.Sprintf("parseInt(%s) => %s", jsNum(x), numObs(v, e)))
		}
	})
	r.Bound("argument_kinds", fmt.Sprint(len(argKinds)))
	r.Bound("radix_kinds", fmt.Sprint(len(countKinds)+1))
	r.Bound("number_primitives", fmt.Sprint(n-len(argKinds)))
}

// receivers and digit-count arguments of the Number.prototype formatting methods as kinds
var recvNames = []string{"primitive", "new Number(x)", "new Number(x) with own valueOf->7, toString->\"9\""}

var recvValues = []float64{0, math.Copysign(0, -1), 1, 1.5, 2.5, -2.5, 25, 123.456, 255, 1e21, 1e-7, 0.000001234, 9007199254740993, nan, math.Inf(1), math.Inf(-1), -1e21, 0.5, 1234.5678, 1e20}

func runRecvKinds(r *engine.Run) {
	c, err := newCaller(kindsPrelude())
	if err != nil {
		r.HarnessError(err.Error())
		return
	}
	methods := []string{"toFixed", "toExponential", "toPrecision", "toString"}
	n := 0
	for _, m := range methods {
		for rk := range recvNames {
			for _, x := range recvValues {
				key := fmt.Sprintf("F:%s/%d/%s", m, rk, hexKey(x))
				n++
				if !mine(r, key) {
					continue
				}
				for j := -1; j < len(countKinds); j++ {
					a := arg{js: "", num: nan, undef: true}
					if j >= 0 {
						a = arg{js: countKinds[j].js, num: countKinds[j].num, undef: countKinds[j].js == "undefined"}
					}
					var exp string
					switch m {
					case "toFixed":
						exp = num.ToFixed(x, a.num).String()
					case "toExponential":
						exp = num.ToExponential(x, a.num, a.undef).String()
					case "toPrecision":
						exp = num.ToPrecision(x, a.num, a.undef).String()
					case "toString":
						rd := 10.0
						if !a.undef {
							rd = num.ToInteger(a.num)
						}
						if rd != 10 && rd >= 2 && rd <= 36 && !num.IsIntegral(x) && !math.IsNaN(x) && !math.IsInf(x, 0) {
							continue // fractional radix output: not asserted
						}
						exp = radixModel(x, a).String()
					}
					r.Begin(key)
					v, e := c.call("__fmt", m, float64(rk), x, float64(j))
					r.End()
					obs := e
					if e == "" {
						obs, _ = v.ToString()
					}
					r.Eval(strings.HasPrefix(exp, "s:"))
					r.Outcome(obs)
					sub := fmt.Sprintf("%s#%d", key, j)
					if obs == exp || !wanted(r, sub) {
						continue
					}
					recv := jsNum(x)
					if rk > 0 {
						recv = strings.Replace(recvNames[rk], "x", jsNum(x), 1)
					}
					report(r, engine.Mismatch{Key: sub, Input: fmt.Sprintf("(%s).%s(%s)", recv, m, a.js), Expected: exp, Observed: obs,
						Aux: map[string]string{"op": m, "x": hexKey(x), "arg": a.js, "argnum": hexKey(a.num), "undef": fmt.Sprint(a.undef), "recv": fmt.Sprint(rk)}})
				}
			}
		}
	}
	r.Bound("methods", strings.Join(methods, " "))
	r.Bound("receiver_kinds", strings.Join(recvNames, "; "))
	r.Bound("receiver_values", fmt.Sprint(len(recvValues)))
	r.Bound("digit_argument_kinds", fmt.Sprint(len(countKinds)+1))
}

// numeric literals as property names of object initialisers (11.1.5: the
// property name is ToString of the literal's Number value)
func runLiteralKey(r *engine.Run) {
	vm := otto.New()
	st := &stopper{r: r}
	n := 0
	forStrings(r.Thorough(), maxLen(r, 4, 5), func(key, s string) {
		if s == "" || strings.TrimFunc(s, num.IsStrWhiteSpaceChar) != s || s[0] == '+' || s[0] == '-' {
			return
		}
		kind, v := num.NumericLiteral(s)
		if kind != num.LitValue {
			return
		}
		n++
		if !mine(r, key) || st.stop() {
			return
		}
		src := "Object.keys({" + s + ": 1})[0]"
		exp := "s:" + num.ToString(v)
		r.Begin(key)
		res := ox.Run(vm, src)
		r.End()
		var obs string
		switch {
		case res.Panicked:
			obs = "gopanic:" + oneLine(fmt.Sprint(res.PanicVal))
			vm = otto.New()
		case res.Err != nil:
			obs = "E:" + ox.ErrClass(res.Err)
		case res.Value.IsString():
			t, _ := res.Value.ToString()
			obs = "s:" + t
		default:
			obs = "T:" + ox.Canon(res.Value)
		}
		r.Eval(true)
		r.Outcome(obs)
		if obs != exp {
			report(r, engine.Mismatch{Key: key, Input: src, Expected: exp, Observed: obs, Aux: textAux("literalkey", s)})
		}
		if r.WantSample() && n%7 == 0 {
			r.Sample(src + " => " + obs)
		}
	})
	r.Bound("literal_keys", fmt.Sprint(n))
}
