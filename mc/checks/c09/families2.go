package c09

import (
	"fmt"
	"math"
	"strings"

	"github.com/robertkrimen/otto"

	"verif/mc/engine"
	"verif/mc/ox"
	"verif/mc/ref/str16"
)

// ---------------------------------------------------------------- localeCompare (sign only)

// 15.5.4.9 leaves the order to the implementation; what is checked is what any
// conforming comparison must satisfy: zero exactly for equal strings (no two
// distinct strings of the alphabet are canonically equivalent), antisymmetry of
// the sign, transitivity, and ToString of receiver and argument.

func sign(res ox.Result) (int, string) {
	if res.Panicked || res.Err != nil || !res.Value.IsNumber() {
		return 0, canonResult(res)
	}
	f, _ := res.Value.ToFloat()
	switch {
	case math.IsNaN(f):
		return 0, "d:NaN"
	case f < 0:
		return -1, ""
	case f > 0:
		return 1, ""
	}
	return 0, ""
}

func lcObserve(e *env, src string, a, b otto.Value) string {
	s1, bad1 := sign(e.invoke(src, otto.UndefinedValue(), []otto.Value{a, b}))
	s2, bad2 := sign(e.invoke(src, otto.UndefinedValue(), []otto.Value{b, a}))
	if bad1 != "" || bad2 != "" {
		return "bad:" + bad1 + "|" + bad2
	}
	if s1 != 0 && s2 == -s1 {
		return "x,-x"
	}
	return fmt.Sprintf("%d,%d", s1, s2)
}

func lcExpect(s, t []uint16) string {
	if cStr(s) == cStr(t) {
		return "0,0"
	}
	return "x,-x"
}

func runLocaleCompare(r *engine.Run) {
	e := newEnv(r)
	strs := allStrings(maxLen(r))
	args := allStrings(2)
	lcRoutes := []route{routes[0], routes[2], routes[4]} // dot, call, tos
	for _, rt := range lcRoutes {
		src := driverSrc("localeCompare", rt, 1)
		for _, repr := range reprNames {
			for _, s := range strs {
				sv, ok := s.val(repr)
				if !ok {
					continue
				}
				prefix := "localeCompare/" + rt.name + "/" + repr + "/" + s.hex
				if !batch(r, prefix) {
					continue
				}
				if r.Expired() {
					r.Cap("time budget reached")
					return
				}
				r.Begin(prefix)
				for _, t := range args {
					k := &kase{m: "localeCompare", route: rt.name, repr: repr, s: s.u, tKind: "str", t: t.u, a: noArg, b: noArg}
					key := k.key()
					if !one(r, prefix, key) {
						continue
					}
					obs := lcObserve(e, src, sv, t.argVal(repr))
					judge(r, k, key, lcExpect(s.u, t.u), obs, cStr(s.u) != cStr(t.u))
				}
				r.End()
			}
		}
	}
	bounds(r)

	// transitivity over the strings of length <= 2 (complete matrix, then all triples)
	if r.Shard != 0 && r.ReplayKey == "" {
		return
	}
	if r.ReplayKey != "" && !strings.HasPrefix(r.ReplayKey, "lc-order") {
		return
	}
	src := "(function(s,a){ return s.localeCompare(a); })"
	n := len(args)
	mat := make([][]int, n)
	for i, a := range args {
		mat[i] = make([]int, n)
		for j, b := range args {
			sg, bad := sign(e.invoke(src, otto.UndefinedValue(), []otto.Value{a.v16, b.v16}))
			if bad != "" {
				sg = 9
			}
			mat[i][j] = sg
		}
	}
	var triples, nt int64
	for i := 0; i < n; i++ {
		for j := 0; j < n; j++ {
			for k := 0; k < n; k++ {
				triples++
				if mat[i][j] == 9 || mat[j][k] == 9 || mat[i][k] == 9 {
					continue
				}
				if mat[i][j] <= 0 && mat[j][k] <= 0 {
					nt++
					if mat[i][k] > 0 || (mat[i][k] == 0 && (mat[i][j] < 0 || mat[j][k] < 0)) {
						key := "lc-order/" + args[i].hex + "/" + args[j].hex + "/" + args[k].hex
						r.Mismatch(engine.Mismatch{Key: key,
							Input:    fmt.Sprintf("x=%s y=%s z=%s: sign(x.localeCompare(y))=%d sign(y.localeCompare(z))=%d", jsRender(args[i].u, "u16"), jsRender(args[j].u, "u16"), jsRender(args[k].u, "u16"), mat[i][j], mat[j][k]),
							Expected: "x <= z strictly consistent (transitive order)", Observed: fmt.Sprintf("sign(x.localeCompare(z))=%d", mat[i][k])})
					}
				}
			}
		}
	}
	r.EvalN(triples, nt)
	r.Bound("transitivity", fmt.Sprintf("all triples over the %d strings of length <= 2", n))
}

// ---------------------------------------------------------------- String.fromCharCode

type fccVal struct {
	name string
	js   string
	num  float64 // ToNumber(value)
}

func fccNum(f float64) fccVal { return fccVal{name: ox.JSNum(f), js: ox.JSNum(f), num: f} }

var fccVals = []fccVal{
	fccNum(0), fccNum(1), fccNum(65), fccNum(0xD83D), fccNum(0xDE00), fccNum(0xFFFD), fccNum(65535), fccNum(65536), fccNum(65601),
	fccNum(-1), fccNum(-65536), fccNum(-65471), fccNum(2147483648), fccNum(2147483713), fccNum(4294967296), fccNum(4294967361),
	fccNum(-2147483648), fccNum(-4294967231), fccNum(9007199254740992), fccNum(9007199254740991),
	fccNum(9223372036854775808), fccNum(9223372036854777856), fccNum(-9223372036854777856), fccNum(18446744073709555712),
	fccNum(1e21), fccNum(1.2345678901234567e25), fccNum(math.MaxFloat64), fccNum(5e-324),
	fccNum(math.NaN()), fccNum(math.Inf(1)), fccNum(math.Inf(-1)), fccNum(0.5), fccNum(-0.5), fccNum(65.9), fccNum(-65.9), fccNum(65535.9), fccNum(math.Copysign(0, -1)),
	{"str65", `"65"`, 65}, {"strhex", `"0x41"`, 65}, {"strpad", `" 66 "`, 66}, {"strempty", `""`, 0}, {"strx", `"x"`, math.NaN()}, {"str1e3", `"1e3"`, 1000},
	{"true", "true", 1}, {"false", "false", 0}, {"null", "null", 0}, {"undefined", "undefined", math.NaN()},
	{"arr67", "[67]", 67}, {"objvalueOf", "({valueOf: function(){ return 68 }})", 68}, {"objtoString", `({toString: function(){ return "69" }})`, 69},
}

func readbackExpect(u []uint16) string {
	parts := []string{fmt.Sprint(len(u))}
	for _, c := range u {
		parts = append(parts, fmt.Sprint(int(c)))
	}
	return "s:" + strings.Join(parts, ",")
}

const readbackBody = `var o = [x.length]; for (var i = 0; i < x.length; i++) o.push(x.charCodeAt(i)); return o.join();`

func runFromCharCode(r *engine.Run) {
	e := newEnv(r)
	var tuples [][]fccVal
	tuples = append(tuples, nil)
	for _, v := range fccVals {
		tuples = append(tuples, []fccVal{v})
	}
	pairSet := fccVals[:12]
	if r.Thorough() {
		pairSet = fccVals
	}
	for _, a := range pairSet {
		for _, b := range pairSet {
			tuples = append(tuples, []fccVal{a, b})
		}
	}
	tuples = append(tuples, []fccVal{fccNum(0xD83D), fccNum(0xDE00), fccNum(65)}, []fccVal{fccNum(65), fccNum(0xD83D), fccNum(0xDE00)},
		[]fccVal{fccNum(0xDE00), fccNum(0xD83D), fccNum(65)}, []fccVal{fccNum(97), fccNum(98), fccNum(99), fccNum(100), fccNum(101)})
	for _, tu := range tuples {
		names, srcs, nums := []string{}, []string{}, []float64{}
		for _, v := range tu {
			names = append(names, v.name)
			srcs = append(srcs, v.js)
			nums = append(nums, v.num)
		}
		prefix := "fromCharCode/" + strings.Join(names, ",")
		if !batch(r, prefix) {
			continue
		}
		r.Begin(prefix)
		call := "String.fromCharCode(" + strings.Join(srcs, ", ") + ")"
		want := str16.FromCharCode(nums)
		// (1) the returned value's code units
		if key := prefix + "/value"; one(r, prefix, key) {
			obs := e.call("(function(){ return " + call + "; })")
			k := &kase{m: "fccValue", route: "-", repr: "-", s: want, tKind: "-", a: noArg, b: noArg, nums: append([]float64{}, nums...)}
			r.Eval(len(want) > 0)
			r.Outcome(obs)
			if r.WantSample() && len(tu) > 0 {
				r.Sample(call + " => " + obs)
			}
			if exp := cStr(want); exp != obs {
				r.Mismatch(engine.Mismatch{Key: key, Input: call, Expected: exp, Observed: obs, Aux: k.aux()})
			}
		}
		// (2) read back in-script through length / charCodeAt
		if key := prefix + "/script"; one(r, prefix, key) {
			obs := e.call("(function(){ var x = " + call + "; " + readbackBody + " })")
			k := &kase{m: "readback", route: "-", repr: "-", s: want, tKind: "-", a: noArg, b: noArg, nums: append([]float64{}, nums...)}
			r.Eval(len(want) > 0)
			r.Outcome(obs)
			if exp := readbackExpect(want); exp != obs {
				r.Mismatch(engine.Mismatch{Key: key, Input: "x = " + call + "; [x.length, x.charCodeAt(0), ...]", Expected: exp, Observed: obs, Aux: k.aux()})
			}
		}
		r.End()
	}
	r.Bound("values", fmt.Sprintf("%d ToUint16 boundary values singly, %d pairs, 0/3/5-argument calls", len(fccVals), len(pairSet)*len(pairSet)))
}

// ---------------------------------------------------------------- index: property names on strings and String objects (15.5.5.2)

type propName struct {
	p   string
	num float64 // ToNumber(p)
}

var propNames = []propName{
	{"0", 0}, {"1", 1}, {"2", 2}, {"3", 3}, {"01", 1}, {"00", 0}, {"-0", math.Copysign(0, -1)}, {"-1", -1}, {"+1", 1}, {"1.0", 1}, {"1.", 1}, {"1e0", 1}, {"0x1", 1},
	{" 1", 1}, {"1 ", 1}, {"", 0}, {"0.5", 0.5}, {"4294967294", 4294967294}, {"4294967295", 4294967295}, {"4294967296", 4294967296}, {"4294967297", 4294967297},
	{"18446744073709551617", 18446744073709551617}, {"1e+21", 1e21}, {"Infinity", math.Inf(1)}, {"NaN", math.NaN()}, {"x", math.NaN()},
}

func propArg(p propName) posArg {
	return posArg{name: "p:" + p.p, js: ox.JSLit(p.p), val: mustVal(p.p), arg: str16.N(p.num), prop: p.p}
}

func init() {
	// make the property-name and converted-number arguments resolvable from mismatch Aux data
	for _, p := range propNames {
		extraArgs = append(extraArgs, propArg(p))
	}
	for _, a := range numObjArgs {
		extraArgs = append(extraArgs, posArg{name: "x:" + a.name, js: a.js, arg: str16.N(a.num)})
	}
}

func runIndex(r *engine.Run) {
	e := newEnv(r)
	strs := allStrings(maxLen(r))
	primSrc := "(function(s,a){ var v = s[a]; return [typeof v, v]; })"
	objSrc := "(function(s,a){ var o = new String(s); var v = o[a]; var d = Object.getOwnPropertyDescriptor(o, a); " +
		"return [typeof v, v, Object.prototype.hasOwnProperty.call(o, a), (a in o), (d ? (d.writable ? 1 : 0) + '' + (d.enumerable ? 1 : 0) + (d.configurable ? 1 : 0) : 'none')]; })"
	for _, rtName := range []string{"dot", "objdot"} {
		for _, repr := range reprNames {
			for _, s := range strs {
				sv, ok := s.val(repr)
				if !ok {
					continue
				}
				prefix := "prop/" + rtName + "/" + repr + "/" + s.hex
				if !batch(r, prefix) {
					continue
				}
				r.Begin(prefix)
				for _, pn := range propNames {
					pa := propArg(pn)
					k := &kase{m: "prop", route: rtName, repr: repr, s: s.u, tKind: "-", a: pa, b: noArg}
					key := k.key()
					if !one(r, prefix, key) {
						continue
					}
					src := primSrc
					if rtName == "objdot" {
						src = objSrc
					}
					obs := e.call(src, sv, pa.val)
					exp, nt := specProp(k)
					judge(r, k, key, exp, obs, nt)
				}
				r.End()
			}
		}
	}
	bounds(r)
	r.Bound("property_names", fmt.Sprint(len(propNames)))
}

// specProp is 15.5.5.2 observed through [], hasOwnProperty, in and the descriptor.
func specProp(k *kase) (string, bool) {
	c, ok := str16.OwnIndex(k.s, k.a.prop, str16.ToInteger(k.a.arg.Num))
	return propOutcome(k.route, c, ok), ok
}

// propOutcome renders [typeof v, v, hasOwnProperty, in, descriptor attributes] canonically.
func propOutcome(route string, c uint16, ok bool) string {
	parts := []string{"s:undefined", "u"}
	if ok {
		parts = []string{"s:string", cStr([]uint16{c})}
	}
	if route == "objdot" {
		b, d := "b:0", "s:none"
		if ok {
			b, d = "b:1", "s:010"
		}
		parts = append(parts, b, b, d)
	}
	return "[" + strings.Join(parts, ",") + "]"
}

// ---------------------------------------------------------------- receivers: 12, true, undefined, null

var fixedRoutes = []route{
	{"num12", "12", true},
	{"booltrue", "true", true},
}

var genericMethods = []string{"charAt", "charCodeAt", "indexOf", "lastIndexOf", "slice", "substring", "split", "concat", "trim", "toLowerCase", "toUpperCase", "localeCompare"}

func runReceivers(r *engine.Run) {
	e := newEnv(r)
	// (a) Number and Boolean receivers: every method family with its complete argument alphabet
	bodies := []strBody{charAtBody(r, e), indexOfBody(r, e), sliceBody(r, e), splitBody(r, e), concatBody(r, e), unaryBody(r, e)}
	for _, fr := range fixedRoutes {
		text := "12"
		if fr.name == "booltrue" {
			text = "true"
		}
		s := mkStr(ox.Units(text))
		for _, b := range bodies {
			b(fr, "u16", s, s.v16)
		}
	}
	// (b) undefined and null receivers must be rejected with a TypeError (15.5.4.x step 1, CheckObjectCoercible).
	// B.2.3 substr has no such step in ES5.1 and is not checked here.
	global := "?"
	if res := ox.Run(e.vm, "String(this)"); res.Err == nil && !res.Panicked {
		global, _ = res.Value.ToString()
	}
	type delivery struct {
		name string
		src  func(m, recv, args string) string
	}
	deliveries := []delivery{
		{"call", func(m, recv, args string) string {
			return "String.prototype." + m + ".call(" + strings.TrimSuffix(recv+", "+args, ", ") + ")"
		}},
		{"apply", func(m, recv, args string) string {
			return "String.prototype." + m + ".apply(" + recv + ", [" + args + "])"
		}},
		{"bind", func(m, recv, args string) string {
			return "String.prototype." + m + ".bind(" + recv + ")(" + args + ")"
		}},
		{"local", func(m, recv, args string) string {
			return "(function(f){ return f(" + args + "); })(String.prototype." + m + ")"
		}},
		// a plain call through a global variable: the reference's base is the global object
		// environment record, whose ImplicitThisValue is undefined (10.2.1.2.6, 11.2.3 step 6.b)
		{"globalvar", func(m, recv, args string) string {
			return "(__gf = String.prototype." + m + ", __gf(" + args + "))"
		}},
	}
	argSets := []struct{ name, src string }{{"noargs", ""}, {"args", `"e", 1`}}
	for _, m := range append(append([]string{}, genericMethods...), "substr") {
		for _, recv := range []string{"undefined", "null"} {
			for _, as := range argSets {
				// 15.5.4.x step 1 rejects undefined and null; B.2.3 substr has no such step in
				// ES5.1: it converts the this value with ToString ("undefined" / "null").
				typeError := typeError
				if m == "substr" {
					if k := rejectKase(m, ox.Units(recv), as.name); k != nil {
						typeError, _ = spec(k)
					}
				}
				for _, d := range deliveries {
					if (d.name == "local" || d.name == "globalvar") && recv != "undefined" {
						continue
					}
					key := "reject/" + m + "/" + d.name + "/" + recv + "/" + as.name
					if !r.MineKey(key) {
						continue
					}
					r.Begin(key)
					expr := d.src(m, recv, as.src)
					obs := e.call("(function(){ return " + expr + "; })")
					r.End()
					filed(r, key, expr, typeError, obs, map[string]string{"m": "reject", "method": m, "delivery": d.name, "recv": recv, "args": as.name, "global": global})
				}
				// through the Go API: Value.Call with this = undefined / null
				key := "reject/" + m + "/goapi/" + recv + "/" + as.name
				if !r.MineKey(key) {
					continue
				}
				r.Begin(key)
				this := otto.UndefinedValue()
				if recv == "null" {
					this = otto.NullValue()
				}
				var args []otto.Value
				if as.name == "args" {
					args = []otto.Value{mustVal("e"), mustVal(1)}
				}
				fres := ox.Run(e.vm, "String.prototype."+m)
				obs := "no-function"
				if fres.Err == nil && !fres.Panicked {
					f := fres.Value
					res := ox.Guard(func() (otto.Value, error) { return f.Call(this, args) })
					if res.Panicked {
						e.reset()
					}
					obs = canonResult(res)
				}
				r.End()
				filed(r, key, "Go: String.prototype."+m+" Value.Call(this="+recv+", "+as.src+")", typeError, obs,
					map[string]string{"m": "reject", "method": m, "delivery": "goapi", "recv": recv, "args": as.name, "global": global})
			}
		}
	}
	r.Bound("fixed_receivers", "12 and true with the complete argument alphabets of every method; undefined and null through call, apply, bind, a plain call of a local variable and the Go API")
}

// filed records a case with an explicit Aux map.
func filed(r *engine.Run, key, input, exp, obs string, aux map[string]string) {
	r.Eval(true)
	r.Tree(1, 1)
	r.Outcome(obs)
	if r.WantSample() {
		r.Sample(input + " => " + obs)
	}
	if exp != obs {
		r.Mismatch(engine.Mismatch{Key: key, Input: input, Expected: exp, Observed: obs, Aux: aux})
	}
}

// numObjArgs: number-valued arguments given as objects / strings (ToNumber, then ToInteger).
var numObjArgs = []struct {
	name, js string
	num      float64
	// goSyntax: a string that is not a StringNumericLiteral (9.3.1: NaN) but that Go's
	// strconv accepts; goNum is the value strconv gives it (known finding F-C05-002 / F-C09-019)
	goSyntax bool
	goNum    float64
}{
	{name: "valueOf", js: "({valueOf: function(){ return 2 }})", num: 2}, {name: "toStringNum", js: `({toString: function(){ return "3" }})`, num: 3}, {name: "numobj", js: "new Number(1)", num: 1},
	{name: "strfrac", js: `"1.9"`, num: 1.9}, {name: "strneg", js: `"-1"`, num: -1}, {name: "strjunk", js: `"1x"`, num: math.NaN()}, {name: "strhex", js: `"0x2"`, num: 2}, {name: "strinf", js: `"Infinity"`, num: math.Inf(1)},
	{name: "arr", js: "[2]", num: 2}, {name: "emptyarr", js: "[]", num: 0}, {name: "false", js: "false", num: 0}, {name: "strempty", js: `""`, num: 0}, {name: "strexp", js: `"1e1"`, num: 10}, {name: "large", js: "4294967297", num: 4294967297}, {name: "neglarge", js: "-4294967295", num: -4294967295},
	// the StringNumericLiteral grammar (9.3.1) seen through position arguments
	{name: "strpad", js: `" 2 "`, num: 2}, {name: "strplus", js: `"+2"`, num: 2}, {name: "strdot", js: `"2."`, num: 2}, {name: "strleaddot", js: `".5e1"`, num: 5},
	{name: "strNegInfinity", js: `"-Infinity"`, num: math.Inf(-1)}, {name: "strPlusInfinity", js: `"+Infinity"`, num: math.Inf(1)},
	{name: "strsignedhex", js: `"+0x2"`, num: math.NaN()}, {name: "strneghex", js: `"-0x2"`, num: math.NaN()}, {name: "strbin", js: `"0b10"`, num: math.NaN()},
	{name: "stroct", js: `"0o2"`, num: math.NaN()}, {name: "strbareexp", js: `"2e"`, num: math.NaN()}, {name: "stronlydot", js: `"."`, num: math.NaN()},
	{name: "strhexfloat", js: `"0x1p1"`, num: math.NaN()}, {name: "strnan", js: `"nan"`, num: math.NaN()}, {name: "strtwo", js: `"2 2"`, num: math.NaN()},
	{name: "strinfinity", js: `"infinity"`, num: math.NaN(), goSyntax: true, goNum: math.Inf(1)}, {name: "strinfshort", js: `"inf"`, num: math.NaN(), goSyntax: true, goNum: math.Inf(1)},
	{name: "strPlusInf", js: `"+Inf"`, num: math.NaN(), goSyntax: true, goNum: math.Inf(1)}, {name: "strneginf", js: `"-inf"`, num: math.NaN(), goSyntax: true, goNum: math.Inf(-1)},
	{name: "strINFINITY", js: `"INFINITY"`, num: math.NaN(), goSyntax: true, goNum: math.Inf(1)},
	{name: "strunderscore", js: `"1_0"`, num: math.NaN(), goSyntax: true, goNum: 10}, {name: "strunderscore2", js: `"0_2"`, num: math.NaN(), goSyntax: true, goNum: 2},
}

// ---------------------------------------------------------------- argconv: ToString / ToNumber of non-primitive-string arguments

func runArgConv(r *engine.Run) {
	e := newEnv(r)
	recvText := "null undefined 12 true 1,2 tr y 12"
	recv := mkStr(ox.Units(recvText))
	type av struct{ name, js, str string }
	strArgs := []av{
		{"omitted", "", "undefined"}, {"undefined", "undefined", "undefined"}, {"null", "null", "null"}, {"num12", "12", "12"}, {"true", "true", "true"},
		{"arr", "[1,2]", "1,2"}, {"tos", `({toString: function(){ return "y" }})`, "y"}, {"strobj", `new String("12")`, "12"},
		{"both", `({valueOf: function(){ return 5 }, toString: function(){ return "tr" }})`, "tr"}, {"numobj", "new Number(12)", "12"},
	}
	for _, m := range []string{"indexOf", "lastIndexOf", "split", "concat", "localeCompare"} {
		for _, a := range strArgs {
			key := "argconv/" + m + "/" + a.name
			if !r.MineKey(key) {
				continue
			}
			r.Begin(key)
			expr := "s." + m + "(" + a.js + ")"
			obs := e.call("(function(s){ return "+expr+"; })", recv.v16)
			r.End()
			k := &kase{m: m, route: "dot", repr: "u16", s: recv.u, tKind: "str", t: ox.Units(a.str), a: noArg, b: noArg}
			k.a = posArgs[0]
			if a.name == "omitted" || (m == "split" && a.name == "undefined") {
				k.tKind = "omitted"
				if m != "split" && m != "concat" {
					k.tKind = "undef"
				}
			}
			var exp string
			if m == "localeCompare" {
				// sign only: zero iff equal
				exp = "nonzero"
				if recvText == a.str {
					exp = "d:0"
				}
				if obs != "d:0" && strings.HasPrefix(obs, "d:") {
					obs = "nonzero"
				}
			} else {
				exp, _ = spec(k)
			}
			filed(r, key, ox.JSLit(recvText)+"."+m+"("+a.js+")", exp, obs, k.aux())
		}
	}
	// numeric arguments given as objects / strings: ToNumber then ToInteger
	numArgs := numObjArgs
	abc := mkStr(ox.Units("abcabc"))
	for _, m := range []string{"charAt", "charCodeAt", "indexOf", "lastIndexOf", "slice", "substring", "substr"} {
		for _, a := range numArgs {
			key := "argnum/" + m + "/" + a.name
			if !r.MineKey(key) {
				continue
			}
			pa := posArg{name: "x:" + a.name, js: a.js, arg: str16.N(a.num)}
			k := &kase{m: m, route: "dot", repr: "u16", s: abc.u, tKind: "-", a: pa, b: posArgs[0]}
			expr := "s." + m + "(" + a.js + ")"
			switch m {
			case "indexOf", "lastIndexOf":
				k.tKind, k.t = "str", ox.Units("b")
				expr = "s." + m + `("b", ` + a.js + ")"
			}
			r.Begin(key)
			obs := e.call("(function(s){ return "+expr+"; })", abc.v16)
			r.End()
			exp, _ := spec(k)
			aux := k.aux()
			aux["num"] = ox.Num(a.num)
			filed(r, key, `"abcabc"`+expr[1:], exp, obs, aux)
		}
	}
	r.Bound("argument_kinds", fmt.Sprintf("%d string-valued and %d number-valued non-primitive / string arguments", len(strArgs), len(numArgs)))
}

// ---------------------------------------------------------------- repr: every way a string value enters the runtime carries the same code units

func runRepr(r *engine.Run) {
	e := newEnv(r)
	strs := allStrings(maxLen(r))
	for _, s := range strs {
		prefix := "repr/" + s.hex
		if !batch(r, prefix) {
			continue
		}
		r.Begin(prefix)
		type variant struct {
			name string
			get  func() (otto.Value, string, bool) // value, rendered input
		}
		esc := func() string {
			var sb strings.Builder
			sb.WriteByte('"')
			for _, c := range s.u {
				fmt.Fprintf(&sb, "\\u%04X", c)
			}
			sb.WriteByte('"')
			return sb.String()
		}
		run := func(src string) (otto.Value, string, bool) {
			res := ox.Run(e.vm, src)
			if res.Panicked {
				e.reset()
				return otto.Value{}, src, false
			}
			if res.Err != nil {
				return otto.Value{}, src, false
			}
			return res.Value, src, true
		}
		variants := []variant{
			{"fromCharCode", func() (otto.Value, string, bool) { return run(fromCharCodeSrc(s.u)) }},
			{"escaped", func() (otto.Value, string, bool) { return run(esc()) }},
		}
		if s.wf {
			variants = append(variants,
				variant{"literal", func() (otto.Value, string, bool) { return run(`"` + s.goStr + `"`) }},
				variant{"set", func() (otto.Value, string, bool) {
					if err := e.vm.Set("__x", s.goStr); err != nil {
						return otto.Value{}, "vm.Set", false
					}
					return run("__x")
				}},
				variant{"tovalue", func() (otto.Value, string, bool) { return s.vgo, "otto.ToValue(" + ox.JSLit(s.goStr) + ")", true }},
			)
		}
		for _, v := range variants {
			key := prefix + "/" + v.name
			if !one(r, prefix, key) && !strings.HasPrefix(r.ReplayKey, key+"/") {
				continue
			}
			val, input, ok := v.get()
			obs1, obs2 := "error", "error"
			if ok {
				obs1 = canonValue(val)
				obs2 = e.call("(function(x){ "+readbackBody+" })", val)
			}
			k1 := &kase{m: "value", route: v.name, repr: "-", s: s.u, tKind: "-", a: noArg, b: noArg}
			r.Eval(len(s.u) > 0)
			r.Outcome(obs1)
			if exp := cStr(s.u); exp != obs1 {
				r.Mismatch(engine.Mismatch{Key: key + "/value", Input: input, Expected: exp, Observed: obs1, Aux: k1.aux()})
			}
			k2 := &kase{m: "readback", route: v.name, repr: "-", s: s.u, tKind: "-", a: noArg, b: noArg}
			r.Eval(len(s.u) > 0)
			r.Outcome(obs2)
			if r.WantSample() && len(s.u) > 1 {
				r.Sample("x = " + input + "; [x.length, x.charCodeAt(i)...] => " + obs2)
			}
			if exp := readbackExpect(s.u); exp != obs2 {
				r.Mismatch(engine.Mismatch{Key: key + "/script", Input: "x = " + input + "; [x.length, x.charCodeAt(0), ...]", Expected: exp, Observed: obs2, Aux: k2.aux()})
			}
		}
		r.End()
	}
	bounds(r)
	r.Bound("entry_points", "String.fromCharCode, \\uXXXX-escaped literal, raw UTF-8 literal, Otto.Set, otto.ToValue (the last three for well-formed strings)")
}
