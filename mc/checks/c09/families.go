package c09

import (
	"fmt"
	"strings"

	"github.com/robertkrimen/otto"

	"verif/mc/engine"
	"verif/mc/ref/str16"
)

// render gives the JS source of a method case for mismatch reports and samples.
func (k *kase) render() string {
	rt, _ := routeByName(k.route)
	recv := rt.recv
	switch k.route {
	case "objdot", "objcall":
		recv = "new String(" + jsRender(k.s, k.repr) + ")"
	case "tos":
		recv = "{toString: function(){ return " + jsRender(k.s, k.repr) + " }}"
	case "arr":
		recv = "[" + jsRender(k.s, k.repr) + "]"
	case "dot", "call":
		recv = jsRender(k.s, k.repr)
	}
	var args []string
	switch k.tKind {
	case "str":
		args = append(args, jsRender(k.t, k.repr))
		if k.m == "concat2" {
			args = append(args, jsRender(k.t2, k.repr))
		}
	case "undef":
		args = append(args, "undefined")
	}
	if !k.a.omitted && k.a.name != "" {
		args = append(args, k.a.js)
		if !k.b.omitted && k.b.name != "" {
			args = append(args, k.b.js)
		}
	}
	m := k.m
	if m == "concat2" {
		m = "concat"
	}
	switch m {
	case "index", "prop":
		return "(" + recv + ")[" + k.a.js + "]"
	case "length":
		return "(" + recv + ").length"
	case "forin":
		return "for (var n in " + recv + ") keys.push(n)"
	}
	if rt.call {
		return "String.prototype." + m + ".call(" + strings.Join(append([]string{recv}, args...), ", ") + ")"
	}
	return "(" + recv + ")." + m + "(" + strings.Join(args, ", ") + ")"
}

// judge files the outcome of one executed case.
func judge(r *engine.Run, k *kase, key, exp, obs string, nontrivial bool) {
	r.Eval(nontrivial)
	r.Tree(1, 1) // one leaf of the product tree and the edge leading to it
	r.Outcome(obs)
	if nontrivial && r.WantSample() {
		r.Sample(k.render() + " => " + obs)
	}
	if exp != obs {
		r.Mismatch(engine.Mismatch{Key: key, Input: k.render(), Expected: exp, Observed: obs, Aux: k.aux()})
	}
}

var noArg = posArg{name: "-", omitted: true}

// methodRoutes: the receiver routes enumerated for the method families.
func methodRoutes() []route { return routes }

// strBody runs every case of a family for one (route, representation, receiver string).
type strBody func(rt route, repr string, s *jsStr, sv otto.Value)

// forStrings enumerates (route, repr, receiver string) for a family.
func forStrings(r *engine.Run, f strBody) {
	strs := allStrings(maxLen(r))
	for _, rt := range methodRoutes() {
		for _, repr := range reprNames {
			for _, s := range strs {
				sv, ok := s.val(repr)
				if !ok {
					continue
				}
				if r.Expired() {
					r.Cap("time budget reached")
					return
				}
				f(rt, repr, s, sv)
			}
		}
	}
}

func bounds(r *engine.Run) {
	r.Bound("string_len", fmt.Sprint(maxLen(r)))
	r.Bound("strings", fmt.Sprint(len(allStrings(maxLen(r)))))
	r.Bound("routes", fmt.Sprint(len(routes)))
	r.Bound("representations", "u16 (String.fromCharCode), go (Go string, well-formed strings only)")
}

// ---------------------------------------------------------------- charat

func runCharAt(r *engine.Run) {
	e := newEnv(r)
	forStrings(r, charAtBody(r, e))
	bounds(r)
	r.Bound("positions", fmt.Sprint(len(posArgs)))
}

func charAtBody(r *engine.Run, e *env) strBody {
	return func(rt route, repr string, s *jsStr, sv otto.Value) {
		for _, m := range []string{"charAt", "charCodeAt", "index"} {
			if m == "index" && rt.call {
				continue
			}
			prefix := m + "/" + rt.name + "/" + repr + "/" + s.hex
			if !batch(r, prefix) {
				continue
			}
			r.Begin(prefix)
			for _, p := range posArgs {
				if m == "index" && p.omitted {
					continue
				}
				k := &kase{m: m, route: rt.name, repr: repr, s: s.u, tKind: "-", a: p, b: noArg}
				key := k.key()
				if !one(r, prefix, key) {
					continue
				}
				var src string
				args := []otto.Value{sv}
				if m == "index" {
					src = "(function(s,a){ return (" + rt.recv + ")[a]; })"
					args = append(args, p.val)
				} else if p.omitted {
					src = driverSrc(m, rt, 0)
				} else {
					src = driverSrc(m, rt, 1)
					args = append(args, p.val)
				}
				obs := e.call(src, args...)
				exp, nt := spec(k)
				judge(r, k, key, exp, obs, nt)
			}
			r.End()
		}
	}
}

// ---------------------------------------------------------------- indexof

func runIndexOf(r *engine.Run) {
	e := newEnv(r)
	searches := allStrings(2)
	forStrings(r, indexOfBody(r, e))
	bounds(r)
	r.Bound("search_strings", fmt.Sprint(len(searches)))
	r.Bound("positions", fmt.Sprint(len(posArgs)))
}

func indexOfBody(r *engine.Run, e *env) strBody { return indexOfBodyWith(r, e, allStrings(2)) }

func indexOfBodyWith(r *engine.Run, e *env, searches []*jsStr) strBody {
	return func(rt route, repr string, s *jsStr, sv otto.Value) {
		for _, m := range []string{"indexOf", "lastIndexOf"} {
			src0, src1 := driverSrc(m, rt, 1), driverSrc(m, rt, 2)
			for _, t := range searches {
				prefix := m + "/" + rt.name + "/" + repr + "/" + s.hex + "/" + t.hex
				if !batch(r, prefix) {
					continue
				}
				r.Begin(prefix)
				tv := t.argVal(repr)
				for _, p := range posArgs {
					k := &kase{m: m, route: rt.name, repr: repr, s: s.u, tKind: "str", t: t.u, a: p, b: noArg}
					key := k.key()
					if !one(r, prefix, key) {
						continue
					}
					var obs string
					if p.omitted {
						obs = e.call(src0, sv, tv)
					} else {
						obs = e.call(src1, sv, tv, p.val)
					}
					exp, nt := spec(k)
					judge(r, k, key, exp, obs, nt)
				}
				r.End()
			}
		}
	}
}

// ---------------------------------------------------------------- slice / substring / substr

func runSlice(r *engine.Run) {
	e := newEnv(r)
	forStrings(r, sliceBody(r, e))
	bounds(r)
	r.Bound("argument_pairs", fmt.Sprint(len(posArgs)*len(posArgs)-len(posArgs)+1))
}

func sliceBody(r *engine.Run, e *env) strBody {
	return func(rt route, repr string, s *jsStr, sv otto.Value) {
		for _, m := range []string{"slice", "substring", "substr"} {
			srcs := []string{driverSrc(m, rt, 0), driverSrc(m, rt, 1), driverSrc(m, rt, 2)}
			for _, a := range posArgs {
				prefix := m + "/" + rt.name + "/" + repr + "/" + s.hex + "/-/" + a.name
				if !batch(r, prefix) {
					continue
				}
				r.Begin(prefix)
				for _, b := range posArgs {
					if a.omitted && !b.omitted {
						continue
					}
					k := &kase{m: m, route: rt.name, repr: repr, s: s.u, tKind: "-", a: a, b: b}
					key := k.key()
					if !one(r, prefix, key) {
						continue
					}
					var obs string
					switch {
					case a.omitted:
						obs = e.call(srcs[0], sv)
					case b.omitted:
						obs = e.call(srcs[1], sv, a.val)
					default:
						obs = e.call(srcs[2], sv, a.val, b.val)
					}
					exp, nt := spec(k)
					judge(r, k, key, exp, obs, nt)
				}
				r.End()
			}
		}
	}
}

// ---------------------------------------------------------------- split

func runSplit(r *engine.Run) {
	e := newEnv(r)
	seps := allStrings(2)
	forStrings(r, splitBody(r, e))
	bounds(r)
	r.Bound("separators", fmt.Sprint(len(seps)+2))
	r.Bound("limits", fmt.Sprint(len(limitArgs)))
}

func splitBody(r *engine.Run, e *env) strBody { return splitBodyWith(r, e, allStrings(2)) }

func splitBodyWith(r *engine.Run, e *env, seps []*jsStr) strBody {
	return func(rt route, repr string, s *jsStr, sv otto.Value) {
		srcs := []string{driverSrc("split", rt, 0), driverSrc("split", rt, 1), driverSrc("split", rt, 2)}
		type sepT struct {
			kind string
			t    *jsStr
		}
		all := []sepT{{"omitted", nil}, {"undef", nil}}
		for _, t := range seps {
			all = append(all, sepT{"str", t})
		}
		for _, sp := range all {
			tk := sp.kind
			if sp.t != nil {
				tk = sp.t.hex
			}
			prefix := "split/" + rt.name + "/" + repr + "/" + s.hex + "/" + tk
			if !batch(r, prefix) {
				continue
			}
			r.Begin(prefix)
			var tv otto.Value
			var tu []uint16
			switch sp.kind {
			case "undef":
				tv = otto.UndefinedValue()
			case "str":
				tv = sp.t.argVal(repr)
				tu = sp.t.u
			}
			for _, lim := range limitArgs {
				if sp.kind == "omitted" && !lim.omitted {
					continue
				}
				k := &kase{m: "split", route: rt.name, repr: repr, s: s.u, tKind: sp.kind, t: tu, a: lim, b: noArg}
				key := k.key()
				if !one(r, prefix, key) {
					continue
				}
				var obs string
				switch {
				case sp.kind == "omitted":
					obs = e.call(srcs[0], sv)
				case lim.omitted:
					obs = e.call(srcs[1], sv, tv)
				default:
					obs = e.call(srcs[2], sv, tv, lim.val)
				}
				exp, nt := spec(k)
				judge(r, k, key, exp, obs, nt)
			}
			r.End()
		}
	}
}

// ---------------------------------------------------------------- concat

func runConcat(r *engine.Run) {
	e := newEnv(r)
	args1 := allStrings(2)
	args2 := allStrings(1)
	forStrings(r, concatBody(r, e))
	bounds(r)
	r.Bound("arguments", fmt.Sprintf("none, %d single strings (len<=2), %d pairs (len<=1)", len(args1), len(args2)*len(args2)))
}

func concatBody(r *engine.Run, e *env) strBody {
	args1 := allStrings(2)
	args2 := allStrings(1)
	return func(rt route, repr string, s *jsStr, sv otto.Value) {
		srcs := []string{driverSrc("concat", rt, 0), driverSrc("concat", rt, 1), driverSrc("concat", rt, 2)}
		prefix := "concat/" + rt.name + "/" + repr + "/" + s.hex
		if r.ReplayKey != "" {
			// keys start with the method name (concat or concat2)
			if !strings.HasPrefix(r.ReplayKey, prefix+"/") && !strings.HasPrefix(r.ReplayKey, "concat2/"+rt.name+"/"+repr+"/"+s.hex+"/") && r.ReplayKey != prefix {
				return
			}
		} else if !r.Mine() {
			return
		}
		r.Begin(prefix)
		defer r.End()
		{
			k := &kase{m: "concat", route: rt.name, repr: repr, s: s.u, tKind: "omitted", a: noArg, b: noArg}
			if key := k.key(); one(r, prefix, key) {
				exp, nt := spec(k)
				judge(r, k, key, exp, e.call(srcs[0], sv), nt)
			}
		}
		for _, t := range args1 {
			k := &kase{m: "concat", route: rt.name, repr: repr, s: s.u, tKind: "str", t: t.u, a: noArg, b: noArg}
			key := k.key()
			if !one(r, prefix, key) {
				continue
			}
			exp, nt := spec(k)
			judge(r, k, key, exp, e.call(srcs[1], sv, t.argVal(repr)), nt)
		}
		for _, t := range args2 {
			for _, t2 := range args2 {
				k := &kase{m: "concat2", route: rt.name, repr: repr, s: s.u, tKind: "str", t: t.u, t2: t2.u, a: noArg, b: noArg}
				key := k.key()
				if !one(r, prefix, key) {
					continue
				}
				exp, nt := spec(k)
				judge(r, k, key, exp, e.call(srcs[2], sv, t.argVal(repr), t2.argVal(repr)), nt)
			}
		}
	}
}

// ---------------------------------------------------------------- unary: trim, case, length, for-in

func runUnary(r *engine.Run) {
	e := newEnv(r)
	forStrings(r, unaryBody(r, e))
	bounds(r)
}

func unaryBody(r *engine.Run, e *env) strBody {
	return func(rt route, repr string, s *jsStr, sv otto.Value) {
		prefix := "unary/" + rt.name + "/" + repr + "/" + s.hex
		if r.ReplayKey == "" && !r.Mine() { // replay: the per-case key filter below decides
			return
		}
		r.Begin(prefix)
		defer r.End()
		for _, m := range []string{"trim", "toLowerCase", "toUpperCase", "length", "forin"} {
			if (m == "length" || m == "forin") && rt.call {
				continue
			}
			k := &kase{m: m, route: rt.name, repr: repr, s: s.u, tKind: "-", a: noArg, b: noArg}
			key := k.key()
			if !one(r, prefix, key) {
				continue
			}
			var src string
			switch m {
			case "length":
				src = "(function(s){ return (" + rt.recv + ").length; })"
			case "forin":
				src = "(function(s){ var k = []; for (var n in " + rt.recv + ") k.push(n); k.sort(); return 'keys:' + k.join(); })"
			default:
				src = driverSrc(m, rt, 0)
			}
			obs := e.call(src, sv)
			if m == "forin" && strings.HasPrefix(obs, "s:keys:") {
				obs = obs[2:]
			}
			exp, nt := spec(k)
			if exp == "outside-model" { // case mapping of a code point the model's table does not cover
				r.Skip()
				continue
			}
			judge(r, k, key, exp, obs, nt)
		}
	}
}

// ---------------------------------------------------------------- tables: trim over every code unit, case over the model's code points

func runTables(r *engine.Run) {
	e := newEnv(r)
	trimSrc := "(function(s){ return s.trim(); })"
	// trim: x + "a" + x, x + x + "a b" + x for every code unit x
	for c := 0; c <= 0xFFFF; c++ {
		x := uint16(c)
		prefix := fmt.Sprintf("trim/unit/%04X", c)
		if !batch(r, prefix) {
			continue
		}
		if c%256 == 0 && r.Expired() {
			r.Cap("time budget reached")
			return
		}
		for vi, u := range [][]uint16{{x, 'a', x}, {x, x, 'a', ' ', 'b', x}, {x}} {
			key := fmt.Sprintf("%s/%d", prefix, vi)
			if !one(r, prefix, key) {
				continue
			}
			if x >= 0xD800 && x < 0xE000 {
				// surrogates: covered by the unary family over the alphabet; here only well-formed input
				continue
			}
			k := &kase{m: "trim", route: "dot", repr: "u16", s: u, tKind: "-", a: noArg, b: noArg}
			exp, definite := str16.Trim(u)
			v := otto.Value{}
			v, _ = otto.ToValue(string(str16.CodePoints(u)))
			k.repr = "go"
			obs := e.call(trimSrc, v)
			if !definite {
				// U+180E / U+200B: category Zs in some Unicode versions only; both answers conform
				alt := trimEither(u)
				if obs == cStr(alt) {
					exp = alt
				}
			}
			judge(r, k, key, cStr(exp), obs, str16.SpaceClass(x) != str16.NotSpace)
		}
	}
	r.Bound("trim_units", "every BMP code unit except surrogates, 3 contexts each")

	// case mapping: every code point of the model's table in three contexts
	var cps []rune
	for c := rune(0); c <= 0xFF; c++ {
		cps = append(cps, c)
	}
	cps = append(cps, str16.CaseTableCodePoints()...)
	for _, m := range []string{"toLowerCase", "toUpperCase"} {
		src := "(function(s){ return s." + m + "(); })"
		for _, cp := range cps {
			prefix := fmt.Sprintf("%s/cp/%X", m, cp)
			if !batch(r, prefix) {
				continue
			}
			for vi, rs := range [][]rune{{cp}, {'a', cp, 'B'}, {cp, cp}} {
				key := fmt.Sprintf("%s/%d", prefix, vi)
				if !one(r, prefix, key) {
					continue
				}
				u := str16.Encode(rs)
				k := &kase{m: m, route: "dot", repr: "go", s: u, tKind: "-", a: noArg, b: noArg}
				exp, nt := spec(k)
				if exp == "outside-model" {
					r.Skip()
					continue
				}
				v, _ := otto.ToValue(string(rs))
				judge(r, k, key, exp, e.call(src, v), nt)
			}
		}
	}
	r.Bound("case_code_points", fmt.Sprintf("%d (ASCII, Latin-1, %d others incl. one astral pair; U+00DF upper excluded: full mapping differs)", len(cps), len(str16.CaseTableCodePoints())))
}

// trimEither trims treating the version-dependent Zs code points as white space.
func trimEither(s []uint16) []uint16 {
	i, j := 0, len(s)
	for i < j && str16.SpaceClass(s[i]) != str16.NotSpace {
		i++
	}
	for j > i && str16.SpaceClass(s[j-1]) != str16.NotSpace {
		j--
	}
	return s[i:j]
}

// ---------------------------------------------------------------- len4 (thorough only): strings of exactly 4 units

// The complete product at length 4 would be 8x the length-3 space; this family
// takes the 4096 strings of length exactly 4 through the primitive receiver and
// the fromCharCode representation only, with search/separator strings of length
// <= 1, and every position argument (pairs).
func runLen4(r *engine.Run) {
	e := newEnv(r)
	short := allStrings(1)
	bodies := []strBody{charAtBody(r, e), indexOfBodyWith(r, e, short), sliceBody(r, e), splitBodyWith(r, e, short), unaryBody(r, e)}
	n := 0
	var rec func(prefix []uint16)
	stop := false
	rec = func(prefix []uint16) {
		if stop {
			return
		}
		if len(prefix) == 4 {
			if r.Expired() {
				r.Cap("time budget reached")
				stop = true
				return
			}
			s := mkStr(append([]uint16{}, prefix...))
			n++
			for _, b := range bodies {
				b(routes[0], "u16", s, s.v16)
			}
			return
		}
		for _, c := range alphabet {
			rec(append(prefix, c))
		}
	}
	rec(nil)
	r.Bound("string_len", "exactly 4")
	r.Bound("strings", fmt.Sprint(n))
	r.Bound("routes", "dot (primitive receiver), representation u16")
	r.Bound("search_strings", fmt.Sprint(len(short)))
}

// ---------------------------------------------------------------- boundary: the first / last code point of every UTF-8 and UTF-16 length class

// The unit-indexing methods are run on strings built from the boundary code
// points of the encodings (1/2/3/4-byte UTF-8, BMP below and above the surrogate
// range, first and last supplementary code points), alone, doubled and flanked by
// ASCII, with the complete position alphabets.
var boundaryCodePoints = []rune{0x7F, 0x80, 0x7FF, 0x800, 0xD7FF, 0xE000, 0xFFFF, 0x10000, 0x10001, 0xFFFFF, 0x100000, 0x10FFFF}

func runBoundary(r *engine.Run) {
	e := newEnv(r)
	short := allStrings(1)
	bodies := []strBody{charAtBody(r, e), unaryBody(r, e), indexOfBodyWith(r, e, short), sliceBody(r, e), splitBodyWith(r, e, short)}
	n := 0
	for _, cp := range boundaryCodePoints {
		for _, rs := range [][]rune{{cp}, {'a', cp, 'b'}, {cp, cp}, {cp, 'a'}} {
			s := mkStr(str16.Encode(rs))
			n++
			for _, rt := range []route{routes[0], routes[1]} {
				for _, repr := range reprNames {
					sv, ok := s.val(repr)
					if !ok {
						continue
					}
					if r.Expired() {
						r.Cap("time budget reached")
						return
					}
					for _, b := range bodies {
						b(rt, repr, s, sv)
					}
				}
			}
		}
	}
	r.Bound("code_points", fmt.Sprintf("%X", boundaryCodePoints))
	r.Bound("strings", fmt.Sprintf("%d (each code point alone, doubled, followed by and flanked by ASCII)", n))
	r.Bound("routes", "dot, objdot; both representations")
}
