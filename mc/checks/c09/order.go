package c09

import (
	"fmt"
	"math"
	"strconv"
	"strings"

	"verif/mc/engine"
	"verif/mc/ref/str16"
)

// ---------------------------------------------------------------- order: which conversion runs when, and which exception surfaces
//
// 15.5.4.x fix the order of the abstract operations: CheckObjectCoercible(this),
// ToString(this), then the arguments left to right (split: ToUint32(limit) in
// step 5 before ToString(separator) in step 8). Conversions of objects run user
// code, so the order is observable. Receiver and arguments are objects whose
// toString/valueOf log their name, draw the next value of a shared counter and
// then behave in one of five ways; the model replays the spec's sequence of
// ToString/ToNumber ([[DefaultValue]] 8.12.8) on the same script and predicts the
// log, the result (the values depend on the counter, hence on the order) and the
// exception that surfaces.

const (
	behPlain    = iota // the preferred method returns a primitive
	behFallback        // the preferred method returns an object, the other one a primitive
	behThrow           // the preferred method throws
	behThrow2          // the preferred method returns an object, the other one throws
	behNonPrim         // both return objects: TypeError (8.12.8 step 5)
	nBeh
)

type orderMethod struct {
	name   string
	roles  string // conversion applied to each argument: S = ToString, N = ToNumber/ToInteger/ToUint16/ToUint32
	static bool   // String.fromCharCode: no receiver
}

var orderMethods = []orderMethod{
	{"charAt", "N", false}, {"charCodeAt", "N", false}, {"indexOf", "SN", false}, {"lastIndexOf", "SN", false},
	{"slice", "NN", false}, {"substring", "NN", false}, {"substr", "NN", false}, {"split", "SN", false},
	{"concat", "SS", false}, {"localeCompare", "S", false}, {"trim", "", false}, {"toLowerCase", "", false}, {"toUpperCase", "", false},
	{"fromCharCode", "NN", true},
}

// orderDriver builds the participants and performs the call in-script.
const orderDriver = `(function(m, isStatic, roles, argc, bt, b0, b1, emptyThis, zero){
  var n = 0, log = [];
  function mk(name, beh, role, isThis) {
    function val(c, which) {
      if (isThis) return emptyThis ? "" : "0123456789" + c;
      if (zero && role === "N") c = 0;
      return which === "toString" ? String(c) : c;
    }
    function f(which) {
      return function(){
        log.push(name + "." + which);
        var c = n++;
        var first = (role === "S") === (which === "toString");
        switch (beh) {
          case 0: return val(c, which);
          case 1: return first ? {} : val(c, which);
          case 2: if (first) throw "E:" + name; return val(c, which);
          case 3: if (first) return {}; throw "E:" + name;
        }
        return {};
      };
    }
    return {toString: f("toString"), valueOf: f("valueOf")};
  }
  var t = mk("this", bt, "S", true);
  var a = [];
  if (argc > 0) a.push(mk("a0", b0, roles.charAt(0), false));
  if (argc > 1) a.push(mk("a1", b1, roles.charAt(1), false));
  var out;
  try {
    var r = isStatic ? String[m].apply(String, a) : String.prototype[m].apply(t, a);
    if (m === "fromCharCode") { var cs = []; for (var i = 0; i < r.length; i++) cs.push(r.charCodeAt(i)); r = "codes:" + cs.join("."); }
    if (Object.prototype.toString.call(r) === "[object Array]") out = "ok:[" + r.join("|") + "]";
    else out = "ok:" + typeof r + ":" + r;
  } catch (e) {
    out = "throw:" + (typeof e === "string" ? e : e.name);
  }
  return out + " log=" + log.join(",");
})`

type orderPart struct {
	name   string
	role   byte
	beh    int
	isThis bool
}

type orderSim struct {
	n     int
	log   []string
	empty bool
	zero  bool // number-converted arguments yield 0 instead of the counter value
}

// conv is ToString / ToNumber of a participant object: [[DefaultValue]] with hint
// String (toString, then valueOf) or Number (valueOf, then toString), 8.12.8.
func (o *orderSim) conv(p orderPart) (str string, num float64, thrown string) {
	order := []string{"toString", "valueOf"}
	if p.role == 'N' {
		order = []string{"valueOf", "toString"}
	}
	for i, which := range order {
		o.log = append(o.log, p.name+"."+which)
		c := o.n
		o.n++
		first := i == 0
		prim := false
		switch p.beh {
		case behPlain:
			prim = true
		case behFallback:
			prim = !first
		case behThrow:
			if first {
				return "", 0, "E:" + p.name
			}
			prim = true
		case behThrow2:
			if !first {
				return "", 0, "E:" + p.name
			}
		}
		if !prim {
			continue
		}
		if p.isThis {
			if o.empty {
				return "", 0, ""
			}
			return "0123456789" + strconv.Itoa(c), 0, ""
		}
		// toString returns the String c, valueOf the Number c: ToString/ToNumber of either is c
		if o.zero && p.role == 'N' {
			c = 0
		}
		return strconv.Itoa(c), float64(c), ""
	}
	return "", 0, "TypeError"
}

func asciiUnits(s string) []uint16 {
	u := make([]uint16, len(s))
	for i := 0; i < len(s); i++ {
		u[i] = uint16(s[i])
	}
	return u
}

func unitsASCII(u []uint16) string {
	b := make([]byte, len(u))
	for i, c := range u {
		b[i] = byte(c)
	}
	return string(b)
}

func jsNum(f float64) string {
	if math.IsNaN(f) {
		return "NaN"
	}
	return strconv.FormatFloat(f, 'f', -1, 64)
}

// orderExpect replays the case by the specification.
func orderExpect(m orderMethod, argc int, beh [3]int, empty, zero bool) string {
	return orderReplay(m, argc, beh, empty, zero, "")
}

// orderReplay replays the case by the specification (variant "") or by one of
// the alternative models that pin known order findings:
//
//	"position-first"      charAt/charCodeAt convert the position before ToString(this)
//	"empty-skips-position" lastIndexOf on an empty receiver never converts the position
//	"zero-limit-skips-separator" split with limit 0 returns before ToString(separator)
func orderReplay(m orderMethod, argc int, beh [3]int, empty, zero bool, variant string) string {
	sim := &orderSim{empty: empty, zero: zero}
	this := orderPart{"this", 'S', beh[0], true}
	args := []orderPart{}
	for i := 0; i < argc; i++ {
		args = append(args, orderPart{fmt.Sprintf("a%d", i), m.roles[i], beh[1+i], false})
	}
	// the sequence of conversions
	var seq []orderPart
	if !m.static {
		seq = append(seq, this)
	}
	switch {
	case variant == "position-first" && argc == 1:
		seq = []orderPart{args[0], this}
	case variant == "empty-skips-position" && argc == 2:
		seq = append(seq, args[0])
		argc = 1 // the position is never looked at
	case variant == "zero-limit-skips-separator" && argc == 2:
		seq = append(seq, args[1])
	case m.name == "split" && argc == 2:
		seq = append(seq, args[1], args[0]) // 15.5.4.14 step 5 (limit) precedes step 8 (separator)
	default:
		seq = append(seq, args...)
	}
	strs := map[string]string{}
	nums := map[string]float64{}
	outcome := ""
	for _, p := range seq {
		s, n, thrown := sim.conv(p)
		if thrown != "" {
			outcome = "throw:" + thrown
			break
		}
		strs[p.name], nums[p.name] = s, n
	}
	if outcome == "" && variant == "zero-limit-skips-separator" {
		outcome = "ok:[]"
	}
	if outcome == "" {
		S := asciiUnits(strs["this"])
		arg := func(i int) str16.Arg {
			if i >= argc {
				return str16.Undefined
			}
			return str16.N(nums[fmt.Sprintf("a%d", i)])
		}
		sarg := func(i int) []uint16 {
			if i >= argc {
				return undefinedUnits
			}
			return asciiUnits(strs[fmt.Sprintf("a%d", i)])
		}
		str := func(u []uint16) string { return "ok:string:" + unitsASCII(u) }
		switch m.name {
		case "charAt":
			if c, ok := str16.CharAt(S, arg(0)); ok {
				outcome = str([]uint16{c})
			} else {
				outcome = str(nil)
			}
		case "charCodeAt":
			if c, ok := str16.CharAt(S, arg(0)); ok {
				outcome = "ok:number:" + jsNum(float64(c))
			} else {
				outcome = "ok:number:NaN"
			}
		case "indexOf":
			outcome = "ok:number:" + jsNum(float64(str16.IndexOf(S, sarg(0), arg(1))))
		case "lastIndexOf":
			outcome = "ok:number:" + jsNum(float64(str16.LastIndexOf(S, sarg(0), arg(1))))
		case "slice":
			outcome = str(str16.Slice(S, arg(0), arg(1)))
		case "substring":
			outcome = str(str16.Substring(S, arg(0), arg(1)))
		case "substr":
			outcome = str(str16.Substr(S, arg(0), arg(1)))
		case "split":
			parts := str16.Split(S, argc < 1, sarg(0), arg(1))
			l := make([]string, len(parts))
			for i, p := range parts {
				l[i] = unitsASCII(p)
			}
			outcome = "ok:[" + strings.Join(l, "|") + "]"
		case "concat":
			r := S
			for i := 0; i < argc; i++ {
				r = str16.Concat(r, sarg(i))
			}
			outcome = str(r)
		case "localeCompare":
			outcome = "ok:number:nonzero" // receiver and argument never coincide in this family
		case "trim", "toLowerCase", "toUpperCase":
			outcome = str(S) // digits only
		case "fromCharCode":
			l := []string{}
			for i := 0; i < argc; i++ {
				l = append(l, strconv.Itoa(int(str16.ToUint16(nums[fmt.Sprintf("a%d", i)]))))
			}
			outcome = "ok:string:codes:" + strings.Join(l, ".")
		}
	}
	return outcome + " log=" + strings.Join(sim.log, ",")
}

func runOrder(r *engine.Run) {
	e := newEnv(r)
	behNames := []string{"plain", "fallback", "throw", "objthenthrow", "nonprimitive"}
	for _, m := range orderMethods {
		for argc := 0; argc <= len(m.roles); argc++ {
			nt := 1
			if !m.static {
				nt = nBeh + 1 // + the empty-receiver variant of the plain behaviour
			}
			for ti := 0; ti < nt; ti++ {
				bt, empty := ti, false
				if ti == nBeh {
					bt, empty = behPlain, true
				}
				n0, n1 := 1, 1
				if argc > 0 {
					n0 = nBeh
				}
				if argc > 1 {
					n1 = nBeh
				}
				for b0 := 0; b0 < n0; b0++ {
					for b1 := 0; b1 < n1; b1++ {
						for _, zero := range []bool{false, true} {
							if zero && !strings.Contains(m.roles[:argc], "N") {
								continue
							}
							key := fmt.Sprintf("order/%s/%d/%d%d%d", m.name, argc, bt, b0, b1)
							if empty {
								key += "/empty"
							}
							if zero {
								key += "/zero"
							}
							if !r.MineKey(key) {
								continue
							}
							r.Begin(key)
							obs := e.call(orderDriver, mustVal(m.name), mustVal(m.static), mustVal(m.roles), mustVal(argc), mustVal(bt), mustVal(b0), mustVal(b1), mustVal(empty), mustVal(zero))
							r.End()
							obs = strings.TrimPrefix(obs, "s:")
							if m.name == "localeCompare" && strings.HasPrefix(obs, "ok:number:") && !strings.HasPrefix(obs, "ok:number:0 ") && !strings.HasPrefix(obs, "ok:number:NaN") {
								obs = "ok:number:nonzero" + obs[strings.Index(obs, " log="):]
							}
							exp := orderExpect(m, argc, [3]int{bt, b0, b1}, empty, zero)
							parts := []string{"this:" + behNames[bt]}
							if empty {
								parts[0] += "(empty string)"
							}
							if m.static {
								parts = nil
							}
							if argc > 0 {
								parts = append(parts, "a0:"+behNames[b0])
							}
							if argc > 1 {
								parts = append(parts, "a1:"+behNames[b1])
							}
							input := fmt.Sprintf("%s with %d logging object argument(s) [%s]", m.name, argc, strings.Join(parts, " "))
							aux := map[string]string{"m": "order", "method": m.name, "argc": strconv.Itoa(argc),
								"beh": fmt.Sprintf("%d%d%d", bt, b0, b1), "empty": strconv.FormatBool(empty), "zero": strconv.FormatBool(zero)}
							if zero {
								input += " (number-converted arguments yield 0)"
							}
							filed(r, key, input, exp, obs, aux)
						}
					}
				}
			}
		}
	}
	r.Bound("methods", fmt.Sprint(len(orderMethods)))
	r.Bound("behaviours", "5 per participant (receiver and up to two arguments) + empty receiver, every argument count")
}

func orderMethodByName(n string) (orderMethod, bool) {
	for _, m := range orderMethods {
		if m.name == n {
			return m, true
		}
	}
	return orderMethod{}, false
}

// orderSignature accepts a mismatch of the order family iff it lies in the
// variant's input class and the observed outcome AND log equal the replay under
// that variant.
func orderSignature(variant string, class func(method string, argc int, empty, zero bool) bool) engine.Signature {
	return func(mm *engine.Mismatch) bool {
		a := mm.Aux
		if a == nil || a["m"] != "order" || len(a["beh"]) != 3 {
			return false
		}
		m, ok := orderMethodByName(a["method"])
		argc, err := strconv.Atoi(a["argc"])
		if !ok || err != nil || argc < 0 || argc > len(m.roles) {
			return false
		}
		empty, zero := a["empty"] == "true", a["zero"] == "true"
		if !class(m.name, argc, empty, zero) {
			return false
		}
		var beh [3]int
		for i := 0; i < 3; i++ {
			beh[i] = int(a["beh"][i] - '0')
			if beh[i] < 0 || beh[i] >= nBeh {
				return false
			}
		}
		return orderReplay(m, argc, beh, empty, zero, variant) == mm.Observed
	}
}

func init() {
	engine.RegisterSignature("c09-order-charat-position-first", orderSignature("position-first",
		func(method string, argc int, empty, zero bool) bool {
			return (method == "charAt" || method == "charCodeAt") && argc == 1
		}))
	engine.RegisterSignature("c09-order-lastindexof-empty-receiver", orderSignature("empty-skips-position",
		func(method string, argc int, empty, zero bool) bool {
			return method == "lastIndexOf" && argc == 2 && empty
		}))
	engine.RegisterSignature("c09-order-split-zero-limit", orderSignature("zero-limit-skips-separator",
		func(method string, argc int, empty, zero bool) bool { return method == "split" && argc == 2 && zero }))
}
