package c09

import (
	"fmt"
	"strings"

	"github.com/robertkrimen/otto"

	"verif/mc/engine"
	"verif/mc/ox"
	"verif/mc/ref/str16"
)

// ---------------------------------------------------------------- wrappers: ToString(this) of receivers whose conversion was customised
//
// Step 2 of every 15.5.4.x method is S = ToString(this). For an object receiver
// - String, Number and Boolean objects included - that is [[DefaultValue]] with
// hint String (9.8, 9.1, 8.12.8): Get "toString", call it if callable, use the
// result if primitive; otherwise the same with "valueOf"; otherwise TypeError.
// A primitive receiver is converted directly, no method is called. Each receiver
// of the table below states what that algorithm yields (the string, or the
// exception) and which user functions it calls, in order; every method is then
// probed on it and must behave exactly as on the primitive string S.
// Each case runs in a fresh runtime because several receivers patch prototypes.

type wrapRecv struct {
	name  string
	setup string // JS statements defining r (L(name, value) makes a logging function returning value)
	s     string // ToString(r) by 8.12.8 ("" with throws set: the conversion throws)
	throw string // "TypeError" or "E" (thrown by a user function)
	log   string // user functions called, comma separated
	dot   bool   // r has the String methods itself: also call r.m(...)
	prim  bool   // r is a primitive: through a member call the this value is still the primitive (11.2.3, 10.4.3 for built-ins)
}

var wrapRecvs = []wrapRecv{
	// String objects
	{name: "strobj", setup: `var r = new String("abc");`, s: "abc", dot: true},
	{name: "strobj-own-toString", setup: `var r = new String("abc"); r.toString = L("own.toString", "xyz!");`, s: "xyz!", log: "own.toString", dot: true},
	{name: "strobj-own-valueOf", setup: `var r = new String("abc"); r.valueOf = L("own.valueOf", "xyz!");`, s: "abc", dot: true},
	{name: "strobj-toString-number-own-valueOf", setup: `var r = new String("abc"); r.toString = 5; r.valueOf = L("own.valueOf", "xyz!");`, s: "xyz!", log: "own.valueOf", dot: true},
	{name: "strobj-toString-undefined", setup: `var r = new String("abc"); r.toString = undefined;`, s: "abc", dot: true},
	{name: "strobj-toString-returns-String-object", setup: `var r = new String("abc"); r.toString = L("own.toString", new String("zzzz"));`, s: "abc", log: "own.toString", dot: true},
	{name: "strobj-toString-returns-number", setup: `var r = new String("abc"); r.toString = L("own.toString", 4217);`, s: "4217", log: "own.toString", dot: true},
	{name: "strobj-toString-returns-null", setup: `var r = new String("abc"); r.toString = L("own.toString", null);`, s: "null", log: "own.toString", dot: true},
	{name: "strobj-both-return-objects", setup: `var r = new String("abc"); r.toString = L("own.toString", {}); r.valueOf = L("own.valueOf", []);`, throw: "TypeError", log: "own.toString,own.valueOf", dot: true},
	{name: "strobj-toString-throws", setup: `var r = new String("abc"); r.toString = function(){ log.push("own.toString"); throw "E"; };`, throw: "E", log: "own.toString", dot: true},
	{name: "strobj-valueOf-throws-after-object", setup: `var r = new String("abc"); r.toString = L("own.toString", {}); r.valueOf = function(){ log.push("own.valueOf"); throw "E"; };`, throw: "E", log: "own.toString,own.valueOf", dot: true},
	{name: "strobj-proto-toString", setup: `String.prototype.toString = L("proto.toString", "PQRS"); var r = new String("abc");`, s: "PQRS", log: "proto.toString", dot: true},
	{name: "strobj-proto-valueOf", setup: `String.prototype.valueOf = L("proto.valueOf", "PQRS"); var r = new String("abc");`, s: "abc", dot: true},
	{name: "strobj-proto-toString-null-proto-valueOf", setup: `String.prototype.toString = null; String.prototype.valueOf = L("proto.valueOf", "PQRS"); var r = new String("abc");`, s: "PQRS", log: "proto.valueOf", dot: true},
	{name: "strobj-own-beats-proto", setup: `String.prototype.toString = L("proto.toString", "PQRS"); var r = new String("abc"); r.toString = L("own.toString", "xyz!");`, s: "xyz!", log: "own.toString", dot: true},
	{name: "object-inheriting-from-strobj", setup: `var r = Object.create(new String("abc"));`, throw: "TypeError", dot: true}, // String.prototype.toString is not generic (15.5.4.2)
	// primitive strings: never converted through the prototype
	{name: "strprim-proto-toString", setup: `String.prototype.toString = L("proto.toString", "PQRS"); String.prototype.valueOf = L("proto.valueOf", "PQRS"); var r = "abc";`, s: "abc", dot: true, prim: true},
	// Number and Boolean objects / primitives
	{name: "numobj", setup: `var r = new Number(12);`, s: "12"},
	{name: "numobj-own-toString", setup: `var r = new Number(12); r.toString = L("own.toString", "xyz!");`, s: "xyz!", log: "own.toString"},
	{name: "numobj-own-valueOf", setup: `var r = new Number(12); r.valueOf = L("own.valueOf", 77);`, s: "12"},
	{name: "numobj-proto-toString", setup: `Number.prototype.toString = L("proto.toString", "N!12"); var r = new Number(12);`, s: "N!12", log: "proto.toString"},
	{name: "numobj-proto-toString-null", setup: `Number.prototype.toString = null; var r = new Number(12);`, s: "12"},
	{name: "numobj-toString-null-own-valueOf", setup: `var r = new Number(12); r.toString = null; r.valueOf = L("own.valueOf", 345);`, s: "345", log: "own.valueOf"},
	{name: "numprim-proto-toString", setup: `Number.prototype.toString = L("proto.toString", "N!12"); var r = 12;`, s: "12"},
	{name: "boolobj-own-toString", setup: `var r = new Boolean(true); r.toString = L("own.toString", "xyz!");`, s: "xyz!", log: "own.toString"},
	{name: "boolobj-proto-toString", setup: `Boolean.prototype.toString = L("proto.toString", "B!ab"); var r = new Boolean(true);`, s: "B!ab", log: "proto.toString"},
	{name: "boolprim-proto-toString", setup: `Boolean.prototype.toString = L("proto.toString", "B!ab"); var r = true;`, s: "true"},
	// arrays: Array.prototype.toString calls this.join when callable, else Object.prototype.toString (15.4.4.2)
	{name: "array", setup: `var r = ["a", "b"];`, s: "a,b"},
	{name: "array-own-join", setup: `var r = ["a", "b"]; r.join = L("own.join", "J!ab");`, s: "J!ab", log: "own.join"},
	{name: "array-own-join-number", setup: `var r = ["a", "b"]; r.join = 5;`, s: "[object Array]"},
	{name: "array-own-toString", setup: `var r = ["a", "b"]; r.toString = L("own.toString", "xyz!"); r.join = L("own.join", "J!ab");`, s: "xyz!", log: "own.toString"},
	{name: "array-proto-join", setup: `Array.prototype.join = L("proto.join", "J!ab"); var r = ["a", "b"];`, s: "J!ab", log: "proto.join"},
	{name: "array-proto-toString", setup: `Array.prototype.toString = L("proto.toString", "T!ab"); var r = ["a", "b"];`, s: "T!ab", log: "proto.toString"},
	{name: "array-join-returns-object", setup: `var r = ["a", "b"]; r.join = L("own.join", {});`, throw: "TypeError", log: "own.join"}, // toString gives an object, Object.prototype.valueOf gives r itself
	{name: "array-element-objects", setup: `var r = [{toString: L("el0.toString", "e0")}, {toString: L("el1.toString", "e1")}];`, s: "e0,e1", log: "el0.toString,el1.toString"},
	// ordinary objects
	{name: "object", setup: `var r = {};`, s: "[object Object]"},
	{name: "object-toString-returns-String-object", setup: `var r = {toString: L("own.toString", new String("zzzz")), valueOf: L("own.valueOf", "vvvv")};`, s: "vvvv", log: "own.toString,own.valueOf"},
	{name: "object-toString-number", setup: `var r = {toString: 1, valueOf: L("own.valueOf", "vvvv")};`, s: "vvvv", log: "own.valueOf"},
	{name: "object-nothing-callable", setup: `var r = {toString: 1, valueOf: "x"};`, throw: "TypeError"},
	{name: "object-no-prototype", setup: `var r = Object.create(null);`, throw: "TypeError"},
	{name: "object-valueOf-only-not-used", setup: `var r = {valueOf: L("own.valueOf", "vvvv")};`, s: "[object Object]"},
	{name: "object-toString-returns-boolean", setup: `var r = {toString: L("own.toString", false)};`, s: "false", log: "own.toString"},
	{name: "object-proto-toString", setup: `Object.prototype.toString = L("proto.toString", "O!ab"); var r = {};`, s: "O!ab", log: "proto.toString"},
	{name: "function", setup: `var r = function(){}; r.toString = L("own.toString", "xyz!");`, s: "xyz!", log: "own.toString"},
}

// wrapProbe is one call of a method with fixed arguments (chosen so that the
// result tells strings of different length or content apart).
type wrapProbe struct {
	m    string
	args string // JS argument list; $S stands for a literal of the expected string
	exp  func(S []uint16) string
}

func wStr(u []uint16) string { return "ok:string:" + unitsASCII(u) }
func wNum(i int) string      { return "ok:number:" + fmt.Sprint(i) }

var wrapProbes = []wrapProbe{
	{"charAt", "1", func(S []uint16) string {
		if c, ok := str16.CharAt(S, str16.N(1)); ok {
			return wStr([]uint16{c})
		}
		return wStr(nil)
	}},
	{"charCodeAt", "3", func(S []uint16) string {
		if c, ok := str16.CharAt(S, str16.N(3)); ok {
			return wNum(int(c))
		}
		return "ok:number:NaN"
	}},
	{"charCodeAt", "0", func(S []uint16) string {
		if c, ok := str16.CharAt(S, str16.N(0)); ok {
			return wNum(int(c))
		}
		return "ok:number:NaN"
	}},
	{"indexOf", `"", 99`, func(S []uint16) string { return wNum(str16.IndexOf(S, nil, str16.N(99))) }},
	{"indexOf", `"b"`, func(S []uint16) string { return wNum(str16.IndexOf(S, []uint16{'b'}, str16.Undefined)) }},
	{"lastIndexOf", `""`, func(S []uint16) string { return wNum(str16.LastIndexOf(S, nil, str16.Undefined)) }},
	{"slice", "1", func(S []uint16) string { return wStr(str16.Slice(S, str16.N(1), str16.Undefined)) }},
	{"substring", "0, 99", func(S []uint16) string { return wStr(str16.Substring(S, str16.N(0), str16.N(99))) }},
	{"substr", "-2", func(S []uint16) string { return wStr(str16.Substr(S, str16.N(-2), str16.Undefined)) }},
	{"split", `""`, func(S []uint16) string {
		parts := str16.Split(S, false, []uint16{}, str16.Undefined)
		l := make([]string, len(parts))
		for i, p := range parts {
			l[i] = unitsASCII(p)
		}
		return "ok:[" + strings.Join(l, "|") + "]"
	}},
	{"concat", `"+"`, func(S []uint16) string { return wStr(str16.Concat(S, []uint16{'+'})) }},
	{"trim", "", func(S []uint16) string { o, _ := str16.Trim(S); return wStr(o) }},
	{"toLowerCase", "", func(S []uint16) string { o, _ := str16.ToLowerCase(S); return wStr(o) }},
	{"toUpperCase", "", func(S []uint16) string { o, _ := str16.ToUpperCase(S); return wStr(o) }},
	{"localeCompare", "$S", func(S []uint16) string { return "ok:number:0" }}, // compared with the very string ToString(this) must give
}

const wrapProgram = `(function(){
  var log = [];
  function L(n, v) { return function(){ log.push(n); return v; }; }
  %s
  var out;
  try {
    var x = %s;
    if (__ots.call(x) === "[object Array]") out = "ok:[" + __join.call(x, "|") + "]";
    else out = "ok:" + typeof x + ":" + x;
  } catch (e) {
    out = "throw:" + (typeof e === "string" ? e : e.name);
  }
  return out + " log=" + __join.call(log, ",");
})()`

func runWrappers(r *engine.Run) {
	for _, rc := range wrapRecvs {
		for pi, p := range wrapProbes {
			routesW := []string{"call"}
			if rc.dot {
				routesW = append(routesW, "dot")
			}
			for _, rt := range routesW {
				key := fmt.Sprintf("wrap/%s/%s/%d/%s", rc.name, p.m, pi, rt)
				if !r.MineKey(key) {
					continue
				}
				want := rc.s
				args := strings.ReplaceAll(p.args, "$S", ox.JSLit(want))
				var expr string
				if rt == "dot" {
					expr = "r." + p.m + "(" + args + ")"
				} else {
					expr = "__sp." + p.m + ".call(" + strings.TrimSuffix("r, "+args, ", ") + ")"
				}
				var exp string
				if rc.throw != "" {
					exp = "throw:" + rc.throw + " log=" + rc.log
				} else {
					exp = p.exp(asciiUnits(want)) + " log=" + rc.log
				}
				r.Begin(key)
				vm := otto.New()
				// the harness's own helpers are captured before the receiver's setup may patch prototypes
				pre := ox.Run(vm, `var __sp = {}, __ots = Object.prototype.toString, __join = Array.prototype.join; (function(){ var n = ["charAt","charCodeAt","indexOf","lastIndexOf","slice","substring","substr","split","concat","trim","toLowerCase","toUpperCase","localeCompare"]; for (var i = 0; i < n.length; i++) __sp[n[i]] = String.prototype[n[i]]; })();`)
				obs := "prelude-failed"
				if pre.Err == nil && !pre.Panicked {
					obs = strings.TrimPrefix(canonResult(ox.Run(vm, fmt.Sprintf(wrapProgram, rc.setup, expr))), "s:")
				}
				r.End()
				input := rc.setup + " " + strings.Replace(expr, "__sp.", "String.prototype.", 1)
				filed(r, key, input, exp, obs, map[string]string{"m": "wrap", "recv": rc.name, "method": p.m, "probe": fmt.Sprint(pi), "route": rt})
			}
		}
	}
	r.Bound("receivers", fmt.Sprint(len(wrapRecvs)))
	r.Bound("probes", fmt.Sprintf("%d (every method of the property)", len(wrapProbes)))
}

func init() {
	// A member call on a primitive string hands the wrapper String object (ToObject
	// of the base) to the built-in as this value, so ToString(this) runs a replaced
	// String.prototype.toString. Input class: wrappers family, receiver
	// strprim-proto-toString, member-call route. Relation: observed == the probe's
	// result on the string the replaced toString returns, with that call logged.
	engine.RegisterSignature("c09-member-call-this-wrapper", func(m *engine.Mismatch) bool {
		a := m.Aux
		if a == nil || a["m"] != "wrap" || a["recv"] != "strprim-proto-toString" || a["route"] != "dot" {
			return false
		}
		var pi int
		if _, err := fmt.Sscanf(a["probe"], "%d", &pi); err != nil || pi < 0 || pi >= len(wrapProbes) || wrapProbes[pi].m != a["method"] {
			return false
		}
		p := wrapProbes[pi]
		exp := p.exp(asciiUnits("PQRS"))
		if p.m == "localeCompare" { // the argument is the ES5 string "abc": any non-zero sign
			return m.Observed == "ok:number:1 log=proto.toString" || m.Observed == "ok:number:-1 log=proto.toString"
		}
		return m.Observed == exp+" log=proto.toString"
	})
}
