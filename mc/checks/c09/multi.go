package c09

import (
	"fmt"
	"strconv"
	"strings"

	"github.com/robertkrimen/otto"

	"verif/mc/engine"
	"verif/mc/ox"
	"verif/mc/ref/str16"
)

// ---------------------------------------------------------------- multi: several live String objects, boxings in between
//
// A String object's length, index properties, charAt/charCodeAt, keys and
// ToString are functions of ITS OWN [[PrimitiveValue]] (15.5.5); nothing done to
// another string - creating a second String object, boxing a primitive for
// .length / [i] / a method call - may change them. Every sequence of up to two
// intervening actions over {action kind} x {string} is run after creating
// A = new String(s1); afterwards every retained object is read through every
// read form, in two orders (property reads before method calls and the reverse),
// the oldest one once more at the end (after the others were read).
// All cases of a worker share one runtime on purpose: state left behind by
// earlier cases must not matter either.

var multiStrings = [][]uint16{
	{0xE9, 'x'}, {0xF1, 'y'}, {0xE9}, {0xE9, 'x', 'y', 'z'}, {0x20AC, 0x20AC, 0x20AC}, {0xD83D, 0xDE00, 'a'}, {'a', 'b'},
}

var multiKinds = []string{"newString", "length", "charAt", "index", "newStringDropped", "ObjectIndex", "forin", "charCodeAt", "readOldest"}

const multiDriver = `(function(){
  var vals = Array.prototype.slice.call(arguments, 0, 7), acts = Array.prototype.slice.call(arguments, 7);
  function code(x) { return x === undefined ? "u" : typeof x !== "string" ? "?" + typeof x : x.length === 0 ? "e" : x.length === 1 ? String(x.charCodeAt(0)) : "long" + x.length; }
  function codes(s) { var l = []; for (var i = 0; i < s.length; i++) l.push(s.charCodeAt(i)); return l.join("."); }
  // the read forms are evaluated in two orders (property reads first / method calls first):
  // a read must not depend on which other read came before it
  function dump(o, methodsFirst) {
    var n = o.length, ix = [], ds = [], ins = [], owns = [], cc = [], ca = [], k = [], str, val, cat;
    function props() {
      for (var i = 0; i <= n; i++) { ix[i] = o[i]; }
      for (var i = 0; i <= n; i++) { ds[i] = Object.getOwnPropertyDescriptor(o, String(i)); ins[i] = (i in o); owns[i] = Object.prototype.hasOwnProperty.call(o, i); }
      for (var q in o) k.push(q);
    }
    function methods() {
      for (var i = 0; i <= n; i++) { cc[i] = o.charCodeAt(i); ca[i] = o.charAt(i); }
      str = String(o); val = o.valueOf(); cat = "" + o;
    }
    if (methodsFirst) { methods(); props(); } else { props(); methods(); }
    var out = ["len=" + n];
    for (var i = 0; i <= n; i++) {
      var sur = cc[i] >= 0xD800 && cc[i] < 0xE000;
      out.push(i + ":" + cc[i] + ":" + (sur ? "-" : code(ix[i])) + ":" + (sur ? "-" : code(ca[i])) + ":" + (sur ? "-" : ds[i] ? code(ds[i].value) : "none") + ":" + ins[i] + ":" + owns[i]);
    }
    out.push("keys=" + k.sort().join(","));
    out.push("str=" + codes(str) + " val=" + codes(val) + " cat=" + codes(cat));
    return out.join(" ");
  }
  var objs = [], sink;
  for (var a = 0; a < acts.length; a += 2) {
    var v = vals[acts[a + 1]];
    switch (acts[a]) {
      case 0: objs.push(new String(v)); break;
      case 1: sink = v.length; break;
      case 2: sink = v.charAt(1); break;
      case 3: sink = v[0]; break;
      case 4: sink = new String(v); sink = null; break;
      case 5: sink = Object(v)[1]; break;
      case 6: for (var q in Object(v)) sink = q; break;
      case 7: sink = v.charCodeAt(0); break;
      case 8: sink = dump(objs[0], true); break;
    }
  }
  var res = [];
  for (var j = 0; j < objs.length; j++) res.push(dump(objs[j], false));
  for (var j = 0; j < objs.length; j++) res.push(dump(objs[j], true));
  res.push(dump(objs[0], false));
  return res.join("\n");
})`

// multiDump is the model's rendering of the read forms of new String(u).
func multiDump(u []uint16) string {
	code := func(i int) string { return strconv.Itoa(int(u[i])) }
	out := []string{"len=" + strconv.Itoa(len(u))}
	for i := 0; i <= len(u); i++ {
		if i == len(u) {
			out = append(out, fmt.Sprintf("%d:NaN:u:e:none:false:false", i))
			continue
		}
		if u[i] >= 0xD800 && u[i] < 0xE000 {
			// single-character reads of a surrogate half: charat/index families (F-C09-001)
			out = append(out, fmt.Sprintf("%d:%s:-:-:-:true:true", i, code(i)))
			continue
		}
		out = append(out, fmt.Sprintf("%d:%s:%s:%s:%s:true:true", i, code(i), code(i), code(i), code(i)))
	}
	keys := make([]string, len(u))
	all := make([]string, len(u))
	for i := range u {
		keys[i] = str16.NumberToString(float64(i))
		all[i] = code(i)
	}
	cs := strings.Join(all, ".")
	out = append(out, "keys="+strings.Join(keys, ","), "str="+cs+" val="+cs+" cat="+cs)
	return strings.Join(out, " ")
}

func runMulti(r *engine.Run) {
	e := newEnv(r)
	if len(multiStrings) != 7 {
		r.HarnessError("multi: the driver expects 7 strings")
		return
	}
	vals := make([]otto.Value, len(multiStrings))
	for i, u := range multiStrings {
		vals[i] = mustVal(string(str16.CodePoints(u)))
	}
	type act struct{ kind, val int }
	var alphabet []act
	for k := range multiKinds {
		for v := range multiStrings {
			alphabet = append(alphabet, act{k, v})
		}
	}
	tails := [][]act{{}}
	for _, a := range alphabet {
		tails = append(tails, []act{a})
	}
	for _, a := range alphabet {
		for _, b := range alphabet {
			tails = append(tails, []act{a, b})
		}
	}
	for s1 := range multiStrings {
		for _, tail := range tails {
			seq := append([]act{{0, s1}}, tail...)
			ks := make([]string, len(seq))
			flat := append([]otto.Value{}, vals...)
			var retained []int
			for i, a := range seq {
				ks[i] = multiKinds[a.kind] + ":" + hexKey(multiStrings[a.val])
				flat = append(flat, mustVal(a.kind), mustVal(a.val))
				if a.kind == 0 {
					retained = append(retained, a.val)
				}
			}
			key := "multi/" + strings.Join(ks, "/")
			if !r.MineKey(key) {
				continue
			}
			if r.Expired() {
				r.Cap("time budget reached")
				return
			}
			r.Begin(key)
			res := rawString(e.invoke(multiDriver, otto.UndefinedValue(), flat))
			r.End()
			var exp []string
			for pass := 0; pass < 2; pass++ {
				for _, v := range retained {
					exp = append(exp, multiDump(multiStrings[v]))
				}
			}
			exp = append(exp, multiDump(multiStrings[s1]))
			expS := strings.Join(exp, "\n")
			r.Eval(len(tail) > 0)
			r.Tree(1, int64(len(seq)))
			r.Outcome(res)
			input := "A = new String(" + jsRender(multiStrings[s1], "go") + "); then " + strings.Join(ks[1:], ", ") + "; then read every retained object, A once more at the end"
			if r.WantSample() && len(tail) == 2 {
				r.Sample(input + " => " + strings.SplitN(res, "\n", 2)[0])
			}
			if res != expS {
				// report the first differing object dump
				el, ol := strings.Split(expS, "\n"), strings.Split(res, "\n")
				de, do := expS, res
				for i := 0; i < len(el) && i < len(ol); i++ {
					if el[i] != ol[i] {
						de, do = fmt.Sprintf("object %d: %s", i, el[i]), fmt.Sprintf("object %d: %s", i, ol[i])
						break
					}
				}
				r.Mismatch(engine.Mismatch{Key: key, Input: input, Expected: de, Observed: do, Aux: map[string]string{"m": "multi", "seq": strings.Join(ks, "/")}})
			}
		}
	}
	r.Bound("strings", fmt.Sprint(len(multiStrings)))
	r.Bound("actions", fmt.Sprintf("%d kinds x %d strings, all sequences of length <= 2 after the first object", len(multiKinds), len(multiStrings)))
}

// rawString is the string a driver returned (or the canonical error / panic outcome).
func rawString(res ox.Result) string {
	if res.Err == nil && !res.Panicked && res.Value.IsString() {
		s, _ := res.Value.ToString()
		return s
	}
	return canonResult(res)
}
